/-
The memory backend (`memfs.Filespace` / `FilespaceWrapper`, model `Goat.Model.MemFS`) as plain
functions for the `fs` protocol drivers, and the mem-only `FSDrv.Impl` used by `m_fs` (C01).
No `main` here: other executable roots import this file and reuse the backend by delegation
(their world contains a `MemWorld`, one constructor of their handle type wraps a `MemHandle`;
see /verif/notes/FS_EXTENDING.md and `Driver/FSDemo.lean`).
-/
import Driver.FSCore
import Goat.Model.MemFS
open Goat Goat.FS Goat.MemFS

namespace FSDrv

/-- every `new <id> mem` creates a store: the root tree shared by the filespace and its views -/
abbrev MemWorld := Array Node

/-- a memory filespace: its store and a handle into it (root or wrapper) -/
structure MemHandle where
  store : Nat
  ref : FSRef

/-- `memfs.NewFilespace()` -/
def memNew (w : MemWorld) : MemWorld × MemHandle :=
  (w.push Node.empty, { store := w.size, ref := .root })

/-- one interface call -/
def memApply (w : MemWorld) (h : MemHandle) (op : Op) : MemWorld × Result :=
  let (t', r) := MemFS.step h.ref w[h.store]! op
  (w.set! h.store t', r)

/-- `Filespace(path)` -/
def memOpenView (h : MemHandle) (raw : Bytes) : Option MemHandle :=
  (MemFS.openView h.ref raw).map fun r => { h with ref := r }

/-- the mem-only driver: kind `mem`, no extra commands -/
def memImpl : Impl MemWorld MemHandle where
  init := #[]
  newFS := fun w _ kind args =>
    match kind, args with
    | "mem", [] => let (w', h) := memNew w; some (w', some h)
    | _, _ => none
  applyOp := memApply
  openView := fun _ h raw => memOpenView h raw

end FSDrv
