/-
Model driver for the `sched` line protocol of C08 (fsloop).  One case per input line:

  case n=<consumers> order=fixed|old root=<path> tree=<node> ff=nil|rej:<p>;… df=nil|rej:<p>;…
       onfile=0|1 ondir=0|1 failcb=-|<d|f><path>;… sched=<tok>,<tok>,…

  <node>  ::= f | d(<kids>) | x(<kids>)          (x = directory whose ReadDir fails)
  <kids>  ::= ε | <name>:<node>{,<name>:<node>}
  <tok>   ::= p | P | k | K | c<i> | g<i> | x | e | t | w | D

The producers run with `Producents: 1` (every directory is listed inline), which is what makes the
real run gateable: the producer parks before every `ReadDir` and every filter call.  The schedule
is coarse: one token lets one goroutine run from its park point to its next park point, which the
model replays as the corresponding sequence of fine transitions of `Goat.Loop.sys`:

  p     the producer passes the gate it is parked at (a `list`/`filtD`/`filtF` action) and runs up
        to its next gate, to its end (including `pool.Done`), or until it blocks in a send on a full
        channel                                  -> p:list:<path> | p:fd:<path> | p:ff:<path> | p:noop | p:blocked
  P     `p` until the producer has finished or is blocked
  k     the closer, once the producers are done: first `NextStep(StepClose)`, then the two `close`s
                                                               -> k:announced | k:closed | k:noop
  K     `k` twice
  c<i>  consumer i runs to its next park point (loop top, the gap between its two reads, inside a
        callback, the deferred exit hook, gone); afterwards a producer that was blocked in a send
        runs on to its next gate / end / block     -> c<i>:top | :gap | :cbd:<path> | :cbf:<path> | :exit | :gone | :noop
  g<i>  `c<i>` until consumer i is parked in the gap (at most 8 times)
  x     environment: scope Kill event (`Loop.KillSlot` → `lifecycle.Kill()`)      -> x:ok
  e     environment: scope Error event (the same slot)                             -> e:ok
  t     environment: the lifecycle's deadline passes                               -> t:ok
  w     probe: has `Loop.Wait()` returned?                                         -> w:returned | w:pending
  D     deterministic drain: rounds of `p`, `c0` … `c<n-1>`, `k` until every consumer is gone and the
        closer has finished or the producer is blocked for good

The comparison goes on after a kill (callback or listing error, x, e, t): with a single producer and
the environment acts injected between tokens, what the producer skips is a function of the schedule.
After the schedule: when everything has settled (every consumer gone; closer finished or producer
blocked) the line ends with
  | done=<sorted callbacks> errs=<Errors() in order> wait=ok prods=done|stuck oracle=ok
otherwise everything runs to completion freely and the line ends with
  | done=<sorted callbacks> wait=ok oracle=ok      or (killed at any time)      | killed oracle=ok
-/
import Goat.Model.Loop
open Goat Goat.Loop Goat.LTS

namespace LoopDriver

/-! ### parsing -/

partial def takeName (cs : List Char) (acc : List Char) : List Char × List Char :=
  match cs with
  | ':' :: r => (acc.reverse, r)
  | c :: r => takeName r (c :: acc)
  | [] => (acc.reverse, [])

mutual
partial def parseNode (cs : List Char) : Option (Node × List Char) :=
  match cs with
  | 'f' :: r => some (.file, r)
  | 'd' :: '(' :: r => (parseKids r).map fun (k, r') => (.dir true k, r')
  | 'x' :: '(' :: r => (parseKids r).map fun (k, r') => (.dir false k, r')
  | _ => none
/-- parses kids up to and including the closing parenthesis -/
partial def parseKids (cs : List Char) : Option (Kids × List Char) :=
  match cs with
  | ')' :: r => some (.nil, r)
  | ',' :: r => parseKids r
  | _ =>
    let (name, r) := takeName cs []
    match parseNode r with
    | none => none
    | some (n, r') =>
      match parseKids r' with
      | none => none
      | some (rest, r'') => some (.cons (String.ofList name) n rest, r'')
end

def parseSet (s : String) : List String :=
  if s = "" then [] else s.splitOn ";"

def parseFilter (s : String) : Option (Option (Path → Bool)) :=
  if s = "nil" then some none
  else if s.startsWith "rej:" then
    let rej := parseSet (s.drop 4).toString
    some (some (fun p => !(rej.contains p)))
  else none

structure Case where
  n : Nat
  fixed : Bool
  root : Path
  listable : Bool
  kids : Kids
  cfg : WalkCfg
  failcb : List String
  sched : List String

def kv (toks : List String) (key : String) : Option String :=
  (toks.find? (fun t => t.startsWith (key ++ "="))).map (fun t => (t.drop (key.length + 1)).toString)

def parseCase (line : String) : Option Case := do
  let toks := line.splitOn " "
  let n ← (← kv toks "n").toNat?
  let order ← kv toks "order"
  let root ← kv toks "root"
  let tree ← kv toks "tree"
  let (node, _) ← parseNode tree.toList
  let (l, k) ← match node with
    | .dir l k => some (l, k)
    | .file => none
  let ff ← parseFilter (← kv toks "ff")
  let df ← parseFilter (← kv toks "df")
  let onfile ← kv toks "onfile"
  let ondir ← kv toks "ondir"
  let failcb ← kv toks "failcb"
  let sched ← kv toks "sched"
  pure { n := n, fixed := order != "old", root := root, listable := l, kids := k,
         cfg := { fileFilter := ff, dirFilter := df, onFile := onfile == "1", onDir := ondir == "1" },
         failcb := if failcb = "-" then [] else parseSet failcb,
         sched := if sched = "" then [] else sched.splitOn "," }

/-! ### macro steps -/

def isGate : PAct → Bool
  | .list .. => true
  | .filtD .. => true
  | .filtF .. => true
  | _ => false

def gateObs : PAct → String
  | .list p sl _ _ => "list:" ++ p ++ (if sl then "/" else "")
  | .filtD p _ => "fd:" ++ p
  | .filtF p _ => "ff:" ++ p
  | _ => "?"

def nxt (P : Params) (s : St) (l : Label) : St := (step P s l).getD s

/-- the (single) producer has executed `pool.Done()` -/
def prodGone (s : St) : Bool :=
  match (s.prods.head? : Option Prod) with
  | some .gone => true
  | none => true
  | _ => false

/-- the gate the producer is parked at -/
def prodGate (s : St) : Option PAct :=
  match (s.prods.head? : Option Prod) with
  | some (.run (a :: _)) => if isGate a then some a else none
  | _ => none

/-- the producer is neither at a gate nor gone: it is blocked in a send (the only action between
gates that can be disabled) -/
def prodBlocked (s : St) : Bool := !prodGone s && (prodGate s).isNone

/-- non-gate producer actions up to the next gate, the end (including `pool.Done`) or a blocked send -/
partial def runToGate (P : Params) (s : St) (fuel : Nat) : St :=
  match fuel with
  | 0 => s
  | f + 1 =>
    if prodGone s || (prodGate s).isSome then s
    else match step P s (.prod 0) with
      | some t => runToGate P t f
      | none => s

def stepP (P : Params) (s : St) : St × String :=
  if prodGone s then (s, "p:noop")
  else match prodGate s with
    | none => (s, "p:blocked")
    | some a =>
      match step P s (.prod 0) with
      | none => (s, "p:blocked")
      | some t => (runToGate P t 1000000, "p:" ++ gateObs a)

def stepK (P : Params) (s : St) : St × String :=
  match s.closer with
  | .waiting =>
    if s.ppool = 0 then (nxt P (nxt P s .closer) .closer, "k:announced") else (s, "k:noop")
  | .waited => (nxt P s .closer, "k:announced")
  | .announced => (nxt P (nxt P s .closer) .closer, "k:closed")
  | .closedD => (nxt P s .closer, "k:closed")
  | .fin => (s, "k:noop")

def parkObs (P : Params) : PC → Option String
  | .top => some "top"
  | .lenD _ => if P.fixedOrder then some "gap" else none
  | .rdStep => if P.fixedOrder then none else some "gap"
  | .inCb d p => some ((if d then "cbd:" else "cbf:") ++ p)
  | .exiting => some "exit"
  | .exited => some "gone"
  | _ => none

partial def runToPark (P : Params) (s : St) (i : Nat) (fuel : Nat) : St × String :=
  match fuel with
  | 0 => (s, "nopark")
  | f + 1 =>
    let t := nxt P s (.cons i)
    match t.cons[i]? with
    | none => (t, "noop")
    | some pc =>
      match parkObs P pc with
      | some o => (t, o)
      | none => runToPark P t i f

def stepC (P : Params) (s : St) (i : Nat) : St × String :=
  match s.cons[i]? with
  | none => (s, s!"c{i}:noop")
  | some .exited => (s, s!"c{i}:noop")
  | some _ =>
    let (t, o) := runToPark P s i 64
    -- a producer that was blocked in a send runs on when the consumer has made room
    (runToGate P t 1000000, s!"c{i}:{o}")

def atGap (P : Params) (s : St) (i : Nat) : Bool :=
  match s.cons[i]? with
  | some pc => parkObs P pc == some "gap"
  | none => false

def allGone (s : St) : Bool := s.cons.all (fun pc => pc == .exited)

/-- everything has settled: every consumer gone, and the closer finished or the producer blocked -/
def settled (s : St) : Bool := allGone s && (s.closer == .fin || prodBlocked s)

partial def drainRounds (P : Params) (n : Nat) (s : St) (acc : List String) (fuel : Nat) : St × List String :=
  if fuel = 0 || settled s then (s, acc.reverse)
  else
    let (s1, o1) := stepP P s
    let (s2, acc2) := (List.range n).foldl
      (fun (st : St × List String) i => let (t, o) := stepC P st.1 i; (t, o :: st.2)) (s1, o1 :: acc)
    let (s3, o3) := stepK P s2
    drainRounds P n s3 (o3 :: acc2) (fuel - 1)

/-- run one token; returns the new state and its observations -/
partial def runTok (P : Params) (n : Nat) (s : St) (tok : String) : St × List String :=
  if tok = "p" then let (t, o) := stepP P s; (t, [o])
  else if tok = "k" then let (t, o) := stepK P s; (t, [o])
  else if tok = "K" then
    let (t, o) := stepK P s
    let (u, o2) := stepK P t
    (u, [o, o2])
  else if tok = "P" then
    let rec goP (s : St) (acc : List String) (fuel : Nat) : St × List String :=
      if fuel = 0 || prodGone s || prodBlocked s then (s, acc.reverse)
      else let (t, o) := stepP P s; goP t (o :: acc) (fuel - 1)
    goP s [] 100000
  else if tok = "x" then (nxt P s .kill, ["x:ok"])
  else if tok = "e" then (nxt P s .errEvent, ["e:ok"])
  else if tok = "t" then (nxt P s .timeout, ["t:ok"])
  else if tok = "w" then (s, [if s.poolCtr = 0 then "w:returned" else "w:pending"])
  else if tok = "D" then drainRounds P n s [] 100000
  else if tok.startsWith "c" then
    match (tok.drop 1).toString.toNat? with
    | some i => let (t, o) := stepC P s i; (t, [o])
    | none => (s, ["bad-token"])
  else if tok.startsWith "g" then
    match (tok.drop 1).toString.toNat? with
    | some i =>
      let rec goG (s : St) (acc : List String) (fuel : Nat) : St × List String :=
        if fuel = 0 || atGap P s i then (s, acc.reverse)
        else
          let (t, o) := stepC P s i
          if o.endsWith ":noop" then (t, (o :: acc).reverse) else goG t (o :: acc) (fuel - 1)
      goG s [] 8
    | none => (s, ["bad-token"])
  else (s, ["bad-token"])

partial def runSched (P : Params) (n : Nat) (s : St) (toks : List String) (acc : List String) : St × List String :=
  match toks with
  | [] => (s, acc)
  | tok :: rest =>
    let (t, obs) := runTok P n s tok
    runSched P n t rest (acc ++ obs)

/-- everything runs to completion: fair round-robin -/
partial def drain (P : Params) (n : Nat) (s : St) (fuel : Nat) : St :=
  if fuel = 0 || s.poolCtr = 0 then s
  else
    let s1 := nxt P (nxt P s (.prod 0)) .closer
    let s2 := (List.range n).foldl (fun acc i => nxt P acc (.cons i)) s1
    drain P n s2 (fuel - 1)

def itemStr (x : Item) : String := (if x.1 then "d" else "f") ++ x.2

def errStr : Err → String
  | .cb d p => "cb:" ++ itemStr (d, p)
  | .listing p => "list:" ++ p
  | .canceled => "canceled"
  | .deadline => "deadline"

def sortStrs (l : List String) : List String := (l.toArray.qsort (· < ·)).toList

def runCase (c : Case) : String :=
  let P : Params := { capD := 1000, capF := 1000, fixedOrder := c.fixed,
                      failCb := fun d p => c.failcb.contains (itemStr (d, p)) }
  let prog := rootProg c.cfg (fun _ => false) c.root c.listable c.kids
  let s0 := init prog c.n
  let (s1, obs) := runSched P c.n s0 c.sched []
  let steps := " ".intercalate obs
  if settled s1 then
    let done := ";".intercalate (sortStrs (s1.done.map itemStr))
    let errs := ";".intercalate ((errorsOf s1).map errStr)
    let w := if s1.poolCtr = 0 then "ok" else "hang"
    let pr := if prodBlocked s1 then "stuck" else "done"
    s!"{steps} | done={done} errs={errs} wait={w} prods={pr} oracle=ok"
  else if s1.killed then s!"{steps} | killed oracle=ok"
  else
    let s2 := drain P c.n s1 (200 + 40 * (sizeL prog + c.n))
    if s2.killed then s!"{steps} | killed oracle=ok"
    else
      let done := ";".intercalate (sortStrs (s2.done.map itemStr))
      let w := if s2.poolCtr = 0 then "ok" else "hang"
      s!"{steps} | done={done} wait={w} oracle=ok"

/-- `sel <case line>`: the selected set and the listed directories of the specification -/
def runSel (c : Case) : String :=
  let sel := ";".intercalate (sortStrs ((selected c.cfg c.root c.listable c.kids).map itemStr))
  let lst := ";".intercalate (sortStrs ((listed c.cfg c.root c.listable c.kids).map
    (fun x => x.1 ++ (if x.2 then "" else "!"))))
  s!"selected={sel} listed={lst}"

end LoopDriver

open LoopDriver in
partial def loop (inp out : IO.FS.Stream) : IO Unit := do
  let line ← inp.getLine
  if line.isEmpty then return ()
  let line := (line.dropEndWhile (fun c => c = '\n' || c = '\r')).toString
  if line.isEmpty || line.startsWith "#" then loop inp out else
  if line.startsWith "case " then
    match parseCase line with
    | some c => out.putStrLn (runCase c)
    | none => out.putStrLn "bad-op"
  else if line.startsWith "sel " then
    match parseCase line with
    | some c => out.putStrLn (runSel c)
    | none => out.putStrLn "bad-op"
  else out.putStrLn "bad-op"
  loop inp out

def main : IO Unit := do
  let out ← IO.getStdout
  loop (← IO.getStdin) out
  out.flush
