/-
Driver for the `memfsconc` family (property C09).  Two jobs, one line protocol on stdin:

1. GATED REPLAY of the lock-granular model (`Goat/Model/MemFSConc.lean`) under a schedule:
     scenario <name> <writerUnderDir> <writeFileUnderDir> <copyDirHoldsMu>     (flags 0/1)
     thread <tid> <op> ; <op> ; …          threads are declared in order 0,1,2…
     step <tid>                            run the thread to its next park point
     end
   ops:  mkdirall p | write p <hex> | read p | readdir p | exist p | isfile p | isdir p | remove p |
         removeall p | copy src dst | copyfile src dst | copydir src dst | openw h p | openr h p | hwrite h <hex> | hread h | close h
   A thread parks at the verifhook yield points and between operations.  `step t` prints
     step <t> park <hook> | done <res> | blocked | finished
   followed by `auto <t2> …` for every thread that was blocked and could continue because of this step,
   or `ambiguous` when more than one blocked thread becomes runnable (the real scheduler would choose).
   `end` prints `status …` (where every thread is) and `tree …` (the tree below the root; a file held by
   a handle prints `=locked`).

2. HISTORY MONITOR for the stress runs on the real filespace:
     history <id>
     g <gid> <op…> -> <res>                per goroutine in program order (goroutines may be interleaved)
     tree <path>/ <path>=<hex> …           final dump of the real filespace
     endhistory
   prints `accept <id> …` or `reject <id> <reason>`; the rules are documented at `Monitor` below.
Core Lean + Std containers only.
-/
import Goat.Model.MemFSConc
import Std.Data.HashMap
import Std.Data.HashSet
open Goat Goat.MemFSConc

/-! ## common parsing / printing -/

/-- node names travel as text on the wire and are byte strings in the model -/
def nameOfString (s : String) : Name := s.toUTF8.toList

def showName (n : Name) : String := String.fromUTF8! ⟨n.toArray⟩

def parsePath (s : String) : Path :=
  if s = "." || s = "-" || s = "" then [] else ((s.splitOn "/").filter (· ≠ "")).map nameOfString

def showPath (p : Path) : String := if p.isEmpty then "." else "/".intercalate (p.map showName)

def showRes : Res → String
  | .ok => "ok"
  | .err => "err"
  | .bool b => if b then "t" else "f"
  | .data v => s!"data {Hex.encode v}"
  | .list l => "list " ++ ",".intercalate (l.map fun (n, d) => showName n ++ (if d then ":d" else ":f"))

def parseOp (ws : List String) : Option Op :=
  match ws with
  | ["mkdirall", p] => some (.mkdirAll (parsePath p))
  | ["write", p, h] => (Hex.decode h).map fun v => .writeFile (parsePath p) v
  | ["read", p] => some (.readFile (parsePath p))
  | ["readdir", p] => some (.readDir (parsePath p))
  | ["exist", p] => some (.probe (parsePath p) none)
  | ["isfile", p] => some (.probe (parsePath p) (some false))
  | ["isdir", p] => some (.probe (parsePath p) (some true))
  | ["remove", p] => some (.remove (parsePath p))
  | ["removeall", p] => some (.removeAll (parsePath p))
  | ["copy", a, b] => some (.copy (parsePath a) (parsePath b))
  -- CopyFile / CopyDirectory are the two branches of Copy entered without the dispatch on the source's kind:
  -- the same critical sections (tie_copy_decomposition covers all three).  The model has the one program `copy`;
  -- the generators use these words only with a source of the matching kind (a fixture node nobody touches)
  | ["copyfile", a, b] => some (.copy (parsePath a) (parsePath b))
  | ["copydir", a, b] => some (.copy (parsePath a) (parsePath b))
  | ["openw", h, p] => h.toNat?.map fun k => .openW k (parsePath p)
  | ["openr", h, p] => h.toNat?.map fun k => .openR k (parsePath p)
  | ["hwrite", h, d] => do let k ← h.toNat?; let v ← Hex.decode d; pure (.hwrite k v)
  | ["hread", h] => h.toNat?.map .hread
  | ["close", h] => h.toNat?.map .close
  | _ => none

/-! ## 1. gated replay -/

structure Replay where
  v : Variant := {}
  progs : List (List Op) := []
  st : Option State := none
  blocked : List Tid := []

inductive Stop where
  | park (hook : String)
  | done (r : Res)
  | blocked
  | finished
  deriving Inhabited

def showStop : Stop → String
  | .park h => s!"park {h}"
  | .done r => s!"done {showRes r}"
  | .blocked => "blocked"
  | .finished => "finished"

/-- run thread `t` to its next park point (at least one step) -/
partial def runThread (v : Variant) (s : State) (t : Tid) (first : Bool) : State × Stop :=
  match s.threads[t]? with
  | none => (s, .finished)
  | some th =>
    let parked := !first && (hookOf th.pc).isSome
    if parked then
      match th.pc with
      | .idle =>
        match s.log.find? (·.1 == t) with
        | some (_, r) => (s, .done r)
        | none => (s, .done .err)
      | _ => (s, .park ((hookOf th.pc).getD "?"))
    else
      match step v s t with
      | some s' => runThread v s' t false
      | none => if th.finished then (s, .finished) else (s, .blocked)

partial def autoProgress (v : Variant) (s : State) (blocked : List Tid) (out : Array String) :
    State × List Tid × Array String :=
  let runnable := blocked.filter fun t => (step v s t).isSome
  match runnable with
  | [] => (s, blocked, out)
  | [t] =>
    let (s', stop) := runThread v s t true
    let blocked' := blocked.filter (· ≠ t)
    let blocked' := match stop with | .blocked => blocked' ++ [t] | _ => blocked'
    autoProgress v s' blocked' (out.push s!"auto {t} {showStop stop}")
  | _ => (s, blocked, out.push "ambiguous")

def statusOf (v : Variant) (s : State) (blocked : List Tid) (t : Tid) : String :=
  match s.threads[t]? with
  | none => "none"
  | some th =>
    if th.finished then "finished"
    else if blocked.contains t then "blocked"
    else match hookOf th.pc with
      | some h => h
      | none => if (step v s t).isSome then "running" else "blocked"

def treeLine (s : State) : String :=
  let items := (dump s.heap (s.heap.length + 1) 0 []).filterMap fun (p, d) =>
    if p.isEmpty then none else
    match d with
    | none => some (showPath p ++ "/")
    | some v =>
      let locked := match resolve s.heap 0 p with
        | some o => (match getFile s.heap o with | some f => f.lock.isSome | none => false)
        | none => false
      some (showPath p ++ "=" ++ (if locked then "locked" else Hex.encode v))
  "tree " ++ " ".intercalate (items.toArray.qsort (· < ·)).toList

/-! ## 2. history monitor

Rules (each is sound for every behaviour the property allows, whatever the interleaving was):
  R0  no operation answered `panic` or `hang`;
  R1  every value a `read`/`hread` returned for path p is a complete value of p: a value some successful
      `write p v` / `stream p v` carried, the empty value if p was created by a `stream`, or a complete
      value of a path p was successfully copied from (closed transitively);
  R2  every listing is duplicate-free;
  R3  final tree, for every path p outside the chaos zone `x/`:
        let L(p) = for each goroutine its LAST successful mutating operation on p
        (write/stream → file v, mkdirall (p or a path below p) → dir, remove/removeall → absent,
         copy → file with a complete value of the source / a directory);
        if L(p) is non-empty, the final state of p is one of L(p)'s outcomes — provided no successful
        remove/removeall hit a proper ancestor of p (then p is unconstrained);
        a path that is in the final tree has all its ancestors in it as directories;
        a path never created by any successful operation is not in the final tree;
  R4  read-your-writes on single-writer paths outside `x/`: if only goroutine g ever mutated p (and no
      ancestor of p was removed) then each `read p` by g returns g's latest earlier write, and a `read p`
      by anybody returns a value g wrote or an error;
  R5  at most one successful `copy … dst` per destination that nobody removes (addNode refuses
      duplicates: two concurrent creations yield one node).
-/

structure HOp where
  g : Nat
  kind : String
  p : String          -- main path (destination for copy)
  src : String := ""  -- copy source
  val : String := ""  -- hex value written (write/stream)
  res : String        -- result text after `-> `

structure Hist where
  id : String := ""
  ops : Array HOp := #[]
  tree : Array (String × Option String) := #[]   -- path, none = dir / some hex
  active : Bool := false

def isPrefixPath (a b : String) : Bool := b.startsWith (a ++ "/")

def ancestorsOf (p : String) : List String :=
  let segs := p.splitOn "/"
  (List.range (segs.length - 1)).map fun k => "/".intercalate (segs.take (k + 1))

def mutating (k : String) : Bool :=
  k == "write" || k == "stream" || k == "mkdirall" || k == "remove" || k == "removeall" || k == "copy"

def okRes (r : String) : Bool := r == "ok"

def hasDup (l : List String) : Bool :=
  let rec go (seen : Std.HashSet String) : List String → Bool
    | [] => false
    | x :: xs => if seen.contains x then true else go (seen.insert x) xs
  go {} l

def monitor (h : Hist) : Except String String := do
  let ops := h.ops
  -- R0
  for o in ops do
    if o.res == "panic" || o.res == "hang" then
      throw s!"R0 g{o.g} {o.kind} {o.p} answered {o.res}"
  -- complete values per path (R1), closed under successful copies
  let mut vals : Std.HashMap String (Std.HashSet String) := {}
  let addVal := fun (m : Std.HashMap String (Std.HashSet String)) (p v : String) =>
    m.insert p ((m.getD p {}).insert v)
  for o in ops do
    if okRes o.res then
      if o.kind == "write" then vals := addVal vals o.p o.val
      if o.kind == "stream" then
        vals := addVal (addVal vals o.p o.val) o.p "-"
  for _ in [0:4] do
    for o in ops do
      if o.kind == "copy" && okRes o.res then
        -- a copied directory: every path below the source maps below the destination
        for (sp, sv) in vals.toList do
          if sp == o.src then
            for v in sv.toList do vals := addVal vals o.p v
          else if isPrefixPath o.src sp then
            let dp := o.p ++ (sp.drop o.src.length).toString
            for v in sv.toList do vals := addVal vals dp v
  -- R1
  for o in ops do
    if (o.kind == "read" || o.kind == "sread") && o.res.startsWith "data " then
      let v := (o.res.drop 5).toString
      if !((vals.getD o.p {}).contains v) then
        throw s!"R1 g{o.g} {o.kind} {o.p} returned {v.take 40} which nobody wrote to that file"
  -- R2
  for o in ops do
    if o.kind == "readdir" && o.res.startsWith "list" then
      let names := (((o.res.drop 4).toString.trimAscii.toString.splitOn ",").filter (· ≠ "")).map
        fun x => (x.splitOn ":").headD ""
      if hasDup names then throw s!"R2 g{o.g} readdir {o.p} lists a name twice: {o.res.take 200}"
  -- removed ancestors
  let mut removedDirs : Array String := #[]
  for o in ops do
    if (o.kind == "remove" || o.kind == "removeall") && okRes o.res then removedDirs := removedDirs.push o.p
  let underRemoved := fun (p : String) => removedDirs.any fun r => isPrefixPath r p
  -- last successful mutating op per (path, goroutine)   [ops are in per-goroutine program order]
  let mut last : Std.HashMap String (Std.HashMap Nat HOp) := {}
  let mut created : Std.HashSet String := {}
  for o in ops do
    if mutating o.kind && okRes o.res then
      last := last.insert o.p ((last.getD o.p {}).insert o.g o)
      if o.kind != "remove" && o.kind != "removeall" then
        created := created.insert o.p
        for a in ancestorsOf o.p do
          created := created.insert a
          -- creating below `a` ensures `a` is a directory: an implicit mkdirall of a
          last := last.insert a ((last.getD a {}).insert o.g { o with kind := "mkdirall", p := a })
  -- copied subtrees create paths too
  for o in ops do
    if o.kind == "copy" && okRes o.res then
      for c in created.toList do
        if isPrefixPath o.src c then created := created.insert (o.p ++ (c.drop o.src.length).toString)
  let mut final : Std.HashMap String (Option String) := {}
  for (p, e) in h.tree do
    if final.contains p then throw s!"R3 the final tree lists {p} twice"
    final := final.insert p e
  let inChaos := fun (p : String) => p == "x" || p.startsWith "x/"
  -- R3 tree shape
  for (p, _) in h.tree do
    for a in ancestorsOf p do
      match final.get? a with
      | some none => pure ()
      | _ => throw s!"R3 {p} is in the final tree but its ancestor {a} is not a directory there"
    if !created.contains p && !inChaos p then
      throw s!"R3 {p} is in the final tree but no successful operation created it"
  -- R3 outcomes
  for (p, byG) in last.toList do
    if inChaos p || underRemoved p then continue
    let fin := final.get? p
    let mut okAny := false
    let mut descr := ""
    for (_, o) in byG.toList do
      let hit : Bool :=
        if o.kind == "write" || o.kind == "stream" then fin == some (some o.val)
        else if o.kind == "mkdirall" then fin == some none
        else if o.kind == "remove" || o.kind == "removeall" then fin == none
        else -- copy
          match fin with
          | some none => true
          | some (some v) => (vals.getD o.p {}).contains v
          | none => false
      descr := descr ++ s!" g{o.g}:{o.kind}"
      if hit then okAny := true
    if !okAny then
      let f := match fin with | none => "absent" | some none => "dir" | some (some v) => "file " ++ (v.take 40).toString
      throw s!"R3 final state of {p} is {f}, not the outcome of any goroutine's last successful operation on it ({descr} )"
  -- R4 read-your-writes on single-writer paths
  let mut cur : Std.HashMap String String := {}     -- path -> latest value written by its single writer so far
  for o in ops do
    if inChaos o.p || underRemoved o.p then continue
    match last.get? o.p with
    | none => pure ()
    | some byG =>
      if byG.size != 1 then continue
      let owner := (byG.toList.headD (0, o)).1
      if o.g != owner then continue
      if (o.kind == "write" || o.kind == "stream") && okRes o.res then cur := cur.insert o.p o.val
      if (o.kind == "remove" || o.kind == "removeall") && okRes o.res then cur := cur.erase o.p
      if o.kind == "copy" && okRes o.res then cur := cur.erase o.p
      if o.kind == "read" then
        match cur.get? o.p with
        | some v =>
          if o.res != "data " ++ v then
            throw s!"R4 g{o.g} read {o.p} -> {o.res.take 60} right after writing {v.take 40} itself (single-writer path)"
        | none => pure ()
  -- R5
  let mut copies : Std.HashMap String Nat := {}
  for o in ops do
    if o.kind == "copy" && okRes o.res then copies := copies.insert o.p (copies.getD o.p 0 + 1)
  for (p, n) in copies.toList do
    if n > 1 && !(removedDirs.any (· == p)) && !underRemoved p && !inChaos p then
      throw s!"R5 {n} copies to the same new destination {p} all succeeded"
  return s!"ops={ops.size} paths={last.size}"

def parseHOp (line : String) : Option HOp :=
  match line.splitOn " -> " with
  | [lhs, res] =>
    match lhs.splitOn " " with
    | "g" :: gid :: kind :: rest =>
      match gid.toNat? with
      | none => none
      | some g =>
        match kind, rest with
        | "write", [p, v] => some { g, kind, p, val := v, res }
        | "stream", [p, v] => some { g, kind, p, val := v, res }
        | "copy", [a, b] => some { g, kind, p := b, src := a, res }
        | _, [p] => some { g, kind, p, res }
        | _, _ => none
    | _ => none
  | _ => none

def parseTree (ws : List String) : Array (String × Option String) :=
  (ws.filter (· ≠ "")).toArray.map fun w =>
    if w.endsWith "/" then ((w.dropEnd 1).toString, none)
    else match w.splitOn "=" with
      | [p, v] => (p, some v)
      | _ => (w, none)

/-! ## main loop -/

structure DState where
  rp : Replay := {}
  hist : Hist := {}

def flagOf (s : String) : Bool := s == "1"

def handle (out : IO.FS.Stream) (ds : DState) (line : String) : IO DState := do
  let ws := line.splitOn " "
  match ws with
  | ["scenario", name, a, b, c] =>
    out.putStrLn s!"scenario {name}"
    return { ds with rp := { v := { writerUnderDir := flagOf a, writeFileUnderDir := flagOf b, copyDirHoldsMu := flagOf c } } }
  | "thread" :: _tid :: rest =>
    let opsTxt := (" ".intercalate rest).splitOn " ; "
    let ops := opsTxt.filterMap fun t => parseOp ((t.splitOn " ").filter (· ≠ ""))
    if ops.length != opsTxt.length then out.putStrLn "bad-op"
    return { ds with rp := { ds.rp with progs := ds.rp.progs ++ [ops], st := none } }
  | ["step", tid] =>
    match tid.toNat? with
    | none => out.putStrLn "bad-op"; return ds
    | some t =>
      let rp := ds.rp
      let s := rp.st.getD (init rp.progs)
      if rp.blocked.contains t then
        out.putStrLn s!"step {t} blocked"
        return { ds with rp := { rp with st := some s } }
      let (s1, stop) := runThread rp.v s t true
      out.putStrLn s!"step {t} {showStop stop}"
      let blocked := match stop with | .blocked => rp.blocked ++ [t] | _ => rp.blocked
      let (s2, blocked2, lines) := autoProgress rp.v s1 (blocked.filter (· ≠ t) ++ (if blocked.contains t then [] else [])) #[]
      let blocked2 := if blocked.contains t && !blocked2.contains t then blocked2 ++ [t] else blocked2
      for l in lines do out.putStrLn l
      return { ds with rp := { rp with st := some s2, blocked := blocked2 } }
  | ["end"] =>
    let rp := ds.rp
    let s := rp.st.getD (init rp.progs)
    let sts := (List.range s.threads.length).map fun t => s!"{t}={statusOf rp.v s rp.blocked t}"
    let dead := (List.range s.threads.length).all (fun t => (step rp.v s t).isNone) &&
      (List.range s.threads.length).any (unfinished s)
    out.putStrLn ("status " ++ ",".intercalate sts)
    out.putStrLn (treeLine s)
    if dead then out.putStrLn "note deadlock"
    return { ds with rp := {} }
  | ["history", id] => return { ds with hist := { id := id, active := true } }
  | "tree" :: rest =>
    if ds.hist.active then return { ds with hist := { ds.hist with tree := parseTree rest } }
    else return ds
  | ["endhistory"] =>
    match monitor ds.hist with
    | .ok msg => out.putStrLn s!"accept {ds.hist.id} {msg}"
    | .error e => out.putStrLn s!"reject {ds.hist.id} {e}"
    return { ds with hist := {} }
  | "g" :: _ =>
    match parseHOp line with
    | some o => return { ds with hist := { ds.hist with ops := ds.hist.ops.push o } }
    | none => out.putStrLn s!"bad-history-line {line.take 80}"; return ds
  | _ => out.putStrLn "bad-op"; return ds

partial def loop (inp out : IO.FS.Stream) (ds : DState) : IO Unit := do
  let line ← inp.getLine
  if line.isEmpty then return ()
  let line := (line.dropEndWhile (fun c => c = '\n' || c = '\r')).toString
  if line.isEmpty || line.startsWith "#" then loop inp out ds else
  let ds' ← handle out ds line
  loop inp out ds'

def main : IO Unit := do
  let out ← IO.getStdout
  loop (← IO.getStdin) out {}
  out.flush
