/-
Model driver for the `mutex` line protocol (C15).  One operation per input line, one result line:

  locks <ns> <rlock> <wlock>       (hex)  -> map <key>=<r|w>,… (sorted by key) | err
        `pipc.Run`'s parsing of `--rlock` and `--wlock` in lock namespace <ns> (`markBoolMapForNamespace`)
  sched <holders> | <h> <h> …             -> start:<obs> <h>:<obs> … fin | … ND
        gated execution of the Go-lock model (`Variant.pref`).  Every holder parks at a gate before
        each per-name acquisition (`verifhook.Yield("mutex.acquire")`), inside its critical section,
        and the action `<h>` opens the gate holder h is parked at; then all running holders advance
        until each is parked again, blocked inside the RW lock, or finished.
        <obs> = comma list, by holder: `j@k` j arrived at the gate before row k, `j@in` j entered its
        critical section, `j@out` j finished; then for every holder still running (hence blocked)
        `j~w` blocked on the writer mutex, `j~a` announced and waiting for readers, `j~r` reader parked
        behind a writer; `-` if nothing; `noop` if h was not parked.
        `ND` ends the prediction when two writers wait for the same writer mutex (Go picks either).
        After the last action everything is released; `fin` = all holders finished.
  stress <holders> | <iters>              -> fin          (deadlock_free/all_get_their_turn)
  rounds <holders>                        -> fin
  overlap <holders> | <k>                 -> fin | n/a    fin: the first k holders are compatible with
        all others and the model reaches a state with all k inside together by scheduling only them
  parties <holders> | <nA> <nB>           -> fin | stuck | n/a
        three and more parties (`disjoint_never_blocked` / `third_party_not_serialised`): the first nA holders are
        brought inside, the next nB are advanced until none of them can move (n/a unless each is then parked in
        `Lock`), then the remaining holders — n/a unless each is compatible with ALL others — are scheduled alone
        until all are inside; fin: they got there while the first nA are still inside and the nB have not moved
  ivs <h>:<enter>:<exit>:<rows> …         -> accept | reject <i> <j> <name>      (interval monitor)
  tasks <tasks> | <controller>            -> fin          (tasks_deadlock_free/tasks_all_finish: the tasks model
        `MutexTasks.tsys`, both lock variants, run to the end by a lowest-first and a highest-first scheduler)
  ptasks <ptasks> | <controller>          -> fin lm=<map>;<map>;… | n/a
        task sets submitted through the `pip:run` command: <ptasks> = `;`-separated
        `<waits>/<rlock list>/<wlock list>[/<parent>[~<lock namespace>]]` (a list = `-` or `,`-separated names, `@name`
        global; with the fourth field the command is the body of a parent task created with that lock namespace:
        `nestedLocks`, Goat/Model/MutexNames.lean).  The lock map of every task is `parseLocks` (the model of pipc.Run's
        two `markBoolMapForNamespace` calls, wlock last) of its two lists in the empty namespace; printed per task
        (rows sorted by name, `<name>.<r|w>`); then as `tasks`.  n/a: a list the command refuses.
  tivs <waits>[f];… | <h>:<enter>:<exit>:<rows> … (or `-`: none)  -> accept | afterfailed <task> <prerequisite> | reject <i> <j> <name> | early <task> <prerequisite>
        interval monitor + order monitor (`MutexTasks.orderMonitor`) on the bodies recorded from the real runner
  tswap <tasks>                           -> stuck <schedule> | nostuck | unknown
        search of the swapped model (`MutexTasks.tsysSwapped`, lock map first, then wait) for a stuck state

<tasks> = `;`-separated tasks `<waits>/<map>[/<flags>]`, <waits> = `-` or `,`-separated indices of earlier tasks;
flags: `f` the body fails (`Task.fails`; in `tivs` the `f` follows the wait list); `n` (on the implementation the
body submits a nested task that runs the probe) and digits (scope group on the implementation) make no
difference for the model.

<holders> = `;`-separated lock maps, a map = `,`-separated rows `<name>:<r|w>` or `-` (empty map).
Names are ranked byte-wise (Go string order) to obtain the model's `Name`s.
-/
import Goat.Model.Mutex
import Goat.Model.MutexTasks
import Goat.Model.MutexNames
open Goat Goat.Mutex

/-! ### parsing -/

def parseRow (sep : String) (t : String) : Option (String × Bool) :=
  match t.splitOn sep with
  | [n, "r"] => some (n, false)
  | [n, "w"] => some (n, true)
  | _ => none

def parseMap (rowSep nameSep : String) (t : String) : Option (List (String × Bool)) :=
  if t = "-" || t = "" then some [] else (t.splitOn rowSep).mapM (parseRow nameSep)

def parseHolders (t : String) : Option (List (List (String × Bool))) :=
  (t.trimAscii.toString.splitOn ";").mapM (parseMap "," ":")

def insertName (n : String) : List String → List String
  | [] => [n]
  | x :: xs => if n = x then x :: xs else if n < x then n :: x :: xs else x :: insertName n xs

/-- all names, sorted byte-wise, without duplicates -/
def namePool (maps : List (List (String × Bool))) : List String :=
  maps.foldl (fun acc m => m.foldl (fun acc r => insertName r.1 acc) acc) []

def rank (pool : List String) (n : String) : Nat := (pool.idxOf n)

def toLockMap (pool : List String) (m : List (String × Bool)) : LockMap :=
  m.map fun r => (rank pool r.1, r.2)

/-! ### gated execution -/

structure Run where
  s : State
  parked : List Bool     -- waiting at a gate for its `go`
  passed : List Bool     -- the gate at the current position has been opened

inductive Gate | row (k : Nat) | inside | none deriving DecidableEq

def gateOf (h : Holder) : Gate :=
  match h.pc with
  | .acq k _ => if k < h.req.length then .row k else .none
  | .inside => .inside
  | _ => .none

def gateName : Gate → String
  | .row k => toString k
  | .inside => "in"
  | .none => "?"

def getB (l : List Bool) (i : Nat) : Bool := l.getD i false

/-- advance until every holder is parked, blocked or finished; returns the arrivals in order of occurrence -/
partial def settle (r : Run) (arr : List (Nat × String)) (doneSeen : List Bool) :
    Run × List (Nat × String) × List Bool :=
  let n := r.s.length
  -- 1. a running holder standing at a gate it has not passed parks there
  let parkable := (List.range n).find? fun j =>
    !getB r.parked j && !getB r.passed j && (match r.s[j]? with | some h => gateOf h != .none | none => false)
  match parkable with
  | some j =>
    let g := match r.s[j]? with | some h => gateOf h | none => .none
    settle { r with parked := r.parked.set j true } (arr ++ [(j, gateName g)]) doneSeen
  | none =>
    -- 2. report holders that have finished
    let fin := (List.range n).find? fun j =>
      !getB doneSeen j && (match r.s[j]? with | some h => h.finished | none => false)
    match fin with
    | some j => settle r (arr ++ [(j, "out")]) (doneSeen.set j true)
    | none =>
      -- 3. let the first running holder that can move make one step
      let mover := (List.range n).findSome? fun j =>
        if getB r.parked j then none else (step .pref r.s j).map fun t => (j, t)
      match mover with
      | none => (r, arr, doneSeen)
      | some (_, t) =>
        -- a holder whose gate position changed faces a new, unopened gate
        let passed := (List.range n).map fun j =>
          match r.s[j]?, t[j]? with
          | some a, some b => if gateOf a == gateOf b then getB r.passed j else false
          | _, _ => false
        settle { r with s := t, passed := passed } arr doneSeen

def blockedTag (h : Holder) : String :=
  match h.pc with
  | .acq _ .announced => "a"
  | .acq _ .rwait => "r"
  | .acq _ .idle => "w"
  | _ => "?"

def obsString (r : Run) (arr : List (Nat × String)) : String :=
  let n := r.s.length
  let arrS := (arr.toArray.qsort (fun a b => a.1 < b.1 || (a.1 == b.1 && a.2 < b.2))).toList.map
    fun (j, p) => s!"{j}@{p}"
  let blk := (List.range n).filterMap fun j =>
    match r.s[j]? with
    | some h => if !getB r.parked j && !h.finished then some s!"{j}~{blockedTag h}" else none
    | none => none
  let all := arrS ++ blk
  if all.isEmpty then "-" else ",".intercalate all

/-- two running writers wait for the writer mutex of the same lock: Go may serve either first -/
def racing (r : Run) : Bool :=
  let n := r.s.length
  let waiting := (List.range n).filterMap fun j =>
    match r.s[j]? with
    | some h =>
      if getB r.parked j then none else
      match h.pc with
      | .acq k .idle => match h.req[k]? with | some (m, true) => some m | _ => none
      | _ => none
    | none => none
  waiting.any fun m => (waiting.filter (· == m)).length ≥ 2

def allDone (s : State) : Bool := s.all Holder.finished

partial def freeRun (r : Run) (ds : List Bool) (fuel : Nat) : Bool :=
  if allDone r.s then true else
  if fuel = 0 then false else
  let r1 := { r with parked := r.parked.map (fun _ => false), passed := r.passed.map (fun _ => true) }
  let (r2, _, ds2) := settle r1 [] ds
  freeRun r2 ds2 (fuel - 1)

def runSched (maps : List LockMap) (acts : List Nat) : String := Id.run do
  let n := maps.length
  let r0 : Run := { s := init maps, parked := List.replicate n false, passed := List.replicate n false }
  let (r1, arr, ds1) := settle r0 [] (List.replicate n false)
  let mut r := r1
  let mut ds := ds1
  let mut out := #[s!"start:{obsString r arr}"]
  let mut nd := racing r
  for h in acts do
    if nd then break
    if getB r.parked h then
      let r' := { r with parked := r.parked.set h false, passed := r.passed.set h true }
      let (r2, arr2, ds2) := settle r' [] ds
      r := r2; ds := ds2
      out := out.push s!"{h}:{obsString r arr2}"
      nd := racing r
    else
      out := out.push s!"{h}:noop"
  if nd then
    out := out.push "ND"
  else
    out := out.push (if freeRun r ds (4 * n + 64 + (maps.map List.length).sum * 4) then "fin" else "stuck")
  return " ".intercalate out.toList

/-! ### overlap: schedule only the first k holders until all of them are inside -/

def compatibleWithAll (maps : List LockMap) (i : Nat) : Bool :=
  match maps[i]? with
  | none => false
  | some mi => (List.range maps.length).all fun j =>
      j == i || (match maps[j]? with | some mj => (conflictRows mi mj).isNone | none => true)

partial def driveInside (s : State) (k : Nat) (fuel : Nat) : Bool :=
  if (List.range k).all (fun j => match s[j]? with | some h => h.isInside | none => false) then true else
  if fuel = 0 then false else
  let mv := (List.range k).findSome? fun j =>
    match s[j]? with
    | some h => if h.isInside then none else step .pref s j
    | none => none
  match mv with
  | none => false
  | some t => driveInside t k (fuel - 1)

def runOverlap (maps : List LockMap) (k : Nat) : String :=
  if k > maps.length then "n/a" else
  if !(List.range k).all (compatibleWithAll maps) then "n/a" else
  if driveInside (init maps) k (8 * (maps.map List.length).sum + 8 * maps.length + 8) then "fin" else "stuck"

/-- free run of the model: repeatedly the lowest enabled holder -/
partial def runToEnd (v : Variant) (s : State) (fuel : Nat) : Bool :=
  if allDone s then true else
  if fuel = 0 then false else
  match (List.range s.length).findSome? fun j => step v s j with
  | none => false
  | some t => runToEnd v t (fuel - 1)

def runFin (maps : List LockMap) : String :=
  let fuel := 8 * (maps.map List.length).sum + 8 * maps.length + 8
  if runToEnd .pref (init maps) fuel && runToEnd .plain (init maps) fuel then "fin" else "stuck"

/-! ### parties: holders inside, waiters parked, compatible late-comers must get inside -/

/-- schedule only the holders `idx` (those not yet inside) until all of them are inside -/
partial def driveInsideOf (s : State) (idx : List Nat) (fuel : Nat) : Option State :=
  if idx.all (fun j => match s[j]? with | some h => h.isInside | none => false) then some s else
  if fuel = 0 then none else
  let mv := idx.findSome? fun j =>
    match s[j]? with
    | some h => if h.isInside then none else step .pref s j
    | none => none
  match mv with
  | none => none
  | some t => driveInsideOf t idx (fuel - 1)

def acquiring (s : State) (j : Nat) : Bool :=
  match s[j]? with
  | some h => (match h.pc with | .acq _ _ => true | _ => false)
  | none => false

/-- advance the holders `idx` while they are inside `Lock` until none of them can move -/
partial def driveBlocked (s : State) (idx : List Nat) (fuel : Nat) : State :=
  if fuel = 0 then s else
  match idx.findSome? fun j => if acquiring s j then step .pref s j else none with
  | none => s
  | some t => driveBlocked t idx (fuel - 1)

def runParties (maps : List LockMap) (nA nB : Nat) : String :=
  let n := maps.length
  let fuel := 8 * (maps.map List.length).sum + 8 * n + 8
  if nA = 0 || nA + nB > n then "n/a" else
  let as := List.range nA
  let bs := (List.range (nA + nB)).drop nA
  let cs := (List.range n).drop (nA + nB)
  if !cs.all (compatibleWithAll maps) then "n/a" else
  match driveInsideOf (init maps) as fuel with
  | none => "n/a"
  | some s1 =>
    let s2 := driveBlocked s1 bs fuel
    if !bs.all (acquiring s2) then "n/a" else
    match driveInsideOf s2 cs fuel with
    | none => "stuck"
    | some s3 =>
      if (as ++ bs).all (fun j => s3[j]? == s2[j]?) && runToEnd .pref s3 fuel then "fin" else "stuck"

/-! ### interval monitor -/

def parseInterval (t : String) : Option (Nat × Nat × Nat × List (String × Bool)) :=
  match t.splitOn ":" with
  | h :: a :: b :: r :: rest => do
    let h ← h.toNat?
    let a ← a.toNat?
    let b ← b.toNat?
    -- a resource name may contain ':' (lock namespaces): the rows are everything after the third ':'
    let m ← parseMap "," "." (":".intercalate (r :: rest))
    pure (h, a, b, m)
  | _ => none

def runMonitor (toks : List String) : String :=
  match toks.mapM parseInterval with
  | none => "bad-op"
  | some raw =>
    let pool := namePool (raw.map fun (_, _, _, m) => m)
    let ivs : List Interval := raw.map fun (h, a, b, m) => { holder := h, rows := toLockMap pool m, enter := a, exit := b }
    match monitor ivs with
    | none => "accept"
    | some (i, j, m) => s!"reject {i} {j} {pool.getD m "?"}"

/-! ### lock-list parser -/

def showLocks (r : Option (List (Bytes × Bool))) : String :=
  match r with
  | none => "err"
  | some l =>
    let items := l.map fun (k, v) => s!"{Hex.encode k}={if v then "w" else "r"}"
    let items := items.toArray.qsort (· < ·) |>.toList
    if items.isEmpty then "map -" else s!"map {",".intercalate items}"


/-! ### tasks layer -/

def parseTask (t : String) : Option (List Nat × List (String × Bool) × Bool) :=
  let go (w m : String) (fails : Bool) : Option (List Nat × List (String × Bool) × Bool) := do
    let ws ← if w = "-" || w = "" then some [] else (w.splitOn ",").mapM String.toNat?
    let mp ← parseMap "," ":" m
    pure (ws, mp, fails)
  match t.splitOn "/" with
  | [w, m] => go w m false
  | [w, m, flags] =>
    -- `n`: the body runs through a nested task, digits: scope group (no difference for the model); `f`: the body fails
    if flags.toList.all (fun c => c == 'n' || c == 'f' || c.isDigit) then go w m (flags.toList.contains 'f') else none
  | _ => none

def parseTasks (t : String) : Option (List MutexTasks.Task) := do
  let raw ← (t.trimAscii.toString.splitOn ";").mapM parseTask
  let pool := namePool (raw.map (·.2.1))
  pure (raw.map fun (ws, m, f) => { waits := ws, map := toLockMap pool m, fails := f })

def tasksDone (tasks : List MutexTasks.Task) (ts : MutexTasks.TState) : Bool :=
  (List.range tasks.length).all (MutexTasks.finishedAt ts)

/-- repeatedly the first enabled task in `order` -/
partial def runTasksToEnd (v : Variant) (tasks : List MutexTasks.Task) (order : List Nat)
    (ts : MutexTasks.TState) (fuel : Nat) : Bool :=
  if tasksDone tasks ts then true else
  if fuel = 0 then false else
  match order.findSome? fun j => MutexTasks.step v tasks ts j with
  | none => false
  | some t => runTasksToEnd v tasks order t (fuel - 1)

def runTasksFin (tasks : List MutexTasks.Task) : String :=
  let fuel := (tasks.map fun t => t.waits.length + 4 * t.map.length + 5).sum + 1
  let up := List.range tasks.length
  let ok := [Variant.pref, Variant.plain].all fun v =>
    runTasksToEnd v tasks up (MutexTasks.init tasks) fuel && runTasksToEnd v tasks up.reverse (MutexTasks.init tasks) fuel
  if ok then "fin" else "stuck"

/-! ### tasks submitted through `pip:run`: the two lock lists go through `parseLocks` -/

def bytesToString (b : Bytes) : String := String.ofList (b.map fun c => Char.ofNat c.toNat)

def parsePTask (t : String) : Option (List Nat × List (String × Bool)) :=
  let lst := fun (x : String) => if x = "-" then [] else Goat.str x
  match t.splitOn "/" with
  | [w, r, wl] => do
    -- top level: pip:run in a scope without namespaces (the default: both empty)
    let ws ← if w = "-" || w = "" then some [] else (w.splitOn ",").mapM String.toNat?
    let m ← runLocks ⟨[], []⟩ (lst r) (lst wl)
    pure (ws, m.map fun (k, v) => (bytesToString k, v))
  | [w, r, wl, par] => do
    -- nested: pip:run in the body of task <parent> created by a Pip with namespaces {"" <lock namespace>}
    if !(w = "-" || w = "") then none
    let (parent, ns) := match par.splitOn "~" with
      | [p, n] => (p, n)
      | _ => (par, "")
    let m ← nestedLocks ⟨[], Goat.str ns⟩ (Goat.str parent) (lst r) (lst wl)
    pure ([], m.map fun (k, v) => (bytesToString k, v))
  | _ => none

def mapText (m : List (String × Bool)) : String :=
  let items := (m.map fun (k, v) => s!"{k}.{if v then "w" else "r"}").toArray.qsort (· < ·) |>.toList
  if items.isEmpty then "-" else ",".intercalate items

def runPTasks (t : String) : String :=
  match (t.trimAscii.toString.splitOn ";").mapM parsePTask with
  | none => "n/a"
  | some raw =>
    let pool := namePool (raw.map (·.2))
    let tasks : List MutexTasks.Task := raw.map fun (ws, m) => { waits := ws, map := toLockMap pool m, fails := false }
    s!"{runTasksFin tasks} lm={";".intercalate (raw.map fun (_, m) => mapText m)}"

/-- depth-first search of the swapped system for a state with no enabled step and an unfinished task -/
partial def swapSearch (tasks : List MutexTasks.Task) (todo : List (MutexTasks.TState × List Nat))
    (seen : List MutexTasks.TState) (fuel : Nat) : String :=
  match todo with
  | [] => "nostuck"
  | (ts, path) :: rest =>
    if fuel = 0 then "unknown" else
    if seen.contains ts then swapSearch tasks rest seen fuel else
    let succ := (List.range tasks.length).filterMap fun j =>
      (MutexTasks.stepSwapped .plain tasks ts j).map fun t => (t, j :: path)
    if succ.isEmpty && !(ts.lock.all Holder.finished) then
      "stuck " ++ " ".intercalate (path.reverse.map toString)
    else swapSearch tasks (succ ++ rest) (ts :: seen) (fuel - 1)

def runSwap (tasks : List MutexTasks.Task) : String :=
  swapSearch tasks [(MutexTasks.initSwapped tasks, [])] [] 4000

def runTaskMonitor (head : String) (toks : List String) : String :=
  let heads := head.trimAscii.toString.splitOn ";"
  let fails := heads.map fun w => w.endsWith "f"
  let waits := heads.mapM fun w =>
    let w := if w.endsWith "f" then (w.dropEnd 1).toString else w
    if w = "-" || w = "" then some [] else (w.splitOn ",").mapM String.toNat?
  match waits, toks.mapM parseInterval with
  | some waits, some raw =>
    let pool := namePool (raw.map fun (_, _, _, m) => m)
    let ivs : List Interval := raw.map fun (h, a, b, m) => { holder := h, rows := toLockMap pool m, enter := a, exit := b }
    match monitor ivs with
    | some (i, j, m) => s!"reject {i} {j} {pool.getD m "?"}"
    | none =>
      match MutexTasks.orderMonitor waits ivs with
      | some (i, j) => s!"early {i} {j}"
      | none =>
        match MutexTasks.failMonitor waits fails ivs with
        | some (i, j) => s!"afterfailed {i} {j}"
        | none => "accept"
  | _, _ => "bad-op"

/-! ### main loop -/

def withHolders (t : String) (f : List LockMap → String) : String :=
  match parseHolders t with
  | none => "bad-op"
  | some hs =>
    let pool := namePool hs
    f (hs.map (toLockMap pool))

def stepLine (line : String) : String :=
  match line.splitOn " | " with
  | [one] =>
    match one.splitOn " " with
    | ["locks", ns, r, w] =>
      match Hex.decode ns, Hex.decode r, Hex.decode w with
      | some ns, some r, some w => showLocks (parseLocks ns r w)
      | _, _, _ => "bad-op"
    | "ivs" :: toks => runMonitor (toks.filter (· ≠ ""))
    | ["rounds", hs] => withHolders hs runFin
    | ["tswap", ts] => match parseTasks ts with | some tasks => runSwap tasks | none => "bad-op"
    | _ => "bad-op"
  | [head, arg] =>
    match head.splitOn " " with
    | ["sched", hs] =>
      match (arg.splitOn " ").filter (· ≠ "") |>.mapM String.toNat? with
      | some acts => withHolders hs fun maps => runSched maps acts
      | none => "bad-op"
    | ["stress", hs] => withHolders hs runFin
    | ["overlap", hs] =>
      match arg.trimAscii.toString.toNat? with
      | some k => withHolders hs fun maps => runOverlap maps k
      | none => "bad-op"
    | ["parties", hs] =>
      match (arg.splitOn " ").filter (· ≠ "") |>.mapM String.toNat? with
      | some [nA, nB] => withHolders hs fun maps => runParties maps nA nB
      | _ => "bad-op"
    | ["tasks", ts] => match parseTasks ts with | some tasks => runTasksFin tasks | none => "bad-op"
    | ["ptasks", ts] => runPTasks ts
    | "tivs" :: ws => runTaskMonitor (" ".intercalate ws) ((arg.splitOn " ").filter fun t => t ≠ "" && t ≠ "-")
    | _ => "bad-op"
  | _ => "bad-op"

partial def loop (inp out : IO.FS.Stream) : IO Unit := do
  let line ← inp.getLine
  if line.isEmpty then return ()
  let line := (line.dropEndWhile (fun c => c = '\n' || c = '\r')).toString
  if line.isEmpty || line.startsWith "#" then loop inp out else
  out.putStrLn (stepLine line)
  loop inp out

def main : IO Unit := do
  let out ← IO.getStdout
  loop (← IO.getStdin) out
  out.flush
