/-
Model-side driver of the `trace` line protocol (C14, C16).  Reads cases on stdin:

  graph <caseid> [key=value …]                                   (scope=<kind>: which scope the implementation runs the scripts in — ignored here)
                                                                 steer=<k>:<s|S|f|F>,… = steering policy of the gate controller per try block
                                                                 (s/S: selected handler held until finally started/closed, f/F: finally held)
  task <id> <role> d=<depth> x=<ctx> w=<ids|-> b=<cmds|->       role: top | child:<p>:<i> | tbody:<y> | hsucc:<y> | hfail:<y> | hfin:<y>
                                                                 cmds: p | g | c | f | x | q | t | s<c> | y<k>   (g = gated probe = p, c = pip:clear = p, x / q = f for the monitor, t = stop)
  try <k> owner=<p>:<i> body=<b> succ=<id|-> fail=<id|-> fin=<id|->
  top <ids|->
  <seq> sub|acc|rej <t> | fetch <t> <i> | cmd <t> <i> | ret <t> <i> ok|err | done <t> ok|fail | mwait ok|err|hang
        | fin <t> ok|fail|hang | root ok|err | hacc <h> | hrej <h> | stall <h> | panic
                                                                 (the implementation's events, sequence numbered)
  sim <seed> <maxsteps>                                          (instead of events: run the Lean MODEL under a pseudo-random schedule,
                                                                  with the steering policy of the graph line if there is one)
  end

and prints one line per case: `accept` or `reject <seq> <reason>` (seq 0 = the graph itself, last+1 = the
trace ends too early); for a `sim` line: `sim accept events=<n> complete=<b>` or `sim reject <pos> <reason>`.
Core Lean only.
-/
import Goat.Model.Pipeline
open Goat Goat.Pipeline

def natList (s : String) : Option (List Nat) :=
  if s = "-" || s = "" then some [] else (s.splitOn ",").mapM (·.toNat?)

def optNat (s : String) : Option (Option Nat) :=
  if s = "-" then some none else s.toNat?.map some

def afterEq (s : String) (key : String) : Option String :=
  if s.startsWith (key ++ "=") then some ((s.drop (key.length + 1)).toString) else none

def parseRole (s : String) : Option Role :=
  match s.splitOn ":" with
  | ["top"] => some .top
  | ["child", p, i] => do some (.child (← p.toNat?) (← i.toNat?))
  | ["tbody", y] => do some (.tbody (← y.toNat?))
  | ["hsucc", y] => do some (.hsucc (← y.toNat?))
  | ["hfail", y] => do some (.hfail (← y.toNat?))
  | ["hfin", y] => do some (.hfin (← y.toNat?))
  | _ => none

def parseCmd (s : String) : Option Cmd :=
  if s = "p" || s = "g" || s = "c" then some .probe           -- c: the real pip:clear (always returns nil)
  else if s = "f" || s = "x" || s = "q" then some .fail      -- x: unknown command name, q: truncated last command
  else if s = "t" then some .stop
  else if s.startsWith "s" then (s.drop 1).toString.toNat?.map .spawn
  else if s.startsWith "y" then (s.drop 1).toString.toNat?.map .try_
  else none

def parseCmds (s : String) : Option (List Cmd) :=
  if s = "-" || s = "" then some [] else (s.splitOn ",").mapM parseCmd

def parseTask (ws : List String) : Option (Nat × TaskDef) :=
  match ws with
  | [id, role, d, x, w, b] => do
    let id ← id.toNat?
    let role ← parseRole role
    let d ← (← afterEq d "d").toNat?
    let x ← (← afterEq x "x").toNat?
    let w ← natList (← afterEq w "w")
    let b ← parseCmds (← afterEq b "b")
    some (id, ⟨role, d, x, w, b⟩)
  | _ => none

def parseTry (ws : List String) : Option (Nat × TryDef) :=
  match ws with
  | [k, owner, body, succ, fail, fin] => do
    let k ← k.toNat?
    let (p, i) ← match (← afterEq owner "owner").splitOn ":" with
      | [p, i] => do some ((← p.toNat?), (← i.toNat?))
      | _ => none
    let b ← (← afterEq body "body").toNat?
    let s ← optNat (← afterEq succ "succ")
    let f ← optNat (← afterEq fail "fail")
    let n ← optNat (← afterEq fin "fin")
    some (k, ⟨p, i, b, s, f, n⟩)
  | _ => none

def okFlag (s : String) : Option Bool :=
  if s = "ok" then some true else if s = "err" || s = "fail" then some false else none

/-- an event line without its sequence number; `none` = not an event of the vocabulary -/
def parseEv (ws : List String) : Option Ev :=
  match ws with
  | ["sub", t] => t.toNat?.map .sub
  | ["acc", t] => t.toNat?.map .acc
  | ["rej", t] => t.toNat?.map .rej
  | ["cmd", t, i] => do some (.cmd (← t.toNat?) (← i.toNat?))
  | ["fetch", t, i] => do some (.fetch (← t.toNat?) (← i.toNat?))
  | ["ret", t, i, f] => do some (.ret (← t.toNat?) (← i.toNat?) (← okFlag f))
  | ["done", t, f] => do some (.done (← t.toNat?) (← okFlag f))
  | ["mwait", f] => (okFlag f).map .mwait
  | ["fin", t, f] => do some (.fin (← t.toNat?) (← okFlag f))
  | ["root", f] => (okFlag f).map .root
  | ["hacc", t] => t.toNat?.map .hacc
  | ["hrej", t] => t.toNat?.map .hrej
  | ["stall", t] => t.toNat?.map .stall
  | _ => none

def evTask : Ev → Option Nat
  | .sub t | .acc t | .rej t | .cmd t _ | .fetch t _ | .ret t _ _ | .done t _ | .fin t _ => some t
  | .hacc t | .hrej t | .stall t => some t
  | _ => none

/-! ### Diagnostics: which clause of `Ok` an event violates (unverified, only names the reason) -/

def whyStart (g : Graph) (pre : List Ev) (t : Nat) : String :=
  if ¬ submitted g pre t then
    match g.role t with
    | .hsucc y => if hasDone pre (g.tryd y).body then "success-handler-although-body-failed" else "handler-before-body-finished"
    | .hfail y => if hasDone pre (g.tryd y).body then "fail-handler-although-body-ok" else "handler-before-body-finished"
    | .hfin _ => "handler-before-body-finished"
    | _ => "body-before-submission"
  else if (g.waits t).any (fun w => decide (Ev.done w false ∈ pre)) then "body-after-failed-prerequisite"
  else "body-before-wait-finished"

def whyNext (g : Graph) (pre : List Ev) (t j : Nat) : String :=
  if Ev.ret t j false ∈ pre then "command-after-failed-command"
  else if Ev.ret t j true ∉ pre then "command-before-previous-returned"
  else match g.cmdAt t j with
    | some (.spawn c) => if Ev.done c false ∈ pre then "continued-after-nested-task-failed" else "continued-before-nested-task-finished"
    | some (.try_ y) =>
      if ¬ hasDone pre (g.tryd y).body then "continued-before-try-body-finished"
      else if (selected g pre y).any (fun h => decide (Ev.done h false ∈ pre)) then "continued-after-handler-failed"
      else "continued-before-selected-handler-finished"
    | _ => "command-order"

def whyClosed (g : Graph) (pre : List Ev) (t : Nat) : String :=
  match (List.range (g.body t).length).find? (fun i => decide (Ev.cmd t i ∈ pre ∧ ¬ cmdClosed g pre t i)) with
  | none => "closed-before-children"
  | some i =>
    if ¬ hasRet pre t i then "closed-while-command-running"
    else match g.cmdAt t i with
      | some (.spawn _) => "closed-before-nested-task"
      | some (.try_ y) =>
        if ¬ hasDone pre (g.tryd y).body then "closed-before-try-body"
        else if (g.handlers y).any (fun h => decide ((Ev.cmd h 0 ∈ pre ∨ Ev.hacc h ∈ pre) ∧ ¬ hasDone pre h)) then "closed-before-handler"
        else if (selected g pre y).any (fun h => decide (¬ handlerFate g pre y h ∧ Ev.hacc h ∈ pre)) then "selected-handler-never-ran"
        else "selected-handler-never-submitted"
      | _ => "closed-before-children"

def why (g : Graph) (pre : List Ev) : Ev → String
  | .sub _ => "submission-of-non-top-task"
  | .acc t => if Ev.sub t ∉ pre then "accepted-without-submission" else "accepted-with-unknown-wait-name"
  | .rej _ => "rejected-without-submission"
  | .cmd t i =>
    if ¬ i < (g.body t).length then "command-index-out-of-range"
    else if Ev.cmd t i ∈ pre then "command-repeated"
    else if hasDone pre t then "command-after-task-closed"
    else if i = 0 then whyStart g pre t else whyNext g pre t (i - 1)
  | .fetch t i =>
    if ¬ i < (g.body t).length then "command-index-out-of-range"
    else if Ev.fetch t i ∈ pre then "command-read-twice"
    else if i = 0 then whyStart g pre t else whyNext g pre t (i - 1)
  | .ret t i ok =>
    if Ev.cmd t i ∉ pre then "return-without-command"
    else if hasRet pre t i then "return-repeated"
    else if hasDone pre t then "return-after-task-closed"
    else match g.cmdAt t i, ok with
      | some (.spawn _), true => "accepted-with-unknown-wait-name"
      | _, _ => "return-value-contradicts-command-kind"
  | .done t ok =>
    if hasDone pre t then "closed-twice"
    else if ¬ (∀ i ∈ List.range (g.body t).length, Ev.cmd t i ∈ pre → cmdClosed g pre t i) then whyClosed g pre t
    else if ok then
      (if ¬ waitsOk g pre t then "closed-ok-despite-failed-or-unfinished-prerequisite"
       else if (List.range (g.body t).length).any (fun i => decide (Ev.ret t i false ∈ pre)) then "closed-ok-although-a-command-failed"
       else "closed-ok-with-incomplete-body")
    else "failed-without-cause-in-its-context"
  | .mwait ok =>
    if ¬ (∀ t ∈ List.range g.n, acceptedEv g pre t → hasDone pre t) then "manager-wait-returned-before-all-finished"
    else if ok then "manager-wait-ok-although-a-task-failed" else "manager-wait-error-although-no-task-failed"
  | .fin t ok =>
    if ¬ hasMwait pre then "report-before-manager-wait"
    else if ok then "task-reports-ok-although-its-context-failed" else "task-reports-error-although-no-task-of-its-context-failed"
  | .root ok =>
    if ¬ hasMwait pre then "report-before-manager-wait"
    else if ok then "root-ok-although-root-context-failed" else "root-error-although-no-task-of-the-root-context-failed"
  | .hacc h =>
    if ¬ isHandler g h then "handler-submission-of-non-handler" else whyStart g pre h
  | .hrej h =>
    if ¬ isHandler g h then "handler-submission-of-non-handler"
    else if ¬ submitted g pre h then whyStart g pre h
    else "handler-refused-without-prior-cause"
  | .stall t =>
    if ¬ isHandler g t then "stall-of-non-handler"
    else "handler-start-stalled-without-prior-cause"

/-! ### Steering policy of a case (`steer=` on the graph line) -/

def parseSteer1 (s : String) : Option (Nat × Steer) :=
  match s.splitOn ":" with
  | [k, m] => do
    let k ← k.toNat?
    let m ← if m = "s" then some (Steer.holdSel false) else if m = "S" then some (Steer.holdSel true)
            else if m = "f" then some (Steer.holdFin false) else if m = "F" then some (Steer.holdFin true)
            else if m = "-" then some Steer.free else none
    some (k, m)
  | _ => none

def parseSteer (s : String) : Option (List (Nat × Steer)) :=
  if s = "-" || s = "" then some [] else (s.splitOn ",").mapM parseSteer1

def polOf (l : List (Nat × Steer)) (y : Nat) : Steer :=
  match l.find? (fun p => p.1 == y) with
  | some p => p.2
  | none => .free

/-! ### Pseudo-random schedules for `sim` -/

def lcg (x : Nat) : Nat := (x * 6364136223846793005 + 1442695040888963407) % 18446744073709551616

def labelOf (g : Graph) (r : Nat) : Label :=
  let n := g.n
  let k := g.tries.length
  let total := 1 + 2 * n + k
  let x := (r / 65536) % total
  if x = 0 then .main
  else if x ≤ n then .task (x - 1)
  else if x ≤ n + k then .tryg (x - n - 1)
  else .stop (x - n - k - 1)

def simulate (g : Graph) (pol : Nat → Steer) (seed fuel : Nat) : St := Id.run do
  let mut s := init
  let mut r := lcg (seed + 12345)
  for _ in [0:fuel] do
    if s.mp == .finished then break
    r := lcg r
    s := (sysS g pol).next s (labelOf g r)
  return s

/-! ### Case processing -/

structure Case where
  tasks : Array (Nat × TaskDef) := #[]
  tries : Array (Nat × TryDef) := #[]
  top : List Nat := []
  evs : Array (Nat × Ev) := #[]       -- (seq, event)
  bad : Option (Nat × String) := none  -- first line-level problem
  sims : Array (Nat × Nat) := #[]
  lastSeq : Nat := 0
  steer : List (Nat × Steer) := []

def Case.graph (c : Case) : Option Graph :=
  let okIds := (c.tasks.toList.zipIdx.all fun ((id, _), k) => id == k) &&
               (c.tries.toList.zipIdx.all fun ((id, _), k) => id == k)
  if okIds then some ⟨c.tasks.toList.map (·.2), c.tries.toList.map (·.2), c.top⟩ else none

def Case.setBad (c : Case) (seq : Nat) (msg : String) : Case :=
  match c.bad with
  | some _ => c
  | none => { c with bad := some (seq, msg) }

def verdict (c : Case) : List String :=
  match c.graph with
  | none => ["reject 0 malformed-graph"]
  | some g =>
    if ¬ wf g then ["reject 0 malformed-graph"] else
    let simLines := c.sims.toList.map fun (seed, fuel) =>
      let s := simulate g (polOf c.steer) seed fuel
      match firstBad g [] s.tr with
      | none => s!"sim accept events={s.tr.length} complete={s.mp == .finished}"
      | some (pos, e) => s!"sim reject {pos} {why g (s.tr.take pos) e}"
    if c.sims.size > 0 && c.evs.size == 0 && c.bad.isNone then simLines else
    let evs := c.evs.toList.map (·.2)
    let main :=
      match firstBad g [] evs with
      | some (pos, e) =>
        let seq := (c.evs.toList.getD pos (0, e)).1
        -- a line-level problem (hang, panic, unknown id) that came earlier wins
        match c.bad with
        | some (bseq, msg) => if bseq ≤ seq then s!"reject {bseq} {msg}" else s!"reject {seq} {why g (evs.take pos) e}"
        | none => s!"reject {seq} {why g (evs.take pos) e}"
      | none =>
        match c.bad with
        | some (bseq, msg) =>
          s!"reject {bseq} {msg}"
        | none =>
          if evs.any (fun e => match e with | .root _ => true | _ => false) then "accept"
          else s!"reject {c.lastSeq + 1} trace-incomplete"
    simLines ++ [main]

def feed (c : Case) (line : String) : Case :=
  let ws := (line.splitOn " ").filter (· ≠ "")
  match ws with
  | "task" :: rest =>
    match parseTask rest with
    | some t => { c with tasks := c.tasks.push t }
    | none => c.setBad 0 "malformed-graph"
  | "try" :: rest =>
    match parseTry rest with
    | some t => { c with tries := c.tries.push t }
    | none => c.setBad 0 "malformed-graph"
  | ["top", l] =>
    match natList l with
    | some l => { c with top := l }
    | none => c.setBad 0 "malformed-graph"
  | ["sim", seed, fuel] =>
    match seed.toNat?, fuel.toNat? with
    | some a, some b => { c with sims := c.sims.push (a, b) }
    | _, _ => c.setBad 0 "bad-sim-line"
  | seq :: rest =>
    match seq.toNat? with
    | none => c.setBad (c.lastSeq + 1) "bad-event-line"
    | some q =>
      let c := { c with lastSeq := q }
      match rest with
      | ["mwait", "hang"] => c.setBad q "manager-wait-hangs"
      | ["fin", _, "hang"] => c.setBad q "task-wait-hangs"
      | "panic" :: _ => c.setBad q "panic"
      | _ =>
        match parseEv rest with
        | none => c.setBad q "bad-event-line"
        | some e =>
          let known := match evTask e with
            | some t => decide (t < c.tasks.size)
            | none => true
          if known then { c with evs := c.evs.push (q, e) } else c.setBad q "event-about-unknown-task"
  | [] => c

partial def loop (inp out : IO.FS.Stream) (cur : Option Case) : IO Unit := do
  let line ← inp.getLine
  if line.isEmpty then
    -- EOF inside a case: the producer died; report what we have
    match cur with
    | some c => for l in verdict (c.setBad (c.lastSeq + 1) "trace-truncated") do out.putStrLn l
    | none => pure ()
    return ()
  let line := (line.dropEndWhile (fun ch => ch = '\n' || ch = '\r')).toString
  if line.isEmpty || line.startsWith "#" then loop inp out cur else
  if line.startsWith "graph" then
    match cur with
    | some c => for l in verdict (c.setBad (c.lastSeq + 1) "trace-truncated") do out.putStrLn l
    | none => pure ()
    let ws := (line.splitOn " ").filter (· ≠ "")
    let st := match ws.filterMap (fun w => afterEq w "steer") with
      | [v] => parseSteer v
      | [] => some []
      | _ => none
    match st with
    | some l => loop inp out (some { steer := l })
    | none => loop inp out (some (({} : Case).setBad 0 "malformed-graph"))
  else if line = "end" then
    match cur with
    | some c => for l in verdict c do out.putStrLn l
    | none => out.putStrLn "reject 0 end-without-graph"
    out.flush
    loop inp out none
  else
    match cur with
    | some c => loop inp out (some (feed c line))
    | none => loop inp out none

def main : IO Unit := do
  let out ← IO.getStdout
  loop (← IO.getStdin) out none
  out.flush
