/-
Model driver for the `pmap` line protocol (C20).  One operation per input line, one result line each.
All byte strings are hex (`-` = empty); a flat map is `k=v,k=v,…` (`-` = empty map); a nested map is
the token list `L:<k>:<v>` (leaf) / `N:<k>` (open sub-map) / `E` (close), `-` = empty map.

  flatten <tree>                     -> map <k=v,…>              (sorted by key)
  rebuild <flat>                     -> tree <tokens> | err | unordered
                                        (unordered: some key is a dotted prefix of another; the Go
                                         result then depends on map iteration order)
  emit <flat>                        -> doc <hex>
  read <doc>                         -> map <k=v,…> | err
  load <base> <path>=<doc>,… <cfg>   -> map <k=v,…> | err      (a key that two files define with
                                         different values prints as k=?)

Started with the argument `fixed` the reader is the repaired one (KF-C20-1 repaired in /repo).
-/
import Goat.Model.PlainMap
open Goat Goat.PlainMap

def sortBy {α : Type} (key : α → Bytes) (l : List α) : List α :=
  l.mergeSort (fun a b => !bytesLt (key b) (key a))

def parseFlat (s : String) : Option (Flat Bytes) :=
  if s = "-" then some [] else
  (s.splitOn ",").mapM fun kv =>
    match kv.splitOn "=" with
    | [k, v] => do pure ((← Hex.decode k), (← Hex.decode v))
    | _ => none

/-- last write wins, sorted by key -/
def canonFlat (f : Flat Bytes) : List (Bytes × Bytes) :=
  let keys := f.foldl (fun acc kv => if acc.contains kv.1 then acc else acc ++ [kv.1]) ([] : List Bytes)
  sortBy Prod.fst (keys.map fun k => (k, (f.get k).getD []))

def showPairs (l : List (Bytes × String)) : String :=
  if l.isEmpty then "-" else ",".intercalate (l.map fun kv => s!"{Hex.encode kv.1}={kv.2}")

def showFlat (f : Flat Bytes) : String :=
  showPairs ((canonFlat f).map fun kv => (kv.1, Hex.encode kv.2))

/-- token list -> tree; returns the tree and the unread tokens (after the closing `E`) -/
partial def parseTree : List String → Option (Tree Bytes × List String)
  | [] => some (.nil, [])
  | "E" :: rest => some (.nil, rest)
  | tok :: rest =>
    match tok.splitOn ":" with
    | ["L", k, v] => do
      let k ← Hex.decode k
      let v ← Hex.decode v
      let (r, rest') ← parseTree rest
      pure (.leaf k v r, rest')
    | ["N", k] => do
      let k ← Hex.decode k
      let (c, rest1) ← parseTree rest
      let (r, rest2) ← parseTree rest1
      pure (.node k c r, rest2)
    | _ => none

inductive Ent where
  | l (k v : Bytes)
  | n (k : Bytes) (c : Tree Bytes)

def Ent.key : Ent → Bytes
  | .l k _ => k
  | .n k _ => k

def entries : Tree Bytes → List Ent
  | .nil => []
  | .leaf k v r => .l k v :: entries r
  | .node k c r => .n k c :: entries r

partial def showTreeToks (t : Tree Bytes) : List String :=
  (sortBy Ent.key (entries t)).flatMap fun e =>
    match e with
    | .l k v => [s!"L:{Hex.encode k}:{Hex.encode v}"]
    | .n k c => [s!"N:{Hex.encode k}"] ++ showTreeToks c ++ ["E"]

def showTree (t : Tree Bytes) : String :=
  let toks := showTreeToks t
  if toks.isEmpty then "-" else ",".intercalate toks

/-- is `a` a proper dotted prefix of `b` (`b = a ++ "." ++ …`) -/
def dottedPrefix (a b : Bytes) : Bool :=
  match stripPrefix a b with
  | some (c :: _) => c = dot
  | _ => false

def prefixFree (ks : List Bytes) : Bool :=
  ks.all fun a => ks.all fun b => !dottedPrefix a b

def hasPrefixB (p s : Bytes) : Bool := (stripPrefix p s).isSome

def showLoad (reader : Bytes → Option (Flat Bytes)) (base : Bytes) (files : List (Bytes × Bytes)) : String :=
  -- `Load(fs, "./", …)` and `Load(fs, "", …)` both walk the root
  let base := match base with
    | 46 :: 47 :: rest => rest
    | b => b
  let reach := files.filter fun f => hasPrefixB base f.1
  match load reader reach with
  | none => "err"
  | some st =>
    -- candidates per key: the values the reachable json files give it
    let maps := (reach.filter fun f => isJsonName f.1).filterMap fun f => (reader f.2).map canonFlat
    let all : Flat Bytes := maps.flatten
    let canon := canonFlat st
    "map " ++ showPairs (canon.map fun kv =>
      let vals := (all.filter fun e => e.1 = kv.1).map Prod.snd
      if vals.all (· = kv.2) then (kv.1, Hex.encode kv.2) else (kv.1, "?"))

def stepLine (fixed : Bool) (out : IO.FS.Stream) (line : String) : IO Unit := do
  let reader := readWith fixed
  match line.splitOn " " with
  | ["flatten", t] =>
    match (if t = "-" then some (Tree.nil, []) else parseTree (t.splitOn ",")) with
    | some (tree, []) => out.putStrLn s!"map {showFlat (Tree.flatten tree)}"
    | _ => out.putStrLn "bad-op"
  | ["rebuild", f] =>
    match parseFlat f with
    | some flat =>
      if flat.keys.contains [] then out.putStrLn "err"
      else if !prefixFree flat.keys then out.putStrLn "unordered"
      else match rebuild flat with
        | some t => out.putStrLn s!"tree {showTree t}"
        | none => out.putStrLn "err"
    | none => out.putStrLn "bad-op"
  | ["emit", f] =>
    match parseFlat f with
    | some flat => out.putStrLn s!"doc {Hex.encode (emit flat)}"
    | none => out.putStrLn "bad-op"
  | ["read", d] =>
    match Hex.decode d with
    | some doc =>
      match reader doc with
      | some f => out.putStrLn s!"map {showFlat f}"
      | none => out.putStrLn "err"
    | none => out.putStrLn "bad-op"
  | ["load", b, fs, _] =>
    match Hex.decode b, parseFlat fs with
    | some base, some files => out.putStrLn (showLoad reader base files)
    | _, _ => out.putStrLn "bad-op"
  | _ => out.putStrLn "bad-op"

partial def loop (fixed : Bool) (inp out : IO.FS.Stream) : IO Unit := do
  let line ← inp.getLine
  if line.isEmpty then return ()
  let line := (line.dropEndWhile (fun c => c = '\n' || c = '\r')).toString
  if line.isEmpty || line.startsWith "#" then loop fixed inp out else
  stepLine fixed out line
  loop fixed inp out

def main (args : List String) : IO Unit := do
  let out ← IO.getStdout
  loop (args.contains "fixed") (← IO.getStdin) out
  out.flush
