/-
Model driver for the `scope` line protocol (C11).  One operation per input line, one result line per
operation (same format as `harness/cmd/scope drive`):

  reset                         -> ok                      (start of a history: empty state)
  new                           -> <res> E[..] C[..] S[..] G[..] T[..]
  child <p> shared|isolated
  on <s> <event> ok|err
  on <s> <event> gate <g> ok|err   (a listener that runs until gate g is released, then returns ok/err;
                                    close events only)
  release <g>                   (opens gate g for good; the goroutines parked on it run on, lowest scope first)
  addtasks <s> <n> | donetask <s> | apperr <s> | kill <s> | stop <s>
  close <s>                     (the harness runs Close in its own goroutine)
  settle                        -> ok E[whole log] C[every Close result so far] S[..] G[..] T[..]

  <res>  ok | refused | panic | invalid (no such scope / child of a scope that has signed off / gated
         listener on a non-close event) | busy (On while a listener of that event scope is running: not executed) |
         undisciplined (DoneTask without an outstanding task: not executed) |
         blocked (Close has begun and waits or is parked in a listener) | closed (Close has begun and returned)
  E[..]  listener invocations caused by the operation: <listener>:<event>:<data scope or ->
  C[..]  Close calls that returned during the operation, in order: <scope>=<1 if it returned an error>
  S[..]  per scope <IsDone as 0/1>.<len(Errors())>
  G[..]  the closing goroutines parked inside a listener: <scope>@<listener>
  T[..]  per scope the number of close events it has fired

The driver runs one particular schedule of the transition system: after every operation it takes the
enabled `propagate`/`watcherExit` steps and then lets the closing goroutine with the lowest scope number
that can move run until it cannot (`step` until disabled), until nothing can move (the harness waits for
the same; a goroutine released by a sign-off belongs to an ancestor, which has a lower number, so the
order is the causal one).
A watcher woken by a plain `Stop` reads the parent's errors before the Stop listeners run (the harness
waits for it there), hence the clean variant for the direct isolated children of a context stopped by
this very operation.
-/
import Goat.Model.Scope
open Goat.Scope

def evName : Ev → String
  | .kill => "kill" | .stop => "stop" | .error => "error"
  | .beforeCommit => "beforeCommit" | .commit => "commit" | .afterCommit => "afterCommit"
  | .beforeRollback => "beforeRollback" | .rollback => "rollback" | .afterRollback => "afterRollback"
  | .beforeClose => "beforeClose" | .afterClose => "afterClose"

def allEvs : List Ev :=
  [.kill, .stop, .error, .beforeCommit, .commit, .afterCommit, .beforeRollback, .rollback,
   .afterRollback, .beforeClose, .afterClose]

def parseEv (s : String) : Option Ev := allEvs.find? fun e => evName e == s

def showEntry (e : Entry) : String :=
  s!"{e.lid}:{evName e.ev}:{match e.src with | some s => toString s | none => "-"}"

def showScopes (st : State) : String :=
  ",".intercalate <| (List.range st.nScopes).map fun s =>
    s!"{if st.isDone s then 1 else 0}.{(st.ctxOf s).errors}"

/-- watcher steps in index order (a context's parent has a smaller index) -/
def propagateAll (st : State) (clean : Option Nat) : State := Id.run do
  let mut st := st
  for c in [0:st.nCtxs] do
    let x := st.ctx c
    if x.watch then
      if x.done then
        st := next st (.watcherExit c)
      else
        match x.parent with
        | some pc =>
          if (st.ctx pc).done then
            let asKill := if clean == some pc then false else (st.ctx pc).errors != 0
            st := next st (.propagate c asKill)
        | none => pure ()
  return st

/-- take enabled steps until quiescence; returns the Close calls that returned -/
partial def settle (st : State) (clean : Option Nat) (acc : List (Nat × Bool)) : State × List (Nat × Bool) :=
  let st := propagateAll st clean
  match (List.range st.nScopes).find? fun s => (micro st s).isSome with
  | some s =>
    match runSteps micro s 64 st with
    | (st', .closed e) => settle st' none (acc ++ [(s, e)])
    | (st', _) => settle st' none acc
  | none => (st, acc)

structure Drv where
  st : State := {}
  closes : List (Nat × Bool) := []

def showParked (st : State) : String :=
  ",".intercalate <| (List.range st.nScopes).filterMap fun s =>
    match (st.scp s).park with
    | some p => some s!"{s}@{p.lid}"
    | none => none

def showFired (st : State) : String :=
  ",".intercalate <| (List.range st.nScopes).map fun s => toString (st.closeTrace s).length

def showLine (res : String) (es : List Entry) (cs : List (Nat × Bool)) (st : State) : String :=
  let c := ",".intercalate (cs.map fun (s, e) => s!"{s}={if e then 1 else 0}")
  s!"{res} E[{",".intercalate (es.map showEntry)}] C[{c}] S[{showScopes st}] G[{showParked st}] T[{showFired st}]"

/-- run one act of the protocol and settle -/
def doAct (d : Drv) (a : Act) (isClose : Option Nat := none) : Drv × String :=
  let st := d.st
  match exec st a with
  | none =>
    let res := match a with
      | .doneTask s => if s < st.nScopes then "undisciplined" else "invalid"
      | .on s _ _ => if s < st.nScopes then "busy" else "invalid"
      | .onGated s ev _ _ => if s < st.nScopes && ev.isClose then "busy" else "invalid"
      | _ => "invalid"
    (d, showLine res [] [] st)
  | some (st1, out) =>
    let clean : Option Nat := match a with
      | .stop s => if out == .ok && !(st.isDone s) then some (st.scp s).ctx else none
      | _ => none
    let (st2, cs) := settle st1 clean []
    let res := match out, isClose with
      | .ok, some s => if cs.any (fun p => p.1 == s) then "closed" else "blocked"
      | .ok, none => "ok"
      | .refused, _ => "refused"
      | .panic, _ => "panic"
      | .closed _, _ => "closed"
    let es := st2.log.drop st.log.length
    ({ st := st2, closes := d.closes ++ cs }, showLine res es cs st2)

/-! ### concurrent closers (`cc <k> <procs> <depth> <tasks> <kids> <par> <err> <rounds>`, see
harness/cmd/scope/closers.go): k goroutines call `Close` on the same scope at the same moment.  In the
transition system the guard of `close s` is one atomic act, so k concurrent calls are k `close s` acts in
some order with anything in between: the first is enabled with `phase = opened` and runs the protocol, every
later one panics (`Goat.C11.closers_one_winner`, `close_protocol_once`).  `procs`, `depth` and `rounds` only
steer the implementation's scheduling. -/

def closeEvs : List Ev :=
  [.beforeCommit, .commit, .afterCommit, .beforeRollback, .rollback, .afterRollback, .beforeClose, .afterClose]

/-- one act, then everything it causes -/
def ccAct (st : State) (a : Act) : State × Option Outcome :=
  match exec st a with
  | none => (st, none)
  | some (st1, out) => ((settle st1 none []).1, some out)

def ccLine (k tasks kids par : Nat) (err : String) : String := Id.run do
  let go := fun (st : State) (a : Act) => (ccAct st a).1
  let mut st : State := go {} .new
  let mut si := 0
  if par != 0 then
    st := go st (.child 0 (par == 2))
    st := go st (.child 0 false)
    si := 1
    for e in closeEvs do
      st := go st (.on 0 e false)
  let el : Option Nat := match err.toList with
    | ['l', c] => if c.isDigit then some (c.toNat - '0'.toNat) else none
    | _ => none
  let mut i := 0
  for e in closeEvs do
    st := go st (.on si e (el == some i))
    i := i + 1
  if tasks > 0 then st := go st (.addTasks si tasks)
  let kid0 := st.nScopes
  for _ in [0:kids] do
    st := go st (.child si false)
  if err == "pre" then st := go st (.appErr si)
  if par != 0 then st := go st (.close 0)
  let mut acc := 0
  let mut ref := 0
  let mut oth := 0
  for _ in [0:k] do
    let r := ccAct st (.close si)
    st := r.1
    match r.2 with
    | some .ok => acc := acc + 1
    | some .panic => ref := ref + 1
    | _ => oth := oth + 1
  for _ in [0:tasks] do
    st := go st (.doneTask si)
  for j in [0:kids] do
    if j == 0 && err == "kid" then st := go st (.appErr kid0)
    st := go st (.close (kid0 + j))
  if par != 0 then st := go st (.close 2)
  let fin := st
  let cs := (List.range fin.nScopes).filterMap fun s =>
    (fin.scp s).result.map fun e => s!"{s}={if e then 1 else 0}"
  let qs := (List.range fin.nScopes).filterMap fun s =>
    let q := (fin.log.filter fun e => e.src == some s).map fun e => s!"{e.lid}:{evName e.ev}"
    if q.isEmpty then none else some s!"{s}={",".intercalate q}"
  return s!"cc acc={acc} ref={ref} oth={oth} C[{",".intercalate cs}] Q[{";".intercalate qs}]"

def ccErrOk (err : String) : Bool :=
  err == "none" || err == "pre" || err == "kid" ||
    (match err.toList with
     | ['l', c] => '0' ≤ c && c ≤ '7'
     | _ => false)

def stepLine (d : Drv) (line : String) : Drv × String :=
  let bad := (d, "bad-op")
  match line.splitOn " " with
  | ["reset"] => ({}, "ok")
  | ["new"] => doAct d .new
  | ["child", p, k] =>
    match p.toNat?, k with
    | some p, "shared" => doAct d (.child p false)
    | some p, "isolated" => doAct d (.child p true)
    | _, _ => bad
  | ["on", s, e, r] =>
    match s.toNat?, parseEv e, r with
    | some s, some e, "ok" => doAct d (.on s e false)
    | some s, some e, "err" => doAct d (.on s e true)
    | _, _, _ => bad
  | ["on", s, e, "gate", g, r] =>
    match s.toNat?, parseEv e, g.toNat?, r with
    | some s, some e, some g, "ok" => doAct d (.onGated s e false g)
    | some s, some e, some g, "err" => doAct d (.onGated s e true g)
    | _, _, _, _ => bad
  | ["release", g] => match g.toNat? with | some g => doAct d (.release g) | none => bad
  | ["addtasks", s, n] =>
    match s.toNat?, n.toNat? with
    | some s, some n => doAct d (.addTasks s n)
    | _, _ => bad
  | ["donetask", s] => match s.toNat? with | some s => doAct d (.doneTask s) | none => bad
  | ["apperr", s] => match s.toNat? with | some s => doAct d (.appErr s) | none => bad
  | ["kill", s] => match s.toNat? with | some s => doAct d (.kill s) | none => bad
  | ["stop", s] => match s.toNat? with | some s => doAct d (.stop s) | none => bad
  | ["close", s] => match s.toNat? with | some s => doAct d (.close s) (some s) | none => bad
  | ["settle"] => (d, showLine "ok" d.st.log d.closes d.st)
  | ["cc", k, procs, depth, tasks, kids, par, err, rounds] =>
    match k.toNat?, procs.toNat?, depth.toNat?, tasks.toNat?, kids.toNat?, par.toNat?, rounds.toNat? with
    | some k, some procs, some _, some tasks, some kids, some par, some rounds =>
      if k ≥ 1 && k ≤ 64 && procs ≥ 1 && tasks ≤ 16 && kids ≤ 16 && par ≤ 2 && rounds ≥ 1 && ccErrOk err then
        (d, ccLine k tasks kids par err)
      else bad
    | _, _, _, _, _, _, _ => bad
  | _ => bad

partial def loop (inp out : IO.FS.Stream) (d : Drv) : IO Unit := do
  let line ← inp.getLine
  if line.isEmpty then return ()
  let line := (line.dropEndWhile (fun c => c = '\n' || c = '\r')).toString
  if line.isEmpty || line.startsWith "#" then loop inp out d else
  let (d', res) := stepLine d line
  out.putStrLn res
  loop inp out d'

def main : IO Unit := do
  let out ← IO.getStdout
  loop (← IO.getStdin) out {}
  out.flush
