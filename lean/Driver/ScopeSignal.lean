/-
Model driver for the `scopesig` line protocols (property C12).  One line in, one line out.

  sched <variant> <n> <kinds> <label>…      run the model under an explicit schedule
        variant: fixed | pinned | unlocked | proptoparent ;  kinds: p,i0,…  (p plain, i<k> isolated, parent k)
        labels : c<t>.<op><sid>  op ∈ s(top) k(ill) d(isDone) e(rr) a<k>: (append k tagged errors)
                 n<t>.<p>.s | n<t>.<p>.c<c> (NewChild of scope p, shared / own context c)   x<t>.<sid> (Close)
                 r<t> (run)   l<t> (alt)
        -> `final closes=<..> errs=<..> wg=<..> dbl=<b> neg=<b>`
  race <scenario> <kind>                    two goroutines; each runs up to the point right before close(done)
        scenario: stopstop stopkill killkill killapp (on one context)   (the harness' gate), then both are released
                  childadd (parent ends between AddTasks' test and wg.Add)  childafter (child of a done parent)
        -> `panics=<n> done=<t|f> errs=<n>`   resp.  `panics=<n> wait=<ok|hang>`
  race-pinned <scenario> <kind>             the same under Variant.pinned (what the old code does)
  seq <kinds> <op>…                         one goroutine, operations run to completion, propagation
        op: a<sid>.<k> k<sid> s<sid> d<sid> e<sid> n<p>.s n<p>.c<c> x<sid> w<sid>   goroutines settled after each
        -> one result token per op: ok | t | f | <tagged>+<canceled> | ok:<t|f> | hang
  hist iso=<b> app=<n> kills=<n> stops=<n> pdone=<b> perr=<b> ltag=<n> lcan=<n> err=<b> done=<b> panics=<n>
        -> accept | reject <reason>          (history monitor: `Goat.ScopeSignal.conforms`)
-/
import Goat.Model.ScopeSignal
open Goat.LTS Goat.ScopeSignal

def natOf (cs : List Char) : Option Nat :=
  if cs.isEmpty then none else
  cs.foldl (fun acc c => match acc with
    | none => none
    | some n => if c.isDigit then some (n * 10 + (c.toNat - '0'.toNat)) else none) (some 0)

def parseKinds (s : String) : Option (List Kind) :=
  (s.splitOn ",").mapM fun tok =>
    match tok.toList with
    | ['p'] => some Kind.plain
    | 'i' :: rest => (natOf rest).map Kind.isolated
    | _ => none

def parseVariant : String → Option Variant
  | "fixed" => some Variant.fixed
  | "pinned" => some Variant.pinned
  | "unlocked" => some Variant.unlockedAppend
  | "proptoparent" => some Variant.propToParent
  | _ => none

/-- tagged error ids are drawn from a counter so that every appended error is distinct -/
def freshIds (start k : Nat) : List Nat := (List.range k).map (· + start + 1)

/-- `s12` `k3` `d0` `e1` `a2.3` → operation on a scope -/
def parseOp (cs : List Char) (nextId : Nat) : Option (Call × Nat) :=
  match cs with
  | 's' :: r => (natOf r).map fun sid => (Call.op .stop sid, nextId)
  | 'k' :: r => (natOf r).map fun sid => (Call.op .kill sid, nextId)
  | 'd' :: r => (natOf r).map fun sid => (Call.op .isDone sid, nextId)
  | 'e' :: r => (natOf r).map fun sid => (Call.op .err sid, nextId)
  | 'a' :: r =>
    match (String.ofList r).splitOn "." with
    | [a, b] =>
      match natOf a.toList, natOf b.toList with
      | some sid, some k => some (Call.op (.append (freshIds nextId k)) sid, nextId + k)
      | _, _ => none
    | _ => none
  | 'x' :: r => (natOf r).map fun sid => (Call.close sid, nextId)
  | 'n' :: r =>
    match (String.ofList r).splitOn "." with
    | [a, "s"] => (natOf a.toList).map fun p => (Call.newChild p none, nextId)
    | [a, b] =>
      match natOf a.toList, b.toList with
      | some p, 'c' :: cr => (natOf cr).map fun c => (Call.newChild p (some c), nextId)
      | _, _ => none
    | _ => none
  | _ => none

/-- schedule labels: `c0.s1`, `n0.1.s`, `x0.2`, `r3`, `l3` -/
def parseLabel (tok : String) (nextId : Nat) : Option (Label × Nat) :=
  match tok.toList with
  | 'r' :: r => (natOf r).map fun t => (Label.run t, nextId)
  | 'l' :: r => (natOf r).map fun t => (Label.alt t, nextId)
  | 'c' :: r =>
    match (String.ofList r).splitOn "." with
    | t :: rest =>
      match natOf t.toList, parseOp (".".intercalate rest).toList nextId with
      | some t, some (k, n') => some (Label.call t k, n')
      | _, _ => none
    | _ => none
  | 'n' :: r =>
    match (String.ofList r).splitOn "." with
    | t :: rest =>
      match natOf t.toList, parseOp ('n' :: (".".intercalate rest).toList) nextId with
      | some t, some (k, n') => some (Label.call t k, n')
      | _, _ => none
    | _ => none
  | 'x' :: r =>
    match (String.ofList r).splitOn "." with
    | [t, sid] =>
      match natOf t.toList, natOf sid.toList with
      | some t, some sid => some (Label.call t (.close sid), nextId)
      | _, _ => none
    | _ => none
  | _ => none

def parseLabels : List String → Nat → Option (List Label)
  | [], _ => some []
  | tok :: rest, n =>
    match parseLabel tok n with
    | some (l, n') => (parseLabels rest n').map (l :: ·)
    | none => none

def bstr (b : Bool) : String := if b then "t" else "f"

def summary (s : State) : String :=
  let cl := ",".intercalate (s.ctxs.map fun x => toString x.closes)
  let er := ",".intercalate (s.ctxs.map fun x => toString x.errors.length)
  let wg := ",".intercalate (s.scopes.map fun sc => toString sc.wg)
  s!"final closes={cl} errs={er} wg={wg} dbl={bstr s.doubleClose} neg={bstr s.negativeCounter}"

/-- number of run-time panics the state stands for: every close beyond the first, every negative counter -/
def panicsOf (s : State) : Nat :=
  (s.ctxs.map fun x => x.closes - 1).sum + (s.scopes.filter fun sc => decide (sc.wg < 0)).length

/-! ### round-robin runner: every goroutine has a program of calls -/

def isBusy : PC → Bool
  | .idle => false
  | .exited => false
  | .propWait _ _ => false
  | _ => true

/-- one sweep over all goroutines; returns the new state, the remaining programs, whether anything moved -/
def sweep (v : Variant) (s : State) (progs : List (List Call)) : State × List (List Call) × Bool := Id.run do
  let mut s := s
  let mut progs := progs
  let mut moved := false
  for t in [0:s.threads.length] do
    match s.threads[t]? with
    | some .idle =>
      match progs[t]? with
      | some (k :: rest) =>
        match step v s (.call t k) with
        | some s' => s := s'; progs := progs.set t rest; moved := true
        | none => pure ()
      | _ => pure ()
    | some (.propWait _ _) =>
      match step v s (.run t) with
      | some s' => s := s'; moved := true
      | none =>
        match step v s (.alt t) with
        | some s' => s := s'; moved := true
        | none => pure ()
    | some _ =>
      match step v s (.run t) with
      | some s' => s := s'; moved := true
      | none => pure ()
    | none => pure ()
  return (s, progs, moved)

def runRR (v : Variant) (s : State) (progs : List (List Call)) : Nat → State
  | 0 => s
  | fuel + 1 =>
    let (s', progs', moved) := sweep v s progs
    if moved then runRR v s' progs' fuel else s'

/-- run goroutine `t` until it stands right before `close(done)` (where the harness parks it) or is idle -/
def runUntilPark (v : Variant) (s : State) (t : Nat) : Nat → State
  | 0 => s
  | fuel + 1 =>
    match s.threads[t]? with
    | some (.stopClose _) => s
    | some pc =>
      if isBusy pc then
        match step v s (.run t) with
        | some s' => runUntilPark v s' t fuel
        | none => s
      else s
    | none => s

/-- the gated interleaving: every goroutine in turn starts its call and runs up to the gate; then all are released -/
def runGated (v : Variant) (s : State) (progs : List (List Call)) : State := Id.run do
  let mut s := s
  let mut progs := progs
  for t in [0:progs.length] do
    match progs[t]? with
    | some (k :: rest) =>
      match step v s (.call t k) with
      | some s' => s := runUntilPark v s' t 32; progs := progs.set t rest
      | none => pure ()
    | _ => pure ()
  return runRR v s progs 64

def raceLine (v : Variant) (scenario kind : String) : String :=
  let (kinds, sid) : List Kind × Nat := if kind = "isolated" then ([.plain, .isolated 0], 1) else ([.plain], 0)
  let ctxOut (s : State) : String :=
    match s.ctxs[sid]? with
    | some x => s!"panics={panicsOf s} done={bstr x.done} errs={x.errors.length}"
    | none => "bad-op"
  let two (a b : Op) : String :=
    ctxOut (runGated v (initState ⟨2, kinds⟩) [[.op a sid], [.op b sid]])
  match scenario with
  | "stopstop" => two .stop .stop
  | "stopkill" => two .stop .kill
  | "killkill" => two .kill .kill
  | "killapp" => two .kill (.append [1])
  | "childadd" =>
    -- goroutine 0: NewChild (test: not done) ; goroutine 1: Stop to completion ; goroutine 0: Add, publish, Close
    let nScopes := kinds.length
    let sched : List Label := [.call 0 (.newChild sid none), .call 1 (.op .stop sid), .run 1, .run 0, .run 0,
      .call 0 (.close nScopes)]
    let s := (sys v ⟨2, kinds⟩).run sched
    let ok := match s.scopes[sid]? with | some sc => decide (sc.wg = 0) | none => false
    s!"panics={panicsOf s} wait={if ok then "ok" else "hang"}"
  | "childafter" =>
    let nScopes := kinds.length
    let sched : List Label := [.call 0 (.op .stop sid), .run 0, .call 0 (.newChild sid none), .run 0,
      .call 0 (.close nScopes)]
    let s := (sys v ⟨1, kinds⟩).run sched
    let ok := match s.scopes[sid]? with | some sc => decide (sc.wg = 0) | none => false
    s!"panics={panicsOf s} wait={if ok then "ok" else "hang"}"
  | _ => "bad-op"

/-! ### sequential runs -/

def countCanceled (l : List Nat) : Nat := (l.filter (· == canceled)).length

/-- run goroutine 0 and all propagation goroutines until nothing moves -/
def settle (s : State) : State := runRR Variant.fixed s [] 256

def seqOp (s : State) (tok : String) (nextId : Nat) : Option (State × String × Nat) :=
  match tok.toList with
  | 'w' :: r =>
    (natOf r).map fun sid =>
      match s.scopes[sid]? with
      | some sc =>
        if sc.wg = 0 then
          match s.ctxs[sc.ctx]? with
          | some x => (s, s!"ok:{bstr (!x.errors.isEmpty)}", nextId)
          | none => (s, "bad", nextId)
        else (s, "hang", nextId)
      | none => (s, "bad", nextId)
  | cs =>
    match parseOp cs nextId with
    | none => none
    | some (k, n') =>
      -- what the first/only observation of this call is
      let pre : String :=
        match k with
        | .op .isDone sid =>
          match s.scopes[sid]? with
          | some sc => match s.ctxs[sc.ctx]? with | some x => bstr x.done | none => "bad"
          | none => "bad"
        | .op .err sid =>
          match s.scopes[sid]? with
          | some sc =>
            match s.ctxs[sc.ctx]? with
            | some x => s!"{x.errors.length - countCanceled x.errors}+{countCanceled x.errors}"
            | none => "bad"
          | none => "bad"
        | _ => "ok"
      match step Variant.fixed s (.call 0 k) with
      | none => some (s, "disabled", n')
      | some s1 =>
        let s2 := settle s1
        let res : String :=
          match k with
          | .close sid =>
            match s2.scopes[sid]? with
            | some sc => match s2.ctxs[sc.ctx]? with | some x => s!"ok:{bstr (!x.errors.isEmpty)}" | none => "bad"
            | none => "bad"
          | _ => pre
        let res := if s2.doubleClose || s2.negativeCounter then "panic" else res
        some (s2, res, n')

def seqLine (kinds : List Kind) (toks : List String) : String := Id.run do
  let mut s := initState ⟨1, kinds⟩
  let mut nextId := 0
  let mut out : List String := []
  for tok in toks do
    match seqOp s tok nextId with
    | some (s', r, n') => s := s'; nextId := n'; out := r :: out
    | none => out := "bad-op" :: out
  return " ".intercalate out.reverse

/-! ### history monitor -/

def kv (tok : String) : Option (String × Nat) :=
  match tok.splitOn "=" with
  | [k, v] => (natOf v.toList).map fun n => (k, n)
  | _ => none

def histLine (toks : List String) : String :=
  match toks.mapM kv with
  | none => "bad-op"
  | some kvs =>
    let get (k : String) : Nat := match kvs.find? (·.1 = k) with | some (_, v) => v | none => 0
    let h : Hist := {
      isolated := get "iso" != 0, appended := get "app", kills := get "kills", stops := get "stops",
      parentDone := get "pdone" != 0, parentErr := get "perr" != 0, lenTagged := get "ltag",
      lenCancel := get "lcan", errNonNil := get "err" != 0, done := get "done" != 0, panics := get "panics" }
    if conforms h then "accept" else s!"reject {conformsWhy h}"

def stepLine (line : String) : String :=
  match (line.splitOn " ").filter (· ≠ "") with
  | "sched" :: v :: n :: kinds :: labels =>
    match parseVariant v, natOf n.toList, parseKinds kinds, parseLabels labels 0 with
    | some v, some n, some ks, some ls => summary ((sys v ⟨n, ks⟩).run ls)
    | _, _, _, _ => "bad-op"
  | ["race", sc, kind] => raceLine Variant.fixed sc kind
  | ["race-pinned", sc, kind] => raceLine Variant.pinned sc kind
  | "seq" :: kinds :: toks =>
    match parseKinds kinds with
    | some ks => seqLine ks toks
    | none => "bad-op"
  | "hist" :: toks => histLine toks
  | _ => "bad-op"

partial def loop (inp out : IO.FS.Stream) : IO Unit := do
  let line ← inp.getLine
  if line.isEmpty then return ()
  let line := (line.dropEndWhile (fun c => c = '\n' || c = '\r')).toString
  if line.isEmpty || line.startsWith "#" then loop inp out else
  out.putStrLn (stepLine line)
  loop inp out

def main : IO Unit := do
  let out ← IO.getStdout
  loop (← IO.getStdin) out
  out.flush
