/-
Model driver of the `stream` line protocol (property C04) — executable `m_stream`.
The Go side (`/verif/harness/cmd/stream drive`) reads the same lines and runs the real code
(memfs, diskfs, encryptfs, fscache; fshelper.StreamCopy / Copy / Copier); the two output streams are
compared line by line.  Core Lean only.

PROTOCOL  one case per line, one result line per case; every case is self-contained (fresh filesystems).
  tokens are separated by single spaces; `#…` and empty lines are skipped (no result line)
  <backend>   mem | disk | encmem | encdisk | cache      (enc = encryptfs over it, cache = fscache over memfs)
              model: the destination kind is `disk` for disk/encdisk, `mem` otherwise; a reader is `lazy`
              (io.EOF only on a read that finds nothing left) for disk, `eager` otherwise; `Reader` of a
              directory succeeds for disk only (and every Read of it fails)
  <hex>       bytes in lower-case hex, the empty string is `-`
  <tree>      `-` (only the root) or entries separated by `,`, parents first:
              `<path>/` a directory, `<path>=<hex>` a file; <path> = names [a-z0-9]+ joined by `/`
  <sizes>     `-` | `<n>,<n>,…`  the chunking: the i-th Read of every reader delivers at most n_i bytes, a full
              32 KiB buffer once the list is used up;  `raw` = the helpers get the undecorated filesystems
              (io.Copy may then use ReadFrom/WriteTo); model: `raw` = `-`
  <fault>     `-` | `<stage>:<k>:<h|s>`   fail the k-th (from 0) call of the stage, hard or short; stages
              openReader read closeReader list srcView openWriter write closeWriter mkdir dstView

  wr <backend> <old> <chunk>*         Writer on `d/f`, one Write per chunk, Close, then ReadFile
        <old> = absent | dir | noparent (the path is `x/f`, `x` missing) | <hex> (the file's old content)
        -> ok <hex> | err
  wrq <backend> <old> <w|c> <split> <chunksA> <chunksB>     a writer queued behind an open writer (memory-like
        backends only: mem, encmem, cache — their second open waits for the first Close):
        writer A is opened on `d/f` and writes its first <split> chunks; B is started on the same path — a Writer
        that writes <chunksB> and closes (`w`), or fshelper.StreamCopy of a file holding their concatenation (`c`)
        — and has reached the file when A writes its remaining chunks and closes; then B runs to its end.
        <chunksX> = `_` (none) or <hex> chunks joined by `,`.   model: A then B, one after the other
        -> ok <hex> | err           (ReadFile after both are closed)
  rdq <qbackend> <old> <split> <sizes> <chunks>     a reader that stays open while the SAME file is rewritten:
        <qbackend> = mem | encmem | cache (the file lives in the cache's buffer) | rcache (fscache whose file lives
        in the remote memfs) — the backends whose streams go through memfs handles; diskfs has no handle lock
        (there the operating system's semantics of an open file apply) and is not part of this family.
        `d/f` holds <old>; Reader is opened on it and reads its first <split> buffers (<sizes> = `-` | <n>,<n>,…: one
        Read per size); then ANOTHER goroutine is started that opens a Writer on `d/f`, writes <chunks> and closes;
        once that goroutine has either finished or is parked on the file's lock, the reader reads its remaining
        buffers and is closed; the rewriter is waited for; ReadFile.
        model: `readerRun` with the discipline of the backend (mem, cache: `Disc.memfs`, the handle holds the lock;
        encmem, rcache: `Disc.priv`, the reader owns a private copy / another file) and the schedule
        [0, 0 × split, burst]: the rewriter is given enough steps to finish at that point, if it can
        -> ok <wait|free> rd[ <hex>:<e|c>,…] <hex> | err      wait = the rewriter was held up until the reader's
                                               Close, free = it finished while the reader was open; the reads; the
                                               file's content after both have closed
  scopyq <qbackend> <db> <old> <dstold> <split> <sizes> <chunks>    fshelper.StreamCopy(src, dst, `d/f`) through the
        chunk-limiting decorator while the SOURCE file is rewritten: source `d/f` = <old> on <qbackend>, destination
        <db> (any backend) with `d/` and `d/f` = <dstold> (`absent` = none); before the <split>-th Read of the
        copy's source reader (before its Close if the copy makes fewer reads) the rewriter goroutine is started as
        in `rdq` and has finished or is parked when the copy goes on.   model: `streamCopyRW`
        -> <ok|err> <wait|free> <dump of the destination> src=<hex>       (source content after both are done)
  rd <backend> <data> <size>*         a file holding <data>; Reader, one Read per size, Close
        -> rd <hex>:<e|c>,… | rd | err          (as the `reader` line of the fs protocol)
  scopy <sb> <db> <srctree> <dsttree> <path> <sizes> <fault>
        fshelper.StreamCopy(src, dst, path)     -> ok <dump> | err <dump>     (dump of the destination)
  tcopy <sb> <db> <srctree> <dsttree> <sizes> <fault> <seed> <extra>
        fshelper.Copy(src, dst, nil)            -> ok <dump> | err
        <seed> <extra>: model only — the visiting order is the permutation of the source's nodes drawn from
        <seed>; after the first failing callback <extra> more run.  (On `err` the destination depends on the
        order, which the implementation chooses: not compared.)
  copier <sb> <db> <srctree> <srcpath> <dsttree> <dstpath> <sizes> <fault> <seed> <extra>
        fshelper.Copier{src, srcpath, dst, dstpath}.Do()   -> ok <dump> | err
  <dump> = `tree` followed by the nodes sorted by path bytes, `<hexpath>/` or `<hexpath>=<hexdata>`
           (the `dump` format of the fs protocol)
  anything else -> bad-op
-/
import Goat.Model.Stream
open Goat Goat.Stream

namespace StreamDrv

/-! ### parsing -/

/-- destination kind, reader style, and whether `Reader` of a directory succeeds (diskfs only: the
decrypting reader of enc∘disk reads its header at once and fails) -/
def parseBackend (s : String) : Option (Backend × EofStyle × Bool) :=
  match s with
  | "mem" => some (.mem, .eager, false)
  | "disk" => some (.disk, .lazy, true)
  | "encmem" => some (.mem, .eager, false)
  | "encdisk" => some (.disk, .eager, false)
  | "cache" => some (.mem, .eager, false)
  | _ => none

def nameOk (s : String) : Bool :=
  !s.isEmpty && (s.all fun c => c.isAlphanum || c == '.' || c == '~') && (s.any fun c => c.isAlphanum)

def parsePath (s : String) : Option Path :=
  if s = "-" then some [] else
  let segs := s.splitOn "/"
  if segs.all nameOk then some (segs.map str) else none

def insertDir (t : Node) (p : Path) : Option Node := t.mkdirs p

def insertFile (t : Node) (p : Path) (d : Bytes) : Option Node :=
  match p.getLast? with
  | none => none
  | some name =>
    match t.mkdirs p.dropLast with
    | none => none
    | some t1 => t1.update p.dropLast fun k =>
        match k.find name with
        | some (.dir _) => none
        | _ => some (k.set name (.file d))

def parseTree (s : String) : Option Node :=
  if s = "-" then some Node.empty else
  (s.splitOn ",").foldlM (init := Node.empty) fun t ent =>
    if ent.endsWith "/" then
      (parsePath (ent.dropEnd 1).toString).bind (insertDir t)
    else
      match ent.splitOn "=" with
      | [p, d] => do
        let p ← parsePath p
        let d ← Hex.decode d
        insertFile t p d
      | _ => none

def parseSizes (s : String) : Option (List Nat) :=
  if s = "-" ∨ s = "raw" then some [] else (s.splitOn ",").mapM String.toNat?

def parseStage (s : String) : Option Stage :=
  match s with
  | "openReader" => some .openReader
  | "read" => some .read
  | "closeReader" => some .closeReader
  | "list" => some .list
  | "srcView" => some .srcView
  | "openWriter" => some .openWriter
  | "write" => some .write
  | "closeWriter" => some .closeWriter
  | "mkdir" => some .mkdir
  | "dstView" => some .dstView
  | _ => none

def parseFault (s : String) : Option Plan :=
  if s = "-" then some noFault else
  match s.splitOn ":" with
  | [st, k, m] => do
    let st ← parseStage st
    let k ← k.toNat?
    let m ← (match m with | "h" => some Mode.hard | "s" => some Mode.short | _ => none)
    pure (oneFault st k m)
  | _ => none

/-! ### the visiting order -/

def lcg (x : Nat) : Nat := (x * 6364136223846793005 + 1442695040888963407) % 18446744073709551616

/-- remove and return the i-th element -/
def pick : List α → Nat → Option (α × List α)
  | [], _ => none
  | a :: as, 0 => some (a, as)
  | a :: as, i + 1 => (pick as i).map fun (x, r) => (x, a :: r)

/-- a permutation of the list drawn from the seed (selection shuffle; seed 0 = the list itself) -/
def shuffle (seed : Nat) (l : List α) : List α :=
  if seed = 0 then l else
  let rec go (fuel : Nat) (x : Nat) (rest : List α) (acc : List α) : List α :=
    match fuel with
    | 0 => acc.reverse ++ rest
    | fuel + 1 =>
      if rest.isEmpty then acc.reverse else
      let x := lcg x
      match pick rest ((x / 65536) % rest.length) with
      | some (a, r) => go fuel x r (a :: acc)
      | none => acc.reverse ++ rest
  go l.length seed l []

/-! ### printing -/

def bytesLt : Bytes → Bytes → Bool
  | [], [] => false
  | [], _ :: _ => true
  | _ :: _, [] => false
  | a :: as, b :: bs => if a < b then true else if b < a then false else bytesLt as bs

/-- every path that can hold something: the nodes of the given trees (re-rooted) and all their prefixes -/
def candidates (groups : List (Path × Node)) (more : List Path) : List Path :=
  let ps := groups.flatMap (fun (base, t) => (nodesOf t).map fun it => base ++ it.2) ++ more
  (ps.flatMap prefixes).eraseDups

def dump (S : FS.State) (cands : List Path) : String :=
  let items := cands.filterMap fun p =>
    if p.isEmpty then none else
    match S p with
    | some .dir => some (Path.join p, Hex.encode (Path.join p) ++ "/")
    | some (.file d) => some (Path.join p, s!"{Hex.encode (Path.join p)}={Hex.encode d}")
    | none => none
  let items := items.mergeSort fun x y => !bytesLt y.1 x.1
  if items.isEmpty then "tree" else "tree " ++ " ".intercalate (items.map (·.2))

def showChunks (l : List (Bytes × Bool)) : String :=
  if l.isEmpty then "rd" else
  "rd " ++ ",".intercalate (l.map fun (c, e) => s!"{Hex.encode c}:{if e then "e" else "c"}")

/-! ### the cases -/

def dName : Path.Name := str "d"
def fName : Path.Name := str "f"
def xName : Path.Name := str "x"

def rootDir : FS.State := fun q => if q = [] then some .dir else none

def caseWr (args : List String) : Option String := do
  match args with
  | be :: old :: chunks =>
    let (kind, _, _) ← parseBackend be
    let chunks ← chunks.mapM Hex.decode
    let base : FS.State := fun q => if q = [dName] then some .dir else rootDir q
    let (S, p) ← (match old with
      | "absent" => some (base, [dName, fName])
      | "dir" => some ((fun q => if q = [dName, fName] then some .dir else base q), [dName, fName])
      | "noparent" => some (base, [xName, fName])
      | h => (Hex.decode h).map fun d => (put base [dName, fName] d, [dName, fName]))
    match (Dest.mk kind S).writer p chunks with
    | none => pure "err"
    | some D' =>
      match D'.st p with
      | some (.file d) => pure s!"ok {Hex.encode d}"
      | _ => pure "err"
  | _ => none

def parseChunks (s : String) : Option (List Bytes) :=
  if s = "_" then some [] else (s.splitOn ",").mapM Hex.decode

def caseWrq (args : List String) : Option String := do
  match args with
  | [be, old, mode, split, ca, cb] =>
    let (kind, _, _) ← parseBackend be
    if kind != .mem then none
    if mode != "w" ∧ mode != "c" then none
    let _ ← split.toNat?
    let ca ← parseChunks ca
    let cb ← parseChunks cb
    let base : FS.State := fun q => if q = [dName] then some .dir else rootDir q
    let (S, p) ← (match old with
      | "absent" => some (base, [dName, fName])
      | "dir" => some ((fun q => if q = [dName, fName] then some .dir else base q), [dName, fName])
      | "noparent" => some (base, [xName, fName])
      | h => (Hex.decode h).map fun d => (put base [dName, fName] d, [dName, fName]))
    match (Dest.mk kind S).writer p ca with
    | none => pure "err"
    | some D1 =>
      -- `c`: StreamCopy of one chunk stream; seen from the destination it is a writer of the same bytes
      match D1.writer p cb with
      | none => pure "err"
      | some D2 =>
        match D2.st p with
        | some (.file d) => pure s!"ok {Hex.encode d}"
        | _ => pure "err"
  | _ => none

def caseRd (args : List String) : Option String := do
  match args with
  | be :: data :: sizes =>
    let (_, style, _) ← parseBackend be
    let data ← Hex.decode data
    let sizes ← sizes.mapM String.toNat?
    pure (showChunks ((RHandle.open style data).reads sizes))
  | _ => none

/-- the locking discipline of a backend whose streams are memfs handles -/
def parseQBackend (s : String) : Option Disc :=
  match s with
  | "mem" => some Disc.memfs
  | "cache" => some Disc.memfs
  | "encmem" => some Disc.priv
  | "rcache" => some Disc.priv
  | _ => none

def parseSizesQ (s : String) : Option (List Nat) :=
  if s = "-" then some [] else (s.splitOn ",").mapM String.toNat?

def schedName : Phase → String
  | .idle => "wait"
  | .closed => "free"
  | .writing => "mid"

def caseRdq (args : List String) : Option String := do
  match args with
  | [be, old, split, sizes, chunks] =>
    let cfg ← parseQBackend be
    let old ← Hex.decode old
    let split ← split.toNat?
    let sizes ← parseSizesQ sizes
    let chunks ← parseChunks chunks
    let ws := 0 :: (List.replicate (min split sizes.length) 0 ++ [chunks.length + 2])
    let r := readerRun cfg ws sizes (Sys.init old [] chunks)
    pure s!"ok {schedName r.beforeClose.phase} {showChunks r.out} {Hex.encode r.fin.cell.content}"
  | _ => none

def caseScopyq (args : List String) : Option String := do
  match args with
  | [sb, db, old, dstold, split, sizes, chunks] =>
    let cfg ← parseQBackend sb
    let (kind, _, _) ← parseBackend db
    let old ← Hex.decode old
    let split ← split.toNat?
    let sizes ← parseSizesQ sizes
    let chunks ← parseChunks chunks
    let p : Path := [dName, fName]
    let dt0 ← Node.empty.mkdirs [dName]
    let dt ← (if dstold = "absent" then some dt0 else (Hex.decode dstold).bind (insertFile dt0 p))
    let dst : Dest := ⟨kind, stateOf dt⟩
    let s0 := Sys.init old [] chunks
    -- how many Reads the copy makes (a dry run without the rewriter), to place the rewriter's burst
    let nreads := (streamCopyRW cfg noFault sizes Calls.zero [] s0 dst p).1.calls .read
    let burst := chunks.length + 2
    let ws := List.replicate (1 + min split nreads) 0 ++ [burst]
    let o := streamCopyRW cfg noFault sizes Calls.zero ws s0 dst p
    -- is the rewriter held up by the copy's open reader
    let sched := schedName (wsteps cfg burst (openReader cfg s0)).phase
    let d := dump o.1.dst.st (candidates [([], dt)] [p])
    pure s!"{if o.1.ok then "ok" else "err"} {sched} {d} src={Hex.encode o.2.cell.content}"
  | _ => none

def caseScopy (args : List String) : Option String := do
  match args with
  | [sb, db, st, dt, p, sizes, fault] =>
    let (_, style, dirOpens) ← parseBackend sb
    let (kind, _, _) ← parseBackend db
    let st ← parseTree st
    let dt ← parseTree dt
    let p ← parsePath p
    let sizes ← parseSizes sizes
    let pl ← parseFault fault
    let o := streamCopy pl sizes Calls.zero ⟨style, stateOf st, dirOpens⟩ ⟨kind, stateOf dt⟩ p
    let d := dump o.dst.st (candidates [([], dt)] [p])
    pure ((if o.ok then "ok " else "err ") ++ d)
  | _ => none

def caseTcopy (args : List String) : Option String := do
  match args with
  | [sb, db, st, dt, sizes, fault, seed, extra] =>
    let (_, style, dirOpens) ← parseBackend sb
    let (kind, _, _) ← parseBackend db
    let st ← parseTree st
    let dt ← parseTree dt
    let sizes ← parseSizes sizes
    let pl ← parseFault fault
    let seed ← seed.toNat?
    let extra ← extra.toNat?
    let order := shuffle seed (nodesOf st)
    let o := treeCopy pl sizes extra Calls.zero ⟨style, stateOf st, dirOpens⟩ [] ⟨kind, stateOf dt⟩ [] order
    pure (if o.ok then "ok " ++ dump o.dst.st (candidates [([], dt), ([], st)] []) else "err")
  | _ => none

def caseCopier (args : List String) : Option String := do
  match args with
  | [sb, db, st, sp, dt, dp, sizes, fault, seed, extra] =>
    let (_, style, dirOpens) ← parseBackend sb
    let (kind, _, _) ← parseBackend db
    let st ← parseTree st
    let sp ← parsePath sp
    let dt ← parseTree dt
    let dp ← parsePath dp
    let sizes ← parseSizes sizes
    let pl ← parseFault fault
    let seed ← seed.toNat?
    let extra ← extra.toNat?
    let sub := (st.lookup sp).getD Node.empty
    let order := shuffle seed (nodesOf sub)
    let o := copierDo pl sizes extra Calls.zero ⟨style, stateOf st, dirOpens⟩ sp ⟨kind, stateOf dt⟩ dp order
    pure (if o.ok then "ok " ++ dump o.dst.st (candidates [([], dt), (dp, sub)] [dp]) else "err")
  | _ => none

def stepLine (line : String) : String :=
  let r := match line.splitOn " " with
    | "wr" :: args => caseWr args
    | "wrq" :: args => caseWrq args
    | "rdq" :: args => caseRdq args
    | "scopyq" :: args => caseScopyq args
    | "rd" :: args => caseRd args
    | "scopy" :: args => caseScopy args
    | "tcopy" :: args => caseTcopy args
    | "copier" :: args => caseCopier args
    | _ => none
  r.getD "bad-op"

partial def loop (inp out : IO.FS.Stream) : IO Unit := do
  let line ← inp.getLine
  if line.isEmpty then return ()
  let line := (line.dropEndWhile (fun c => c = '\n' || c = '\r')).toString
  if line.isEmpty || line.startsWith "#" then loop inp out else
  out.putStrLn (stepLine line)
  loop inp out

end StreamDrv

def main : IO Unit := do
  let out ← IO.getStdout
  StreamDrv.loop (← IO.getStdin) out
  out.flush
