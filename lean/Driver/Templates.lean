/-
Model driver for the `tmpl` line protocol (C19).  `m_tmpl` models the providers as they are;
`m_tmpl oldHandOut` / `m_tmpl oldKey` select the defective earlier revisions (see `Variant`).  One operation per input line, one result line each:

  new <html|text> <on|off>              fresh file tree and provider                      -> ok
  file <path> <root> <n>=<b>,…|- [bad]  write a template file (all fields hex, `-` = empty) -> ok
  dir <path>                            create a directory                                -> ok
  base [exec] | layout <l> [exec] | view <l> <v> [exec]
                                        -> defs <name>=<body>,… (sorted) | defs - | err
  lts <guard:0|1> <cached:0|1> <n> <i>,<i>,…   run the concurrency model on a schedule
                                        -> fatal | ok filled=<b> idle=<k>
Files ending in `.tpl` are template files for both providers.
-/
import Goat.Model.Templates
open Goat Goat.Tmpl

structure DSt where
  kind : Kind := Kind.html
  cached : Bool := true
  es : List Entry := []
  names : List Name := [rootName]
  st : St := St.init

def parseDefs (s : String) : Option (List (Name × Body)) :=
  if s = "-" then some [] else
  (s.splitOn ",").mapM fun kv =>
    match kv.splitOn "=" with
    | [k, v] => do
      let k ← Hex.decode k
      let v ← Hex.decode v
      pure (k, v)
    | _ => none

def endsWith (l suf : Bytes) : Bool := (l.reverse.take suf.length) == suf.reverse

def showAns (names : List Name) : Option TSet → String
  | none => "err"
  | some t =>
    let items := names.filterMap fun n => (t n).map fun b => s!"{Hex.encode n}={Hex.encode b}"
    let items := items.toArray.qsort (· < ·) |>.toList
    if items.isEmpty then "defs -" else s!"defs {",".intercalate items}"

def addNames (names : List Name) (ds : List (Name × Body)) : List Name :=
  ds.foldl (fun acc nb => if acc.contains nb.1 then acc else acc ++ [nb.1]) names

def doReq (V : Variant) (d : DSt) (r : Req) : DSt × String :=
  let (a, s') := step V d.kind (srcOf d.es) d.cached d.st r
  ({ d with st := s' }, showAns d.names a)

def showSys (s : Sys) : String :=
  if s.fatal then "fatal" else s!"ok filled={s.filled} idle={(s.pcs.filter (· == PC.idle)).length}"

def stepLine (V : Variant) (d : DSt) (line : String) : DSt × String :=
  let isExec (rest : List String) : Option Bool :=
    match rest with
    | [] => some false
    | ["exec"] => some true
    | _ => none
  match line.splitOn " " with
  | ["new", k, c] =>
    match (if k = "html" then some Kind.html else if k = "text" then some Kind.text else none),
          (if c = "on" then some true else if c = "off" then some false else none) with
    | some k, some c => ({ kind := k, cached := c }, "ok")
    | _, _ => (d, "bad-op")
  | "file" :: p :: root :: defs :: rest =>
    match Hex.decode p, Hex.decode root, parseDefs defs,
          (match rest with | [] => some false | ["bad"] => some true | _ => none) with
    | some p, some root, some defs, some bad =>
      let segs := segments p
      let f : File := { tmpl := endsWith (segs.getLast?.getD []) (str ".tpl"), defines := defs, root := root, bad := bad }
      ({ d with es := writeEntry d.es segs (some f), names := addNames d.names defs }, "ok")
    | _, _, _, _ => (d, "bad-op")
  | ["dir", p] =>
    match Hex.decode p with
    | some p => ({ d with es := writeEntry d.es (segments p) none }, "ok")
    | none => (d, "bad-op")
  | "base" :: rest =>
    match isExec rest with
    | some e => doReq V d (Req.base e)
    | none => (d, "bad-op")
  | "layout" :: l :: rest =>
    match Hex.decode l, isExec rest with
    | some l, some e => doReq V d (Req.layout l e)
    | _, _ => (d, "bad-op")
  | "view" :: l :: v :: rest =>
    match Hex.decode l, Hex.decode v, isExec rest with
    | some l, some v, some e => doReq V d (Req.view l v e)
    | _, _, _ => (d, "bad-op")
  | ["lts", g, c, n, sched] =>
    match n.toNat?, (if sched = "-" then some [] else (sched.splitOn ",").mapM String.toNat?) with
    | some n, some sched => (d, showSys (Sys.run (g = "1") (c = "1") (Sys.init n) sched))
    | _, _ => (d, "bad-op")
  | _ => (d, "bad-op")

partial def loop (V : Variant) (inp out : IO.FS.Stream) (d : DSt) : IO Unit := do
  let line ← inp.getLine
  if line.isEmpty then return ()
  let line := (line.dropEndWhile (fun c => c = '\n' || c = '\r')).toString
  if line.isEmpty || line.startsWith "#" then loop V inp out d else
  let (d', res) := stepLine V d line
  out.putStrLn res
  loop V inp out d'

def main (args : List String) : IO Unit := do
  let V : Variant := { cloneOut := !args.contains "oldHandOut", pairKey := !args.contains "oldKey" }
  let out ← IO.getStdout
  loop V (← IO.getStdin) out {}
  out.flush
