/-
Model driver of the `views` family (property C03): executable `m_views`, Go twin
`/verif/harness/cmd/views`.  Built on `Driver/FSCore.lean` (protocol) and `Goat/Model/Views.lean` (the
view-stack model).  A bound filespace is a stack of layers over a bottom:

  bottoms   mem             the memory filespace model (exact)
            spy             records every call that reaches it (word and path arguments) and fails it
            opaque          a disk root, or anything at or above a write-back cache: what the stack hands
                            down is modelled, the answers of the bottom are not
  kinds     wrap <fs> <hexpath> | sub <fs> <hexpath> | ro <fs> | enc <fs> <cipher> | cache <fs> | disk | spy
  words     guard <g> <part>…      baseline of everything outside a root  (fs:<fs>:<hexroot> parts over a
                                    predictable filespace are really walked; host:… and opaque parts are not)
            chk <g>                 -> same | CHANGED
            calls <spy>             -> calls <word>:<hexpath>[:<hexpath>],…
            q <fs> <word> <arg>…    -> refused (a layer of the stack refuses: climbing path, removal of the
                                       view's root, mutation through a read-only mask) | any (handed down to an
                                       opaque bottom) | refused / done (predictable bottom: the projected answer)
  `view` on an opaque stack is answered optimistically (`ok` whenever no layer refuses): a disk root opens a
  view only on an existing directory, which the model cannot know — the check tolerates exactly that.
-/
import Driver.FSCore
import Driver.FSMem
import Goat.Model.Views
open Goat Goat.FS Goat.Views

namespace ViewsDrv
open FSDrv

inductive Bot where
  | mem (i : Nat)
  | spy (i : Nat)
  | opaque

structure Backend where
  bot : Bot
  stack : List Layer := []
  /-- a `*fscache.Cache` sits below the first `above` layers of `stack` -/
  above : Option Nat := none

def Backend.isOpaque (b : Backend) : Bool :=
  b.above.isSome || (match b.bot with | .opaque => true | _ => false)

/-- the layers whose refusals are predictable: all of them, or those above the nearest cache -/
def Backend.upper (b : Backend) : List Layer :=
  match b.above with
  | some k => b.stack.take k
  | none => b.stack

def Backend.push (b : Backend) (l : Layer) : Backend :=
  { b with stack := l :: b.stack, above := b.above.map (· + 1) }

structure GuardPart where
  backend : Backend
  root : List Bytes
  base : List String
  /-- directories of the view's own root path (root and ancestors) that existed at the baseline -/
  baseRoot : List String := []

structure World where
  mem : MemWorld := #[]
  spies : Array (List String) := #[]
  guards : List (Nat × List GuardPart) := []

/-! ### bottoms -/

def opWord : Op → String
  | .copy _ _ => "copy" | .copyDirectory _ _ => "copydir" | .copyFile _ _ => "copyfile"
  | .readDir _ => "readdir" | .isExist _ => "isexist" | .isFile _ => "isfile" | .isDir _ => "isdir"
  | .mkdirAll _ => "mkdir" | .readFile _ => "readfile" | .writeFile _ _ => "write"
  | .filespace _ => "view" | .reader _ _ => "reader" | .writer _ _ => "writer"
  | .remove _ => "remove" | .removeAll _ => "removeall" | .lstat _ => "lstat"

def opArgs : Op → List Bytes
  | .copy s d | .copyDirectory s d | .copyFile s d => [s, d]
  | .readDir p | .isExist p | .isFile p | .isDir p | .mkdirAll p | .readFile p | .writeFile p _
  | .filespace p | .reader p _ | .writer p _ | .remove p | .removeAll p | .lstat p => [p]

/-- the spy: the log of calls; every call fails -/
def spyBottom : Bottom (List String) where
  step := fun log op => (log ++ [":".intercalate (opWord op :: (opArgs op).map Hex.encode)], failResult op)
  view := fun _ _ => none

/-- an opaque bottom: never executed for its answers; `IsDir` is answered optimistically so that a view of a
disk root can be opened in the model whenever the path plumbing allows it; `cache` = its own `Filespace()`
is a cache child -/
def opaqueBottom (cache : Bool) : Bottom Unit where
  step := fun _ op => ((), match op with | .isDir _ => .bool true | _ => failResult op)
  view := fun _ raw => if cache then some (newCacheChild raw) else none

/-! ### interface calls -/

def applyOp (w : World) (b : Backend) (op : Op) : World × Result :=
  match b.bot with
  | .mem i =>
    let (t, r) := Views.step memBottom b.stack w.mem[i]! op
    ({ w with mem := w.mem.set! i t }, r)
  | .spy i =>
    let (log, r) := Views.step spyBottom b.stack w.spies[i]! op
    ({ w with spies := w.spies.set! i log }, r)
  | .opaque => (w, (Views.step (opaqueBottom false) b.stack () op).2)

def openViewB (w : World) (b : Backend) (raw : Bytes) : Option Backend :=
  match b.above with
  | some k =>
    -- everything from the cache downwards is the bottom of the upper layers
    (Views.openView (opaqueBottom true) () (b.stack.take k) raw).map fun up =>
      { b with stack := up ++ b.stack.drop k, above := some up.length }
  | none =>
    match b.bot with
    | .mem i => (Views.openView memBottom w.mem[i]! b.stack raw).map fun st => { b with stack := st }
    | .spy i => (Views.openView spyBottom w.spies[i]! b.stack raw).map fun st => { b with stack := st }
    | .opaque => (Views.openView (opaqueBottom false) () b.stack raw).map fun st => { b with stack := st }

/-- the part of the implementation record the generic `dump` needs -/
def implCore : Impl World Backend where
  init := {}
  newFS := fun _ _ _ _ => none
  applyOp := applyOp
  openView := openViewB

/-! ### guard / chk -/

def segsOfPath (p : Bytes) : List Bytes := (Path.split p).filter (· ≠ [])

def strictlyUnder (segs root : List Bytes) : Bool :=
  root.length < segs.length && segs.take root.length == root

def onRootPath (segs root : List Bytes) : Bool :=
  segs.length ≤ root.length && root.take segs.length == segs

/-- entries of `dump` that are NOT strictly under the root, split into (outside, directories of the view's own
root path).  The latter may appear (a view opened on a missing path creates it on the first write: "resolved
inside the root"), they must never disappear or turn into files. -/
def outsideEntries (w : World) (b : Backend) (root : List Bytes) : World × List String × List String :=
  let (w, d) := dumpFS implCore w b
  let toks := (d.splitOn " ").drop 1
  let classify (tok : String) : Nat :=   -- 0 inside, 1 outside, 2 root path
    let hexPart := String.ofList (tok.toList.takeWhile fun c => c != '/' && c != '=' && c != '!')
    match Hex.decode hexPart with
    | some p =>
      let segs := segsOfPath p
      if strictlyUnder segs root then 0
      else if tok.endsWith "/" && onRootPath segs root then 2
      else 1
    | none => 1
  (w, toks.filter (classify · == 1), toks.filter (classify · == 2))

def parsePart (lookup : Nat → Option Backend) (tok : String) : Option (Option (Bool × Backend × List Bytes)) :=
  -- none = bad-op, some none = nofs, some (some (isHost, backend, root))
  match tok.splitOn ":" with
  | [k, id, root] =>
    if k != "fs" && k != "host" then none else
    match id.toNat?, Hex.decode root with
    | some id, some root =>
      match lookup id with
      | none => some none
      | some b => some (some (k == "host", b, segsOfPath root))
    | _, _ => none
  | _ => none

def snapPart (w : World) (p : GuardPart) : World × List String × List String :=
  if p.backend.isOpaque then (w, [], []) else outsideEntries w p.backend p.root

def cmdGuard (w : World) (lookup : Nat → Option Backend) (args : List String) : World × String :=
  match args with
  | g :: parts =>
    if parts.isEmpty then (w, "bad-op") else
    match g.toNat?, parts.mapM (parsePart lookup) with
    | some g, some ps =>
      if ps.any Option.isNone then (w, "nofs") else
      let (w, gps) := ps.foldl (init := (w, ([] : List GuardPart))) fun (w, acc) p =>
        match p with
        | some (isHost, b, root) =>
          let gp : GuardPart := { backend := if isHost then { b with bot := .opaque } else b, root := root, base := [] }
          let (w, snap, rootPath) := snapPart w gp
          (w, acc ++ [{ gp with base := snap, baseRoot := rootPath }])
        | none => (w, acc)
      ({ w with guards := (g, gps) :: w.guards.filter (·.1 != g) }, "ok")
    | _, _ => (w, "bad-op")
  | [] => (w, "bad-op")

def cmdChk (w : World) (args : List String) : World × String :=
  match args with
  | [g] =>
    match g.toNat? with
    | none => (w, "bad-op")
    | some g =>
      match w.guards.find? (·.1 == g) with
      | none => (w, "none")
      | some (_, gps) =>
        let (w, same) := gps.foldl (init := (w, true)) fun (w, ok) gp =>
          let (w, snap, rootPath) := snapPart w gp
          (w, ok && snap == gp.base && gp.baseRoot.all rootPath.contains)
        (w, if same then "same" else "CHANGED")
  | _ => (w, "bad-op")

/-! ### q / qview -/

def project : Result → String
  | .err => "refused"
  | .bool false => "refused"
  | _ => "done"

def knownCall (word : String) (nargs : Nat) : Bool :=
  match word with
  | "write" | "copy" | "copyfile" | "copydir" => nargs == 2
  | "writer" | "reader" => nargs >= 1
  | "mkdir" | "remove" | "removeall" | "readfile" | "readdir" | "isexist" | "isfile" | "isdir" | "lstat" => nargs == 1
  | _ => false

def cmdQ (w : World) (lookup : Nat → Option Backend) (args : List String) : World × String :=
  match args with
  | fs :: word :: rest =>
    match fs.toNat? with
    | none => (w, "bad-op")
    | some id =>
      match lookup id with
      | none => (w, if knownCall word rest.length then "nofs" else "bad-op")
      | some b =>
        match parseOp word rest with
        | none => (w, "bad-op")
        | some (op, _) =>
          if b.isOpaque then
            (w, if (downAll b.upper op).isSome then "any" else "refused")
          else
            let (w, r) := applyOp w b op
            (w, project r)
  | _ => (w, "bad-op")

def impl : Impl World Backend where
  init := {}
  newFS := fun w lookup kind args =>
    let inner (tok : String) : Option Backend := tok.toNat?.bind lookup
    match kind, args with
    | "mem", [] => let (m, h) := memNew w.mem; some ({ w with mem := m }, some { bot := .mem h.store })
    | "spy", [] => some ({ w with spies := w.spies.push [] }, some { bot := .spy w.spies.size })
    | "disk", [] => some (w, some { bot := .opaque, stack := [newDisk (str "/host/root")] })
    | "wrap", [fs, p] =>
      match inner fs, Hex.decode p with
      | some b, some p => some (w, (newWrapper p).map b.push)
      | _, _ => none
    | "sub", [fs, p] =>
      match inner fs, Hex.decode p with
      | some b, some p => some (w, some (b.push (newSubFS p)))
      | _, _ => none
    | "ro", [fs] => (inner fs).map fun b => (w, some (b.push newReadOnly))
    | "enc", [fs, c] =>
      if c != "id" && c != "aes" && c != "ext" then none else
      (inner fs).map fun b => (w, some (b.push newEncrypted))
    | "cache", [fs] => (inner fs).map fun b => (w, some { b with above := some 0 })
    | _, _ => none
  applyOp := applyOp
  openView := openViewB
  command := fun w lookup word args =>
    match word with
    | "guard" => some (cmdGuard w lookup args)
    | "chk" => some (cmdChk w args)
    | "calls" =>
      match args with
      | [fs] =>
        match fs.toNat? with
        | none => some (w, "bad-op")
        | some id =>
          match lookup id with
          | none => some (w, "nofs")
          | some b =>
            match b.bot, b.stack, b.above with
            | .spy i, [], none =>
              let log := w.spies[i]!
              some ({ w with spies := w.spies.set! i [] },
                if log.isEmpty then "calls" else "calls " ++ ",".intercalate log)
            | _, _, _ => some (w, "bad-op")
      | _ => some (w, "bad-op")
    | "q" => some (cmdQ w lookup args)
    | _ => none

end ViewsDrv

def main : IO Unit := FSDrv.runMain ViewsDrv.impl
