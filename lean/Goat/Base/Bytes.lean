/-
Bytes and the hex wire format shared by every line protocol (Appendix A of DESIGN.md):
byte strings travel as lower-case hex, the empty string as `-`.
Core Lean only.
-/
namespace Goat

abbrev Byte := UInt8
abbrev Bytes := List Byte

namespace Hex

def digit (n : Nat) : Char :=
  if n < 10 then Char.ofNat (48 + n) else Char.ofNat (87 + n)

def encode (b : Bytes) : String :=
  if b.isEmpty then "-" else
  String.ofList (b.flatMap fun x => [digit (x.toNat / 16), digit (x.toNat % 16)])

def val (c : Char) : Option Nat :=
  if '0' ≤ c ∧ c ≤ '9' then some (c.toNat - 48)
  else if 'a' ≤ c ∧ c ≤ 'f' then some (c.toNat - 87)
  else none

def decodeChars : List Char → Option Bytes
  | [] => some []
  | [_] => none
  | a :: b :: rest => do
    let x ← val a
    let y ← val b
    let r ← decodeChars rest
    pure (UInt8.ofNat (x * 16 + y) :: r)

def decode (s : String) : Option Bytes :=
  if s = "-" then some [] else decodeChars s.toList

end Hex

/-- bytes of an ASCII/UTF-8 string literal -/
def str (s : String) : Bytes := s.toUTF8.toList

end Goat
