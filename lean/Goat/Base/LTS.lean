/-
Base/LTS — the small labelled-transition-system kit shared by the schedule-quantified
properties (DESIGN section 2).  Core Lean only.

A system has a state type `σ`, a type `ι` of scheduling choices ("which thread moves", "which
nondeterministic alternative is taken") and a partial step function: `step s i = none` means that
choice `i` is *disabled* in `s` (the thread is blocked on a lock, has finished, does not exist…).
A schedule is any `List ι`; running it takes the enabled choices and skips the disabled ones, so
"for all schedules" is "for all lists", of any length, over any number of threads.
-/
namespace Goat.LTS

structure Sys (σ : Type) (ι : Type) where
  init : σ
  step : σ → ι → Option σ

variable {σ ι : Type}

/-- one scheduling decision: take the step if enabled, otherwise nothing happens -/
def Sys.next (S : Sys σ ι) (s : σ) (i : ι) : σ := (S.step s i).getD s

/-- run a schedule from a state -/
def Sys.runFrom (S : Sys σ ι) (s : σ) (sched : List ι) : σ := sched.foldl S.next s

/-- run a schedule from the initial state -/
def Sys.run (S : Sys σ ι) (sched : List ι) : σ := S.runFrom S.init sched

/-- the choices of a schedule that were enabled when their turn came (the actions that occurred),
each with the state it was taken from -/
def Sys.firedFrom (S : Sys σ ι) : σ → List ι → List (σ × ι)
  | _, [] => []
  | s, i :: rest =>
    match S.step s i with
    | some t => (s, i) :: S.firedFrom t rest
    | none => S.firedFrom s rest

def Sys.fired (S : Sys σ ι) (sched : List ι) : List (σ × ι) := S.firedFrom S.init sched

inductive Reachable (S : Sys σ ι) : σ → Prop where
  | init : Reachable S S.init
  | step {s t : σ} (i : ι) : Reachable S s → S.step s i = some t → Reachable S t

/-- no choice is enabled -/
def Stuck (S : Sys σ ι) (s : σ) : Prop := ∀ i, S.step s i = none

/-- the induction principle every invariant proof uses -/
theorem inv_of_init_step (S : Sys σ ι) (Inv : σ → Prop) (h0 : Inv S.init)
    (hstep : ∀ s i t, Inv s → S.step s i = some t → Inv t) :
    ∀ s, Reachable S s → Inv s := by
  intro s h
  induction h with
  | init => exact h0
  | step i _ hs ih => exact hstep _ i _ ih hs

theorem next_reachable (S : Sys σ ι) {s : σ} (h : Reachable S s) (i : ι) : Reachable S (S.next s i) := by
  unfold Sys.next
  cases hs : S.step s i with
  | none => exact h
  | some t => exact Reachable.step i h hs

theorem runFrom_reachable (S : Sys σ ι) {s : σ} (h : Reachable S s) (sched : List ι) :
    Reachable S (S.runFrom s sched) := by
  induction sched generalizing s with
  | nil => exact h
  | cons i rest ih => exact ih (next_reachable S h i)

/-- every state produced by a schedule is reachable -/
theorem run_reachable (S : Sys σ ι) (sched : List ι) : Reachable S (S.run sched) :=
  runFrom_reachable S Reachable.init sched

/-- an invariant holds after every schedule -/
theorem inv_run (S : Sys σ ι) (Inv : σ → Prop) (h0 : Inv S.init)
    (hstep : ∀ s i t, Inv s → S.step s i = some t → Inv t) (sched : List ι) : Inv (S.run sched) :=
  inv_of_init_step S Inv h0 hstep _ (run_reachable S sched)

theorem runFrom_nil (S : Sys σ ι) (s : σ) : S.runFrom s [] = s := rfl

theorem runFrom_cons (S : Sys σ ι) (s : σ) (i : ι) (rest : List ι) :
    S.runFrom s (i :: rest) = S.runFrom (S.next s i) rest := rfl

theorem runFrom_append (S : Sys σ ι) (s : σ) (a b : List ι) :
    S.runFrom s (a ++ b) = S.runFrom (S.runFrom s a) b := by
  simp [Sys.runFrom, List.foldl_append]

/-- every recorded action was taken from a reachable state in which it was enabled -/
theorem firedFrom_sound (S : Sys σ ι) {s0 : σ} (h0 : Reachable S s0) (sched : List ι) :
    ∀ p ∈ S.firedFrom s0 sched, Reachable S p.1 ∧ ∃ t, S.step p.1 p.2 = some t := by
  induction sched generalizing s0 with
  | nil => intro p hp; simp [Sys.firedFrom] at hp
  | cons i rest ih =>
    intro p hp
    simp only [Sys.firedFrom] at hp
    cases hs : S.step s0 i with
    | none =>
      rw [hs] at hp
      exact ih h0 p hp
    | some t =>
      rw [hs] at hp
      rcases List.mem_cons.mp hp with hp | hp
      · subst hp
        exact ⟨h0, t, hs⟩
      · exact ih (Reachable.step i h0 hs) p hp

theorem fired_sound (S : Sys σ ι) (sched : List ι) :
    ∀ p ∈ S.fired sched, Reachable S p.1 ∧ ∃ t, S.step p.1 p.2 = some t :=
  firedFrom_sound S Reachable.init sched

end Goat.LTS
