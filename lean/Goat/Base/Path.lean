/-
Path handling of goatcore on byte strings (core Lean only; linked into the `m_fs` driver).

Executable mirrors of
  * Go `strings.Split(s, "/")`                     → `Path.split`
  * Go `strings.Join(segs, "/")`                   → `Path.join`
  * `varutil.ReduceAbsPath` (/repo/varutil/paths.go) → `Path.reduceAbsPath`
      (its loop over the segments is `Path.reduceGo`; `Path.norm` is the same result kept as a
       segment list — the *normal form* every filespace model works with)
  * Go `path.Clean` (segment-level state machine)    → `Path.clean`
  * `varutil.CleanPath`                             → `Path.cleanPath`

`path.Clean` is a standard-library function: it is *modelled* here and validated against the real
one by the `fs` correspondence (`pathenum`, all strings up to a bound over `{a . /}`).

Lemmas (`reduce_plain`, `reduce_idem`, `reduce_eq_walk`, `reduce_append`, `split_join`, …) are in
`Goat/Proofs/Path.lean`.
-/
import Goat.Base.Bytes

namespace Goat
namespace Path

/-- a path segment / node name -/
abbrev Name := Bytes

def slash : Byte := 47
def dot : Byte := 46

/-- first segment and remaining segments of `strings.Split(s, "/")` -/
def splitHT : Bytes → Bytes × List Bytes
  | [] => ([], [])
  | c :: rest =>
    let r := splitHT rest
    if c = slash then ([], r.1 :: r.2) else (c :: r.1, r.2)

/-- `strings.Split(s, "/")`: never empty, `split "" = [""]`, `split "a//b/" = ["a","","b",""]` -/
def split (s : Bytes) : List Bytes := (splitHT s).1 :: (splitHT s).2

/-- `strings.Join(segs, "/")` -/
def join : List Bytes → Bytes
  | [] => []
  | [s] => s
  | s :: s' :: rest => s ++ slash :: join (s' :: rest)

def dotSeg : Name := [dot]
def dotdotSeg : Name := [dot, dot]

/-- a real node name: not `""`, `.` or `..` (it may still contain any other bytes; names produced
by `split` never contain `/`) -/
def Plain (s : Name) : Prop := s ≠ [] ∧ s ≠ dotSeg ∧ s ≠ dotdotSeg

instance (s : Name) : Decidable (Plain s) := by unfold Plain; exact inferInstance

/-- The loop of `varutil.ReduceAbsPath` over the split segments.  `acc` is the result stack
(`resultNodes[:resultLen]`) kept reversed: its head is the top of the stack.  `none` is the error
"break isolation space". -/
def reduceGo : List Name → List Name → Option (List Name)
  | [], acc => some acc.reverse
  | s :: rest, acc =>
    if s = [] ∨ s = dotSeg then reduceGo rest acc
    else if s = dotdotSeg then
      match acc with
      | [] => none
      | _ :: acc' => reduceGo rest acc'
    else reduceGo rest (s :: acc)

/-- reduction of a segment list from the empty stack -/
def reduceSegs (segs : List Name) : Option (List Name) := reduceGo segs []

/-- normal form of a raw path string: the reduced segment list (`none` = climbs above the root) -/
def norm (p : Bytes) : Option (List Name) := reduceSegs (split p)

/-- `varutil.ReduceAbsPath` -/
def reduceAbsPath (p : Bytes) : Option Bytes := (norm p).map join

/-! ### `path.Clean` and `varutil.CleanPath` -/

/-- element loop of `path.Clean` on segments; `out` is the output stack, reversed.  In the
non-rooted case the stack is a run of `..` below real names, so "cannot backtrack" (`out.w ≤ dotdot`
in the Go code) is "stack empty or its top is `..`". -/
def cleanGo (rooted : Bool) : List Name → List Name → List Name
  | [], out => out.reverse
  | s :: rest, out =>
    if s = [] ∨ s = dotSeg then cleanGo rooted rest out
    else if s = dotdotSeg then
      match out with
      | [] => if rooted then cleanGo rooted rest [] else cleanGo rooted rest [dotdotSeg]
      | top :: out' =>
        if top = dotdotSeg then cleanGo rooted rest (dotdotSeg :: top :: out')
        else cleanGo rooted rest out'
    else cleanGo rooted rest (s :: out)

/-- Go `path.Clean` -/
def clean (p : Bytes) : Bytes :=
  match p with
  | [] => dotSeg
  | c :: _ =>
    let rooted := c = slash
    let body := join (cleanGo rooted (split p) [])
    if rooted then slash :: body
    else if body = [] then dotSeg else body

/-- `varutil.CleanPath`: `path.Clean` then one leading `/` dropped -/
def cleanPath (p : Bytes) : Bytes :=
  match clean p with
  | c :: rest => if c = slash then rest else c :: rest
  | [] => []

end Path
end Goat
