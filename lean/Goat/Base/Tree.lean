/-
The concrete file tree used by the in-memory filespace model (core Lean only).

  `Node` = `file data` | `dir kids`,  `Kids` = ordered list of `(name, node)` (mutual inductive,
  not nested: functions that descend recurse structurally on the *path*; lemmas about `Kids` go
  through `fun_induction` because the `induction` tactic rejects mutual types).

The order of `Kids` is the order of `Dir.nodes` in /repo/filesystem/filespace/memfs/dir.go:
insertion order, `ReadDir` returns it, removal closes the gap.

Primitives (each mirrors one helper of memfs):
  `Kids.find`    `Dir.getNode` (the `index` map)
  `Kids.add`     `Dir.addNode`         append, error when the name exists
  `Kids.set`     replace in place when the name exists (a `*File`/`*Dir` mutated through its
                 pointer keeps its position), append otherwise
  `Kids.erase`   `Dir.removeNodeByName`
  `Node.lookup`  walk along a list of names
  `Node.mkdirs`  `mkdirAllNodes`       create missing directories along a path
  `Node.update`  "obtain the `*Dir` at a path, then change its children": every mutation of memfs is
                 `update` of the parent directory with a function on its `Kids`
Predicates: `Node.All P` (every name in the tree satisfies `P`), `Node.NoDup` (sibling names are
unique), `Node.WF` = both with `P = Path.Plain`.  Lemmas are in `Goat/Proofs/Tree.lean`.
-/
import Goat.Base.Path

namespace Goat

open Path (Name)

mutual
inductive Node where
  | file (d : Bytes)
  | dir (k : Kids)
inductive Kids where
  | nil
  | cons (name : Name) (n : Node) (rest : Kids)
end

instance : Inhabited Node := ⟨.dir .nil⟩
instance : Inhabited Kids := ⟨.nil⟩

namespace Node
def isDir : Node → Bool
  | .dir _ => true
  | .file _ => false

/-- the empty directory -/
def empty : Node := .dir .nil
end Node

namespace Kids

/-- `Dir.getNode` -/
def find : Kids → Name → Option Node
  | .nil, _ => none
  | .cons n x rest, m => if n = m then some x else find rest m

/-- replace the child named `m` where it stands, or append it at the end -/
def set : Kids → Name → Node → Kids
  | .nil, m, x => .cons m x .nil
  | .cons n y rest, m, x => if n = m then .cons n x rest else .cons n y (set rest m x)

/-- `Dir.addNode`: append; `none` = "node named … exists" -/
def add (k : Kids) (m : Name) (x : Node) : Option Kids :=
  match k.find m with
  | some _ => none
  | none => some (k.set m x)

/-- `Dir.removeNodeByName` of the first child with that name (the rest keeps its order) -/
def erase : Kids → Name → Kids
  | .nil, _ => .nil
  | .cons n y rest, m => if n = m then rest else .cons n y (erase rest m)

def isEmpty : Kids → Bool
  | .nil => true
  | .cons .. => false

def toList : Kids → List (Name × Node)
  | .nil => []
  | .cons n x rest => (n, x) :: toList rest

/-- the listing `ReadDir` hands out, observed as `(Name, IsDir)` in order -/
def entries : Kids → List (Name × Bool)
  | .nil => []
  | .cons n x rest => (n, x.isDir) :: entries rest

def names : Kids → List Name
  | .nil => []
  | .cons n _ rest => n :: names rest

end Kids

namespace Node

/-- walk along a list of names; `[]` is the node itself -/
def lookup : Node → List Name → Option Node
  | n, [] => some n
  | .file _, _ :: _ => none
  | .dir k, s :: rest =>
    match k.find s with
    | none => none
    | some c => c.lookup rest

/-- `mkdirAllNodes(d, path, mode)` on the directory `d`: every step is `Dir.mkdir` — reuse an existing
directory, fail on a file, append a new empty directory otherwise.  The result is the changed `d`
(the Go function returns the pointer to the last directory; the model re-reads it with `lookup`). -/
def mkdirs : Node → List Name → Option Node
  | .file _, _ => none
  | .dir k, [] => some (.dir k)
  | .dir k, s :: rest =>
    match k.find s with
    | none =>
      match empty.mkdirs rest with
      | none => none
      | some c' => some (.dir (k.set s c'))
    | some c =>
      match c.mkdirs rest with
      | none => none
      | some c' => some (.dir (k.set s c'))

/-- change the children of the directory at `path` by `f`; `none` when `path` is not an existing
directory or `f` refuses -/
def update : Node → List Name → (Kids → Option Kids) → Option Node
  | .file _, _, _ => none
  | .dir k, [], f =>
    match f k with
    | none => none
    | some k' => some (.dir k')
  | .dir k, s :: rest, f =>
    match k.find s with
    | none => none
    | some c =>
      match c.update rest f with
      | none => none
      | some c' => some (.dir (k.set s c'))

end Node

/-! ### Predicates -/

mutual
/-- every name occurring in the tree satisfies `P` -/
def Node.All (P : Name → Prop) : Node → Prop
  | .file _ => True
  | .dir k => Kids.All P k
def Kids.All (P : Name → Prop) : Kids → Prop
  | .nil => True
  | .cons n x rest => P n ∧ Node.All P x ∧ Kids.All P rest
end

mutual
/-- sibling names are unique in every directory of the tree -/
def Node.NoDup : Node → Prop
  | .file _ => True
  | .dir k => Kids.NoDup k
def Kids.NoDup : Kids → Prop
  | .nil => True
  | .cons n x rest => rest.find n = none ∧ Node.NoDup x ∧ Kids.NoDup rest
end

/-- well-formed tree: unique sibling names, every name is a real name -/
def Node.WF (t : Node) : Prop := t.NoDup ∧ t.All Path.Plain

/-! ### The full walk (what `dump` prints) -/

mutual
/-- all nodes below a directory as `(path segments, none | some data)`, pre-order -/
def Node.walk (pre : List Name) : Node → List (List Name × Option Bytes)
  | .file d => [(pre, some d)]
  | .dir k => (pre, none) :: Kids.walk pre k
def Kids.walk (pre : List Name) : Kids → List (List Name × Option Bytes)
  | .nil => []
  | .cons n x rest => Node.walk (pre ++ [n]) x ++ Kids.walk pre rest
end

end Goat
