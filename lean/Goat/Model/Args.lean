/-
Model of `varutil.ReadArguments` (/repo/varutil/arguments.go) and of
`argscope.SeparateArgs` / `argscope.InjectArgs` (/repo/app/scope/argscope).

The reader is a byte-at-a-time state machine.  The model consumes a byte list and returns what
the Go function returns *and* the bytes it left unread in the reader (`rest`), because the
property says that reading stops exactly at the command's newline.

`args[len(args)-1]` on an empty slice is the explicit `panic` outcome: it is not totalised away,
`Props/C17.total_no_panic` proves it unreachable.
Core Lean only (this file is linked into the `m_args` driver).
-/
import Goat.Base.Bytes

namespace Goat.Args

def sp : Byte := 32
def tab : Byte := 9
def nl : Byte := 10
def dq : Byte := 34
def bs : Byte := 92
def lt : Byte := 60
def eq : Byte := 61

inductive Outcome where
  | ok (args : List Bytes) (eof : Bool) (rest : Bytes)
  | err (eofSeen : Bool) (rest : Bytes)
  | panic
deriving Repr, DecidableEq

/-- `args` is `done ++ [cur]` when an argument has been opened; `esc`/`sep` are the Go flags
`isEscaped` / `isSeparated`. -/
structure St where
  done : List Bytes
  cur  : Option Bytes
  esc  : Bool
  sep  : Bool
deriving Repr

def St.args (s : St) : List Bytes :=
  match s.cur with
  | none => s.done
  | some c => s.done ++ [c]

/-- `if isSeparated { args = append(args, "") }` (the flag itself is not cleared here). -/
def St.open (s : St) : St :=
  if s.sep then { s with done := s.args, cur := some [] } else s

def isLetter (b : Byte) : Bool := (97 ≤ b && b ≤ 122) || (65 ≤ b && b ≤ 90) || b == 95

/-- `strings.HasSuffix` -/
def endsWith (l suf : Bytes) : Bool := (l.reverse.take suf.length) == suf.reverse

def isBlank (b : Byte) : Bool := b == sp || b == tab

/-- `strings.Trim(value, " \t")` -/
def trimBlank (l : Bytes) : Bytes :=
  ((l.dropWhile isBlank).reverse.dropWhile isBlank).reverse

/-- heredoc marker line: letters and `_` are collected, blanks skipped, anything else is an
error; stops at the newline.  `Except.error e`: `e` = "reader hit EOF". -/
def tagLine : Bytes → Bytes → Except Bool (Bytes × Bytes)
  | _, [] => .error true
  | tag, ch :: rest =>
    if ch = nl then .ok (tag, rest)
    else if isLetter ch then tagLine (tag ++ [ch]) rest
    else if ch ≠ sp ∧ ch ≠ tab then .error false
    else tagLine tag rest

/-- heredoc body: bytes are accumulated until the value ends with `"\n" ++ tag`. -/
def bodyLoop (marker : Bytes) : Bytes → Bytes → Option (Bytes × Bytes)
  | _, [] => none
  | value, ch :: rest =>
    let v := value ++ [ch]
    if endsWith v marker then some (v.take (v.length - marker.length), rest)
    else bodyLoop marker v rest

theorem tagLine_rest_le : ∀ (tag inp : Bytes) {t r}, tagLine tag inp = .ok (t, r) → r.length < inp.length + 1 := by
  intro tag inp
  induction inp generalizing tag with
  | nil => intro t r h; simp [tagLine] at h
  | cons ch rest ih =>
    intro t r h
    unfold tagLine at h
    split at h
    · cases h; simp; omega
    · split at h
      · have := ih _ h; simp; omega
      · split at h
        · cases h
        · have := ih _ h; simp; omega

theorem bodyLoop_rest_le (marker : Bytes) : ∀ (v inp : Bytes) {x r}, bodyLoop marker v inp = some (x, r) → r.length < inp.length + 1 := by
  intro v inp
  induction inp generalizing v with
  | nil => intro x r h; simp [bodyLoop] at h
  | cons ch rest ih =>
    intro x r h
    unfold bodyLoop at h
    simp only at h
    split at h
    · cases h; simp; omega
    · have := ih _ h; simp; omega

mutual
def mainLoop : St → Bytes → Outcome
  | s, [] => .ok s.args true []
  | s, ch :: rest =>
    if ch = nl then
      if s.esc then mainLoop { s with esc := false } rest else .ok s.args false rest
    else if ch = sp ∨ ch = tab then mainLoop { s with esc := false, sep := true } rest
    else if ¬ s.esc ∧ ch = bs then mainLoop { s with esc := true } rest
    else
      let s' := s.open
      match s'.cur with
      | none => .panic                      -- args[len(args)-1] with no args
      | some c =>
        if ¬ s'.esc ∧ ch = dq then quoteLoop s'.done c false rest
        else if ¬ s'.esc ∧ ch = lt ∧ endsWith c [eq, lt] then
          match h1 : tagLine [] rest with
          | .error e => .err e []
          | .ok (tag, rest1) =>
            if tag = [] then .err false rest1
            else match h2 : bodyLoop (nl :: tag) [] rest1 with
              | none => .err true []
              | some (value, rest2) =>
                mainLoop { s' with cur := some (c.take (c.length - 1) ++ trimBlank value) } rest2
        else mainLoop { s' with cur := some (c ++ [ch]), esc := false, sep := false } rest
termination_by _ inp => inp.length
decreasing_by
  all_goals simp_wf
  all_goals first
    | omega
    | (have a := tagLine_rest_le _ _ h1; have b := bodyLoop_rest_le _ _ _ h2; omega)
def quoteLoop : List Bytes → Bytes → Bool → Bytes → Outcome
  | _, _, _, [] => .err true []
  | done, c, esc, ch :: rest =>
    if ¬ esc ∧ ch = dq then mainLoop { done := done, cur := some c, esc := false, sep := false } rest
    else if ch = bs then quoteLoop done c true rest
    else quoteLoop done (c ++ [ch]) false rest
termination_by _ _ _ inp => inp.length
decreasing_by all_goals simp_wf <;> omega
end

def readArgs (input : Bytes) : Outcome :=
  mainLoop { done := [], cur := none, esc := false, sep := true } input

/-! ### argscope.SeparateArgs / InjectArgs -/

def dashdash : Bytes := [45, 45]

/-- `SeparateArgs`: split at the first `--`. -/
def separateArgs (all : List Bytes) : List Bytes × List Bytes :=
  match all.span (· ≠ dashdash) with
  | (a, []) => (a, [])
  | (a, _ :: s) => (a, s)

def trimDash (a : Bytes) : Bytes :=
  match a with
  | 45 :: r => r
  | _ => a

/-- `separate(arg, "true")` for an argument known to contain `=`. -/
def splitEq (a : Bytes) : Bytes × Bytes :=
  match a.span (· ≠ eq) with
  | (k, []) => (k, str "true")
  | (k, _ :: v) => (k, v)

def natKey (n : Nat) : Bytes := str ("$" ++ toString n)

/-- the sequence of `SetValue(key, value)` calls of `InjectArgs` after the `--` entry,
in order (a later call for the same key overwrites). -/
def injectSets : Nat → List Bytes → List (Bytes × Bytes)
  | _, [] => []
  | i, a :: rest =>
    if a.contains eq then splitEq (trimDash (trimDash a)) :: injectSets i rest
    else (natKey i, a) :: injectSets (i + 1) rest

/-- final data-scope content as an association list (last write wins), plus the `--` tail -/
def inject (all : List Bytes) : List (Bytes × Bytes) × List Bytes :=
  let (args, separated) := separateArgs all
  (injectSets 0 args, separated)

def lookupLast (k : Bytes) : List (Bytes × Bytes) → Option Bytes
  | [] => none
  | (k', v) :: rest =>
    match lookupLast k rest with
    | some w => some w
    | none => if k' = k then some v else none

end Goat.Args
