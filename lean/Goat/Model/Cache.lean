/-
Executable model of the write-back filesystem cache (core Lean only; linked into the `m_cache` driver).

Mirrors /repo/filesystem/fscache/cache.go (every method of `fscache.Cache` and `Commit`) together with the
helpers it runs through:
  /repo/filesystem/fshelper/copier.go   `Copier.Do / copyFile / copyDirectory`
  /repo/filesystem/fshelper/main.go     `Copy` (the fsloop walk: `OnDir` = MkdirAll, `OnFile` = MkdirAll(path.Dir) + StreamCopy)
  /repo/filesystem/fshelper/copy.go     `StreamCopy`
  /repo/filesystem/fshelper/subfs.go    `SubFS` (what `Cache.Filespace` returns): `Handle.sub`, `subOp`
  Go `path.Dir`                         `pathDir`

State.  The buffer (`memfs.NewFilespace()`) and the remote (a root memory filespace in every check) ARE
memfs trees: the functions of `Goat.MemFS` are reused unchanged.  The four Go maps of `cacheHistory`
are duplicate-free lists of the key strings *exactly as the Go code keys them* (every method cleans its
path arguments with `varutil.CleanPath` first; `WriteFile`, `Writer`, `Copy*`, `Remove`, `RemoveAll` journal
their path only when the call succeeded, `MkdirAll` always).  A Go map has no order: the lists keep insertion order only as a canonical representative, and
`commitWith` takes the four iteration orders as explicit parameters (`commit` = the canonical one);
`Props/C06.commit_order_irrelevant` shows that nothing observable depends on them.

`Commit` with fault injection: `failAt = some k` makes the k-th (0-based) remote call of this Commit that
can report an error fail: `Remove`, `RemoveAll`, `MkdirAll`, `Writer` (without effect), and the `Write` / `Close`
calls on a writer the remote handed out (`remoteStream`; the harness's failing-remote decorator does the same).  Commit clears nothing, neither on success nor on failure
(the journals and the buffer live as long as the cache): a later Commit replays everything again.

The directory walk of `fshelper.Copy` runs in goroutines (one producer, one consumer); the model performs the
same callbacks sequentially in walk order.  Without an error the resulting tree is the same up to the
order of directory entries (the drivers compare listings as sets); a FAILING walk stops the Go loop
after a scheduling-dependent prefix — the generators keep away from that case (see harness/cmd/cache/gen.go).
`Copy` refuses a source and destination that are the same node or contain one another (`overlaps`).

Second half of the file: the *direct application* twin used as executable specification by driver and
theorems (`Spec`), histories (`HOp`, `runH`), and the decidable defect predicates of the known findings
(`defectsOf`): see the section headers.
-/
import Goat.Model.MemFS

namespace Goat
namespace Cache

open Path (Name split join reduceAbsPath cleanPath clean slash)
open FS (Op Result)
open MemFS

/-! ### Go `path.Dir` -/

/-- `path.Split(p)`'s directory part: everything up to and including the last `/` -/
def dirPart (p : Bytes) : Bytes := (p.reverse.dropWhile (· ≠ slash)).reverse

/-- Go `path.Dir` -/
def pathDir (p : Bytes) : Bytes := clean (dirPart p)

/-! ### State -/

structure State where
  buffer : Node
  remote : Node
  remove : List Bytes := []
  removeAll : List Bytes := []
  mkdirAll : List Bytes := []
  write : List Bytes := []

/-- `NewMemCache(remote)` -/
def State.new (remote : Node) : State := { buffer := Node.empty, remote := remote }

/-- `m[key] = value` on a Go map, as far as the key set is concerned -/
def jadd (j : List Bytes) (key : Bytes) : List Bytes := if j.contains key then j else j ++ [key]

def isTrue : Result → Bool
  | .bool b => b
  | _ => false

/-- `c.srcFS(p)`: the cleaned path and whether it is resolved in the buffer (else: in the remote) -/
def srcFS (s : State) (p : Bytes) : Bool × Bytes :=
  let src := cleanPath p
  (isTrue (Root.isExist s.buffer src), src)

def srcTree (s : State) (inBuffer : Bool) : Node := if inBuffer then s.buffer else s.remote

/-! ### fshelper: the walk of `Copy`, `StreamCopy`, `Copier` -/

mutual
/-- the callbacks of the fsloop walk below a directory, in producer order: `(isDir, subPath)`;
`base` is the path prefix (`./`, then `./name/` …) -/
def nodeItems (path : Bytes) : Node → List (Bool × Bytes)
  | .file _ => [(false, path)]
  | .dir k => (true, path) :: kidsItems (path ++ [slash]) k
def kidsItems (base : Bytes) : Kids → List (Bool × Bytes)
  | .nil => []
  | .cons n x rest => nodeItems (base ++ n) x ++ kidsItems base rest
end

/-- what `io.Copy` writes: nothing for an empty source, else the data (chunking does not matter, see
`Props/C01.writer_exact`) -/
def ioChunks (d : Bytes) : List Bytes := if d.isEmpty then [] else [d]

/-- `fshelper.Copy(srcView, destView, nil)` where the source view is `srcBase` over `src` and the destination
view is `destBase` over the buffer `buf`; stops at the first error -/
def copyLoop (src : Node) (srcBase destBase : Bytes) : List (Bool × Bytes) → Node → Node × Result
  | [], buf => (buf, .ok)
  | (true, sub) :: rest, buf =>
    match Wrap.mkdirAll destBase buf sub with
    | (buf', .ok) => copyLoop src srcBase destBase rest buf'
    | (buf', _) => (buf', .err)
  | (false, sub) :: rest, buf =>
    match Wrap.mkdirAll destBase buf (pathDir sub) with
    | (buf1, .ok) =>
      -- StreamCopy(srcfs, destfs, subPath)
      match Wrap.readFile srcBase src sub with
      | (_, .data d) =>
        match Wrap.writer destBase buf1 sub (ioChunks d) with
        | (buf2, .ok) => copyLoop src srcBase destBase rest buf2
        | (buf2, _) => (buf2, .err)
      | _ => (buf1, .err)
    | (buf1, _) => (buf1, .err)

/-- `Copier{SrcFS, SrcPath, DestFS: buffer, DestPath}.Do()`: `st` is the tree of `SrcFS` now, `st1 b1` the tree of
`SrcFS` once the destination directory exists (`b1` = the buffer after `MkdirAll(dest)`: for a copy inside the
buffer the walk sees it).  Result: the buffer afterwards. -/
def copierFrom (st : Node) (st1 : Node → Node) (buffer : Node) (src dest : Bytes) : Node × Result :=
  if isTrue (Root.isFile st src) then
    -- copyFile: Reader, Writer, io.Copy, Close
    match Root.readFile st src with
    | .data d => Root.writer buffer dest (ioChunks d)
    | _ => (buffer, .err)
  else
    -- copyDirectory
    if !isTrue (Root.isDir st src) then (buffer, .err) else
    match MemFS.openView .root src with
    | some (.wrap srcBase) =>
      match Root.mkdirAll buffer dest with
      | (b1, .ok) =>
        match MemFS.openView .root dest with
        | some (.wrap destBase) =>
          match getDirByPath (st1 b1) ((reduceAbsPath src).getD []) with
          | some k => copyLoop (st1 b1) srcBase destBase (kidsItems [Path.dot, slash] k) b1
          | none => (b1, .err)
        | _ => (b1, .err)
      | (b1, _) => (b1, .err)
    | _ => (buffer, .err)

/-- `Copier.Do()` on the two trees; `inBuffer` says which tree `SrcFS` is -/
def copierBuf (buffer remote : Node) (inBuffer : Bool) (src dest : Bytes) : Node × Result :=
  copierFrom (if inBuffer then buffer else remote) (fun b1 => if inBuffer then b1 else remote) buffer src dest

/-- `Copier.Do()` as a state change: only the buffer changes -/
def copier (s : State) (inBuffer : Bool) (src dest : Bytes) : State × Result :=
  ({ s with buffer := (copierBuf s.buffer s.remote inBuffer src dest).1 },
   (copierBuf s.buffer s.remote inBuffer src dest).2)

/-! ### The methods of `fscache.Cache` (raw argument strings in, Go control flow) -/

def isExist (s : State) (p : Bytes) : Result :=
  let src := cleanPath p
  .bool (isTrue (Root.isExist s.buffer src) || isTrue (Root.isExist s.remote src))

def isFile (s : State) (p : Bytes) : Result :=
  let src := cleanPath p
  .bool (isTrue (Root.isFile s.buffer src) || isTrue (Root.isFile s.remote src))

def isDir (s : State) (p : Bytes) : Result :=
  let src := cleanPath p
  .bool (isTrue (Root.isDir s.buffer src) || isTrue (Root.isDir s.remote src))

/-- the merge loop of `ReadDir`: the remote's entries, then every buffer entry whose name the remote
does not list -/
def mergeDirs (remoteDirs bufferDirs : List (Name × Bool)) : List (Name × Bool) :=
  remoteDirs ++ bufferDirs.filter fun b => !(remoteDirs.any fun c => c.1 == b.1)

def readDir (s : State) (p : Bytes) : Result :=
  let src := cleanPath p
  match Root.readDir s.remote src, Root.readDir s.buffer src with
  | .list r, .list b => .list (mergeDirs r b)
  | .list r, _ => .list (mergeDirs r [])
  | _, .list b => .list (mergeDirs [] b)
  | _, _ => .err

def readFile (s : State) (p : Bytes) : Result :=
  let (inB, src) := srcFS s p
  Root.readFile (srcTree s inB) src

def reader (s : State) (p : Bytes) (sizes : List Nat) : Result :=
  let (inB, src) := srcFS s p
  Root.reader (srcTree s inB) src sizes

def lstat (s : State) (p : Bytes) : Result :=
  let (inB, src) := srcFS s p
  Root.lstat (srcTree s inB) src

def mkdirAll (s : State) (p : Bytes) : State × Result :=
  let dest := cleanPath p
  let (b, r) := Root.mkdirAll s.buffer dest
  ({ s with mkdirAll := jadd s.mkdirAll dest, buffer := b }, r)

/-- the journals are written after the buffer operation, and only when it answered `nil` -/
def jaddIf (r : Result) (j : List Bytes) (key : Bytes) : List Bytes := if r = .ok then jadd j key else j

def writer (s : State) (p : Bytes) (chunks : List Bytes) : State × Result :=
  let dest := cleanPath p
  let (b, r) := Root.writer s.buffer dest chunks
  ({ s with write := jaddIf r s.write dest, buffer := b }, r)

def writeFile (s : State) (p data : Bytes) : State × Result :=
  let dest := cleanPath p
  let (b, r) := Root.writeFile s.buffer dest data
  ({ s with write := jaddIf r s.write dest, buffer := b }, r)

def remove (s : State) (p : Bytes) : State × Result :=
  let dest := cleanPath p
  let (b, r) :=
    if isTrue (Root.isExist s.buffer dest) then Root.remove s.buffer dest else (s.buffer, Result.ok)
  ({ s with remove := jaddIf r s.remove dest, buffer := b }, r)

def removeAll (s : State) (p : Bytes) : State × Result :=
  let dest := cleanPath p
  let (b, r) :=
    if isTrue (Root.isExist s.buffer dest) then Root.removeAll s.buffer dest else (s.buffer, Result.ok)
  ({ s with removeAll := jaddIf r s.removeAll dest, buffer := b }, r)

/-- `overlaps(a, b)` of cache.go on two cleaned paths: the same node, or one inside the other (`strings.HasPrefix`
of the strings extended by `/`); the root, `""` or `"."`, contains every node -/
def overlaps (a b : Bytes) : Bool :=
  let a := if a = Path.dotSeg then [] else a
  let b := if b = Path.dotSeg then [] else b
  a.isEmpty || b.isEmpty || (b ++ [slash]).isPrefixOf (a ++ [slash]) || (a ++ [slash]).isPrefixOf (b ++ [slash])

def copy (s : State) (src dest : Bytes) : State × Result :=
  let (inB, src) := srcFS s src
  let dest := cleanPath dest
  if overlaps src dest then (s, .err) else
  let (s', r) := copier s inB src dest
  ({ s' with write := jaddIf r s'.write dest }, r)

def copyDirectory (s : State) (src dest : Bytes) : State × Result :=
  let (inB, src) := srcFS s src
  let dest := cleanPath dest
  if !isTrue (Root.isDir (srcTree s inB) src) then (s, .err) else
  copy s src dest

def copyFile (s : State) (src dest : Bytes) : State × Result :=
  let (inB, src) := srcFS s src
  let dest := cleanPath dest
  if !isTrue (Root.isFile (srcTree s inB) src) then (s, .err) else
  copy s src dest

/-- one call on the cache itself (`Filespace` always succeeds: `fshelper.NewSubFS`) -/
def stepCache (s : State) : Op → State × Result
  | .copy a b => copy s a b
  | .copyDirectory a b => copyDirectory s a b
  | .copyFile a b => copyFile s a b
  | .readDir p => (s, readDir s p)
  | .isExist p => (s, isExist s p)
  | .isFile p => (s, isFile s p)
  | .isDir p => (s, isDir s p)
  | .mkdirAll p => mkdirAll s p
  | .readFile p => (s, readFile s p)
  | .writeFile p d => writeFile s p d
  | .filespace _ => (s, .ok)
  | .reader p sizes => (s, reader s p sizes)
  | .writer p chunks => writer s p chunks
  | .remove p => remove s p
  | .removeAll p => removeAll s p
  | .lstat p => (s, lstat s p)

/-! ### `fshelper.SubFS`: the child views of a cache -/

/-- a handle on the cache: the cache itself, or a `SubFS` with its `basePath` (`… ++ "/"`) -/
inductive Handle where
  | cache
  | sub (base : Bytes)
deriving Repr, DecidableEq

/-- the call a `SubFS` makes on its parent; `none` when a path argument climbs (or `Remove`/`RemoveAll`
address the sub root) -/
def subOp (base : Bytes) (op : Op) : Option Op :=
  let r (p : Bytes) : Option Bytes := (reduceAbsPath p).map (base ++ ·)
  let nonRoot (p : Bytes) : Option Bytes :=
    match reduceAbsPath p with
    | some [] => none
    | some q => some (base ++ q)
    | none => none
  match op with
  | .copy s d => do pure (.copy (← r s) (← r d))
  | .copyDirectory s d => do pure (.copyDirectory (← r s) (← r d))
  | .copyFile s d => do pure (.copyFile (← r s) (← r d))
  | .readDir p => (r p).map .readDir
  | .isExist p => (r p).map .isExist
  | .isFile p => (r p).map .isFile
  | .isDir p => (r p).map .isDir
  | .mkdirAll p => (r p).map .mkdirAll
  | .readFile p => (r p).map .readFile
  | .writeFile p d => (r p).map (.writeFile · d)
  | .filespace p => (r p).map .filespace
  | .reader p ss => (r p).map (.reader · ss)
  | .writer p cs => (r p).map (.writer · cs)
  | .remove p => (nonRoot p).map .remove
  | .removeAll p => (nonRoot p).map .removeAll
  | .lstat p => (r p).map .lstat

/-- what a call answers when it fails before reaching the parent filespace -/
def failResult : Op → Result
  | .isExist _ | .isFile _ | .isDir _ => .bool false
  | _ => .err

/-- `h.Filespace(raw)`; `none` = error -/
def openView : Handle → Bytes → Option Handle
  | .cache, raw => some (.sub (clean raw ++ [slash]))
  | .sub base, raw => (reduceAbsPath raw).map fun q => .sub (base ++ q ++ [slash])

/-- one call of any of the 16 methods through a handle -/
def step (h : Handle) (s : State) (op : Op) : State × Result :=
  match h with
  | .cache => stepCache s op
  | .sub base =>
    match subOp base op with
    | some op' => stepCache s op'
    | none => (s, failResult op)

/-- a history of calls (no Commit) -/
def run (s : State) : List (Handle × Op) → State
  | [] => s
  | (h, op) :: rest => run (step h s op).1 rest

def runResults (s : State) : List (Handle × Op) → List Result
  | [] => []
  | (h, op) :: rest => (step h s op).2 :: runResults (step h s op).1 rest

/-! ### Commit -/

/-- remote tree, number of error-capable remote calls made so far, success -/
abbrev CommitAcc := Node × Nat × Bool

/-- a remote call that can report an error: fails without effect when it is call number `failAt` -/
def remoteCall (failAt : Option Nat) (n : Nat) (f : Node → Node × Result) (r : Node) : Node × Result :=
  if failAt = some n then (r, .err) else f r

/-- `for src = range c.changes.remove { if remote.IsFile(src) { remote.Remove(src) } }` -/
def commitRemove (fa : Option Nat) : List Bytes → Node → Nat → CommitAcc
  | [], r, n => (r, n, true)
  | src :: rest, r, n =>
    if isTrue (Root.isFile r src) then
      match remoteCall fa n (Root.remove · src) r with
      | (r', .ok) => commitRemove fa rest r' (n + 1)
      | (r', _) => (r', n + 1, false)
    else commitRemove fa rest r n

/-- `for src = range c.changes.removeAll { if remote.IsExist(src) { remote.RemoveAll(src) } }` -/
def commitRemoveAll (fa : Option Nat) : List Bytes → Node → Nat → CommitAcc
  | [], r, n => (r, n, true)
  | src :: rest, r, n =>
    if isTrue (Root.isExist r src) then
      match remoteCall fa n (Root.removeAll · src) r with
      | (r', .ok) => commitRemoveAll fa rest r' (n + 1)
      | (r', _) => (r', n + 1, false)
    else commitRemoveAll fa rest r n

/-- `for src = range c.changes.mkdirAll { if buffer.IsDir(src) { remote.MkdirAll(src) } }` -/
def commitMkdir (fa : Option Nat) (buffer : Node) : List Bytes → Node → Nat → CommitAcc
  | [], r, n => (r, n, true)
  | src :: rest, r, n =>
    if isTrue (Root.isDir buffer src) then
      match remoteCall fa n (Root.mkdirAll · src) r with
      | (r', .ok) => commitMkdir fa buffer rest r' (n + 1)
      | (r', _) => (r', n + 1, false)
    else commitMkdir fa buffer rest r n

/-- `StreamCopy`'s calls on the remote for one file, numbered from `n`: `Writer(src)` (call `n`), one `Write` per
chunk (calls `n+1 …`), `Close` (the last one).  An injected failure of `Writer` has no effect; a failing `Write` leaves
the file as far as it was written (created / truncated by the open, earlier chunks in); a failing `Close` is
reported after everything was written.  Result: the remote call's outcome and the next call number. -/
def remoteStream (fa : Option Nat) (n : Nat) (src : Bytes) (chunks : List Bytes) (r : Node) : (Node × Result) × Nat :=
  if fa = some n then ((r, .err), n + 1) else
  match Root.writer r src [] with
  | (_, .ok) =>
    match fa with
    | some k =>
      if n < k ∧ k ≤ n + chunks.length then (((Root.writer r src (chunks.take (k - n - 1))).1, .err), k + 1)
      else if k = n + chunks.length + 1 then (((Root.writer r src chunks).1, .err), k + 1)
      else (Root.writer r src chunks, n + chunks.length + 2)
    | none => (Root.writer r src chunks, n + chunks.length + 2)
  | (r', e) => ((r', e), n + 1)

/-- `for src = range c.changes.write { remote.MkdirAll(path.Dir(src)); if buffer.IsFile(src) { StreamCopy } }` -/
def commitWrite (fa : Option Nat) (buffer : Node) : List Bytes → Node → Nat → CommitAcc
  | [], r, n => (r, n, true)
  | src :: rest, r, n =>
    match remoteCall fa n (Root.mkdirAll · (pathDir src)) r with
    | (r1, .ok) =>
      if isTrue (Root.isFile buffer src) then
        match Root.readFile buffer src with
        | .data d =>
          match remoteStream fa (n + 1) src (ioChunks d) r1 with
          | ((r2, .ok), n') => commitWrite fa buffer rest r2 n'
          | ((r2, _), n') => (r2, n', false)
        | _ => (r1, n + 1, false)
      else commitWrite fa buffer rest r1 (n + 1)
    | (r1, _) => (r1, n + 1, false)

/-- `Commit()` replaying the four maps in the given iteration orders.  Result: the state (only the
remote can differ), the number of error-capable remote calls made, and whether `nil` was returned. -/
def commitWith (rm rma mk wr : List Bytes) (fa : Option Nat) (s : State) : State × Nat × Bool :=
  match commitRemove fa rm s.remote 0 with
  | (r, n, false) => ({ s with remote := r }, n, false)
  | (r, n, true) =>
    match commitRemoveAll fa rma r n with
    | (r, n, false) => ({ s with remote := r }, n, false)
    | (r, n, true) =>
      match commitMkdir fa s.buffer mk r n with
      | (r, n, false) => ({ s with remote := r }, n, false)
      | (r, n, true) =>
        match commitWrite fa s.buffer wr r n with
        | (r, n, ok) => ({ s with remote := r }, n, ok)

/-- `Commit()` in the canonical order (insertion order of the journals) -/
def commit (fa : Option Nat) (s : State) : State × Nat × Bool :=
  commitWith s.remove s.removeAll s.mkdirAll s.write fa s

/-! ### Direct application: the executable specification

"Applying an operation directly" is `FS.Step` (Goat/Spec/FS.lean).  `MemFS.step` on a tree satisfying
`MemFS.Inv` is an executable function that refines it (`Goat.C01.memfs_refines`), so the specification
side of driver and theorems is a second memory tree `direct`, started as a copy of the remote's initial
tree, to which every call is applied through the wrapper rooted at the same place as the cache's view. -/

/-- the memfs handle rooted where a cache handle is rooted; `none`: the view's base path climbs (a direct
filespace refuses to open it) -/
def specRef : Handle → Option FSRef
  | .cache => some .root
  | .sub base => newWrapper base

/-- one call applied directly: through the memfs handle rooted where the cache handle is rooted -/
def directStep (t : Node) (h : Handle) (op : Op) : Node × Result :=
  match specRef h with
  | some ref => MemFS.step ref t op
  | none => (t, failResult op)

/-- a history applied directly to a tree (every call, whatever it answers) -/
def directRun (t : Node) : List (Handle × Op) → Node
  | [] => t
  | (h, op) :: rest => directRun (directStep t h op).1 rest

def directResults (t : Node) : List (Handle × Op) → List Result
  | [] => []
  | (h, op) :: rest => (directStep t h op).2 :: directResults (directStep t h op).1 rest

def isMutating : Op → Bool
  | .copy .. | .copyDirectory .. | .copyFile .. | .mkdirAll _ | .writeFile .. | .writer .. | .remove _
  | .removeAll _ => true
  | _ => false

def isRead : Op → Bool
  | .readDir _ | .isExist _ | .isFile _ | .isDir _ | .readFile _ | .reader .. | .lstat _ => true
  | _ => false

def bytesLt : Bytes → Bytes → Bool
  | [], [] => false
  | [], _ :: _ => true
  | _ :: _, [] => false
  | a :: as, b :: bs => if a < b then true else if b < a then false else bytesLt as bs

def pathLt : List Name → List Name → Bool
  | [], [] => false
  | [], _ :: _ => true
  | _ :: _, [] => false
  | a :: as, b :: bs => if bytesLt a b then true else if bytesLt b a then false else pathLt as bs

/-- listings are compared as sets: sort by name -/
def sortListing (l : List (Name × Bool)) : List (Name × Bool) :=
  l.mergeSort fun a b => !(bytesLt b.1 a.1)

def canon : Result → Result
  | .list l => .list (sortListing l)
  | r => r

/-! ### Histories with commits, and the co-simulation cache / direct application -/

/-- one line of a history -/
inductive HOp where
  | call (h : Handle) (op : Op)
  | commit (failAt : Option Nat)
deriving Repr, DecidableEq

/-- cache state and direct tree side by side -/
structure Sim where
  cache : State
  direct : Node
  /-- the last Commit reported an error and none has succeeded since -/
  failed : Bool := false

def Sim.new (remote : Node) : Sim := { cache := State.new remote, direct := remote }

/-- the full walk of a tree as a sorted association list path ↦ (none = directory | file data):
two trees are the same filespace exactly when their walks are equal -/
def treeList (t : Node) : List (List Name × Option Bytes) :=
  (Node.walk [] t).mergeSort fun a b => !(pathLt b.1 a.1)

/-- the call that reaches the cache (`none`: refused by the `SubFS`) -/
def cacheOp : Handle → Op → Option Op
  | .cache, op => some op
  | .sub base, op => subOp base op

/-- one history line on both sides.  A mutating call is applied directly when (and only when) it succeeded
through the cache ("the same successful operations"). -/
def Sim.step (m : Sim) : HOp → Sim × Result
  | .call h op =>
    let (c, r) := Cache.step h m.cache op
    let d :=
      if isMutating op && r == .ok then
        match specRef h with
        | some ref => (MemFS.step ref m.direct op).1
        | none => m.direct
      else m.direct
    ({ m with cache := c, direct := d }, r)
  | .commit fa =>
    let (c, _, ok) := commit fa m.cache
    ({ m with cache := c, failed := !ok }, if ok then .ok else .err)

def Sim.run (m : Sim) : List HOp → Sim
  | [] => m
  | x :: rest => Sim.run (m.step x).1 rest

/-! ### Defect predicates of the known findings (decidable; evaluated by the driver's `classify`)

Each predicate `D` is an *event*: a condition on one history line and the co-simulation state before it.
A history is in the class of a finding when the event occurs at some line (`defectsOf`).  The events are the
ways a single call can break "cache view = direct tree ∧ replaying the journals onto the remote gives the
direct tree" starting from a state where it holds; see known_findings.d/C06.json, C07.json for the
witnesses. -/

inductive Defect where
  /-- KF-C06-1: `Remove` of a directory that exists on the remote (Commit only removes when `remote.IsFile`) -/
  | removeRemoteDir
  /-- KF-C06-2: `Remove`/`RemoveAll` of a buffer directory at or above the parent of a journalled write:
  Commit's `MkdirAll(path.Dir(src))` re-creates it -/
  | removeAboveWrite
  /-- KF-C06-4: a successful copy of a directory: journalled as one write of the directory path, which Commit skips -/
  | dirCopy
  /-- KF-C06-6: `Remove`/`RemoveAll` of a buffer directory below the root level whose parent is not a directory
  on the remote (or will be wiped there by a journalled recursive remove): the parent was only journalled through
  the removed path -/
  | removeBufferDir
  /-- KF-C07-1: `Remove` succeeded through the cache while the path exists on the remote (it stays visible) -/
  | removeRemote
  /-- KF-C07-2: `RemoveAll` succeeded through the cache while the path exists on the remote -/
  | removeAllRemote
  /-- KF-C07-3 (= KF-C06-9): `WriteFile`/`Writer`/`MkdirAll`/`Copy*` accepted by the cache but refused by direct
  application although the destination does not exist there: a type conflict with the remote -/
  | typeConflict
  /-- KF-C07-4: copy of a directory that exists in the buffer while the remote holds entries below it that the
  buffer lacks: only the buffer part is copied -/
  | copyMergedDir
  /-- KF-C07-5 (= KF-C06-10): `Copy*` onto a destination that exists in the direct tree: overwritten / merged -/
  | copyOntoExisting
  /-- KF-C07-6 (= KF-C06-11): a rooted path that climbs (`/..`, `/../a`) is cleaned to a path inside the cache
  where a direct filespace refuses it -/
  | rootedClimb
  /-- KF-C06-12: copy of a file whose cache view differs from the direct tree (a removed remote file is still
  resolved on the remote): stale data enters the buffer -/
  | staleCopySource
deriving Repr, DecidableEq

/-- the identifiers of known_findings.d (KF-C06-3, 5, 7, 8 are repaired: no predicate any more, their witnesses
are regression cases in corpus/C06) -/
def Defect.id : Defect → String
  | .removeRemoteDir => "KF-C06-1"
  | .removeAboveWrite => "KF-C06-2"
  | .dirCopy => "KF-C06-4"
  | .removeBufferDir => "KF-C06-6"
  | .removeRemote => "KF-C07-1"
  | .removeAllRemote => "KF-C07-2"
  | .typeConflict => "KF-C07-3"
  | .copyMergedDir => "KF-C07-4"
  | .copyOntoExisting => "KF-C07-5"
  | .rootedClimb => "KF-C07-6"
  | .staleCopySource => "KF-C06-12"

/-- which property's deviations a class explains (several explain both: KF-C07-3/5/6 are listed for C06 as
KF-C06-9/10/11 with the same predicate) -/
def Defect.forC06 : Defect → Bool
  | .removeRemote | .removeAllRemote | .copyMergedDir => false
  | _ => true

def Defect.forC07 : Defect → Bool
  | .removeRemote | .removeAllRemote | .typeConflict | .copyMergedDir | .copyOntoExisting | .rootedClimb
  | .removeRemoteDir | .staleCopySource => true
  | _ => false

/-- the path arguments of a call -/
def opArgs : Op → List Bytes
  | .copy a b | .copyDirectory a b | .copyFile a b => [a, b]
  | .readDir p | .isExist p | .isFile p | .isDir p | .mkdirAll p | .readFile p | .writeFile p _
  | .filespace p | .reader p _ | .writer p _ | .remove p | .removeAll p | .lstat p => [p]

/-- last segment of a raw path string -/
def lastSeg (p : Bytes) : Bytes := (p.reverse.takeWhile (· ≠ slash)).reverse

def isPrefixOf (a b : List Name) : Bool := a.isPrefixOf b

/-- does the tree have a node at this (cleaned) path string -/
def has (t : Node) (p : Bytes) : Bool := isTrue (Root.isExist t p)

/-- normal form of a path string as the memfs trees see it -/
def nf (p : Bytes) : Option (List Name) := Path.norm p

/-- paths (relative, as segment lists) of every node below `p` in `t` -/
def below (t : Node) (p : List Name) : List (List Name) :=
  match t.lookup p with
  | some n => ((Node.walk [] n).map (·.1)).filter (· ≠ [])
  | none => []

/-- a journalled recursive remove at or above `q`: the next Commit wipes `q` on the remote -/
def wiped (s : State) (q : List Name) : Bool :=
  s.removeAll.any fun w => match nf w with | some x => isPrefixOf x q | none => false

/-- the events of one line, given the co-simulation state before it and the result through the cache -/
def defectsAt (m : Sim) (h : Handle) (op : Op) (r : Result) : List Defect :=
  let s := m.cache
  let direct (o : Op) : Result :=
    match specRef h with
    | some ref => (MemFS.step ref m.direct o).2
    | none => .err
  let climbs : List Defect :=
    if h == .cache && (opArgs op).any (fun raw => (nf raw).isNone && (nf (cleanPath raw)).isSome)
        && !(match op with | .filespace _ => true | _ => false)
    then [.rootedClimb] else []
  let removal (p : Bytes) : List Defect :=
    if isTrue (Root.isDir s.buffer p) then
      (match nf p with
       | some q =>
         (if s.write.any (fun w => match nf (pathDir w) with | some d => isPrefixOf q d | none => false)
          then [.removeAboveWrite] else []) ++
         (if q.length ≥ 2 && (!isTrue (Root.isDir s.remote (join q.dropLast)) || wiped s q.dropLast)
          then [.removeBufferDir] else [])
       | none => [])
    else []
  match cacheOp h op with
  | none => []
  | some cop =>
  climbs ++
  match cop with
  | .remove raw =>
    let p := cleanPath raw
    if r != .ok then [] else
    (if has s.remote p && direct op == .ok then [.removeRemote] else []) ++
    (if isTrue (Root.isDir s.remote p) && direct op == .ok then [.removeRemoteDir] else []) ++ removal p
  | .removeAll raw =>
    let p := cleanPath raw
    if r != .ok then [] else
    (if has s.remote p then [.removeAllRemote] else []) ++ removal p
  | .writeFile _ _ | .writer _ _ | .mkdirAll _ =>
    if r == .ok && direct op != .ok then [.typeConflict] else []
  | .copy a b | .copyDirectory a b | .copyFile a b =>
    let (inB, src) := srcFS s a
    let dest := cleanPath b
    if r != .ok then [] else
    let srcIsDir := isTrue (Root.isDir (srcTree s inB) src)
    (if srcIsDir then [.dirCopy] else []) ++
    (if srcIsDir && inB && (match nf src with
        | some q => (below s.remote q).any fun rel => !has s.buffer (join (q ++ rel))
        | none => false) then [.copyMergedDir] else []) ++
    (if has m.direct dest then [.copyOntoExisting]
     else if direct op != .ok then
       (if !srcIsDir && Root.readFile (srcTree s inB) src != Root.readFile m.direct src
        then [.staleCopySource] else [.typeConflict])
     else []) ++
    (if !srcIsDir && direct op == .ok && Root.readFile (srcTree s inB) src != Root.readFile m.direct src
     then [.staleCopySource] else [])
  | _ => []

/-- the events of a Commit line: a journalled write whose `path.Dir` is not a directory of the direct tree
(Commit creates it, or fails on it) — the file is still in the buffer (it stands beneath a remote file:
KF-C07-3 = KF-C06-9), or it was removed together with its parents (KF-C06-2) -/
def defectsAtCommit (m : Sim) : List Defect :=
  m.cache.write.flatMap fun w =>
    if isTrue (Root.isDir m.direct (pathDir w)) then []
    else if isTrue (Root.isFile m.cache.buffer w) then [.typeConflict]
    else [.removeAboveWrite]

/-- the classes a history falls into: every event at every line -/
def defectsOf (m : Sim) : List HOp → List Defect
  | [] => []
  | .call h op :: rest =>
    let r := (Cache.step h m.cache op).2
    defectsAt m h op r ++ defectsOf (m.step (.call h op)).1 rest
  | .commit fa :: rest => defectsAtCommit m ++ defectsOf (m.step (.commit fa)).1 rest

/-! ### The class of the `_partial` theorems (decidable) -/

/-- a handle the theorems speak about: the cache itself, or a child view whose base path ends in `/` and does
not climb (every view opened through `Filespace` with a non-climbing path is of this form) -/
def Handle.ok : Handle → Bool
  | .cache => true
  | .sub base => base.getLast? == some slash && (nf base).isSome

/-- the calls of the class of `commit_equiv_partial`: WriteFile / Writer / MkdirAll / CopyFile through an ok handle
(a CopyFile that succeeds directly has a file source and an absent destination) -/
def writeClass : Handle × Op → Bool
  | (h, .writeFile _ _) => h.ok
  | (h, .writer _ _) => h.ok
  | (h, .mkdirAll _) => h.ok
  | (h, .copyFile _ _) => h.ok
  | _ => false

/-- … extended for `ryw_partial`: also Remove / RemoveAll -/
def rywClass : Handle × Op → Bool
  | (h, .remove _) => h.ok
  | (h, .removeAll _) => h.ok
  | x => writeClass x

/-- every call of the history succeeds when applied directly -/
def allDirectOk (t : Node) (ops : List (Handle × Op)) : Bool := (directResults t ops).all (· == .ok)

/-- every Remove / RemoveAll of the history addresses a node that does not exist on the remote (it exists
only in the buffer): the negation of KF-C07-1 / KF-C07-2 -/
def removesBufferOnly (remote : Node) : List (Handle × Op) → Bool
  | [] => true
  | (h, op) :: rest =>
    (match cacheOp h op with
     | some (.remove raw) | some (.removeAll raw) => !has remote (cleanPath raw)
     | _ => true) && removesBufferOnly remote rest

end Cache
end Goat
