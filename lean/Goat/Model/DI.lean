/-
Model of the dependency provider `/repo/app/dependency/provider.go` (property C10), of the injectors
it can be given (`/repo/app/injector/map.go`, `multi.go`, `nil_injector.go`,
`/repo/app/scope/datascope/injector.go`) and of `NewStaticProvider`.

State = the five tables of `Provider`, its `injectors`, `callstack`, `keys`, `blocked`, `autoclean`,
plus three ghost fields that make the behaviour observable: `nextId` (instances built by factories
are fresh ids), `log` (every factory invocation `start n` and every stored result `done n i`) and
`exhausted` (set only when the recursion fuel of `get` runs out; `Props/C10.fuel_sufficient` proves
it is never set).

Names and struct tags are TEXT (`Name` = the list of character codes): `parseTag` is the string
handling of `InjectTo` and of the injectors — an empty tag skips the field, exactly one leading `?`
is stripped and makes the field optional, everything else is a literal map key.  `Get`, `Set`, … use
their argument literally (the empty name and names starting with `?` are ordinary keys).

A factory is DATA: the ordered list of dependencies it asks its provider for — each by
`dp.Get(name)` or by `dp.InjectTo(&struct{ F T `dependency:"…"` })` (one struct per edge), each
required or optional (`?name` / ignored error) — and what it returns when all required ones
arrived: a new object, an error, or `nil, nil`.  The Go harness interprets the same data as a closure.

An object may be `nil` (`Set(name, nil)`, `SetDefault(name, nil)`, a nil value in an injector's map):
`Get` hands it out without an error, `InjectTo` refuses to store it — for an optional field too.

An injector is DATA as well: a map injector or a data-scope injector (tag name, map from key to
value), the nil injector, or a multi injector (list of injectors).  `InjectTo` first fills the fields
tagged with the provider's own tag name through `Get`, then runs the registered injectors in
registration order; each of them reads ITS tag name on every field and overwrites the field.

Go maps are total functions `Name → Option α` here.  `Block` ranges over the map
`defaultInstances`; its loop body reads and writes the tables only at the key of the current
iteration, so the (unspecified) iteration order cannot matter: `block` is written point-wise and
`blockLoop` is the literal loop over any visiting order (`Props/C10.block_order_irrelevant` proves
them equal for every order).  `NewStaticProvider` builds `keys` by ranging over a map: `toStatic`
takes the order as an argument and nothing but `Keys` depends on it.

Outside the model: `InjectTo` targets whose field types do not accept the instance (reflect panics),
nil `app.Injector` values, a nil `instances` map handed to `NewStaticProvider`, factories that panic.
Core Lean only (this file is linked into the `m_di` driver).
-/
namespace Goat.DI

/-- a dependency name, or the text of a struct tag: its characters -/
structure Name where
  chars : List Nat
deriving DecidableEq, Repr

/-- the character `?` -/
def qmark : Nat := 63

/-- numerals as names (used by examples): the one-character name with code `100 + n` — never `?` -/
instance (n : Nat) : OfNat Name n := ⟨⟨[n + 100]⟩⟩

/-- `""` -/
def Name.empty : Name := ⟨[]⟩

/-- `"?" + n` -/
def Name.opt (n : Name) : Name := ⟨qmark :: n.chars⟩

/-- The tag handling shared by `Provider.InjectTo`, `MapInjector.InjectTo` and the data-scope
`Injector.InjectTo`: `if tag == "" { continue }; if strings.HasPrefix(tag, "?") { isRequired = false;
tag = tag[1:] }`.  Result: the key to look up and whether the field is optional; `none` = skipped. -/
def parseTag (raw : Name) : Option (Name × Bool) :=
  match raw.chars with
  | [] => none
  | c :: cs => if c = qmark then some (⟨cs⟩, true) else some (raw, false)

/-- an object handed to `Set`/`SetDefault`/an injector by the caller, one built by a factory, or `nil` -/
inductive Inst where
  | given (v : Nat)
  | built (id : Nat)
  | nil
deriving DecidableEq, Repr

/-- what a factory returns once its dependencies are there: `obj, nil` / `nil, err` / `nil, nil` -/
inductive Out where
  | ok | fail | nilInst
deriving DecidableEq, Repr

structure Dep where
  name      : Name
  optional  : Bool
  viaInject : Bool
deriving DecidableEq, Repr

structure Factory where
  deps : List Dep
  out  : Out
deriving DecidableEq, Repr

/-- the name of a struct tag key (`dependency`, `config`, …) -/
abbrev TagName := Nat

/-- the tag name the provider was created with (`NewProvider(tagname)`) -/
def ownTag : TagName := 0

/-- a struct field: its tag, as the raw text per tag name (first entry wins, as `StructTag.Get`) -/
structure Field where
  tags : List (TagName × Name)
deriving DecidableEq, Repr

/-- `structField.Tag.Get(tagname)`: `""` when the key is absent -/
def Field.raw (f : Field) (t : TagName) : Name :=
  match f.tags.lookup t with
  | some r => r
  | none => Name.empty

/-- what the provider's own loop does with the field -/
def Field.dep (f : Field) : Option (Name × Bool) := parseTag (f.raw ownTag)

/-- the field `F T `dependency:"name"`` / `dependency:"?name"` -/
def Field.own (n : Name) (optional : Bool) : Field := ⟨[(ownTag, if optional then n.opt else n)]⟩

/-- an `app.Injector` -/
inductive Injector where
  | map (tag : TagName) (data : List (Name × Inst))    -- injector.NewMapInjector
  | scope (tag : TagName) (data : List (Name × Inst))  -- datascope.NewInjector over a DataScope with these entries
  | nop                                                -- injector.NewNilInjector
  | multi (l : List Injector)                          -- injector.NewMultiInjector
deriving Repr

inductive Err where
  | cyclic | missing | nilInstance | failed | fuel
  | nilDependency          -- `InjectTo`: "dependency instance can not be nil"
  | injector (k : Nat)     -- the k-th registered injector returned an error
deriving DecidableEq, Repr

inductive Res where
  | inst (i : Inst)
  | err (e : Err)
deriving DecidableEq, Repr

/-- what a factory closure returned to `Get` -/
inductive FRes where
  | inst (i : Inst)
  | nilInst
  | err
deriving DecidableEq, Repr

inductive Ev where
  | start (n : Name)
  | done (n : Name) (i : Inst)
deriving DecidableEq, Repr

abbrev Tab (α : Type) := Name → Option α

def Tab.empty {α : Type} : Tab α := fun _ => none
def Tab.set {α : Type} (t : Tab α) (k : Name) (v : α) : Tab α := fun x => if x = k then some v else t x
def Tab.del {α : Type} (t : Tab α) (k : Name) : Tab α := fun x => if x = k then none else t x

structure St where
  injectors        : List Injector
  defaultFactories : Tab Factory
  factories        : Tab Factory
  defaultInstances : Tab Inst
  instances        : Tab Inst
  callstack        : List Name
  keys             : List Name
  blocked          : Bool
  autoclean        : Bool
  nextId           : Nat
  log              : List Ev
  exhausted        : Bool

/-- `NewProvider` -/
def St.empty : St :=
  { injectors := [], defaultFactories := Tab.empty, factories := Tab.empty, defaultInstances := Tab.empty,
    instances := Tab.empty, callstack := [], keys := [], blocked := false, autoclean := true,
    nextId := 0, log := [], exhausted := false }

/-- `addKey` / `hasKey` -/
def addKey (keys : List Name) (n : Name) : List Name :=
  if n ∈ keys then keys else keys ++ [n]

/-- `clean` -/
def clean (s : St) (n : Name) : St :=
  if s.autoclean then
    { s with factories := s.factories.del n, defaultFactories := s.defaultFactories.del n }
  else s

/-- `Set` (second component: accepted?); `v` may be `nil` -/
def set (s : St) (n : Name) (v : Inst) : St × Bool :=
  if s.blocked then (s, false)
  else if (s.instances n).isSome then (s, false)
  else if (s.factories n).isSome then (s, false)
  else ({ s with instances := s.instances.set n v, keys := addKey s.keys n }, true)

/-- `SetDefault` -/
def setDefault (s : St) (n : Name) (v : Inst) : St × Bool :=
  if s.blocked then (s, false)
  else if (s.defaultInstances n).isSome then (s, false)
  else if (s.defaultFactories n).isSome then (s, false)
  else ({ s with defaultInstances := s.defaultInstances.set n v, keys := addKey s.keys n }, true)

/-- `AddFactory` -/
def addFactory (s : St) (n : Name) (f : Factory) : St × Bool :=
  if s.blocked then (s, false)
  else if (s.factories n).isSome then (s, false)
  else
    let s1 := clean s n
    ({ s1 with factories := s1.factories.set n f, keys := addKey s1.keys n }, true)

/-- `AddDefaultFactory` (with an explicit factory present it answers nil and stores nothing) -/
def addDefaultFactory (s : St) (n : Name) (f : Factory) : St × Bool :=
  if s.blocked then (s, false)
  else if (s.defaultFactories n).isSome then (s, false)
  else if (s.factories n).isSome then (s, true)
  else ({ s with defaultFactories := s.defaultFactories.set n f, keys := addKey s.keys n }, true)

/-- `AddInjectors` -/
def addInjectors (s : St) (l : List Injector) : St × Bool :=
  if s.blocked then (s, false)
  else ({ s with injectors := s.injectors ++ l }, true)

/-- does the loop body of `Block` promote the default instance of `k`? -/
def promotes (s : St) (k : Name) : Bool :=
  (s.defaultInstances k).isSome && (s.factories k).isNone && (s.instances k).isNone

/-- `Block` -/
def block (s : St) : St :=
  if s.blocked then s
  else
    { s with
      instances := fun k => if promotes s k then s.defaultInstances k else s.instances k
      defaultFactories := fun k => if promotes s k && s.autoclean then none else s.defaultFactories k
      factories := fun k => if promotes s k && s.autoclean then none else s.factories k
      defaultInstances := Tab.empty
      blocked := true }

/-- the body of `for key, defaultVal := range d.defaultInstances` in `Block`, for one key -/
def blockBody (s : St) (key : Name) : St :=
  match s.defaultInstances key with
  | none => s
  | some v =>
    if (s.factories key).isSome then s
    else if (s.instances key).isNone then
      let s1 := if s.autoclean then
          { s with defaultFactories := s.defaultFactories.del key, factories := s.factories.del key }
        else s
      { s1 with instances := s1.instances.set key v }
    else s

/-- `Block` with its loop spelled out, the range visiting the keys in the order `order`.
`Props/C10.block_order_irrelevant`: for every order this is `block`. -/
def blockLoop (s : St) (order : List Name) : St :=
  if s.blocked then s
  else
    let s1 := order.foldl blockBody s
    { s1 with defaultInstances := Tab.empty, blocked := true }

/-! ### the extra injectors

A struct being filled is the list of its field values (`none` = still the zero value), aligned with
the list of its fields.  An injector's verdict depends on the tags only, never on the values. -/

/-- a struct with `n` fields whose first fields hold `vals` -/
def pad : Nat → List (Option Inst) → List (Option Inst)
  | 0, _ => []
  | n + 1, vals => vals.head?.join :: pad n vals.tail

/-- `mi.data[key]` / `ds.data.Value(key)` -/
def lookupData (data : List (Name × Inst)) (key : Name) : Option Inst :=
  match data with
  | [] => none
  | (k, v) :: rest => if k = key then some v else lookupData rest key

/-- the field loop of `MapInjector.InjectTo` (`isScope = false`) and of the data-scope
`Injector.InjectTo` (`isScope = true`: a nil value is an unknown value).  Second component: it
returned an error. -/
def leafRun (isScope : Bool) (t : TagName) (data : List (Name × Inst)) :
    List Field → List (Option Inst) → List (Option Inst) × Bool
  | [], _ => ([], false)
  | fld :: fs, vals =>
    let v := vals.head?.join
    let vs := vals.tail
    match parseTag (fld.raw t) with
    | none => let r := leafRun isScope t data fs vs; (v :: r.1, r.2)
    | some (key, opt) =>
      let unknown : List (Option Inst) × Bool :=
        if opt then (let r := leafRun isScope t data fs vs; (v :: r.1, r.2))
        else (v :: pad fs.length vs, true)
      match lookupData data key with
      | none => unknown
      | some x =>
        if x = .nil then (if isScope then unknown else (v :: pad fs.length vs, true))
        else (let r := leafRun isScope t data fs vs; (some x :: r.1, r.2))

mutual
/-- `injector.InjectTo(obj)` -/
def Injector.run : Injector → List Field → List (Option Inst) → List (Option Inst) × Bool
  | .map t data, fs, vals => leafRun false t data fs vals
  | .scope t data, fs, vals => leafRun true t data fs vals
  | .nop, fs, vals => (pad fs.length vals, false)
  | .multi l, fs, vals => runMulti l fs vals
/-- the loop of `MultiInjector.InjectTo` -/
def runMulti : List Injector → List Field → List (Option Inst) → List (Option Inst) × Bool
  | [], fs, vals => (pad fs.length vals, false)
  | i :: rest, fs, vals =>
    match i.run fs vals with
    | (v, true) => (v, true)
    | (v, false) => runMulti rest fs v
end

/-- `for _, injector := range d.injectors { if err := injector.InjectTo(obj); err != nil { return err } }`;
`k` is the index of the first injector of the list -/
def runInjectors (k : Nat) : List Injector → List Field → List (Option Inst) → List (Option Inst) × Option Err
  | [], fs, vals => (pad fs.length vals, none)
  | i :: rest, fs, vals =>
    match i.run fs vals with
    | (v, true) => (v, some (.injector k))
    | (v, false) => runInjectors (k + 1) rest fs v

/-! ### `InjectTo` and `Get` -/

/-- the field loop of `InjectTo`, over an abstract `Get`: values stored into the fields (one entry per
field visited, `none` = left untouched) and the error that stopped it -/
def injectFields (g : St → Name → St × Res) : St → List Field → St × List (Option Inst) × Option Err
  | s, [] => (s, [], none)
  | s, fld :: rest =>
    match fld.dep with
    | none =>
      let r := injectFields g s rest
      (r.1, none :: r.2.1, r.2.2)
    | some (n, opt) =>
      match g s n with
      | (s1, .inst i) =>
        if i = .nil then (s1, [none], some .nilDependency)
        else
          let r := injectFields g s1 rest
          (r.1, some i :: r.2.1, r.2.2)
      | (s1, .err e) =>
        if opt then
          let r := injectFields g s1 rest
          (r.1, none :: r.2.1, r.2.2)
        else (s1, [none], some e)

/-- the whole of `InjectTo` over an abstract `Get`: the provider's own loop, then (if that did not
fail) the registered injectors.  Result: the struct afterwards (one value per field) and the error. -/
def injectAll (g : St → Name → St × Res) (s : St) (fs : List Field) : St × List (Option Inst) × Option Err :=
  let r := injectFields g s fs
  match r.2.2 with
  | some e => (r.1, pad fs.length r.2.1, some e)
  | none =>
    let q := runInjectors 0 r.1.injectors fs r.2.1
    (r.1, q.1, q.2)

/-- the tag text of an `InjectTo` edge of a factory -/
def Dep.tagText (d : Dep) : Name := if d.optional then d.name.opt else d.name

/-- the one-field struct of an `InjectTo` edge -/
def Dep.field (d : Dep) : Field := ⟨[(ownTag, d.tagText)]⟩

/-- what an edge asks the provider for: the name and whether a failure is tolerated (`none`: an
`InjectTo` edge whose tag is empty — the field is skipped) -/
def Dep.eff (d : Dep) : Option (Name × Bool) :=
  if d.viaInject then parseTag d.tagText else some (d.name, d.optional)

/-- one statement of a factory body -/
def depStep (g : St → Name → St × Res) (s : St) (d : Dep) : St × Option Err :=
  if d.viaInject then
    let r := injectAll g s [d.field]
    (r.1, r.2.2)
  else
    match g s d.name with
    | (s1, .inst _) => (s1, none)
    | (s1, .err e) => (s1, if d.optional then none else some e)

/-- the body of a factory closure up to its return statement -/
def runDeps (g : St → Name → St × Res) : St → List Dep → St × Option Err
  | s, [] => (s, none)
  | s, d :: rest =>
    match depStep g s d with
    | (s1, none) => runDeps g s1 rest
    | (s1, some e) => (s1, some e)

/-- a factory closure -/
def runFactory (g : St → Name → St × Res) (s : St) (f : Factory) : St × FRes :=
  match runDeps g s f.deps with
  | (s1, some _) => (s1, .err)
  | (s1, none) =>
    match f.out with
    | .fail => (s1, .err)
    | .nilInst => (s1, .nilInst)
    | .ok => ({ s1 with nextId := s1.nextId + 1 }, .inst (.built s1.nextId))

/-- entering a factory: `d.callstack = append(d.callstack, name)`; the invocation is logged -/
def push (s : St) (n : Name) : St :=
  { s with callstack := s.callstack ++ [n], log := s.log ++ [.start n] }

/-- the two identical `if factory, exist := …` blocks of `Get`; `dflt` selects the clean-up
(`d.clean(name)` for an explicit factory, `delete(d.defaultFactories, name)` for a default one) -/
def construct (g : St → Name → St × Res) (s : St) (n : Name) (f : Factory) (dflt : Bool) : St × Res :=
  let depth := s.callstack.length
  match runFactory g (push s n) f with
  | (s2, .err) => ({ s2 with callstack := s2.callstack.take depth }, .err .failed)
  | (s2, .nilInst) => ({ s2 with callstack := s2.callstack.take depth }, .err .nilInstance)
  | (s2, .inst i) =>
    let s3 := { s2 with callstack := s2.callstack.take depth }
    let s4 := if dflt then
        (if s3.autoclean then { s3 with defaultFactories := s3.defaultFactories.del n } else s3)
      else clean s3 n
    ({ s4 with instances := s4.instances.set n i, log := s4.log ++ [.done n i] }, .inst i)

/-- `Get`.  The recursion through the factory closures is by fuel. -/
def get : Nat → St → Name → St × Res
  | 0, s, _ => ({ block s with exhausted := true }, .err .fuel)
  | fuel + 1, s0, n =>
    let s := block s0
    if n ∈ s.callstack then (s, .err .cyclic)
    else
      match s.instances n with
      | some i => (s, .inst i)
      | none =>
        match s.factories n with
        | some f => construct (get fuel) s n f false
        | none =>
          match s.defaultFactories n with
          | some f => construct (get fuel) s n f true
          | none => (s, .err .missing)

/-- the fuel a request starts with: one more than the number of names that can be on the stack -/
def fuelFor (s : St) : Nat := s.keys.length + 1 - s.callstack.length

/-- `Get` as called from outside -/
def Get (s : St) (n : Name) : St × Res := get (fuelFor s) s n

/-- the provider's own field loop of an `InjectTo` called from outside (no extra injectors) -/
def InjectOwn (s : St) (fields : List Field) : St × List (Option Inst) × Option Err :=
  injectFields (get (fuelFor s)) s fields

/-- `InjectTo` as called from outside with a pointer to a fresh struct: the struct afterwards -/
def InjectTo (s : St) (fields : List Field) : St × List (Option Inst) × Option Err :=
  injectAll (get (fuelFor s)) s fields

/-- `Keys` -/
def Keys (s : St) : List Name := s.keys

/-! ### `NewStaticProvider` -/

/-- `a` if it is there, else `b` -/
def orElse {α : Type} : Option α → Option α → Option α
  | some a, _ => some a
  | none, b => b

/-- the factory map handed to `NewStaticProvider` when a provider is turned into a static one: every
default factory, overridden by the explicit factories -/
def mergedFactories (s : St) : Tab Factory := fun k => orElse (s.factories k) (s.defaultFactories k)

/-- `NewStaticProvider(tagname, merged factories, instances, injectors)` built from a provider after
`Block`.  `order` is the order in which the `range` over the factory map fills `keys`; the ghost
fields carry over so that the two providers can be compared. -/
def toStatic (s0 : St) (order : List Name) : St :=
  let s := block s0
  { injectors := s.injectors, defaultFactories := Tab.empty, factories := mergedFactories s,
    defaultInstances := Tab.empty, instances := s.instances, callstack := [],
    keys := order.filter fun k => (mergedFactories s k).isSome,
    blocked := true, autoclean := false, nextId := s.nextId, log := s.log, exhausted := s.exhausted }

/-! ### histories -/

inductive Op where
  | set (n : Name) (v : Nat)
  | setDefault (n : Name) (v : Nat)
  | addFactory (n : Name) (f : Factory)
  | addDefaultFactory (n : Name) (f : Factory)
  | get (n : Name)
  | injectTo (fields : List Field)
  | keys
  | setNil (n : Name)               -- `Set(n, nil)`
  | setDefaultNil (n : Name)        -- `SetDefault(n, nil)`
  | addInjectors (l : List Injector)
  | injectBad                       -- `InjectTo(x)` with `x` not a pointer to a struct (nil, a struct value, a nil pointer, `*int`)
deriving Repr

inductive Result where
  | ok
  | refused
  | got (r : Res)
  | injected (vals : List (Option Inst)) (e : Option Err)
  | keys (l : List Name)
  | panic
deriving DecidableEq, Repr

def accepted (r : St × Bool) : St × Result := (r.1, if r.2 then .ok else .refused)

def step (s : St) : Op → St × Result
  | .set n v => accepted (set s n (.given v))
  | .setDefault n v => accepted (setDefault s n (.given v))
  | .addFactory n f => accepted (addFactory s n f)
  | .addDefaultFactory n f => accepted (addDefaultFactory s n f)
  | .get n => let r := Get s n; (r.1, .got r.2)
  | .injectTo fs => let r := InjectTo s fs; (r.1, .injected r.2.1 r.2.2)
  | .keys => (s, .keys (Keys s))
  | .setNil n => accepted (set s n .nil)
  | .setDefaultNil n => accepted (setDefault s n .nil)
  | .addInjectors l => accepted (addInjectors s l)
  | .injectBad => (s, .panic)   -- `reflect.ValueOf(obj).Elem()` / `.NumField()` panic before anything is touched

/-- state after a history -/
def exec (s : St) : List Op → St
  | [] => s
  | o :: rest => exec (step s o).1 rest

/-- results of a history -/
def results (s : St) : List Op → List Result
  | [] => []
  | o :: rest => (step s o).2 :: results (step s o).1 rest

/-- the definition `Get` would use for `n` right now: instances, then factories, then default factories -/
inductive Src where
  | inst (i : Inst)
  | fac (f : Factory)
deriving DecidableEq, Repr

def source (s : St) (n : Name) : Option Src :=
  match s.instances n with
  | some i => some (.inst i)
  | none =>
    match s.factories n with
    | some f => some (.fac f)
    | none =>
      match s.defaultFactories n with
      | some f => some (.fac f)
      | none => none

/-! ### vocabulary of the property (used by `Props/C10.lean`) -/

/-- the calls that define something and are refused once the provider is blocked -/
def Op.isDef : Op → Bool
  | .set .. | .setDefault .. | .addFactory .. | .addDefaultFactory .. => true
  | .setNil _ | .setDefaultNil _ | .addInjectors _ => true
  | _ => false

/-- a request that reaches `Get` (an `InjectTo` in which no field carries the provider's tag never calls it) -/
def Op.isResolution : Op → Bool
  | .get _ => true
  | .injectTo fs => fs.any fun f => f.dep.isSome
  | _ => false

/-- names whose factory returned an instance that was stored, in order -/
def successes : List Ev → List Name
  | [] => []
  | .done n _ :: l => n :: successes l
  | .start _ :: l => successes l

/-- how often the factory of `n` was invoked -/
def invocations (n : Name) : List Ev → Nat
  | [] => 0
  | .start m :: l => (if m = n then 1 else 0) + invocations n l
  | .done _ _ :: l => invocations n l

/-- what an explicit definition call says about `n` -/
def Op.explicitOf (n : Name) : Op → Option Src
  | .set m v => if m = n then some (.inst (.given v)) else none
  | .setNil m => if m = n then some (.inst .nil) else none
  | .addFactory m f => if m = n then some (.fac f) else none
  | _ => none

/-- what a default definition call says about `n` -/
def Op.defaultOf (n : Name) : Op → Option Src
  | .setDefault m v => if m = n then some (.inst (.given v)) else none
  | .setDefaultNil m => if m = n then some (.inst .nil) else none
  | .addDefaultFactory m f => if m = n then some (.fac f) else none
  | _ => none

/-- the first explicit definition of `n` in a list of calls -/
def firstExplicit (n : Name) : List Op → Option Src
  | [] => none
  | o :: rest => orElse (o.explicitOf n) (firstExplicit n rest)

/-- the first default definition of `n` in a list of calls -/
def firstDefault (n : Name) : List Op → Option Src
  | [] => none
  | o :: rest => orElse (o.defaultOf n) (firstDefault n rest)

/-- An `InjectTo` edge of a factory does not fail by itself: the dependency it names is not defined
as `nil` and the registered injectors accept the one-field struct.  (A `Get` edge has no such
condition: the factory receives `nil` and goes on.) -/
def Dep.injectOK (s : St) (d : Dep) : Prop :=
  d.viaInject = true →
    (∀ m o, d.eff = some (m, o) → s.instances m ≠ some .nil) ∧
    (runInjectors 0 s.injectors [d.field] [none]).2 = none

/-- `n` can be resolved from the definitions in force in `s`: it is an instance, or a factory that
returns an object, whose `InjectTo` edges do not fail by themselves and whose required dependencies
can all be resolved -/
inductive Good (s : St) : Name → Prop where
  | inst {n : Name} {i : Inst} : source s n = some (.inst i) → Good s n
  | fac {n : Name} {f : Factory} : source s n = some (.fac f) → f.out = .ok →
      (∀ d, d ∈ f.deps → d.injectOK s) →
      (∀ d m, d ∈ f.deps → d.eff = some (m, false) → Good s m) → Good s n

/-! the field-wise reading of the injectors: what one field holds after them -/

/-- what a map / data-scope injector stores into a field that holds `cur` (nothing: `cur` stays) -/
def leafPick (t : TagName) (data : List (Name × Inst)) (fld : Field) (cur : Option Inst) : Option Inst :=
  match parseTag (fld.raw t) with
  | none => cur
  | some (key, _) =>
    match lookupData data key with
    | none => cur
    | some x => if x = .nil then cur else some x

mutual
/-- the value of a field after an injector that did not fail -/
def Injector.pick : Injector → Field → Option Inst → Option Inst
  | .map t data, fld, cur => leafPick t data fld cur
  | .scope t data, fld, cur => leafPick t data fld cur
  | .nop, _, cur => cur
  | .multi l, fld, cur => pickAll l fld cur
/-- … after a list of injectors, in order: the last one that has a value for the field wins -/
def pickAll : List Injector → Field → Option Inst → Option Inst
  | [], _, cur => cur
  | i :: rest, fld, cur => pickAll rest fld (i.pick fld cur)
end

def Op.isKeys : Op → Bool
  | .keys => true
  | _ => false

def Res.isInst : Res → Bool
  | .inst _ => true
  | .err _ => false

end Goat.DI
