/-
Model of the dependency provider `/repo/app/dependency/provider.go` (property C10).

State = the five tables of `Provider` (`injectors` stay empty, see below), `callstack`, `keys`,
`blocked`, `autoclean`, plus three ghost fields that make the behaviour observable:
`nextId` (instances built by factories are fresh ids), `log` (every factory invocation `start n`
and every stored result `done n i`) and `exhausted` (set only when the recursion fuel of `get`
runs out; `Props/C10.fuel_sufficient` proves it is never set).

A factory is DATA: the ordered list of dependencies it asks its provider for — each by
`dp.Get(name)` or by `dp.InjectTo(&struct{ F T `dependency:"name"` })`, each required or optional
(`?name` / ignored error) — and what it returns when all required ones arrived: a new object,
an error, or `nil, nil`.  The Go harness interprets the same data as a closure.

Go maps are total functions `Name → Option α` here.  `Block` ranges over the map
`defaultInstances`; its loop body reads and writes the tables only at the key of the current
iteration, so the (unspecified) iteration order cannot matter: `block` is written point-wise and
`blockLoop` is the literal loop over any visiting order (`Props/C10.block_order_irrelevant` proves
them equal for every order).

Not modelled: `AddInjectors` / the extra `injectors` run at the end of `InjectTo` (they read other
struct tags and never touch the tables; the harness oracle covers their refusal after first use),
`NewStaticProvider`, `Set(name, nil)`, empty dependency names and names starting with `?`.
Core Lean only (this file is linked into the `m_di` driver).
-/
namespace Goat.DI

abbrev Name := Nat

/-- an object handed to `Set`/`SetDefault` by the caller, or one built by a factory -/
inductive Inst where
  | given (v : Nat)
  | built (id : Nat)
deriving DecidableEq, Repr

/-- what a factory returns once its dependencies are there: `obj, nil` / `nil, err` / `nil, nil` -/
inductive Out where
  | ok | fail | nilInst
deriving DecidableEq, Repr

structure Dep where
  name      : Name
  optional  : Bool
  viaInject : Bool
deriving DecidableEq, Repr

structure Factory where
  deps : List Dep
  out  : Out
deriving DecidableEq, Repr

/-- a tagged struct field: `dependency:"name"` or `dependency:"?name"` -/
structure Field where
  name     : Name
  optional : Bool
deriving DecidableEq, Repr

inductive Err where
  | cyclic | missing | nilInstance | failed | fuel
deriving DecidableEq, Repr

inductive Res where
  | inst (i : Inst)
  | err (e : Err)
deriving DecidableEq, Repr

/-- what a factory closure returned to `Get` -/
inductive FRes where
  | inst (i : Inst)
  | nilInst
  | err
deriving DecidableEq, Repr

inductive Ev where
  | start (n : Name)
  | done (n : Name) (i : Inst)
deriving DecidableEq, Repr

abbrev Tab (α : Type) := Name → Option α

def Tab.empty {α : Type} : Tab α := fun _ => none
def Tab.set {α : Type} (t : Tab α) (k : Name) (v : α) : Tab α := fun x => if x = k then some v else t x
def Tab.del {α : Type} (t : Tab α) (k : Name) : Tab α := fun x => if x = k then none else t x

structure St where
  defaultFactories : Tab Factory
  factories        : Tab Factory
  defaultInstances : Tab Inst
  instances        : Tab Inst
  callstack        : List Name
  keys             : List Name
  blocked          : Bool
  autoclean        : Bool
  nextId           : Nat
  log              : List Ev
  exhausted        : Bool

/-- `NewProvider` -/
def St.empty : St :=
  { defaultFactories := Tab.empty, factories := Tab.empty, defaultInstances := Tab.empty,
    instances := Tab.empty, callstack := [], keys := [], blocked := false, autoclean := true,
    nextId := 0, log := [], exhausted := false }

/-- `addKey` / `hasKey` -/
def addKey (keys : List Name) (n : Name) : List Name :=
  if n ∈ keys then keys else keys ++ [n]

/-- `clean` -/
def clean (s : St) (n : Name) : St :=
  if s.autoclean then
    { s with factories := s.factories.del n, defaultFactories := s.defaultFactories.del n }
  else s

/-- `Set` (second component: accepted?) -/
def set (s : St) (n : Name) (v : Inst) : St × Bool :=
  if s.blocked then (s, false)
  else if (s.instances n).isSome then (s, false)
  else if (s.factories n).isSome then (s, false)
  else ({ s with instances := s.instances.set n v, keys := addKey s.keys n }, true)

/-- `SetDefault` -/
def setDefault (s : St) (n : Name) (v : Inst) : St × Bool :=
  if s.blocked then (s, false)
  else if (s.defaultInstances n).isSome then (s, false)
  else if (s.defaultFactories n).isSome then (s, false)
  else ({ s with defaultInstances := s.defaultInstances.set n v, keys := addKey s.keys n }, true)

/-- `AddFactory` -/
def addFactory (s : St) (n : Name) (f : Factory) : St × Bool :=
  if s.blocked then (s, false)
  else if (s.factories n).isSome then (s, false)
  else
    let s1 := clean s n
    ({ s1 with factories := s1.factories.set n f, keys := addKey s1.keys n }, true)

/-- `AddDefaultFactory` (with an explicit factory present it answers nil and stores nothing) -/
def addDefaultFactory (s : St) (n : Name) (f : Factory) : St × Bool :=
  if s.blocked then (s, false)
  else if (s.defaultFactories n).isSome then (s, false)
  else if (s.factories n).isSome then (s, true)
  else ({ s with defaultFactories := s.defaultFactories.set n f, keys := addKey s.keys n }, true)

/-- does the loop body of `Block` promote the default instance of `k`? -/
def promotes (s : St) (k : Name) : Bool :=
  (s.defaultInstances k).isSome && (s.factories k).isNone && (s.instances k).isNone

/-- `Block` -/
def block (s : St) : St :=
  if s.blocked then s
  else
    { s with
      instances := fun k => if promotes s k then s.defaultInstances k else s.instances k
      defaultFactories := fun k => if promotes s k && s.autoclean then none else s.defaultFactories k
      factories := fun k => if promotes s k && s.autoclean then none else s.factories k
      defaultInstances := Tab.empty
      blocked := true }

/-- the body of `for key, defaultVal := range d.defaultInstances` in `Block`, for one key -/
def blockBody (s : St) (key : Name) : St :=
  match s.defaultInstances key with
  | none => s
  | some v =>
    if (s.factories key).isSome then s
    else if (s.instances key).isNone then
      let s1 := if s.autoclean then
          { s with defaultFactories := s.defaultFactories.del key, factories := s.factories.del key }
        else s
      { s1 with instances := s1.instances.set key v }
    else s

/-- `Block` with its loop spelled out, the range visiting the keys in the order `order`.
`Props/C10.block_order_irrelevant`: for every order this is `block`. -/
def blockLoop (s : St) (order : List Name) : St :=
  if s.blocked then s
  else
    let s1 := order.foldl blockBody s
    { s1 with defaultInstances := Tab.empty, blocked := true }

/-- the field loop of `InjectTo`, over an abstract `Get`: values stored into the fields (one entry per
field visited, `none` = left untouched) and the error that stopped it -/
def injectFields (g : St → Name → St × Res) : St → List Field → St × List (Option Inst) × Option Err
  | s, [] => (s, [], none)
  | s, fld :: rest =>
    match g s fld.name with
    | (s1, .inst i) =>
      let r := injectFields g s1 rest
      (r.1, some i :: r.2.1, r.2.2)
    | (s1, .err e) =>
      if fld.optional then
        let r := injectFields g s1 rest
        (r.1, none :: r.2.1, r.2.2)
      else (s1, [none], some e)

/-- the body of a factory closure up to its return statement -/
def runDeps (g : St → Name → St × Res) : St → List Dep → St × Option Err
  | s, [] => (s, none)
  | s, d :: rest =>
    if d.viaInject then
      let r := injectFields g s [⟨d.name, d.optional⟩]
      match r.2.2 with
      | none => runDeps g r.1 rest
      | some e => (r.1, some e)
    else
      match g s d.name with
      | (s1, .inst _) => runDeps g s1 rest
      | (s1, .err e) => if d.optional then runDeps g s1 rest else (s1, some e)

/-- a factory closure -/
def runFactory (g : St → Name → St × Res) (s : St) (f : Factory) : St × FRes :=
  match runDeps g s f.deps with
  | (s1, some _) => (s1, .err)
  | (s1, none) =>
    match f.out with
    | .fail => (s1, .err)
    | .nilInst => (s1, .nilInst)
    | .ok => ({ s1 with nextId := s1.nextId + 1 }, .inst (.built s1.nextId))

/-- entering a factory: `d.callstack = append(d.callstack, name)`; the invocation is logged -/
def push (s : St) (n : Name) : St :=
  { s with callstack := s.callstack ++ [n], log := s.log ++ [.start n] }

/-- the two identical `if factory, exist := …` blocks of `Get`; `dflt` selects the clean-up
(`d.clean(name)` for an explicit factory, `delete(d.defaultFactories, name)` for a default one) -/
def construct (g : St → Name → St × Res) (s : St) (n : Name) (f : Factory) (dflt : Bool) : St × Res :=
  let depth := s.callstack.length
  match runFactory g (push s n) f with
  | (s2, .err) => ({ s2 with callstack := s2.callstack.take depth }, .err .failed)
  | (s2, .nilInst) => ({ s2 with callstack := s2.callstack.take depth }, .err .nilInstance)
  | (s2, .inst i) =>
    let s3 := { s2 with callstack := s2.callstack.take depth }
    let s4 := if dflt then
        (if s3.autoclean then { s3 with defaultFactories := s3.defaultFactories.del n } else s3)
      else clean s3 n
    ({ s4 with instances := s4.instances.set n i, log := s4.log ++ [.done n i] }, .inst i)

/-- `Get`.  The recursion through the factory closures is by fuel. -/
def get : Nat → St → Name → St × Res
  | 0, s, _ => ({ block s with exhausted := true }, .err .fuel)
  | fuel + 1, s0, n =>
    let s := block s0
    if n ∈ s.callstack then (s, .err .cyclic)
    else
      match s.instances n with
      | some i => (s, .inst i)
      | none =>
        match s.factories n with
        | some f => construct (get fuel) s n f false
        | none =>
          match s.defaultFactories n with
          | some f => construct (get fuel) s n f true
          | none => (s, .err .missing)

/-- the fuel a request starts with: one more than the number of names that can be on the stack -/
def fuelFor (s : St) : Nat := s.keys.length + 1 - s.callstack.length

/-- `Get` as called from outside -/
def Get (s : St) (n : Name) : St × Res := get (fuelFor s) s n

/-- `InjectTo` as called from outside -/
def InjectTo (s : St) (fields : List Field) : St × List (Option Inst) × Option Err :=
  injectFields (get (fuelFor s)) s fields

/-- `Keys` -/
def Keys (s : St) : List Name := s.keys

/-! ### histories -/

inductive Op where
  | set (n : Name) (v : Nat)
  | setDefault (n : Name) (v : Nat)
  | addFactory (n : Name) (f : Factory)
  | addDefaultFactory (n : Name) (f : Factory)
  | get (n : Name)
  | injectTo (fields : List Field)
  | keys
deriving DecidableEq, Repr

inductive Result where
  | ok
  | refused
  | got (r : Res)
  | injected (vals : List (Option Inst)) (e : Option Err)
  | keys (l : List Name)
deriving DecidableEq, Repr

def accepted (r : St × Bool) : St × Result := (r.1, if r.2 then .ok else .refused)

def step (s : St) : Op → St × Result
  | .set n v => accepted (set s n (.given v))
  | .setDefault n v => accepted (setDefault s n (.given v))
  | .addFactory n f => accepted (addFactory s n f)
  | .addDefaultFactory n f => accepted (addDefaultFactory s n f)
  | .get n => let r := Get s n; (r.1, .got r.2)
  | .injectTo fs => let r := InjectTo s fs; (r.1, .injected r.2.1 r.2.2)
  | .keys => (s, .keys (Keys s))

/-- state after a history -/
def exec (s : St) : List Op → St
  | [] => s
  | o :: rest => exec (step s o).1 rest

/-- results of a history -/
def results (s : St) : List Op → List Result
  | [] => []
  | o :: rest => (step s o).2 :: results (step s o).1 rest

/-- the definition `Get` would use for `n` right now: instances, then factories, then default factories -/
inductive Src where
  | inst (i : Inst)
  | fac (f : Factory)
deriving DecidableEq, Repr

def source (s : St) (n : Name) : Option Src :=
  match s.instances n with
  | some i => some (.inst i)
  | none =>
    match s.factories n with
    | some f => some (.fac f)
    | none =>
      match s.defaultFactories n with
      | some f => some (.fac f)
      | none => none

/-! ### vocabulary of the property (used by `Props/C10.lean`) -/

def Op.isDef : Op → Bool
  | .set .. | .setDefault .. | .addFactory .. | .addDefaultFactory .. => true
  | _ => false

/-- a request that reaches `Get` (an `InjectTo` without tagged fields never calls it) -/
def Op.isResolution : Op → Bool
  | .get _ => true
  | .injectTo (_ :: _) => true
  | _ => false

/-- names whose factory returned an instance that was stored, in order -/
def successes : List Ev → List Name
  | [] => []
  | .done n _ :: l => n :: successes l
  | .start _ :: l => successes l

/-- how often the factory of `n` was invoked -/
def invocations (n : Name) : List Ev → Nat
  | [] => 0
  | .start m :: l => (if m = n then 1 else 0) + invocations n l
  | .done _ _ :: l => invocations n l

/-- what an explicit definition call says about `n` -/
def Op.explicitOf (n : Name) : Op → Option Src
  | .set m v => if m = n then some (.inst (.given v)) else none
  | .addFactory m f => if m = n then some (.fac f) else none
  | _ => none

/-- what a default definition call says about `n` -/
def Op.defaultOf (n : Name) : Op → Option Src
  | .setDefault m v => if m = n then some (.inst (.given v)) else none
  | .addDefaultFactory m f => if m = n then some (.fac f) else none
  | _ => none

/-- `a` if it is there, else `b` -/
def orElse {α : Type} : Option α → Option α → Option α
  | some a, _ => some a
  | none, b => b

/-- the first explicit definition of `n` in a list of calls -/
def firstExplicit (n : Name) : List Op → Option Src
  | [] => none
  | o :: rest => orElse (o.explicitOf n) (firstExplicit n rest)

/-- the first default definition of `n` in a list of calls -/
def firstDefault (n : Name) : List Op → Option Src
  | [] => none
  | o :: rest => orElse (o.defaultOf n) (firstDefault n rest)

/-- `n` can be resolved from the definitions in force in `s`: it is an instance, or a factory that
returns an object and whose required dependencies can all be resolved -/
inductive Good (s : St) : Name → Prop where
  | inst {n : Name} {i : Inst} : source s n = some (.inst i) → Good s n
  | fac {n : Name} {f : Factory} : source s n = some (.fac f) → f.out = .ok →
      (∀ d, d ∈ f.deps → d.optional = false → Good s d.name) → Good s n

def Res.isInst : Res → Bool
  | .inst _ => true
  | .err _ => false

end Goat.DI
