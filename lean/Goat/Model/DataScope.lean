/-
Model/DataScope — executable mirror of `/repo/app/scope/datascope/{data,child,locker}.go`
(property C13).  Core Lean only.

What the Go code does (read from the source, every point is exercised by the correspondence run):

* `DataScope` (root) and `DataChildScope` own a Go map and a `sync.RWMutex mu`.
  - `SetValue`  : `mu.Lock;  data[k] = v;      mu.Unlock`
  - `Keys`      : `mu.RLock; copy OWN keys;    mu.RUnlock`   (a child does not list its parent's keys)
  - `Value`     : `mu.RLock; v, ok := data[k]; mu.RUnlock`; root: return `v` (nil if absent);
                  child: if `ok` return `v` (a stored nil shadows the parent) else `parent.Value(k)`
                  — the parent is read in a *second* critical section, on the parent's mutex.
  - `LockData`  : `mu.Lock` and return a locker that keeps `mu.Unlock` as its commit callback: the
                  scope's write lock is held from `LockData` until `Commit`.  A child's `LockData`
                  takes the child's mutex only, never the parent's.
* `DataLocker` shares the scope's map (no copy: `Commit` publishes nothing, it only unlocks), has a
  mutex of its own (`SetValue`/`Value`/`Keys` bracket the map access with it; `LockData` on a locker
  holds it until the nested locker commits), falls back to `parent.Value` on a miss, and `Commit`
  runs the callback and sets `data = nil` (afterwards `SetValue` panics — with the locker's mutex
  left locked —, `Value` only sees the parent, `Keys` is empty, a second `Commit` is the fatal
  `sync: Unlock of unlocked RWMutex`).

Model: scopes live in a heap (`List Scope`, index = identity; a child refers to its parent by
index, so parents are shared and "the parent's current value" is meaningful).  `held` is the
scope's RW-mutex seen at the granularity of critical sections: every read section is a single
atomic action, so between actions the only lock that can be found taken is the write lock kept by an
open locker.  The *atomic actions* below are exactly the critical sections listed above; both the
sequential request interpreter (`stepTask`/`runTask`, used by the driver) and the transition system
(`step`, used by the schedule-quantified theorems) are built from them.
-/
import Goat.Base.LTS

namespace Goat.DataScope

abbrev Key := Nat
/-- a stored value; `none` is Go's `nil` -/
abbrev Val := Option Nat
/-- a Go map as an association list with at most one entry per key (insertion order is not
observable: `Keys` is compared as a set) -/
abbrev Map := List (Key × Val)

/-- `v, ok := m[k]` -/
def mget : Map → Key → Option Val
  | [], _ => none
  | (k', v) :: rest, k => if k' = k then some v else mget rest k

/-- `m[k] = v` -/
def mset : Map → Key → Val → Map
  | [], k, v => [(k, v)]
  | (k', v') :: rest, k, v => if k' = k then (k', v) :: rest else (k', v') :: mset rest k v

def mkeys (m : Map) : List Key := m.map Prod.fst

structure Scope where
  parent : Option Nat
  data : Map
  /-- the scope's `mu` is write-locked by an open locker -/
  held : Bool
deriving Repr, DecidableEq

abbrev Scopes := List Scope

/-- parents are older than their children (true by construction: `NewChild` needs its parent) -/
def WF (ss : Scopes) : Prop :=
  ∀ (i : Nat) (sc : Scope), ss[i]? = some sc → ∀ p, sc.parent = some p → p < i

/-! ### Atomic actions on the heap -/

/-- the scope exists and its mutex is not write-held: `mu.Lock`/`mu.RLock` would succeed now -/
def isFree (ss : Scopes) (s : Nat) : Bool :=
  match ss[s]? with
  | some sc => !sc.held
  | none => false

def isHeld (ss : Scopes) (s : Nat) : Bool :=
  match ss[s]? with
  | some sc => sc.held
  | none => false

def dataGet (ss : Scopes) (s : Nat) (k : Key) : Option Val :=
  match ss[s]? with
  | some sc => mget sc.data k
  | none => none

def dataSet (ss : Scopes) (s : Nat) (k : Key) (v : Val) : Scopes :=
  match ss[s]? with
  | some sc => ss.set s { sc with data := mset sc.data k v }
  | none => ss

def dataKeys (ss : Scopes) (s : Nat) : List Key :=
  match ss[s]? with
  | some sc => mkeys sc.data
  | none => []

def parentOf (ss : Scopes) (s : Nat) : Option Nat :=
  match ss[s]? with
  | some sc => sc.parent
  | none => none

def setHeld (ss : Scopes) (s : Nat) (b : Bool) : Scopes :=
  match ss[s]? with
  | some sc => ss.set s { sc with held := b }
  | none => ss

/-- result of the critical section of `Value` on one scope -/
inductive Level where
  | hit (v : Val)     -- own entry (possibly nil)
  | up (p : Nat)      -- no own entry: continue with `parent.Value`
  | bottom            -- no own entry, no parent: nil
deriving Repr, DecidableEq

def readLevel (ss : Scopes) (s : Nat) (k : Key) : Level :=
  match dataGet ss s k with
  | some v => .hit v
  | none =>
    match parentOf ss s with
    | some p => .up p
    | none => .bottom

/-! ### Sequential reading of the interface (no lock is held by anybody) -/

def valueF (ss : Scopes) : Nat → Nat → Key → Val
  | 0, _, _ => none
  | f + 1, s, k =>
    match readLevel ss s k with
    | .hit v => v
    | .up p => valueF ss f p k
    | .bottom => none

/-- `scope.Value(k)`: the walk up the chain, as one function (fuel `s+1` suffices in a `WF` heap) -/
def value (ss : Scopes) (s : Nat) (k : Key) : Val := valueF ss (s + 1) s k

def newRoot (ss : Scopes) (m : Map) : Scopes := ss ++ [{ parent := none, data := m, held := false }]
def newChild (ss : Scopes) (p : Nat) (m : Map) : Scopes :=
  ss ++ [{ parent := some p, data := m, held := false }]

/-- the maps a `Value` call consults, child first (fuel as in `valueF`) -/
def chainF (ss : Scopes) : Nat → Nat → List Map
  | 0, _ => []
  | f + 1, s =>
    match ss[s]? with
    | none => []
    | some sc =>
      match sc.parent with
      | some p => sc.data :: chainF ss f p
      | none => [sc.data]

def chain (ss : Scopes) (s : Nat) : List Map := chainF ss (s + 1) s

/-- scope `j` and its ancestors (the scopes a `Value` call on `j` may consult) -/
def ancF (ss : Scopes) : Nat → Nat → List Nat
  | 0, _ => []
  | f + 1, j =>
    j :: (match parentOf ss j with
      | some p => ancF ss f p
      | none => [])

def anc (ss : Scopes) (j : Nat) : List Nat := ancF ss (j + 1) j

/-- first hit along a chain of maps, nil when there is none -/
def firstHit : List Map → Key → Val
  | [], _ => none
  | m :: rest, k =>
    match mget m k with
    | some v => v
    | none => firstHit rest k

/-! ### Lockers as handles (sequential request interpreter, used by the model driver) -/

inductive Mu where
  | scope (s : Nat)
  | locker (l : Nat)
deriving Repr, DecidableEq

structure Locker where
  /-- the scope whose map the locker shares; `none` after `Commit` (`data = nil`) -/
  target : Option Nat
  /-- `locker.parent` -/
  parent : Option Nat
  /-- the mutex `Commit` unlocks -/
  unlock : Mu
  /-- the locker's own `mu` is write-locked (open nested locker, or a `SetValue` that panicked) -/
  held : Bool
deriving Repr, DecidableEq

structure Store where
  scopes : Scopes
  lockers : List Locker
deriving Repr, DecidableEq

inductive Req where
  | set (s : Nat) (k : Key) (v : Val)
  | get (s : Nat) (k : Key)
  | keys (s : Nat)
  | lock (s : Nat)
  | lset (l : Nat) (k : Key) (v : Val)
  | lget (l : Nat) (k : Key)
  | lkeys (l : Nat)
  | llock (l : Nat)
  | commit (l : Nat)
deriving Repr, DecidableEq

inductive Res where
  | ok
  | val (v : Val)
  | keys (ks : List Key)
  | locker (l : Nat)
  | panic          -- assignment to entry in nil map (SetValue on a committed locker)
  | fatal          -- sync: Unlock of unlocked RWMutex (not recoverable in Go)
  | bad            -- unknown scope / locker id
deriving Repr, DecidableEq

/-- a started call: a fresh request, or a `Value` call that has reached scope `s` -/
inductive Task where
  | req (r : Req)
  | walk (s : Nat) (k : Key)
deriving Repr, DecidableEq

inductive Outcome where
  | blocked                          -- the mutex the next critical section needs is taken
  | done (st : Store) (r : Res)
  | more (st : Store) (t : Task)     -- one critical section done, the call goes on
deriving Repr

def walkTask (st : Store) (s : Nat) (k : Key) : Outcome :=
  match st.scopes[s]? with
  | none => .done st .bad
  | some sc =>
    if sc.held then .blocked else
    match readLevel st.scopes s k with
    | .hit v => .done st (.val v)
    | .up p => .more st (.walk p k)
    | .bottom => .done st (.val none)

def setLocker (st : Store) (l : Nat) (lk : Locker) : Store := { st with lockers := st.lockers.set l lk }

/-- one critical section of a call -/
def stepTask (st : Store) : Task → Outcome
  | .walk s k => walkTask st s k
  | .req (.get s k) => walkTask st s k
  | .req (.set s k v) =>
    match st.scopes[s]? with
    | none => .done st .bad
    | some sc => if sc.held then .blocked else .done { st with scopes := dataSet st.scopes s k v } .ok
  | .req (.keys s) =>
    match st.scopes[s]? with
    | none => .done st .bad
    | some sc => if sc.held then .blocked else .done st (.keys (mkeys sc.data))
  | .req (.lock s) =>
    match st.scopes[s]? with
    | none => .done st .bad
    | some sc =>
      if sc.held then .blocked else
      .done { scopes := setHeld st.scopes s true,
              lockers := st.lockers ++ [{ target := some s, parent := sc.parent, unlock := .scope s, held := false }] }
            (.locker st.lockers.length)
  | .req (.lset l k v) =>
    match st.lockers[l]? with
    | none => .done st .bad
    | some lk =>
      if lk.held then .blocked else
      match lk.target with
      | some s => .done { st with scopes := dataSet st.scopes s k v } .ok
      | none => .done (setLocker st l { lk with held := true }) .panic   -- panics between Lock and Unlock
  | .req (.lget l k) =>
    match st.lockers[l]? with
    | none => .done st .bad
    | some lk =>
      if lk.held then .blocked else
      let own := match lk.target with
        | some s => dataGet st.scopes s k
        | none => none
      match own with
      | some v => .done st (.val v)
      | none =>
        match lk.parent with
        | some p => .more st (.walk p k)
        | none => .done st (.val none)
  | .req (.lkeys l) =>
    match st.lockers[l]? with
    | none => .done st .bad
    | some lk =>
      if lk.held then .blocked else
      match lk.target with
      | some s => .done st (.keys (dataKeys st.scopes s))
      | none => .done st (.keys [])
  | .req (.llock l) =>
    match st.lockers[l]? with
    | none => .done st .bad
    | some lk =>
      if lk.held then .blocked else
      let st1 := setLocker st l { lk with held := true }
      .done { st1 with lockers := st1.lockers ++ [{ target := lk.target, parent := lk.parent, unlock := .locker l, held := false }] }
            (.locker st.lockers.length)
  | .req (.commit l) =>
    match st.lockers[l]? with
    | none => .done st .bad
    | some lk =>
      match lk.unlock with
      | .scope s =>
        if isHeld st.scopes s then
          .done (setLocker { st with scopes := setHeld st.scopes s false } l { lk with target := none }) .ok
        else .done st .fatal
      | .locker o =>
        match st.lockers[o]? with
        | none => .done st .fatal
        | some ol =>
          if ol.held then
            -- (o = l cannot happen: a locker is created after the one it unlocks)
            let st1 := setLocker st o { ol with held := false }
            match st1.lockers[l]? with
            | some lk1 => .done (setLocker st1 l { lk1 with target := none }) .ok
            | none => .done st1 .ok
          else .done st .fatal

/-- run a call until it returns or blocks; `inr t` = blocked with `t` still to do -/
def runTask : Nat → Store → Task → Store × (Res ⊕ Task)
  | 0, st, _ => (st, .inl .bad)
  | f + 1, st, t =>
    match stepTask st t with
    | .blocked => (st, .inr t)
    | .done st' r => (st', .inl r)
    | .more st' t' => runTask f st' t'

/-- enough fuel for any call on a well-formed heap: a walk visits each scope at most once -/
def fuelFor (st : Store) : Nat := st.scopes.length + 2

def run (st : Store) (t : Task) : Store × (Res ⊕ Task) := runTask (fuelFor st) st t

/-! ### Transition system: threads running programs against shared scopes

A thread owns the lockers it opened (a locker is never handed to another goroutine here), opens them
on scopes and commits them in LIFO order; since such a locker is determined by its scope, the
thread keeps the stack of scopes it holds.  `reg` is the thread's local variable (last value read),
`walk` a `Value` call in progress.  One `step` = one critical section of the real code. -/

inductive Instr where
  | set (s : Nat) (k : Key) (v : Val)   -- scope.SetValue(k, v)
  | get (s : Nat) (k : Key)             -- reg = scope.Value(k)
  | keys (s : Nat)                      -- scope.Keys()
  | lock (s : Nat)                      -- locker = scope.LockData()
  | lget (k : Key)                      -- reg = locker.Value(k)
  | lset (k : Key) (v : Val)            -- locker.SetValue(k, v)
  | linc (k : Key)                      -- locker.SetValue(k, reg + 1)        (nil counts as 0)
  | lcreate (k : Key)                   -- if reg == nil { reg = new instance; locker.SetValue(k, reg) }
  | lkeys                               -- locker.Keys()
  | commit                              -- locker.Commit()
deriving Repr, DecidableEq

structure Thread where
  prog : List Instr
  lks : List Nat
  reg : Val
  walk : Option (Nat × Key)
deriving Repr, DecidableEq

structure St where
  scopes : Scopes
  threads : List Thread
  /-- next fresh instance identity handed out by `lcreate` -/
  fresh : Nat
deriving Repr, DecidableEq

def setThread (st : St) (i : Nat) (th : Thread) : St := { st with threads := st.threads.set i th }

/-- the critical section of `Value` on scope `s`, for a thread whose other fields are already `th` -/
def walkStep (st : St) (i : Nat) (th : Thread) (s : Nat) (k : Key) : Option St :=
  if isFree st.scopes s then
    match readLevel st.scopes s k with
    | .hit v => some (setThread st i { th with reg := v, walk := none })
    | .up p => some (setThread st i { th with walk := some (p, k) })
    | .bottom => some (setThread st i { th with reg := none, walk := none })
  else none

def instrStep (st : St) (i : Nat) (th : Thread) (ins : Instr) (rest : List Instr) : Option St :=
  let th' : Thread := { th with prog := rest }
  match ins with
  | .set s k v =>
    if isFree st.scopes s then some (setThread { st with scopes := dataSet st.scopes s k v } i th') else none
  | .get s k => walkStep st i th' s k
  | .keys s => if isFree st.scopes s then some (setThread st i th') else none
  | .lock s =>
    if isFree st.scopes s then
      some (setThread { st with scopes := setHeld st.scopes s true } i { th' with lks := s :: th.lks })
    else none
  | .lget k =>
    match th.lks with
    | [] => none
    | s :: _ =>
      match readLevel st.scopes s k with
      | .hit v => some (setThread st i { th' with reg := v })
      | .up p => some (setThread st i { th' with walk := some (p, k) })
      | .bottom => some (setThread st i { th' with reg := none })
  | .lset k v =>
    match th.lks with
    | [] => none
    | s :: _ => some (setThread { st with scopes := dataSet st.scopes s k v } i th')
  | .linc k =>
    match th.lks with
    | [] => none
    | s :: _ => some (setThread { st with scopes := dataSet st.scopes s k (some (th.reg.getD 0 + 1)) } i th')
  | .lcreate k =>
    match th.lks with
    | [] => none
    | s :: _ =>
      match th.reg with
      | some _ => some (setThread st i th')
      | none =>
        some (setThread { st with scopes := dataSet st.scopes s k (some st.fresh), fresh := st.fresh + 1 } i
                { th' with reg := some st.fresh })
  | .lkeys =>
    match th.lks with
    | [] => none
    | _ :: _ => some (setThread st i th')
  | .commit =>
    match th.lks with
    | [] => none
    | s :: more =>
      if isHeld st.scopes s then
        some (setThread { st with scopes := setHeld st.scopes s false } i { th' with lks := more })
      else none

/-- thread `i` performs its next critical section, if the mutex it needs is available -/
def step (st : St) (i : Nat) : Option St :=
  match st.threads[i]? with
  | none => none
  | some th =>
    match th.walk with
    | some (s, k) => walkStep st i th s k
    | none =>
      match th.prog with
      | [] => none
      | ins :: rest => instrStep st i th ins rest

def sys (init : St) : LTS.Sys St Nat := { init := init, step := step }

/-- a thread that has not started -/
def Thread.start (p : List Instr) : Thread := { prog := p, lks := [], reg := none, walk := none }

def Thread.finished (th : Thread) : Bool := th.prog.isEmpty && th.walk.isNone

def allDone (st : St) : Bool := st.threads.all Thread.finished

/-- the scope the next action of thread `i` accesses (reads or writes its map or takes its mutex) -/
def touches (st : St) (i : Nat) : Option Nat :=
  match st.threads[i]? with
  | none => none
  | some th =>
    match th.walk with
    | some (s, _) => some s
    | none =>
      match th.prog with
      | [] => none
      | .set s _ _ :: _ => some s
      | .get s _ :: _ => some s
      | .keys s :: _ => some s
      | .lock s :: _ => some s
      | _ :: _ => th.lks.head?

/-- thread `t` is between a `LockData` on scope `s` and the matching `Commit` -/
def holds (st : St) (t : Nat) (s : Nat) : Bool :=
  match st.threads[t]? with
  | none => false
  | some th => th.lks.contains s

/-! Programs of the three idioms -/

/-- `locker := s.LockData(); v := locker.Value(k); locker.SetValue(k, v+1); locker.Commit()` -/
def incSection (s : Nat) (k : Key) : List Instr := [.lock s, .lget k, .linc k, .commit]

def incProg (s : Nat) (k : Key) : Nat → List Instr
  | 0 => []
  | n + 1 => incSection s k ++ incProg s k n

/-- `tasks.Unit.FromScope`, `envs.Unit.Envs`, `waits.WaitManager.ForScope` -/
def getOrCreate (s : Nat) (k : Key) : List Instr := [.lock s, .lget k, .lcreate k, .commit]

/-- `n` goroutines each running `prog`, next to goroutines running the programs `others` -/
def initSt (ss : Scopes) (n : Nat) (prog : List Instr) (others : List (List Instr)) (fresh : Nat) : St :=
  { scopes := ss, threads := List.replicate n (Thread.start prog) ++ others.map Thread.start, fresh := fresh }

/-- plain traffic of another goroutine that does not overwrite key `c` of scope `s`:
`SetValue` elsewhere, `Value` and `Keys` anywhere -/
def noiseOK (s : Nat) (c : Key) : Instr → Bool
  | .set s' k' _ => !(s' == s && k' == c)
  | .get _ _ => true
  | .keys _ => true
  | _ => false

def isNoise (s : Nat) (c : Key) (p : List Instr) : Bool := p.all (noiseOK s c)

/-- the scope named by an instruction exists -/
def instrValid (len : Nat) : Instr → Bool
  | .set s _ _ => decide (s < len)
  | .get s _ => decide (s < len)
  | .keys s => decide (s < len)
  | .lock s => decide (s < len)
  | _ => true

def progValid (len : Nat) (p : List Instr) : Bool := p.all (instrValid len)

/-- plain traffic that never writes key `c` (on any scope) -/
def keyNoiseOK (c : Key) : Instr → Bool
  | .set _ k' _ => !(k' == c)
  | .get _ _ => true
  | .keys _ => true
  | _ => false

def isKeyNoise (c : Key) (p : List Instr) : Bool := p.all (keyNoiseOK c)

end Goat.DataScope
