/-
Model/DataScopeSvc — the service units that sit on top of the data scope (property C13), as
compositions of the data-scope operations of `Model/DataScope`.  Core Lean only.

What the Go code does (`/repo/app/modules/pipelinem/pipservices/tasks/unit.go`,
`/repo/app/modules/commonm/commservices/envs/unit.go`, `…/waits/wait_manager.go`):

* get-or-create (`tasks.Unit.FromScope`, `envs.Unit.Envs`, `waits.WaitManager.ForScope`):
  `l := scp.LockData(); v := l.Value(key); if v == nil { v = new instance; l.SetValue(key, v) }; l.Commit()`.
  `l.Value` is the overlay read (own entry of `scp`, else the parent chain), `l.SetValue` writes the OWN
  map of `scp`: an instance found through an ancestor is returned and nothing is stored; a stored nil (or
  no entry anywhere) makes a new instance that is stored in `scp` itself.
* `tasks.Unit.BindScope(scp, m)` = `scp.SetValue(key, m)`: ALWAYS writes the own slot of `scp`, whatever
  `scp.Value(key)` currently resolves to (in particular when the parent holds the same `m`).
* `tasks.Unit.Clear(scp)` = `scp.SetValue(key, nil)`: stores a nil in the own slot (it does not delete the
  entry).  In a child that nil SHADOWS the parent (`DataChildScope.Value` returns a stored nil), so a
  cleared child no longer follows its parent; the next get-or-create on it makes a fresh instance.

So every node has, per service key, an own slot that is `some (some inst)` / `some none` (explicitly
cleared) / `none` (absent) — `dataGet ss n k` — and a lookup goes to the nearest ancestor-or-self
whose own slot is not absent — `value ss n k`.  Instances are numbered in order of creation (`fresh`).

Two readings are given: the pure one (`svcStep`, used by the theorems: nobody holds a lock) and the one
through the request interpreter `run` (`gocRun` …, used by the model driver `m_dssvc`, where scopes may
be locked by open lockers and a call that would wait is reported as such); `Props/C13.gocRun_is_svcGoc`
shows they agree on an unlocked heap.
-/
import Goat.Model.DataScope

namespace Goat.DataScope

structure Svc where
  ss : Scopes
  /-- number of instances created so far = identity of the next one -/
  fresh : Nat
deriving Repr, DecidableEq

inductive SvcOp where
  | goc (n : Nat) (k : Key)                    -- FromScope / Envs / ForScope on node n
  | bind (n : Nat) (k : Key) (m : Nat)         -- BindScope(n, instance m)
  | clear (n : Nat) (k : Key)                  -- Clear(n)
  | set (n : Nat) (k : Key) (v : Val)          -- plain scp.SetValue(key, v)
  | get (n : Nat) (k : Key)                    -- plain scp.Value(key)
  | sect (n : Nat) (ws : List (Key × Val))     -- l := n.LockData(); l.SetValue … ; l.Commit()
deriving Repr, DecidableEq

/-- which instance a lookup of service key `k` on node `n` resolves to (`none` = nil) -/
def resolve (σ : Svc) (n : Nat) (k : Key) : Val := value σ.ss n k

/-- the own slot: `none` absent, `some none` explicitly cleared, `some (some i)` instance i -/
def ownSlot (σ : Svc) (n : Nat) (k : Key) : Option Val := dataGet σ.ss n k

def svcGoc (σ : Svc) (n : Nat) (k : Key) : Svc × Nat :=
  match value σ.ss n k with
  | some v => (σ, v)
  | none => ({ ss := dataSet σ.ss n k (some σ.fresh), fresh := σ.fresh + 1 }, σ.fresh)

def svcBind (σ : Svc) (n : Nat) (k : Key) (m : Nat) : Svc := { σ with ss := dataSet σ.ss n k (some m) }

def svcClear (σ : Svc) (n : Nat) (k : Key) : Svc := { σ with ss := dataSet σ.ss n k none }

def svcSect (σ : Svc) (n : Nat) (ws : List (Key × Val)) : Svc :=
  { σ with ss := ws.foldl (fun ss w => dataSet ss n w.1 w.2) σ.ss }

def svcStep (σ : Svc) : SvcOp → Svc
  | .goc n k => (svcGoc σ n k).1
  | .bind n k m => svcBind σ n k m
  | .clear n k => svcClear σ n k
  | .set n k v => { σ with ss := dataSet σ.ss n k v }
  | .get _ _ => σ
  | .sect n ws => svcSect σ n ws

def svcRun (σ : Svc) (ops : List SvcOp) : Svc := ops.foldl svcStep σ

/-- the op may write the own slot of node `n` for key `k` -/
def SvcOp.touches (n : Nat) (k : Key) : SvcOp → Bool
  | .goc n' k' => n' == n && k' == k
  | .bind n' k' _ => n' == n && k' == k
  | .clear n' k' => n' == n && k' == k
  | .set n' k' _ => n' == n && k' == k
  | .get _ _ => false
  | .sect n' ws => n' == n && ws.any (fun w => w.1 == k)

/-! ### the same through the request interpreter (scopes may be locked) -/

/-- get-or-create as the four calls of the Go function; `none` = one of them would wait for a mutex
(a `LockData` on a locked scope, or the fall-back read of a locked ancestor) -/
def gocRun (st : Store) (fresh : Nat) (n : Nat) (k : Key) : Option (Store × Nat × Nat) :=
  match run st (.req (.lock n)) with
  | (st1, .inl (.locker l)) =>
    match run st1 (.req (.lget l k)) with
    | (st2, .inl (.val (some v))) =>
      match run st2 (.req (.commit l)) with
      | (st3, .inl .ok) => some (st3, fresh, v)
      | _ => none
    | (st2, .inl (.val none)) =>
      match run st2 (.req (.lset l k (some fresh))) with
      | (st3, .inl .ok) =>
        match run st3 (.req (.commit l)) with
        | (st4, .inl .ok) => some (st4, fresh + 1, fresh)
        | _ => none
      | _ => none
    | _ => none
  | _ => none

/-- `BindScope` / `Clear` / plain `SetValue`: one `SetValue` call; `none` = it would wait -/
def setRun (st : Store) (n : Nat) (k : Key) (v : Val) : Option Store :=
  match run st (.req (.set n k v)) with
  | (st1, .inl .ok) => some st1
  | _ => none

/-- plain `Value`; `none` = it would wait -/
def getRun (st : Store) (n : Nat) (k : Key) : Option Val :=
  match run st (.req (.get n k)) with
  | (_, .inl (.val v)) => some v
  | _ => none

end Goat.DataScope
