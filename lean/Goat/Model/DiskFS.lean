/-
Executable model of the disk filespace (core Lean only; linked into the `m_disk` driver).

Mirrors, as they are in /repo now,
  filesystem/filespace/diskfs/filespace.go   `Filespace.*` — every method is `ReduceAbsPath` (= `Path.norm`)
                                             followed by the host call(s) it makes on `fs.path + path`
  filesystem/filespace/diskfs/handler.go     `FileHandler` (`Close` = `Sync` + `Close`)
  filesystem/disk/disk.go                    `IsExist`, `IsDir`, `IsFile`, `MkdirAll`
  filesystem/disk/copy.go                    `Copy`, `CopyDirectory`, `CopyFile`

THE HOST.  The file system the Go code talks to is modelled explicitly as a small POSIX-like host
  `Host = List (path × entry)`   a flat map from absolute host paths (lists of names) to
                                 `file bytes | dir`; the host root `[]` is a directory by definition
with the failure conditions of the system calls the Go code uses (see each `os*` function below):
a component that is missing (`ENOENT`) or a file (`ENOTDIR`), creating below a missing parent,
`EISDIR` for opening a directory for writing, `ENOTEMPTY`, a trailing slash (`fs.path + ""` is
`…/root/`) that demands a directory.  That Linux behaves like this host is an ASSUMPTION of property
C02 (validated by the differential on every run), not a theorem.  Not modelled: permissions, modes,
times, links, name-length limits and the NUL byte (the generator produces neither), disk full.

A disk filespace is its host root path `r : List Name` (`fs.path` = `/` ++ join r ++ `/`); a child view
opened by `Filespace(p)` is simply another disk filespace, rooted at `r ++ norm p`
(`NewFilespace(fullPath)`), provided that directory exists.

Host paths are kept as `HP = (segments, trailing slash)`: `fs.path + p` ends in `/` exactly when
`p = ""`, `filepath.Dir`, `filepath.Join`, `filepath.Rel` act on the segments and drop the slash.

Composite algorithms are modelled step by step, with the partial effects they can leave behind:
  `diskfs.WriteFile` = `MkdirAll(Dir(full))` then `ioutil.WriteFile`
  `disk.CopyDirectory` = type check, `MkdirAll(Dir(dest))`, `filepath.Walk` collecting `(subPath, isDir)`
                         in lexical order, then per entry `MkdirAll` / `CopyFile`
  `disk.CopyFile` = `os.Open`, `Stat().IsDir()` check, `os.Create` (truncate), `io.Copy`
  `Writer` = `OpenFile(O_WRONLY|O_CREATE|O_TRUNC)`, one append per `Write`, `Sync`, `Close`
The walk callback receives `(info, err)` as `filepath.Walk` hands them over; dereferencing a nil `info`
is the explicit outcome `Out.panic` (`Props/C02.no_panic`: unreachable).
-/
import Goat.Spec.FS

namespace Goat
namespace DiskFS

open Path (Name norm)
open FS (Op Result Entry)

/-! ### Sorting (structural, so that closed examples evaluate in the kernel) -/

/-- insert into a sorted list -/
def insertBy {α} (le : α → α → Bool) (a : α) : List α → List α
  | [] => [a]
  | b :: l => if le a b then a :: b :: l else b :: insertBy le a l

/-- insertion sort -/
def sortBy {α} (le : α → α → Bool) : List α → List α
  | [] => []
  | a :: l => insertBy le a (sortBy le l)

/-- order of `sort.Slice(…, Name() < Name())` and of `filepath.Walk`: bytewise on names,
lexicographic on segment lists -/
def keyLe {α β} [LT α] [DecidableLT α] [DecidableEq α] (a b : List α × β) : Bool := decide (a.1 ≤ b.1)

/-! ### The host -/

/-- absolute host path -/
abbrev HPath := List Name

/-- the host file system: flat map from absolute paths to entries -/
abbrev Host := List (HPath × Entry)

namespace Host

/-- stored binding of a path, if any -/
def raw : Host → HPath → Option Entry
  | [], _ => none
  | (k, e) :: rest, p => if k = p then some e else raw rest p

/-- what stands at a path (`stat`, ignoring how the walk to it fails); `/` is a directory -/
def get (H : Host) (p : HPath) : Option Entry :=
  if p = [] then some .dir else H.raw p

/-- create or replace the binding of `p` -/
def put (H : Host) (p : HPath) (e : Entry) : Host :=
  (p, e) :: H.filter (fun kv => decide (kv.1 ≠ p))

/-- drop the binding of `p` -/
def del (H : Host) (p : HPath) : Host :=
  H.filter (fun kv => decide (kv.1 ≠ p))

/-- drop `p` and everything below it -/
def delTree (H : Host) (p : HPath) : Host :=
  H.filter (fun kv => decide (¬ p <+: kv.1))

/-- `(name, isDir)` of the children of `p`, in storage order -/
def children (H : Host) (p : HPath) : List (Name × Bool) :=
  H.filterMap fun kv =>
    match kv.1.getLast? with
    | some n => if kv.1.dropLast = p then some (n, kv.2.isDir) else none
    | none => none

/-- a regular file stands at `p` -/
def fileAt (H : Host) (p : HPath) : Bool :=
  match H.get p with
  | some (.file _) => true
  | _ => false

/-- walking down from `cur` along the names, some component met (the last included) is a regular file -/
def throughFileFrom (H : Host) (cur : HPath) : List Name → Bool
  | [] => H.fileAt cur
  | n :: rest => H.fileAt cur || throughFileFrom H (cur ++ [n]) rest

/-- some component on the way to `p` (or `p` itself) is a regular file: the walk fails with `ENOTDIR`
rather than `ENOENT` -/
def throughFile (H : Host) (p : HPath) : Bool := H.throughFileFrom [] p

/-- the well-formed hosts: one binding per path, none for `/`, and the parent of every bound path is a
directory (so whatever exists is reachable by walking down from `/`) -/
def WF (H : Host) : Prop :=
  (H.map (·.1)).Nodup ∧ ∀ kv ∈ H, kv.1 ≠ [] ∧ H.get kv.1.dropLast = some .dir

end Host

/-- a host path as the Go code writes it: segments and whether the string ends in `/` -/
structure HP where
  path : HPath
  slash : Bool
deriving Repr, DecidableEq

/-- `filepath.Dir` -/
def HP.dir (x : HP) : HP := if x.slash then ⟨x.path, false⟩ else ⟨x.path.dropLast, false⟩

/-- `filepath.Join(x, sub)` for a relative `sub` without `.`/`..` (`[]` is `"."`) -/
def HP.join (x : HP) (sub : HPath) : HP := ⟨x.path ++ sub, false⟩

/-! ### System calls (`os`, `io/ioutil`) -/

/-- `os.Stat` / `os.Lstat` (no links): a trailing slash on a regular file is `ENOTDIR` -/
def osStat (H : Host) (x : HP) : Option Entry :=
  match H.get x.path with
  | some (.file d) => if x.slash then none else some (.file d)
  | e => e

/-- `os.Mkdir`: the parent must be a directory, the path must not exist -/
def osMkdir (H : Host) (p : HPath) : Option Host :=
  if p = [] then none else
  match H.get p.dropLast, H.get p with
  | some .dir, none => some (H.put p .dir)
  | _, _ => none

/-- `os.MkdirAll`, its recursion on the parent (the argument is the path reversed): `Stat` first —
a directory is success, a file `ENOTDIR`; otherwise `MkdirAll(parent)`, `Mkdir(path)`, and when that
fails a second look (`Lstat`) whether the directory exists after all -/
def mkdirAllRev (H : Host) : List Name → Option Host
  | [] => some H
  | n :: up =>
    match H.get (n :: up).reverse with
    | some .dir => some H
    | some (.file _) => none
    | none =>
      match mkdirAllRev H up with
      | none => none
      | some H1 =>
        match osMkdir H1 (n :: up).reverse with
        | some H2 => some H2
        | none =>
          match H1.get (n :: up).reverse with
          | some .dir => some H1
          | _ => none

/-- `os.MkdirAll` (a trailing slash makes no difference) -/
def osMkdirAll (H : Host) (p : HPath) : Option Host := mkdirAllRev H p.reverse

/-- `os.OpenFile(path, O_WRONLY|O_CREATE|O_TRUNC)` and `os.Create`: the parent must be a directory, the
path must not be one; an existing file is emptied, a missing one created.  With a trailing slash the
call always fails (`EISDIR` / `ENOTDIR`). -/
def osOpenTrunc (H : Host) (x : HP) : Option Host :=
  if x.slash ∨ x.path = [] then none else
  match H.get x.path.dropLast with
  | some .dir =>
    match H.get x.path with
    | some .dir => none
    | _ => some (H.put x.path (.file []))
  | _ => none

/-- `Write` on an open file: append -/
def osAppend (H : Host) (p : HPath) (c : Bytes) : Option Host :=
  match H.get p with
  | some (.file d) => some (H.put p (.file (d ++ c)))
  | _ => none

/-- all `Write`s of a handle -/
def osAppendAll (H : Host) (p : HPath) : List Bytes → Option Host
  | [] => some H
  | c :: cs =>
    match osAppend H p c with
    | none => none
    | some H1 => osAppendAll H1 p cs

/-- `os.Remove`: `unlink`, then `rmdir` — a file, or a directory without children; never `/` -/
def osRemove (H : Host) (x : HP) : Option Host :=
  if x.path = [] then none else
  match osStat H x with
  | some (.file _) => some (H.del x.path)
  | some .dir => if (H.children x.path).isEmpty then some (H.del x.path) else none
  | none => none

/-- `os.RemoveAll` (never called with a trailing slash or on `/`): `Remove` first; "does not exist" is
success; a walk that fails with `ENOTDIR` is an error (`Open(parent)` or `unlinkat` report it);
otherwise the subtree is removed -/
def osRemoveAll (H : Host) (p : HPath) : Option Host :=
  match H.get p with
  | some _ => some (H.delTree p)
  | none => if H.throughFile p then none else some H

/-- `ioutil.ReadDir`: the entries of a directory sorted by name (bytewise) -/
def osReadDir (H : Host) (x : HP) : Option (List (Name × Bool)) :=
  match osStat H x with
  | some .dir => some (sortBy keyLe (H.children x.path))
  | _ => none

/-- successive `(*os.File).Read` calls on a regular file: an empty buffer reads nothing and reports
nothing; otherwise `io.EOF` comes with the first read that delivers no byte -/
def readLoop : Bytes → List Nat → List (Bytes × Bool)
  | _, [] => []
  | rest, n :: sizes => (rest.take n, n != 0 && (rest.take n).isEmpty) :: readLoop (rest.drop n) sizes

/-- `Name()` of the `FileInfo` of `Lstat`: the last element of the path string; `/` for the host root -/
def statName (p : HPath) : Name :=
  match p.getLast? with
  | some n => n
  | none => [Path.slash]

/-! ### `filesystem/disk` -/

/-- `disk.IsExist` -/
def isExist (H : Host) (x : HP) : Bool := (osStat H x).isSome

/-- `disk.IsDir` -/
def isDir (H : Host) (x : HP) : Bool := osStat H x == some .dir

/-- `disk.IsFile` -/
def isFile (H : Host) (x : HP) : Bool :=
  match osStat H x with
  | some (.file _) => true
  | _ => false

/-- a call that may leave partial effects: the host afterwards and whether it reported success -/
abbrev Eff := Host × Bool

/-- `disk.CopyFile(src, dst)` -/
def copyFile (H : Host) (src dst : HP) : Eff :=
  match osStat H src with                       -- os.Open(src)
  | none => (H, false)
  | some .dir => (H, false)                     -- s.Stat(): "is a directory"
  | some (.file _) =>
    match osOpenTrunc H dst with                -- os.Create(dst)
    | none => (H, false)
    | some H1 =>
      match H1.get src.path with                -- io.Copy(d, s): the source as it is now
      | some (.file data) =>
        match osAppend H1 dst.path data with
        | some H2 => (H2, true)
        | none => (H1, false)
      | _ => (H1, false)

/-- what `filepath.Walk` hands to its callback: path relative to the walk root, the `FileInfo`
(observed: `IsDir`) or nil, and whether it reports an error -/
structure WalkItem where
  sub : HPath
  info : Option Bool
  err : Bool

/-- the bindings strictly below `src`, with their path relative to `src` -/
def below (H : Host) (src : HPath) : List (HPath × Bool) :=
  H.filterMap fun kv =>
    if src <+: kv.1 ∧ kv.1 ≠ src then some (kv.1.drop src.length, kv.2.isDir) else none

/-- `filepath.Walk(src, fn)` on a host that does not change during the walk: `Lstat(src)` failing is one
call with a nil info and the error; otherwise every node at or below `src` in lexical order (each
directory's names sorted, a directory before its content: the lexicographic order of the segment lists) -/
def walkItems (H : Host) (src : HP) : List WalkItem :=
  match osStat H src with
  | none => [⟨[], none, true⟩]
  | some e =>
    ⟨[], some e.isDir, false⟩ ::
      ((sortBy keyLe (below H src.path)).map fun it => ⟨it.1, some it.2, false⟩)

/-- outcome of the collecting callback over the whole walk -/
inductive Collected where
  | nodes (l : List (HPath × Bool))
  | fail
  | panic

/-- the callback of `CopyDirectory`: `if err != nil { return err }`, then `info.IsDir()` — a nil
`info` there would be a nil dereference -/
def collect : List WalkItem → List (HPath × Bool) → Collected
  | [], acc => .nodes acc.reverse
  | it :: rest, acc =>
    if it.err then .fail else
    match it.info with
    | none => .panic
    | some d => collect rest ((it.sub, d) :: acc)

/-- the copying loop over the collected nodes -/
def copyNodes (src dest : HP) : Host → List (HPath × Bool) → Eff
  | H, [] => (H, true)
  | H, (sub, true) :: rest =>
    match osMkdirAll H (dest.join sub).path with
    | none => (H, false)
    | some H1 => copyNodes src dest H1 rest
  | H, (sub, false) :: rest =>
    match copyFile H (src.join sub) (dest.join sub) with
    | (H1, false) => (H1, false)
    | (H1, true) => copyNodes src dest H1 rest

/-- result of a composite that may panic -/
inductive EffP where
  | eff (e : Eff)
  | panic

/-- `disk.CopyDirectory(src, dest)` -/
def copyDirectory (H : Host) (src dest : HP) : EffP :=
  match osStat H src with
  | none => .eff (H, false)
  | some (.file _) => .eff (H, false)           -- "is not a directory"
  | some .dir =>
    match osMkdirAll H dest.dir.path with
    | none => .eff (H, false)
    | some H1 =>
      match collect (walkItems H1 src) [] with
      | .panic => .panic
      | .fail => .eff (H1, false)
      | .nodes l => .eff (copyNodes src dest H1 l)

/-- `disk.Copy(src, dest)` -/
def copy (H : Host) (src dest : HP) : EffP :=
  if isDir H src then copyDirectory H src dest else .eff (copyFile H src dest)

/-! ### `diskfs.Filespace` -/

/-- what a call hands back: a result of the interface, or a Go panic -/
inductive Out where
  | val (r : Result)
  | panic
deriving Repr, DecidableEq

/-- `fs.path + path` for a reduced `path` -/
def full (r : HPath) (p : List Name) : HP := ⟨r ++ p, p.isEmpty⟩

def okErr (e : Eff) : Host × Out := (e.1, .val (if e.2 then .ok else .err))

def okErrP : EffP → Host → Host × Out
  | .eff e, _ => okErr e
  | .panic, H => (H, .panic)

/-- one call of a method of the disk filespace rooted at host path `r` -/
def step (r : HPath) (H : Host) (op : Op) : Host × Out :=
  let one (raw : Bytes) (bad : Result) (f : List Name → Host × Out) : Host × Out :=
    match norm raw with
    | none => (H, .val bad)
    | some p => f p
  let two (rs rd : Bytes) (f : List Name → List Name → Host × Out) : Host × Out :=
    match norm rs with
    | none => (H, .val .err)
    | some s =>
      match norm rd with
      | none => (H, .val .err)
      | some d => f s d
  match op with
  | .copy rs rd => two rs rd fun s d => okErrP (copy H (full r s) (full r d)) H
  | .copyDirectory rs rd => two rs rd fun s d => okErrP (copyDirectory H (full r s) (full r d)) H
  | .copyFile rs rd => two rs rd fun s d => okErr (copyFile H (full r s) (full r d))
  | .readDir raw => one raw .err fun p =>
    match osReadDir H (full r p) with
    | some l => (H, .val (.list l))
    | none => (H, .val .err)
  | .isExist raw => one raw (.bool false) fun p => (H, .val (.bool (isExist H (full r p))))
  | .isFile raw => one raw (.bool false) fun p => (H, .val (.bool (isFile H (full r p))))
  | .isDir raw => one raw (.bool false) fun p => (H, .val (.bool (isDir H (full r p))))
  | .mkdirAll raw => one raw .err fun p =>
    match osMkdirAll H (r ++ p) with
    | some H1 => (H1, .val .ok)
    | none => (H, .val .err)
  | .readFile raw => one raw .err fun p =>
    match osStat H (full r p) with               -- ioutil.ReadFile: Open, read to the end
    | some (.file d) => (H, .val (.data d))
    | _ => (H, .val .err)
  | .writeFile raw data => one raw .err fun p =>
    match osMkdirAll H (full r p).dir.path with  -- disk.MkdirAll(filepath.Dir(fullPath))
    | none => (H, .val .err)
    | some H1 =>
      match osOpenTrunc H1 (full r p) with       -- ioutil.WriteFile: OpenFile, Write, Close
      | none => (H1, .val .err)
      | some H2 =>
        match osAppend H2 (r ++ p) data with
        | some H3 => (H3, .val .ok)
        | none => (H2, .val .err)
  | .filespace raw => one raw .err fun p =>
    (H, .val (if isDir H (full r p) then .ok else .err))
  | .reader raw sizes => one raw .err fun p =>
    match osStat H (full r p) with               -- os.OpenFile(O_RDONLY) succeeds on a directory too
    | some (.file d) => (H, .val (.chunks (readLoop d sizes)))
    | some .dir =>                               -- a non-empty Read of a directory is EISDIR
      if sizes.all (· == 0) then (H, .val (.chunks (sizes.map fun _ => ([], false)))) else (H, .val .err)
    | none => (H, .val .err)
  | .writer raw chunks => one raw .err fun p =>
    match osOpenTrunc H (full r p) with
    | none => (H, .val .err)
    | some H1 =>
      match osAppendAll H1 (r ++ p) chunks with
      | some H2 => (H2, .val .ok)
      | none => (H1, .val .err)
  | .remove raw => one raw .err fun p =>
    if p = [] then (H, .val .err) else
    match osRemove H (full r p) with
    | some H1 => (H1, .val .ok)
    | none => (H, .val .err)
  | .removeAll raw => one raw .err fun p =>
    if p = [] then (H, .val .err) else
    match osRemoveAll H (r ++ p) with
    | some H1 => (H1, .val .ok)
    | none => (H, .val .err)
  | .lstat raw => one raw .err fun p =>
    match osStat H (full r p) with
    | some (.file d) => (H, .val (.stat (statName (r ++ p)) false d.length))
    | some .dir => (H, .val (.stat (statName (r ++ p)) true 0))
    | none => (H, .val .err)

/-- `fs.Filespace(raw)`: the root of the new filespace; `none` = error -/
def openView (r : HPath) (H : Host) (raw : Bytes) : Option HPath :=
  match norm raw with
  | none => none
  | some p => if isDir H (full r p) then some (r ++ p) else none

/-! ### Histories over one disk filespace and its views -/

/-- the host and the roots of the filespaces opened so far (handle 0 is the filespace itself) -/
structure World where
  host : Host
  views : List HPath

/-- a fresh filespace rooted at `r` on host `H` -/
def World.init (H : Host) (r : HPath) : World := ⟨H, [r]⟩

/-- a call through handle number `h`; a handle that was never opened answers `err` -/
def World.step (w : World) (h : Nat) (op : Op) : World × Out :=
  match w.views[h]? with
  | none => (w, .val .err)
  | some r =>
    let (H', o) := DiskFS.step r w.host op
    match op with
    | .filespace raw =>
      match openView r w.host raw with
      | some v => (⟨H', w.views ++ [v]⟩, o)
      | none => (⟨H', w.views⟩, o)
    | _ => (⟨H', w.views⟩, o)

/-- a whole history: the final world and every outcome, in order -/
def World.run (w : World) : List (Nat × Op) → World × List Out
  | [] => (w, [])
  | (h, op) :: rest =>
    let (w1, o) := w.step h op
    let (w2, os) := World.run w1 rest
    (w2, o :: os)

/-- the host of the drivers and examples: an empty root directory `root` and, next to it, the
sentinels the harness plants (`hostsecret`, `rootx/inner`, `a/b`) -/
def demoHost : Host :=
  [([[114, 111, 111, 116]], .dir),                                                          -- root/
   ([[104, 111, 115, 116, 115, 101, 99, 114, 101, 116]], .file [111, 117, 116, 115, 105, 100, 101]),  -- hostsecret = "outside"
   ([[114, 111, 111, 116, 120]], .dir),                                                     -- rootx/
   ([[114, 111, 111, 116, 120], [105, 110, 110, 101, 114]], .file [120]),                    -- rootx/inner = "x"
   ([[97]], .dir),                                                                          -- a/
   ([[97], [98]], .file [121])]                                                             -- a/b = "y"

/-- `root` -/
def demoRoot : HPath := [[114, 111, 111, 116]]

end DiskFS
end Goat
