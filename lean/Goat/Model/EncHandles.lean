/-
Histories over the encrypted filespace with SEVERAL OPEN HANDLES (property C05, family `hist`).

`Model/Encrypt.lean` describes one write and one read.  Here the same functions are put under a state of
files and handles, mirroring what the objects of the Go code hold:

  * `EncryptFS.Reader(path)` = `baseFS.Reader(path)`, then `Cipher.DecryptReader`: the whole stored file is read,
    the base stream is CLOSED, the bytes are opened; the reader object keeps only the plaintext still to be
    served (`reader{data}`).  A reader is therefore a SNAPSHOT of the file taken at open: a value of its own, which
    no later operation on any file, filespace or other handle can reach (`Handle.reader rest`).
  * `EncryptFS.Writer(path)` = `baseFS.Writer(path)`, then `Cipher.EncryptWriter`: the writer object keeps the
    key material, the bytes written so far and the base stream, and seals on `Close` (`Handle.writer`).
    While it is open the base stream is open (on memfs the file is locked, on diskfs it is truncated): the
    property says nothing about other accesses to THAT file in the meantime, so a history never touches a file
    that has an open writer (`HState.busy`; such a line is `bad-op` for both drivers).

Files are numbered, filespaces are numbered (each with its own key material over ONE shared base), handles are
numbered by the history (fresh numbers).  Core Lean only (linked into `m_enc`).
-/
import Goat.Model.Encrypt

namespace Goat.Enc

inductive Handle where
  | reader (rest : Bytes)                       -- plaintext not yet served
  | writer (fs file : Nat) (w : WriterSt)
  | dead                                        -- the open failed: there is no object
  | closed
deriving Repr, DecidableEq

inductive HStep where
  | writeFile (fs file : Nat) (pt : Bytes)      -- `WriteFile`
  | readFile (fs file : Nat)                    -- `ReadFile`
  | openReader (fs file h : Nat)                -- `Reader`
  | read (h n : Nat)                            -- one `Read` with a buffer of n bytes
  | readAll (h : Nat)                           -- `ioutil.ReadAll`
  | closeReader (h : Nat)
  | openWriter (fs file h : Nat)                -- `Writer`
  | write (h : Nat) (p : Bytes)                 -- one `Write`
  | closeWriter (h : Nat)
deriving Repr, DecidableEq

inductive HOut where
  | ok
  | err
  | data (b : Bytes) (eof : Option Bool)        -- bytes delivered; the EOF flag of a single `Read`
  | dead                                        -- operation on a handle whose open failed: nothing happens
  | panic
deriving Repr, DecidableEq

structure HState where
  files : List (Nat × Bytes)                    -- stored bytes of the shared base, newest binding first
  handles : List (Nat × Handle)                 -- one binding per handle number
deriving Repr, DecidableEq

def HState.empty : HState := ⟨[], []⟩

def HState.file (s : HState) (f : Nat) : Option Bytes := s.files.lookup f
def HState.handle (s : HState) (h : Nat) : Option Handle := s.handles.lookup h
def HState.setFile (s : HState) (f : Nat) (d : Bytes) : HState := { s with files := (f, d) :: s.files }
/-- one binding per handle number -/
def HState.setHandle (s : HState) (h : Nat) (x : Handle) : HState :=
  { s with handles := (h, x) :: s.handles.filter (fun e => e.1 != h) }

/-- the file has an open writer -/
def HState.busy (s : HState) (file : Nat) : Bool :=
  s.handles.any fun (_, x) =>
    match x with
    | .writer _ f _ => f == file
    | _ => false

/-- One step.  `none` = the history is not well formed (unknown filespace, handle number used twice, operation
on a handle that is not open in the right role, access to a file that has an open writer): `bad-op`. -/
def hstep (c : Cipher) (kms : List Bytes) (ent : Bytes) (s : HState) : HStep → Option (HState × HOut)
  | .writeFile fs file pt => do
    let km ← kms[fs]?
    if s.busy file then none else
    match c.writeVia .whole km ent [pt] with
    | .ok stored => pure (s.setFile file stored, .ok)
    | .err _ => pure (s, .err)
    | .panic => pure (s, .panic)
  | .readFile fs file => do
    let km ← kms[fs]?
    if s.busy file then none else
    match s.file file with
    | none => pure (s, .err)
    | some stored =>
      match (c.readVia .whole km stored false []).res with
      | .ok cs => pure (s, .data (content cs) none)
      | .err _ => pure (s, .err)
      | .panic => pure (s, .panic)
  | .openReader fs file h => do
    let km ← kms[fs]?
    if s.busy file then none else
    if (s.handle h).isSome then none else
    match s.file file with
    | none => pure (s.setHandle h .dead, .err)
    | some stored =>
      -- the base stream is consumed and closed here; only the plaintext stays with the reader
      match (c.decryptReader km { data := stored, bad := false, closed := false }).res with
      | .ok d => pure (s.setHandle h (.reader d), .ok)
      | .err _ => pure (s.setHandle h .dead, .err)
      | .panic => pure (s.setHandle h .dead, .panic)
  | .read h n =>
    match s.handle h with
    | some (.reader rest) =>
      match readerRead rest n with
      | .ok (chunk, eof, rest') => some (s.setHandle h (.reader rest'), .data chunk (some eof))
      | _ => some (s, .panic)
    | some .dead => some (s, .dead)
    | _ => none
  | .readAll h =>
    match s.handle h with
    | some (.reader rest) => some (s.setHandle h (.reader []), .data rest none)
    | some .dead => some (s, .dead)
    | _ => none
  | .closeReader h =>
    match s.handle h with
    | some (.reader _) => some (s.setHandle h .closed, .ok)
    | some .dead => some (s, .dead)
    | _ => none
  | .openWriter fs file h => do
    let km ← kms[fs]?
    if s.busy file then none else
    if (s.handle h).isSome then none else
    match c.encryptWriter km { data := [], closed := false } with
    | .ok w => pure (s.setHandle h (.writer fs file w), .ok)
    | .err _ => pure (s.setHandle h .dead, .err)
    | .panic => pure (s.setHandle h .dead, .panic)
  | .write h p =>
    match s.handle h with
    | some (.writer fs file w) => some (s.setHandle h (.writer fs file (w.write p)), .ok)
    | some .dead => some (s, .dead)
    | _ => none
  | .closeWriter h =>
    match s.handle h with
    | some (.writer _ file w) =>
      match c.closeWriter w ent with
      | .ok sink => some ((s.setHandle h .closed).setFile file sink.data, .ok)
      | .err _ => some (s.setHandle h .closed, .err)
      | .panic => some (s.setHandle h .closed, .panic)
    | some .dead => some (s, .dead)
    | _ => none

/-- a whole history; `none` when some step is not well formed -/
def hrun (c : Cipher) (kms : List Bytes) (ent : Bytes) : HState → List HStep → Option (HState × List HOut)
  | s, [] => some (s, [])
  | s, st :: rest =>
    match hstep c kms ent s st with
    | none => none
    | some (s', o) =>
      match hrun c kms ent s' rest with
      | none => none
      | some (s'', os) => some (s'', o :: os)

/-- the handle a step operates on or creates (`none`: `WriteFile`/`ReadFile`) -/
def HStep.handle? : HStep → Option Nat
  | .writeFile .. => none
  | .readFile .. => none
  | .openReader _ _ h => some h
  | .read h _ => some h
  | .readAll h => some h
  | .closeReader h => some h
  | .openWriter _ _ h => some h
  | .write h _ => some h
  | .closeWriter h => some h

/-! ## Contents on the wire: a pattern and a digest (a 64 KiB file needs no 128 KiB of hex) -/

/-- the content `len.seed`: byte i = (i*i + seed*i + 7*seed + i/255) mod 256 -/
def pattern (len seed : Nat) : Bytes :=
  (List.range len).map fun i => UInt8.ofNat ((i * i + seed * i + 7 * seed + i / 255) % 256)

/-- FNV-1a, 32 bit -/
def fnv32 (b : Bytes) : UInt32 :=
  b.foldl (fun h x => (h ^^^ UInt32.ofNat x.toNat) * 16777619) 2166136261

end Goat.Enc
