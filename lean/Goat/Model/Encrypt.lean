/-
Model of the encrypted filespace (property C05):

  /repo/filesystem/filespace/encryptfs/filespace.go                 `EncFS`, `newEncryptFS`, `keyMaterial`
  /repo/filesystem/filespace/encryptfs/cipherfs/cipher.go           `Cipher` (the four interface methods)
  /repo/filesystem/filespace/encryptfs/cipherfs/aesgcm256cfs/*.go   `aesEncrypt`, `aesDecrypt`, `aesNewReader`,
                                                                    `readerRead`, `WriterSt.write`, `aesCloseWriter`
  /repo/filesystem/filespace/encryptfs/cipherfs/extcfs/*.go         `tagBytes`, `tagOf`, `extCipher`
  /repo/varutil/idutil/host.go                                      `hostIDActual`

Everything AROUND the AEAD is modelled; the primitives themselves are PARAMETERS:
  * `a : AEAD`  — `nonceSize`, `overhead`, `seal`, `open` (AES-256-GCM in the real code),
  * `H : Bytes → Bytes` — the key-material hash (SHA3-256 in the real code),
  * `entropy : Bytes` — what `crypto/rand.Reader` delivers to `io.ReadFull`.
Their laws (`AEAD.Lawful`: `open_seal`, `len_seal`) are HYPOTHESES of the theorems that need them, never
axioms; `toyAEAD` is a lawful instance (proved in `Proofs/Encrypt.lean`), so nothing is vacuous, and the
same toy is implemented in Go (`harness/cmd/enc`) so that stored bytes are comparable byte for byte.

Every Go slice expression (`data[:n]`, `data[n:]`, `r.data[n:]`, the index `b[3]` inside
`binary.LittleEndian.Uint32`) and the nonce-length panics of `crypto/cipher` have an explicit `panic`
outcome; `Props/C05.framing_total` proves it unreachable.  The decrypting reader reports the state of the
source handle it was given (`Opened.leak` = "source handle left open").

`Rev` selects the code revision: `Rev.fixed` is the current tree, `Rev.pinned` the tree before the commits
94006bf (short data no longer panics) and 20b7af2 (decrypt readers close the stream on error paths).  All
positive theorems are about `Rev.fixed`; `Rev.pinned` is kept so that the two defects are statable (and
proved present) in Lean.

Core Lean only (this file is linked into the `m_enc` driver).
-/
import Goat.Base.Bytes

namespace Goat.Enc

/-! ## Outcomes -/

inductive ErrKind where
  | short       -- data shorter than the nonce / than the 4-byte cipher tag
  | unknownTag  -- no cipher registered under the tag
  | auth        -- the AEAD refused to open
  | io          -- the underlying stream / base filespace reported an error
  | entropy     -- `io.ReadFull(rand.Reader, nonce)` failed
deriving Repr, DecidableEq

inductive Res (α : Type) where
  | ok (v : α)
  | err (k : ErrKind)
  | panic
deriving Repr, DecidableEq

def Res.map {α β : Type} (f : α → β) : Res α → Res β
  | .ok v => .ok (f v)
  | .err k => .err k
  | .panic => .panic

def Res.bind {α β : Type} (r : Res α) (f : α → Res β) : Res β :=
  match r with
  | .ok v => f v
  | .err k => .err k
  | .panic => .panic

def Res.isErr {α : Type} : Res α → Bool
  | .err _ => true
  | _ => false

/-! ## Go slice expressions -/

/-- `d[:n]` — panics when `n > len(d)` -/
def sliceTo (d : Bytes) (n : Nat) : Option Bytes :=
  if n ≤ d.length then some (d.take n) else none

/-- `d[n:]` — panics when `n > len(d)` -/
def sliceFrom (d : Bytes) (n : Nat) : Option Bytes :=
  if n ≤ d.length then some (d.drop n) else none

/-! ## The primitives (parameters) -/

/-- An AEAD as `crypto/cipher.AEAD` presents it (additional data is always `nil` in the code). -/
structure AEAD where
  nonceSize : Nat
  overhead : Nat
  /-- `seal key nonce plaintext` -/
  «seal» : Bytes → Bytes → Bytes → Bytes
  /-- `open key nonce ciphertext`; `none` = authentication failed -/
  «open» : Bytes → Bytes → Bytes → Option Bytes

/-- The laws the round-trip theorems assume of the AEAD (hypotheses, never axioms). -/
structure AEAD.Lawful (a : AEAD) : Prop where
  open_seal : ∀ k n p, n.length = a.nonceSize → a.open k n (a.seal k n p) = some p
  len_seal : ∀ k n p, (a.seal k n p).length = p.length + a.overhead

/-- result of `gcm.Open` as a Go `(data, err)` pair -/
def ofOpen : Option Bytes → Res Bytes
  | some p => .ok p
  | none => .err .auth

/-- `gcm.Seal(dst, nonce, pt, nil)`: panics ("incorrect nonce length given to GCM") on a wrong nonce length -/
def AEAD.sealGo (a : AEAD) (k n p : Bytes) : Res Bytes :=
  if n.length = a.nonceSize then .ok (a.seal k n p) else .panic

/-- `gcm.Open(nil, nonce, ct, nil)`: same panic; an authentication failure is an error -/
def AEAD.openGo (a : AEAD) (k n c : Bytes) : Res Bytes :=
  if n.length = a.nonceSize then ofOpen (a.open k n c) else .panic

/-- Code revision (see the header). -/
structure Rev where
  guardShort : Bool   -- 94006bf: length tests before `data[:nonceSize]` / `data[:4]`
  closeOnErr : Bool   -- 20b7af2: `stream.Close()` on the error paths of the decrypt readers
deriving Repr, DecidableEq

def Rev.fixed : Rev := ⟨true, true⟩
def Rev.pinned : Rev := ⟨false, false⟩

/-! ## Stream handles of the underlying filespace -/

/-- A `filesystem.Reader` handed to `DecryptReader`. -/
structure Src where
  data : Bytes        -- bytes not yet read
  bad : Bool          -- the stream answers a non-EOF error once `data` is exhausted
  closed : Bool
deriving Repr, DecidableEq

def Src.close (s : Src) : Src := { s with closed := true }

/-- `ioutil.ReadAll(stream)` -/
def Src.readAll (s : Src) : Option Bytes × Src :=
  if s.bad then (none, { s with data := [] }) else (some s.data, { s with data := [] })

/-- `io.ReadFull(stream, p)` with `len(p) = n`: fewer than `n` bytes is an error (EOF, ErrUnexpectedEOF or the
stream's own error) -/
def Src.readFull (s : Src) (n : Nat) : Option Bytes × Src :=
  if n ≤ s.data.length then (some (s.data.take n), { s with data := s.data.drop n })
  else (none, { s with data := [] })

/-- A `filesystem.Writer` handed to `EncryptWriter`. -/
structure Sink where
  data : Bytes        -- bytes written so far
  closed : Bool
deriving Repr, DecidableEq

def Sink.write (s : Sink) (p : Bytes) : Sink := { s with data := s.data ++ p }
def Sink.close (s : Sink) : Sink := { s with closed := true }

/-- What `DecryptReader` returns: the content the new reader will serve (or the error), and the source
handle as it was left. -/
structure Opened where
  res : Res Bytes
  src : Src
deriving Repr, DecidableEq

/-- the source handle was left open -/
def Opened.leak (o : Opened) : Bool := !o.src.closed

/-- state of an encrypting writer: `writer{data, key, stream}` -/
structure WriterSt where
  buf : Bytes
  km : Bytes
  sink : Sink
deriving Repr, DecidableEq

/-- `writer.Write(p)`: `w.data = append(w.data, p...)` -/
def WriterSt.write (w : WriterSt) (p : Bytes) : WriterSt := { w with buf := w.buf ++ p }

/-! ## `cipherfs.Cipher` -/

/-- The interface `cipherfs.Cipher`.  `encryptWriter` returns the writer object, `closeWriter` is that
object's `Close` (its `Write` is `WriterSt.write` for every cipher of the code base). -/
structure Cipher where
  encrypt : (km entropy pt : Bytes) → Res Bytes
  decrypt : (km data : Bytes) → Res Bytes
  decryptReader : (km : Bytes) → Src → Opened
  encryptWriter : (km : Bytes) → Sink → Res WriterSt
  closeWriter : WriterSt → (entropy : Bytes) → Res Sink

/-! ## aesgcm256cfs (generic in the AEAD and the hash) -/

/-- `Cipher.Encrypt`: `key = hash256(key)`; `nonce = make([]byte, NonceSize)`; `io.ReadFull(rand.Reader, nonce)`;
`return gcm.Seal(nonce, nonce, data, nil)` -/
def aesEncrypt (a : AEAD) (H : Bytes → Bytes) (km entropy pt : Bytes) : Res Bytes :=
  let key := H km
  if entropy.length < a.nonceSize then .err .entropy else
  let nonce := entropy.take a.nonceSize
  (a.sealGo key nonce pt).map (fun c => nonce ++ c)

/-- `Cipher.Decrypt`: `key = hash256(key)`; [guard]; `nonce, data = data[:nonceSize], data[nonceSize:]`;
`return gcm.Open(nil, nonce, data, nil)` -/
def aesDecrypt (rev : Rev) (a : AEAD) (H : Bytes → Bytes) (km data : Bytes) : Res Bytes :=
  let key := H km
  if rev.guardShort && data.length < a.nonceSize then .err .short else
  match sliceTo data a.nonceSize, sliceFrom data a.nonceSize with
  | some nonce, some ct => a.openGo key nonce ct
  | _, _ => .panic

/-- `newReader`: `ReadAll`, `Close`, `Decrypt` -/
def aesNewReader (rev : Rev) (a : AEAD) (H : Bytes → Bytes) (km : Bytes) (s : Src) : Opened :=
  match s.readAll with
  | (none, s1) => { res := .err .io, src := if rev.closeOnErr then s1.close else s1 }
  | (some buf, s1) =>
    let s2 := s1.close                -- `if err = stream.Close(); err != nil` (a failing Close is not modelled)
    { res := aesDecrypt rev a H km buf, src := s2 }

/-- `reader.Read(p)` with `len(p) = n`: `n = copy(p, r.data)`; `r.data = r.data[n:]`; EOF iff nothing is left.
Result: the bytes copied, the EOF flag, the remaining content. -/
def readerRead (data : Bytes) (n : Nat) : Res (Bytes × Bool × Bytes) :=
  let k := min n data.length
  match sliceFrom data k with
  | none => .panic
  | some rest => .ok (data.take k, rest.isEmpty, rest)

/-- a sequence of `Read` calls with the given buffer sizes: chunks with their EOF flags, and what is left -/
def serve : Bytes → List Nat → Res (List (Bytes × Bool) × Bytes)
  | data, [] => .ok ([], data)
  | data, n :: ns =>
    match readerRead data n with
    | .ok (chunk, eof, rest) =>
      match serve rest ns with
      | .ok (cs, r) => .ok ((chunk, eof) :: cs, r)
      | .err k => .err k
      | .panic => .panic
    | .err k => .err k
    | .panic => .panic

/-- `newWriter` -/
def aesNewWriter (km : Bytes) (sink : Sink) : WriterSt := { buf := [], km := km, sink := sink }

/-- `writer.Close`: `Encrypt(w.key, w.data)`; `w.stream.Write(data)`; `w.stream.Close()`.
(When `Encrypt` fails the code returns without closing the stream.) -/
def aesCloseWriter (a : AEAD) (H : Bytes → Bytes) (w : WriterSt) (entropy : Bytes) : Res Sink :=
  (aesEncrypt a H w.km entropy w.buf).map (fun data => (w.sink.write data).close)

def aesCipher (rev : Rev) (a : AEAD) (H : Bytes → Bytes) : Cipher where
  encrypt := aesEncrypt a H
  decrypt := aesDecrypt rev a H
  decryptReader := aesNewReader rev a H
  encryptWriter := fun km sink => .ok (aesNewWriter km sink)
  closeWriter := aesCloseWriter a H

/-! ## extcfs: 4-byte little-endian cipher tag -/

/-- `CipherKey.ToBinary` (`binary.LittleEndian.PutUint32`) -/
def tagBytes (t : UInt32) : Bytes :=
  let n := t.toNat
  [UInt8.ofNat (n % 256), UInt8.ofNat (n / 256 % 256), UInt8.ofNat (n / 65536 % 256),
   UInt8.ofNat (n / 16777216 % 256)]

/-- `NewCipherKey` (`binary.LittleEndian.Uint32`): indexes `b[3]`, i.e. panics on fewer than 4 bytes -/
def tagOf : Bytes → Option UInt32
  | a :: b :: c :: d :: _ =>
    some (UInt32.ofNat (a.toNat + 256 * b.toNat + 65536 * c.toNat + 16777216 * d.toNat))
  | _ => none

/-- `mapping[ckey]` (a Go map: the first entry for a key is the only one) -/
def lookupTag (t : UInt32) : List (UInt32 × Cipher) → Option Cipher
  | [] => none
  | (k, c) :: rest => if k = t then some c else lookupTag t rest

/-- the `extcfs.Cipher` value once `NewCipher` has found the default cipher `d` -/
def extCipherOf (rev : Rev) (dflt : UInt32) (d : Cipher) (mapping : List (UInt32 × Cipher)) : Cipher where
  -- `data = defaultCiper.Encrypt(key, data)`; `append(defaultCiperKey.ToBinary(), data...)`
  encrypt := fun km ent pt => (d.encrypt km ent pt).map (fun c => tagBytes dflt ++ c)
  -- [guard]; `ckey = NewCipherKey(data[:4])`; `mapping[ckey]`; `fileCipher.Decrypt(key, data[4:])`
  decrypt := fun km data =>
    if rev.guardShort && data.length < 4 then .err .short else
    match sliceTo data 4 with
    | none => .panic
    | some hd =>
      match tagOf hd with
      | none => .panic
      | some t =>
        match lookupTag t mapping with
        | none => .err .unknownTag
        | some c =>
          match sliceFrom data 4 with
          | none => .panic
          | some tl => c.decrypt km tl
  -- `io.ReadFull(stream, p)`; `NewCipherKey(p)`; `mapping[ckey]`; `fileCipher.DecryptReader(key, stream)`
  decryptReader := fun km s =>
    match s.readFull 4 with
    | (none, s1) =>
      { res := .err (if s.bad then .io else .short), src := if rev.closeOnErr then s1.close else s1 }
    | (some p, s1) =>
      match tagOf p with
      | none => { res := .panic, src := s1 }
      | some t =>
        match lookupTag t mapping with
        | none => { res := .err .unknownTag, src := if rev.closeOnErr then s1.close else s1 }
        | some c => c.decryptReader km s1
  -- `stream.Write(defaultCiperKey.ToBinary())`; `defaultCiper.EncryptWriter(key, stream)`
  encryptWriter := fun km sink => d.encryptWriter km (sink.write (tagBytes dflt))
  -- the object returned is the default cipher's writer
  closeWriter := d.closeWriter

/-- `extcfs.NewCipher(defaultCiperKey, mapping)`: an error when the default is not in the map -/
def extCipher (rev : Rev) (dflt : UInt32) (mapping : List (UInt32 × Cipher)) : Option Cipher :=
  match lookupTag dflt mapping with
  | none => none
  | some d => some (extCipherOf rev dflt d mapping)

/-- The two ciphers of the code base: `aesgcm256cfs.NewCipher()` and `extcfs.NewDefaultCipher()`
(= `NewCipher(AESGCM256CFS = 0, AllCiphers = {0: aesgcm256cfs})`). -/
inductive Kind where
  | raw
  | tagged
deriving Repr, DecidableEq

def stdMapping (rev : Rev) (a : AEAD) (H : Bytes → Bytes) : List (UInt32 × Cipher) :=
  [(0, aesCipher rev a H)]

def mkCipherRev (rev : Rev) (a : AEAD) (H : Bytes → Bytes) : Kind → Cipher
  | .raw => aesCipher rev a H
  | .tagged => extCipherOf rev 0 (aesCipher rev a H) (stdMapping rev a H)

/-- the ciphers of the current tree -/
def mkCipher (a : AEAD) (H : Bytes → Bytes) : Kind → Cipher := mkCipherRev Rev.fixed a H

/-- the framing of a stored file: what precedes `nonce ‖ seal` -/
def Kind.header : Kind → Bytes
  | .raw => []
  | .tagged => tagBytes 0

/-! ## The two ways through a cipher: whole-file and stream -/

inductive Path2 where
  | whole     -- `WriteFile` / `ReadFile`  → `Encrypt` / `Decrypt`
  | stream    -- `Writer` / `Reader`       → `EncryptWriter` / `DecryptReader`
deriving Repr, DecidableEq

/-- Bytes that end up in a fresh file when `chunks` are written: one `WriteFile(chunks.flatten)`, or
`Writer`; `Write(chunk)`…; `Close`. -/
def Cipher.writeVia (c : Cipher) (wp : Path2) (km entropy : Bytes) (chunks : List Bytes) : Res Bytes :=
  match wp with
  | .whole => c.encrypt km entropy chunks.flatten
  | .stream =>
    (c.encryptWriter km { data := [], closed := false }).bind fun w =>
      (c.closeWriter (chunks.foldl WriterSt.write w) entropy).map (·.data)

/-- What a read returns: the chunks delivered (with the EOF flag of each `Read`), and whether the source
handle was left open. -/
structure ReadOut where
  res : Res (List (Bytes × Bool))
  leak : Bool
deriving Repr, DecidableEq

/-- Read a stored file.  `whole`: one `ReadFile`, one chunk.  `stream`: `Reader`, then one `Read` per entry of
`sizes` (buffer length), then everything that is left (as `ioutil.ReadAll` would collect it); `bad` makes the
underlying stream fail instead of reporting EOF. -/
def Cipher.readVia (c : Cipher) (rp : Path2) (km stored : Bytes) (bad : Bool) (sizes : List Nat) : ReadOut :=
  match rp with
  | .whole => { res := (c.decrypt km stored).map (fun d => [(d, true)]), leak := false }
  | .stream =>
    let o := c.decryptReader km { data := stored, bad := bad, closed := false }
    { res := o.res.bind fun d => (serve d sizes).map fun (cs, rest) => cs ++ [(rest, true)],
      leak := o.leak }

/-- all bytes delivered by a read, in order -/
def content (cs : List (Bytes × Bool)) : Bytes := (cs.map (·.1)).flatten

/-! ## EncryptFS -/

structure Settings where
  secret : Bytes
  salt : Bytes
  hostOnly : Bool
deriving Repr, DecidableEq

/-- What `idutil.HostID()` returns in the real code: its named result `hostID` shadows the package variable,
so the function always returns the empty string (confirmed by the harness on every run). -/
def hostIDActual : Bytes := []

/-- `NewEncryptFS`: `hash = secret ++ (HostOnly ? HostID() : "") ++ salt` — a plain concatenation. -/
def keyMaterial (host : Bytes) (s : Settings) : Bytes :=
  s.secret ++ (if s.hostOnly then host else []) ++ s.salt

/-- The eleven name-space methods that return no filespace (`Filespace(path)` is `BaseOps.sub`). -/
inductive NsOp where
  | copy (src dst : Bytes)
  | copyDirectory (src dst : Bytes)
  | copyFile (src dst : Bytes)
  | readDir (p : Bytes)
  | isExist (p : Bytes)
  | isFile (p : Bytes)
  | isDir (p : Bytes)
  | mkdirAll (p : Bytes) (mode : Nat)
  | remove (p : Bytes)
  | removeAll (p : Bytes)
  | lstat (p : Bytes)
deriving Repr, DecidableEq

/-- The underlying filespace, abstractly: handles `β`, states `σ`, results `ρ`.  `load`/`store` stand for both
the whole-file and the stream access of the base (that these agree is property C04, not this one). -/
structure BaseOps (β σ ρ : Type) where
  ns : β → NsOp → σ → ρ × σ
  sub : β → Bytes → σ → Option β
  load : β → Bytes → σ → Option Bytes
  store : β → Bytes → Bytes → σ → Option σ

structure EncFS (β : Type) where
  base : β
  hash : Bytes
  cipher : Cipher

def newEncryptFS {β : Type} (host : Bytes) (base : β) (set : Settings) (c : Cipher) : EncFS β :=
  { base := base, hash := keyMaterial host set, cipher := c }

namespace EncFS
variable {β σ ρ : Type} (O : BaseOps β σ ρ)

/-- Copy, CopyDirectory, CopyFile, ReadDir, IsExist, IsFile, IsDir, MkdirAll, Remove, RemoveAll, Lstat -/
def ns (fs : EncFS β) (op : NsOp) (s : σ) : ρ × σ := O.ns fs.base op s

/-- `Filespace(path)`: the child keeps cipher and key material -/
def sub (fs : EncFS β) (p : Bytes) (s : σ) : Option (EncFS β) :=
  (O.sub fs.base p s).map fun b => { fs with base := b }

/-- `WriteFile` (whole) or `Writer`+`Write`*+`Close` (stream) -/
def write (fs : EncFS β) (wp : Path2) (p entropy : Bytes) (chunks : List Bytes) (s : σ) : Res σ :=
  (fs.cipher.writeVia wp fs.hash entropy chunks).bind fun stored =>
    match O.store fs.base p stored s with
    | some s' => .ok s'
    | none => .err .io

/-- `ReadFile` (whole) or `Reader`+`Read`* (stream) -/
def read (fs : EncFS β) (rp : Path2) (p : Bytes) (sizes : List Nat) (s : σ) : ReadOut :=
  match O.load fs.base p s with
  | none => { res := .err .io, leak := false }
  | some stored => fs.cipher.readVia rp fs.hash stored false sizes

end EncFS

/-! ## The transparent test AEAD (same definition in `harness/cmd/enc/toy.go`) -/

def ck (l : Bytes) : UInt8 := l.foldl (fun acc b => acc * 31 + b + 1) 7

def toyTag (k n p : Bytes) : Bytes := [ck k, ck n, ck p, UInt8.ofNat p.length]

/-- plaintext in clear followed by a 4-byte checksum of key, nonce and plaintext -/
def toyAEAD : AEAD where
  nonceSize := 12
  overhead := 4
  «seal» := fun k n p => p ++ toyTag k n p
  «open» := fun k n c =>
    if c.length < 4 then none else
    let p := c.take (c.length - 4)
    if c.drop (c.length - 4) = toyTag k n p then some p else none

end Goat.Enc
