/-
Model for property C18 — "environment values reach sandbox shells verbatim".

1. The two start-up script builders of /repo as byte-string functions of (envs, tag, entrypoint):
     dcmd.InitSequence                     (/repo/app/modules/ocm/ocservices/dcmd/helpers.go)
     sshsb.(*SSHSandbox).initSequence      (/repo/app/modules/pipelinem/pipservices/sandboxes/sshsb/sandbox.go)
   `envs` is the list of (key, value) pairs in the order in which Go's `range envs.All()` happened
   to visit the map (the harness recovers that order and the random tag from the Go output);
   `tag` is the whole here-document delimiter (`"EOF" + varutil.RandString(10, UpperAlphaBytes)`).
   `sshScriptOld` is the builder of the tree before fix da68e47 (unquoted here-document).
2. The name pattern `^[a-zA-Z]+([_a-zA-Z]+)?$` of envs/consts.go as a recogniser (`nameOk`) and
   `Environments.Set` (`envSet`).
3. A MINI-SHELL: the POSIX semantics of exactly the fragment the builders emit
     blank lines, `set -e`, `set +x`, `K=$(cat <<'T'` … `T` `)`, `export K`
   - the body of a here-document with a quoted delimiter is literal, up to the first line equal to T;
   - `cat` reproduces its input (every body line followed by a newline);
   - command substitution strips all trailing newlines;
   - an assignment does no field splitting and no pathname expansion;
   - a NUL byte cannot be held by a shell variable                       ⇒ `unsupported`;
   - assigning PATH (lookup of `cat`) or OPTIND (must be a number)       ⇒ `unsupported`;
   - the first line that is not of the fragment stops the mini-shell: `stop st rest` hands the
     state reached and the unread bytes (the entrypoint) back to the caller.
   The mini-shell has two dialects.  `posix` is the standard.  `dash` adds the one deviation of
   Debian's dash 0.5.12 (/bin/sh here) that the differential run against the real shell exposed
   (known finding KF-C18-1): while reading a here-document, dash compares the start of every line
   with the delimiter; when at least one byte matched and the first mismatching byte is >= 0x80,
   that byte is lost (`len2 -= c < 0` in parser.c `checkend`, chars are signed) — `dashLine`.
   For the disproof of the old SSH builder the UNQUOTED here-document is modelled as far as
   needed: `$NAME` is replaced by the variable's value, `\$`, `\\`, `` \` `` drop the backslash,
   any other use of `$`, backquote or backslash-newline ⇒ `unsupported`.

Strings are explicit byte lists (string literals do not reduce in the kernel); the driver's
`selfcheck` op compares every constant with its literal on each run.
Core Lean only (linked into the `m_envscript` driver).
-/
import Goat.Base.Bytes

namespace Goat.EnvScript

abbrev Env := List (Bytes × Bytes)

def nl : Byte := 10
def squote : Byte := 39
def space : Byte := 32
def eqSign : Byte := 61
def dollar : Byte := 36
def backslash : Byte := 92
def backquote : Byte := 96
def underscore : Byte := 95

/-! ### 1. builders -/

/-- `"\nset -e\nset +x\n"` -/
def header : Bytes := [10, 115, 101, 116, 32, 45, 101, 10, 115, 101, 116, 32, 43, 120, 10]
/-- `"=$(cat <<"` -/
def assignMid : Bytes := [61, 36, 40, 99, 97, 116, 32, 60, 60]
/-- `")"` -/
def rparenLine : Bytes := [41]
/-- `"export"` -/
def exportKw : Bytes := [101, 120, 112, 111, 114, 116]
/-- `"set"`, `"-e"`, `"+x"` -/
def setKw : Bytes := [115, 101, 116]
def dashE : Bytes := [45, 101]
def plusX : Bytes := [43, 120]
/-- `"EOF"`: the constant prefix of the Go tag -/
def eofPrefix : Bytes := [69, 79, 70]

/-- first line of a variable block: `key + "=$(cat <<'" + eofTag + "'"` -/
def assignLine (k tag : Bytes) : Bytes := k ++ (assignMid ++ (squote :: (tag ++ [squote])))
/-- the same line as the tree before da68e47 wrote it: `key + "=$(cat <<" + eofTag` -/
def assignLineOld (k tag : Bytes) : Bytes := k ++ (assignMid ++ tag)
/-- `"export " + key` -/
def exportLine (k : Bytes) : Bytes := exportKw ++ (space :: k)

/-- one loop iteration of either builder:
`key + "=$(cat <<'" + eofTag + "'\n" + value + "\n" + eofTag + "\n)\n"` then `"export " + key + "\n"` -/
def varBlock (tag : Bytes) (kv : Bytes × Bytes) : Bytes :=
  assignLine kv.1 tag ++ (nl :: (kv.2 ++ (nl :: (tag ++ (nl :: (rparenLine ++ (nl :: (exportLine kv.1 ++ [nl]))))))))

def varBlockOld (tag : Bytes) (kv : Bytes × Bytes) : Bytes :=
  assignLineOld kv.1 tag ++ (nl :: (kv.2 ++ (nl :: (tag ++ (nl :: (rparenLine ++ (nl :: (exportLine kv.1 ++ [nl]))))))))

/-- `for key, value := range envs.All() { initCode += … }` -/
def blocks (tag : Bytes) : Env → Bytes
  | [] => []
  | kv :: rest => varBlock tag kv ++ blocks tag rest

def blocksOld (tag : Bytes) : Env → Bytes
  | [] => []
  | kv :: rest => varBlockOld tag kv ++ blocksOld tag rest

/-- `dcmd.InitSequence(envs)` with an empty SSH certificate: what the container engine puts in
front of the job's standard input. -/
def containerScript (envs : Env) (tag : Bytes) : Bytes := header ++ blocks tag envs

/-- standard input of the container: `io.MultiReader(initReader, cio.In())` -/
def containerStdin (envs : Env) (tag entry : Bytes) : Bytes := containerScript envs tag ++ entry

/-- `(*SSHSandbox).initSequence(envs)`: the variable blocks, then `sandbox.entrypoint + "\n"` -/
def sshScript (envs : Env) (tag entry : Bytes) : Bytes := header ++ (blocks tag envs ++ (entry ++ [nl]))

/-- the SSH builder before da68e47 (`pinned-base`) -/
def sshScriptOld (envs : Env) (tag entry : Bytes) : Bytes := header ++ (blocksOld tag envs ++ (entry ++ [nl]))

/-- `"EOF" + varutil.RandString(10, UpperAlphaBytes)` for the random part `r` -/
def goTag (r : Bytes) : Bytes := eofPrefix ++ r

/-! ### 2. names -/

def isAlpha (b : Byte) : Bool := (65 ≤ b && b ≤ 90) || (97 ≤ b && b ≤ 122)
def isDigit (b : Byte) : Bool := 48 ≤ b && b ≤ 57
def isAlphaU (b : Byte) : Bool := isAlpha b || b == underscore
/-- a character of a POSIX shell name -/
def isNameChar (b : Byte) : Bool := isAlpha b || isDigit b || b == underscore

/-- `envNamePattern = ^[a-zA-Z]+([_a-zA-Z]+)?$` (RE2: `$` is end of text; the classes are ASCII):
the greedy `[a-zA-Z]+`, then either nothing or a non-empty run of `[_a-zA-Z]` up to the end. -/
def nameOk (k : Bytes) : Bool :=
  let a := k.takeWhile isAlpha
  let r := k.dropWhile isAlpha
  !a.isEmpty && (r.isEmpty || r.all isAlphaU)

/-- `Environments.Set(key, value)`: `none` = the error return; otherwise the new map content
(association list, the new binding first, an older binding of the same key removed). -/
def envSet (m : Env) (k v : Bytes) : Option Env :=
  if nameOk k then some ((k, v) :: m.filter (fun kv => kv.1 != k)) else none

/-! ### 3. mini-shell -/

/-- the lines of a byte string (split at every newline; `joinLines (splitLines s) = s`) -/
def splitLines : Bytes → List Bytes
  | [] => [[]]
  | b :: rest =>
    let r := splitLines rest
    if b = nl then [] :: r else (b :: r.headD []) :: r.tail

def joinLines : List Bytes → Bytes
  | [] => []
  | [l] => l
  | l :: ls => l ++ nl :: joinLines ls

/-- what `cat` writes for a here-document with these body lines -/
def catLines : List Bytes → Bytes
  | [] => []
  | l :: ls => l ++ nl :: catLines ls

/-- command substitution removes every trailing newline; also the property's normal form of a value -/
def stripTrailingNewlines (v : Bytes) : Bytes := (v.reverse.dropWhile (· == nl)).reverse

structure State where
  vars : Env               -- shell variables, first binding wins
  exported : List Bytes    -- names carrying the export attribute
  errexit : Bool
  xtrace : Bool
deriving Repr, DecidableEq

def State.get (st : State) (k : Bytes) : Option Bytes :=
  match st.vars.find? (fun kv => kv.1 == k) with
  | some kv => some kv.2
  | none => none

def State.assign (st : State) (k v : Bytes) : State :=
  { st with vars := (k, v) :: st.vars.filter (fun kv => kv.1 != k) }

def State.export (st : State) (k : Bytes) : State :=
  { st with exported := if st.exported.contains k then st.exported else k :: st.exported }

/-- the value an external command sees in its environment for `k` -/
def State.environ (st : State) (k : Bytes) : Option Bytes :=
  if st.exported.contains k then st.get k else none

inductive Outcome where
  | stop (st : State) (rest : Bytes)
  | unsupported
deriving Repr, DecidableEq

/-- `PATH`, `OPTIND` -/
def reserved : List Bytes := [[80, 65, 84, 72], [79, 80, 84, 73, 78, 68]]

def isShellName (k : Bytes) : Bool :=
  match k with
  | [] => false
  | b :: _ => !isDigit b && k.all isNameChar

def dropPrefix? : Bytes → Bytes → Option Bytes
  | [], l => some l
  | _ :: _, [] => none
  | p :: ps, b :: bs => if p = b then dropPrefix? ps bs else none

inductive Line where
  | blank | setE | setPlusX
  | export (k : Bytes)
  | assign (k tag : Bytes) (quoted : Bool)
  | other
deriving Repr, DecidableEq

/-- which command of the fragment a line is; decided on the first byte after the leading name -/
def classify (l : Bytes) : Line :=
  let k := l.takeWhile isNameChar
  match l.dropWhile isNameChar with
  | [] => if k.isEmpty then .blank else .other
  | c :: r =>
    if c = space then
      if k = setKw then (if r = dashE then .setE else if r = plusX then .setPlusX else .other)
      else if k = exportKw then (if isShellName r then .export r else .other)
      else .other
    else if c = eqSign then
      if isShellName k then
        match dropPrefix? [36, 40, 99, 97, 116, 32, 60, 60] r with      -- `$(cat <<`
        | none => .other
        | some t =>
          match t with
          | [] => .other
          | q :: t' =>
            if q = squote then
              let tag := t'.takeWhile isNameChar
              if !tag.isEmpty && t'.dropWhile isNameChar = [squote] then .assign k tag true else .other
            else if t.all isNameChar then .assign k t false
            else .other
      else .other
    else .other

/-- is `b` the first byte of a shell name? -/
def isNameStart (b : Byte) : Bool := isAlpha b || b == underscore

/-- expansion of the body of a here-document with an UNQUOTED delimiter (partial, see the header) -/
def expand (st : State) : Nat → Bytes → Option Bytes
  | 0, _ => none
  | _ + 1, [] => some []
  | fuel + 1, b :: rest =>
    if b = backquote then none
    else if b = backslash then
      match rest with
      | [] => some [b]
      | c :: rest' =>
        if c = nl then none
        else if c = dollar || c = backslash || c = backquote then (expand st fuel rest').map (c :: ·)
        else (expand st fuel rest').map (fun o => b :: c :: o)
    else if b = dollar then
      match rest with
      | [] => some [b]
      | c :: _ =>
        if isNameStart c then
          let name := rest.takeWhile isNameChar
          (expand st fuel (rest.dropWhile isNameChar)).map (fun o => (st.get name).getD [] ++ o)
        else if c = nl || c = space then (expand st fuel rest).map (b :: ·)
        else none
    else (expand st fuel rest).map (b :: ·)

/-- dialect of the mini-shell: the standard, or dash 0.5.12 with its here-document quirk -/
inductive Dialect where
  | posix | dash
deriving Repr, DecidableEq

/-- what dash 0.5.12 keeps of a here-document line: after a non-empty common prefix with the
delimiter (`m` = some byte matched) a mismatching byte >= 0x80 is dropped. -/
def dashLineAux : Bytes → Bytes → Bool → Bytes
  | [], _, _ => []
  | c :: r, [], m => if m && c ≥ 128 then r else c :: r
  | c :: r, t :: ts, m =>
    if c = t then c :: dashLineAux r ts true
    else if m && c ≥ 128 then r else c :: r

def dashLine (tag l : Bytes) : Bytes := dashLineAux l tag false

def fixLine (d : Dialect) (tag l : Bytes) : Bytes :=
  match d with
  | .posix => l
  | .dash => dashLine tag l

inductive Mode where
  | normal
  | body (k tag : Bytes) (quoted : Bool) (acc : List Bytes)   -- reading here-document lines
  | close (k : Bytes) (quoted : Bool) (lines : List Bytes)    -- expecting the `)` line

/-- the value a finished `K=$(cat <<…)` assigns -/
def heredocValue (st : State) (quoted : Bool) (lines : List Bytes) : Option Bytes :=
  let out := catLines lines
  if out.contains 0 then none
  else if quoted then some (stripTrailingNewlines out)
  else (expand st (out.length + 1) out).map stripTrailingNewlines

def go (d : Dialect) : Mode → State → List Bytes → Outcome
  | .normal, st, [] => .stop st []
  | .normal, st, l :: ls =>
    match classify l with
    | .blank => go d .normal st ls
    | .setE => go d .normal { st with errexit := true } ls
    | .setPlusX => go d .normal { st with xtrace := false } ls
    | .export k => go d .normal (st.export k) ls
    | .assign k tag q => go d (.body k tag q []) st ls
    | .other => .stop st (joinLines (l :: ls))
  | .body _ _ _ _, _, [] => .unsupported                         -- delimiter line never came
  | .body k tag q acc, st, l :: ls =>
    if l = tag then go d (.close k q acc) st ls else go d (.body k tag q (acc ++ [fixLine d tag l])) st ls
  | .close _ _ _, _, [] => .unsupported
  | .close k q lines, st, l :: ls =>
    if l = rparenLine then
      if reserved.contains k then .unsupported
      else match heredocValue st q lines with
        | none => .unsupported
        | some v => go d .normal (st.assign k v) ls
    else .unsupported

/-- run the mini-shell on a script (its standard input) from state `st` -/
def sh (d : Dialect) (st : State) (script : Bytes) : Outcome := go d .normal st (splitLines script)

/-- a fresh shell: nothing set -/
def State.empty : State := { vars := [], exported := [], errexit := false, xtrace := false }

/-- effect of the two header lines -/
def State.afterHeader (st : State) : State := { st with errexit := true, xtrace := false }

/-- the state change the property demands for one variable, and for all of them in script order -/
def State.deliver (st : State) (kv : Bytes × Bytes) : State :=
  (st.assign kv.1 (stripTrailingNewlines kv.2)).export kv.1

def State.deliverAll (st : State) : Env → State
  | [] => st
  | kv :: rest => (st.deliver kv).deliverAll rest

end Goat.EnvScript
