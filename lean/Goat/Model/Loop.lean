/-
Model/Loop — the concurrent tree walk of `filesystem/fsloop` (property C08).  Core Lean only.

One transition system, mirroring `/repo/filesystem/fsloop/{loop,producer,consumer}.go` and
`/repo/workers/jobsync/{pool,lifecycle}.go`:

1. **Producer programs** (`rootProg`): the traversal of an arbitrary tree as the *program text* of a
   producer goroutine.  Every atomic action of `Producer.Loop` / `processList` / `processDir` is a
   `PAct`: a `ReadDir`, a filter evaluation, a `pool.Add(1)` that returned 0 (`add`: the directory
   is listed inline), a `pool.Add(1)` that returned 1 followed by `go newProducer.Loop()` (`spawn`,
   which carries the program of the new goroutine), a channel send, and the test
   `if producer.lifecycle.IsKilled() { return true }` (`chk`) exactly where `processList` has it:
   at the end of a loop iteration that sent a file, and at the end of an iteration that handled a
   directory when no `DirFilter` is configured (with a `DirFilter` the directory branch ends in
   `continue`; rejected or unselected files `continue` as well).  `chk n` and a failing inline
   listing carry the number `n` of actions the early `return true` skips: the rest of the current
   `processList` invocation (the result of a nested inline `processList` is dropped by
   `processDir`, so the caller goes on).  Whether an accepted directory is listed by a fresh
   producer or inline is decided by an arbitrary oracle (that is `pool.Add(1)` returning 1 or 0).

2. **The system** (`sys`): state = every producer goroutine with the rest of its program (`run`),
   or between a failed `ReadDir` and its `lifecycle.Error(err)` call (`rep`), or finished (`gone`);
   the producer pool's wait-group counter; the two bounded channels; the lifecycle (step, context
   `alive / canceled / deadline`, error list); the program counter of every consumer goroutine and
   of the completion goroutine ("closer"); the consumer pool's wait-group counter; the finished
   callbacks.  One transition per atomic action of `Consumer.Loop` (kill test at the top of the
   loop, step read, `len(dirChan)`, `len(fileChan)`, non-blocking receive, callback return, error
   report, `pool.Done`), of the closer (`producerPool.Wait` returned, `NextStep(StepClose)`,
   `close(dirChan)`, `close(fileChan)`), of a producer (head of its program; a send is disabled
   while its channel is full: sends block), and three **environment acts** that may happen at any
   moment: `kill` (scope `KillEvent` → `Loop.KillSlot` → `lifecycle.Kill()`), `errEvent` (scope
   `ErrorEvent` → the same slot) and `timeout` (the lifecycle's deadline passes).
   `lifecycle.Error(err)` (strict mode) appends to the error list and then cancels the context, as
   one action under the lifecycle mutex.  A callback that is running when the lifecycle is killed
   runs on (`PC.inCb` has no kill test); its result is handled afterwards.  `Loop.Wait` is
   `consumerPool.Wait()`: enabled when the consumer pool's counter is 0.  `Loop.Errors()` is the
   error list followed by the context's error (`errorsOf`).

   `Params.fixedOrder = true` is the order of the two reads in the repaired consumer (step first,
   emptiness second); `false` is the order of the tree tagged `pinned-base` (emptiness first, step
   second), kept to exhibit the lost item (`Goat.C08.lost_item_reachable`).
-/
import Goat.Base.LTS

namespace Goat.Loop
open Goat.LTS

abbrev Path := String
/-- a callback argument: `(true, p)` = `OnDir(fs, p)`, `(false, p)` = `OnFile(fs, p)` -/
abbrev Item := Bool × Path

/-! ## 1. Producer programs -/

mutual
/-- a node of the walked tree; `dir listable kids`: `ReadDir` of the directory succeeds (and returns
`kids`, in this order) or fails -/
inductive Node where
  | file
  | dir (listable : Bool) (kids : Kids)
inductive Kids where
  | nil
  | cons (name : String) (n : Node) (rest : Kids)
end

/-- `LoopData` as far as the producers read it (`nil` filter = `none`, `nil` callback = `false`) -/
structure WalkCfg where
  fileFilter : Option (Path → Bool)
  dirFilter : Option (Path → Bool)
  onFile : Bool
  onDir : Bool

def WalkCfg.accF (c : WalkCfg) (p : Path) : Bool :=
  match c.fileFilter with
  | none => true
  | some f => f p

def WalkCfg.accD (c : WalkCfg) (p : Path) : Bool :=
  match c.dirFilter with
  | none => true
  | some f => f p

/-- atomic actions of a producer goroutine -/
inductive PAct where
  /-- `ReadDir(p)` (`slash`: the path handed to `ReadDir` is `p ++ "/"`, which is what a freshly
  started producer does) returned a listing (`ok`) or an error; after an error the producer calls
  `lifecycle.Error(err)` and returns `true` from `processDir`, which makes the enclosing
  `processList` return: `skip` = the number of its actions that are not executed -/
  | list (p : Path) (slash : Bool) (ok : Bool) (skip : Nat)
  | filtD (p : Path) (acc : Bool)
  | filtF (p : Path) (acc : Bool)
  /-- `pool.Add(1)` for directory `p` returned 0: listed inline -/
  | add (p : Path)
  /-- `pool.Add(1)` for directory `p` returned 1, `go newProducer.Loop()`; `body` is the program of
  the new producer goroutine -/
  | spawn (p : Path) (body : List PAct)
  | send (isDir : Bool) (p : Path)
  /-- `if producer.lifecycle.IsKilled() { return true }`: when killed, the next `skip` actions (the
  rest of this `processList` invocation) are not executed -/
  | chk (skip : Nat)

def skipName (name : String) : Bool := name == "." || name == ".."

mutual
/-- one iteration of the `for _, node := range readDir` loop of `processList` on the node `n`
whose path is `p = basePath + node.Name()`; `after` = the number of actions of the remaining
iterations of this `processList` invocation -/
def walkNode (c : WalkCfg) (oracle : Path → Bool) (p : Path) (after : Nat) : Node → List PAct
  | .file =>
    if c.onFile then
      match c.fileFilter with
      | none => [.send false p, .chk after]
      | some f => .filtF p (f p) :: (if f p then [.send false p, .chk after] else [])
    else []
  | .dir l k =>
    let pre : List PAct := match c.dirFilter with
      | none => []
      | some f => [.filtD p (f p)]
    if c.accD p then
      let snd : List PAct := if c.onDir then [.send true p] else []
      -- with a `DirFilter` the branch ends in `continue`; without one it falls through to the kill test
      let post : List PAct := match c.dirFilter with
        | none => [.chk after]
        | some _ => []
      -- processDir
      let sub := walkKids c oracle (p ++ "/") k
      if oracle p then
        -- `go newProducer.Loop()` with path `p + "/"`
        pre ++ snd ++ [.spawn p (.list p true l 0 :: (if l then sub else []))] ++ post
      else
        -- inline: `ReadDir(p)`, `processList(p + "/", …)` (result dropped); a failing `ReadDir` makes
        -- `processDir` return true, and the enclosing `processList` returns
        pre ++ snd ++ [.add p, .list p false l (post.length + after)] ++ (if l then sub else []) ++ post
    else pre
/-- `processList(base, kids)` -/
def walkKids (c : WalkCfg) (oracle : Path → Bool) (base : Path) : Kids → List PAct
  | .nil => []
  | .cons name n rest =>
    let r := walkKids c oracle base rest
    if skipName name then r else walkNode c oracle (base ++ name) r.length n ++ r
end

/-- the program of the first producer: `Producer.Loop` with `path = root` on a root directory whose
listing succeeds (`l`) with children `k`, or fails -/
def rootProg (c : WalkCfg) (oracle : Path → Bool) (root : Path) (l : Bool) (k : Kids) : List PAct :=
  .list root false l 0 :: (if l then walkKids c oracle root k else [])

mutual
/-- the items a program sends to the channels, including the programs of the producers it starts -/
def PAct.sends : PAct → List Item
  | .send d p => [(d, p)]
  | .spawn _ body => sendsL body
  | _ => []
def sendsL : List PAct → List Item
  | [] => []
  | a :: r => a.sends ++ sendsL r
end

mutual
/-- the `ReadDir` calls of a program (directory, outcome), including started producers -/
def PAct.lists : PAct → List (Path × Bool)
  | .list p _ ok _ => [(p, ok)]
  | .spawn _ body => listsL body
  | _ => []
def listsL : List PAct → List (Path × Bool)
  | [] => []
  | a :: r => a.lists ++ listsL r
end

mutual
/-- number of actions of a program, including started producers (each counted with its `pool.Done`) -/
def PAct.size : PAct → Nat
  | .spawn _ body => 2 + sizeL body
  | .list _ _ _ _ => 2
  | _ => 1
def sizeL : List PAct → Nat
  | [] => 0
  | a :: r => a.size + sizeL r
end

/-! ### The specification of the walk: which nodes are *selected*, which directories are listed.
No oracle, no actions — the plain recursive reading of "every file and every directory that passes
the filters, descending only into accepted (and listable) directories". -/

mutual
def selNode (c : WalkCfg) (p : Path) : Node → List Item
  | .file => if c.onFile && c.accF p then [(false, p)] else []
  | .dir l k =>
    if c.accD p then
      (if c.onDir then [(true, p)] else []) ++ (if l then selKids c (p ++ "/") k else [])
    else []
def selKids (c : WalkCfg) (base : Path) : Kids → List Item
  | .nil => []
  | .cons name n rest =>
    if skipName name then selKids c base rest
    else selNode c (base ++ name) n ++ selKids c base rest
end

/-- the callbacks that have to happen for the tree rooted at `root` -/
def selected (c : WalkCfg) (root : Path) (l : Bool) (k : Kids) : List Item :=
  if l then selKids c root k else []

mutual
def lstNode (c : WalkCfg) (p : Path) : Node → List (Path × Bool)
  | .file => []
  | .dir l k => if c.accD p then (p, l) :: (if l then lstKids c (p ++ "/") k else []) else []
def lstKids (c : WalkCfg) (base : Path) : Kids → List (Path × Bool)
  | .nil => []
  | .cons name n rest =>
    if skipName name then lstKids c base rest
    else lstNode c (base ++ name) n ++ lstKids c base rest
end

/-- the directories that have to be listed (the root and every accepted directory below a listable
listed one), with the outcome of the listing -/
def listed (c : WalkCfg) (root : Path) (l : Bool) (k : Kids) : List (Path × Bool) :=
  (root, l) :: (if l then lstKids c root k else [])

/-! ### `jobsync.Pool.Add` and the number of consumer goroutines `Loop.Run` starts -/

/-- `Pool.Add(amount)` on a pool with limit `max` and `counter` running jobs: the amount granted -/
def poolAdd (max counter amount : Nat) : Nat := min amount (max - counter)

/-- `Loop.Run`: `consumerMaxJob` from `LoopData.Consumers` (0 or more than `workers.MaxJob` means
`workers.MaxJob`), then `consumerPool.Add(workers.MaxJob)` consumer goroutines -/
def consumerCount (configured maxJob : Nat) : Nat :=
  let lim := if configured = 0 ∨ configured > maxJob then maxJob else configured
  poolAdd lim 0 maxJob

/-! ## 2. Producers, queues, consumers, closer, lifecycle, environment -/

/-- program counter of a consumer goroutine (`Consumer.Loop`) -/
inductive PC where
  /-- top of the `for`: about to evaluate `lifecycle.IsKilled()` -/
  | top
  /-- about to read `lifecycle.Step()` -/
  | rdStep
  /-- about to read `len(dirChan)` in the exit test; `sawClosed` = what the step read returned
  (repaired order; in the pinned order the step has not been read yet and the flag is `false`) -/
  | lenD (sawClosed : Bool)
  /-- `len(dirChan)` was 0, about to read `len(fileChan)` in the exit test -/
  | lenF (sawClosed : Bool)
  /-- else-branch: about to read `len(dirChan) != 0` -/
  | work
  /-- about to execute the non-blocking receive on `dirChan` -/
  | selD
  /-- about to read `len(fileChan) != 0` -/
  | workF
  /-- about to execute the non-blocking receive on `fileChan` -/
  | selF
  /-- inside `OnDir` (`isDir`) / `OnFile` on `p`; no kill test: a running callback runs on -/
  | inCb (isDir : Bool) (p : Path)
  /-- the callback returned an error, about to call `lifecycle.Error(err)` -/
  | rep (isDir : Bool) (p : Path)
  /-- left the loop (`return`), the deferred `pool.Done()` not yet executed -/
  | exiting
  /-- `pool.Done()` executed; the goroutine is gone -/
  | exited
deriving DecidableEq, Repr

/-- program counter of the completion goroutine of `Loop.Run` -/
inductive CPC where
  | waiting    -- blocked in `producerPool.Wait()`
  | waited     -- `Wait` returned, about to `NextStep(StepClose)`
  | announced  -- about to `close(dirChan)`
  | closedD    -- about to `close(fileChan)`
  | fin
deriving DecidableEq, Repr

/-- an entry of what `Loop.Errors()` returns: the entries of `lifecycle.errors`, and the context's
error that `Errors()` appends (`context.Canceled` / `context.DeadlineExceeded`) -/
inductive Err where
  | cb (isDir : Bool) (p : Path)
  | listing (p : Path)
  | canceled
  | deadline
deriving DecidableEq, Repr

/-- the lifecycle's context -/
inductive Ctx where
  | alive
  /-- `cancel()` was called: `lifecycle.Kill()` (scope Kill / Error event) or `lifecycle.Error` -/
  | canceled
  /-- the deadline (`workers.DefaultTimeout` after `Run`) passed first -/
  | deadline
deriving DecidableEq, Repr

/-- `lifecycle.IsKilled()` -/
def Ctx.dead : Ctx → Bool
  | .alive => false
  | _ => true

/-- `cancel()`: the first cause wins -/
def Ctx.kill : Ctx → Ctx
  | .alive => .canceled
  | c => c

/-- the deadline passes -/
def Ctx.expire : Ctx → Ctx
  | .alive => .deadline
  | c => c

/-- `ctx.Err()` as `Errors()` appends it -/
def Ctx.err : Ctx → List Err
  | .alive => []
  | .canceled => [.canceled]
  | .deadline => [.deadline]

/-- a producer goroutine -/
inductive Prod where
  /-- the rest of its program; `run []`: returned from `Loop`, the deferred `pool.Done()` is next -/
  | run (acts : List PAct)
  /-- `ReadDir(p)` failed; the next action is `lifecycle.Error(err)`, then `return` (skipping `skip`
  actions of `rest`) -/
  | rep (p : Path) (skip : Nat) (rest : List PAct)
  /-- `pool.Done()` executed -/
  | gone

structure St where
  prods : List Prod
  /-- counter of the producer pool's wait group -/
  ppool : Nat
  qd : List Path
  qf : List Path
  dClosed : Bool
  fClosed : Bool
  /-- `lifecycle.step = StepClose` -/
  closed : Bool
  ctx : Ctx
  /-- `lifecycle.errors` -/
  errors : List Err
  closer : CPC
  cons : List PC
  /-- counter of the consumer pool's wait group -/
  poolCtr : Nat
  /-- callbacks that have returned, most recent first -/
  done : List Item
  /-- ghost: the actions that producers skipped by returning early -/
  dropped : List PAct
  /-- ghost: the directories whose `ReadDir` returned an error, most recent first -/
  lfailed : List Path

/-- `lifecycle.IsKilled()` -/
def St.killed (s : St) : Bool := s.ctx.dead

/-- `Loop.Errors()` -/
def errorsOf (s : St) : List Err := s.errors ++ s.ctx.err

structure Params where
  capD : Nat
  capF : Nat
  /-- which callbacks return an error -/
  failCb : Bool → Path → Bool
  /-- `true`: repaired order (step, then emptiness); `false`: order of `pinned-base` -/
  fixedOrder : Bool

/-- where a consumer continues after a callback: after `OnDir` it falls through to the
`len(fileChan) != 0` test, after `OnFile` the loop body ends -/
def afterCb (isDir : Bool) : PC := if isDir then .workF else .top

/-- one atomic action of a consumer at program counter `pc` in state `s`: its next program counter
and the new shared state (`cons` is updated by the caller) -/
def consAct (P : Params) (s : St) : PC → PC × St
  | .top =>
    (if s.killed then .exiting else if P.fixedOrder then .rdStep else .lenD false, s)
  | .rdStep =>
    (if P.fixedOrder then .lenD s.closed else if s.closed then .exiting else .top, s)
  | .lenD b => (if s.qd.isEmpty then .lenF b else .work, s)
  | .lenF b =>
    (if s.qf.isEmpty then
        (if P.fixedOrder then (if b then .exiting else .top) else .rdStep)
      else .work, s)
  | .work => (if s.qd.isEmpty then .workF else .selD, s)
  | .selD =>
    match s.qd with
    | [] => (.top, s)   -- `default: continue`, or closed and drained: `!more → continue`
    | x :: r => (.inCb true x, { s with qd := r })
  | .workF => (if s.qf.isEmpty then .top else .selF, s)
  | .selF =>
    match s.qf with
    | [] => (.top, s)
    | x :: r => (.inCb false x, { s with qf := r })
  | .inCb d x =>
    if P.failCb d x then
      (.rep d x, { s with done := (d, x) :: s.done })
    else (afterCb d, { s with done := (d, x) :: s.done })
  -- `lifecycle.Error(err)`: append, then kill (strict mode), whether or not already killed
  | .rep d x => (afterCb d, { s with errors := s.errors ++ [.cb d x], ctx := s.ctx.kill })
  | .exiting => (.exited, { s with poolCtr := s.poolCtr - 1 })
  | .exited => (.exited, s)

def consStep (P : Params) (s : St) (i : Nat) : Option St :=
  match s.cons[i]? with
  | none => none
  | some pc =>
    if pc = .exited then none
    else
      let r := consAct P s pc
      some { r.2 with cons := s.cons.set i r.1 }

/-- producer `j` executes the action `a`, the head of its program (`rest` = its tail) -/
def prodAct (P : Params) (s : St) (j : Nat) (rest : List PAct) : PAct → Option St
  | .send true p =>
    -- `dirChan <- p` blocks while the channel is full (and would panic on a closed channel)
    if s.qd.length < P.capD ∧ s.dClosed = false then
      some { s with prods := s.prods.set j (.run rest), qd := s.qd ++ [p] }
    else none
  | .send false p =>
    if s.qf.length < P.capF ∧ s.fClosed = false then
      some { s with prods := s.prods.set j (.run rest), qf := s.qf ++ [p] }
    else none
  | .list p _ false k =>
    some { s with prods := s.prods.set j (.rep p k rest), lfailed := p :: s.lfailed }
  | .list _ _ true _ => some { s with prods := s.prods.set j (.run rest) }
  | .filtD _ _ => some { s with prods := s.prods.set j (.run rest) }
  | .filtF _ _ => some { s with prods := s.prods.set j (.run rest) }
  | .add _ => some { s with prods := s.prods.set j (.run rest) }
  | .spawn _ body =>
    -- `pool.Add(1)` (granted) and `go newProducer.Loop()`
    some { s with prods := s.prods.set j (.run rest) ++ [.run body], ppool := s.ppool + 1 }
  | .chk k =>
    if s.killed then
      some { s with prods := s.prods.set j (.run (rest.drop k)), dropped := rest.take k ++ s.dropped }
    else some { s with prods := s.prods.set j (.run rest) }

def prodStep (P : Params) (s : St) (j : Nat) : Option St :=
  match s.prods[j]? with
  | none => none
  | some .gone => none
  | some (.rep p k rest) =>
    -- `producer.lifecycle.Error(err)`: append and kill under the lifecycle mutex; then return
    some { s with prods := s.prods.set j (.run (rest.drop k)), errors := s.errors ++ [.listing p],
                  ctx := s.ctx.kill, dropped := rest.take k ++ s.dropped }
  | some (.run []) => some { s with prods := s.prods.set j .gone, ppool := s.ppool - 1 }
  | some (.run (a :: rest)) => prodAct P s j rest a

def closerStep (s : St) : Option St :=
  match s.closer with
  | .waiting => if s.ppool = 0 then some { s with closer := .waited } else none
  | .waited => some { s with closed := true, closer := .announced }
  | .announced => some { s with dClosed := true, closer := .closedD }
  | .closedD => some { s with fClosed := true, closer := .fin }
  | .fin => none

/-- scheduling choices: the goroutines of the loop, and the environment -/
inductive Label where
  | prod (j : Nat)
  | closer
  | cons (i : Nat)
  /-- scope `KillEvent` → `Loop.KillSlot` → `lifecycle.Kill()` -/
  | kill
  /-- scope `ErrorEvent` → `Loop.KillSlot` → `lifecycle.Kill()` -/
  | errEvent
  /-- the lifecycle's deadline passes -/
  | timeout
deriving DecidableEq, Repr

/-- the label is an action of a goroutine of the loop (not of the environment) -/
def Label.isProg : Label → Bool
  | .prod _ => true
  | .closer => true
  | .cons _ => true
  | _ => false

def step (P : Params) (s : St) : Label → Option St
  | .prod j => prodStep P s j
  | .closer => closerStep s
  | .cons i => consStep P s i
  | .kill => some { s with ctx := s.ctx.kill }
  | .errEvent => some { s with ctx := s.ctx.kill }
  | .timeout => some { s with ctx := s.ctx.expire }

def init (prog : List PAct) (n : Nat) : St :=
  { prods := [.run prog], ppool := 1, qd := [], qf := [], dClosed := false, fClosed := false,
    closed := false, ctx := .alive, errors := [], closer := .waiting, cons := List.replicate n .top,
    poolCtr := n, done := [], dropped := [], lfailed := [] }

/-- the transition system of a loop with `n` consumer goroutines whose first producer runs `prog` -/
def sys (P : Params) (prog : List PAct) (n : Nat) : Sys St Label :=
  { init := init prog n, step := step P }

/-- `consumerPool.Wait()` can return -/
def waitEnabled (s : St) : Prop := s.poolCtr = 0

instance (s : St) : Decidable (waitEnabled s) := inferInstanceAs (Decidable (s.poolCtr = 0))

/-- callbacks in progress -/
def inflight : List PC → List Item
  | [] => []
  | .inCb d x :: r => (d, x) :: inflight r
  | _ :: r => inflight r

/-- failures whose `lifecycle.Error` call is the reporting consumer's next action -/
def reporting : List PC → List Err
  | [] => []
  | .rep d x :: r => .cb d x :: reporting r
  | _ :: r => reporting r

/-- listing failures whose `lifecycle.Error` call is the reporting producer's next action -/
def reportingP : List Prod → List Path
  | [] => []
  | .rep p _ _ :: r => p :: reportingP r
  | _ :: r => reportingP r

/-- the producer goroutines that have not executed `pool.Done()` -/
def liveProds : List Prod → Nat
  | [] => 0
  | .gone :: r => liveProds r
  | _ :: r => liveProds r + 1

def qItems (s : St) : List Item := s.qd.map (fun p => (true, p)) ++ s.qf.map (fun p => (false, p))

end Goat.Loop
