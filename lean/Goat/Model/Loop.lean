/-
Model/Loop — the concurrent tree walk of `filesystem/fsloop` (property C08).  Core Lean only.

Two transition systems, mirroring `/repo/filesystem/fsloop/{loop,producer,consumer}.go` and
`/repo/workers/jobsync/{pool,lifecycle}.go`:

1. **Producers** (`walkRoot`): the traversal of an arbitrary tree.  Every atomic action of
   `Producer.Loop` / `processList` / `processDir` is a `PAct` (a `ReadDir`, a filter evaluation, a
   `pool.Add(1)`, a channel send).  Whether an accepted directory is listed by a *fresh* producer
   (`pool.Add(1) = 1`, `go newProducer.Loop()`) or *inline* by the current one (`pool.Add(1) = 0`)
   is decided by an arbitrary oracle.  The result is one action sequence per producer goroutine; a
   run of the producers is any interleaving of these sequences (`Interleave`).

2. **Queues + n consumers + closer** (`sys`): state = the producers' remaining actions in the order
   in which they will complete (`pending`; "for all interleavings" = "for all such lists"), the two
   bounded channels, the lifecycle step / kill flag / error list, the program counter of every
   consumer goroutine, of the completion goroutine ("closer"), the consumer pool's wait-group counter
   and the list of finished callbacks.  One transition per atomic action of `Consumer.Loop` (kill
   test, step read, `len(dirChan)`, `len(fileChan)`, non-blocking receive, callback return, error
   report, `pool.Done`), of the closer (`producerPool.Wait` returned, `NextStep(StepClose)`,
   `close(dirChan)`, `close(fileChan)`) and of the producers (head of `pending`; a send is disabled
   while its channel is full: sends block).

   `Params.fixedOrder = true` is the order of the two reads in the repaired consumer (step first,
   emptiness second); `false` is the order of the tree tagged `pinned-base` (emptiness first, step
   second), kept as a second system to exhibit the lost item (`Goat.C08.lost_item_reachable`).
-/
import Goat.Base.LTS

namespace Goat.Loop
open Goat.LTS

abbrev Path := String
/-- a callback argument: `(true, p)` = `OnDir(fs, p)`, `(false, p)` = `OnFile(fs, p)` -/
abbrev Item := Bool × Path

/-! ## 1. Producers -/

mutual
/-- a node of the walked tree; `dir listable kids`: `ReadDir` of the directory succeeds (and returns
`kids`, in this order) or fails -/
inductive Node where
  | file
  | dir (listable : Bool) (kids : Kids)
inductive Kids where
  | nil
  | cons (name : String) (n : Node) (rest : Kids)
end

/-- `LoopData` as far as the producers read it (`nil` filter = `none`, `nil` callback = `false`) -/
structure WalkCfg where
  fileFilter : Option (Path → Bool)
  dirFilter : Option (Path → Bool)
  onFile : Bool
  onDir : Bool

def WalkCfg.accF (c : WalkCfg) (p : Path) : Bool :=
  match c.fileFilter with
  | none => true
  | some f => f p

def WalkCfg.accD (c : WalkCfg) (p : Path) : Bool :=
  match c.dirFilter with
  | none => true
  | some f => f p

/-- atomic actions of a producer goroutine -/
inductive PAct where
  /-- `ReadDir(p)` (`slash`: the path handed to `ReadDir` is `p ++ "/"`, which is what a freshly
  started producer does) returned a listing (`ok`) or an error -/
  | list (p : Path) (slash : Bool) (ok : Bool)
  | filtD (p : Path) (acc : Bool)
  | filtF (p : Path) (acc : Bool)
  /-- `pool.Add(1)` for directory `p` returned 1 (`got`) or 0 -/
  | add (p : Path) (got : Bool)
  | send (isDir : Bool) (p : Path)
deriving DecidableEq, Repr

/-- what a (sub)walk does: the actions of the producer executing it and the action sequences of
the producers it started (transitively) -/
structure Out where
  own : List PAct
  spawned : List (List PAct)

def Out.append (a b : Out) : Out := ⟨a.own ++ b.own, a.spawned ++ b.spawned⟩

def skipName (name : String) : Bool := name == "." || name == ".."

mutual
/-- one iteration of the `for _, node := range readDir` loop of `processList` on the node `n`
whose path is `p = basePath + node.Name()` -/
def walkNode (c : WalkCfg) (oracle : Path → Bool) (p : Path) : Node → Out
  | .file =>
    if c.onFile then
      match c.fileFilter with
      | none => ⟨[.send false p], []⟩
      | some f => ⟨.filtF p (f p) :: (if f p then [.send false p] else []), []⟩
    else ⟨[], []⟩
  | .dir l k =>
    let pre : List PAct := match c.dirFilter with
      | none => []
      | some f => [.filtD p (f p)]
    if c.accD p then
      let snd : List PAct := if c.onDir then [.send true p] else []
      -- processDir
      let sub := walkKids c oracle (p ++ "/") k
      if oracle p then
        -- `go newProducer.Loop()` with path `p + "/"`
        ⟨pre ++ snd ++ [.add p true],
          (.list p true l :: (if l then sub.own else [])) :: (if l then sub.spawned else [])⟩
      else
        -- inline: `ReadDir(p)`, `processList(p + "/", …)`
        ⟨pre ++ snd ++ [.add p false] ++ .list p false l :: (if l then sub.own else []),
          if l then sub.spawned else []⟩
    else ⟨pre, []⟩
/-- `processList(base, kids)` -/
def walkKids (c : WalkCfg) (oracle : Path → Bool) (base : Path) : Kids → Out
  | .nil => ⟨[], []⟩
  | .cons name n rest =>
    if skipName name then walkKids c oracle base rest
    else (walkNode c oracle (base ++ name) n).append (walkKids c oracle base rest)
end

/-- the first producer: `Producer.Loop` with `path = root` on a root directory whose listing
succeeds (`l`) with children `k`, or fails -/
def walkRoot (c : WalkCfg) (oracle : Path → Bool) (root : Path) (l : Bool) (k : Kids) : Out :=
  let sub := walkKids c oracle root k
  ⟨.list root false l :: (if l then sub.own else []), if l then sub.spawned else []⟩

/-- the action sequences of all producer goroutines of a run -/
def producerSeqs (c : WalkCfg) (oracle : Path → Bool) (root : Path) (l : Bool) (k : Kids) : List (List PAct) :=
  let o := walkRoot c oracle root l k
  o.own :: o.spawned

/-- `l` is an interleaving of the sequences `ls` (each sequence keeps its order) -/
inductive Interleave {α : Type} : List (List α) → List α → Prop where
  | done : Interleave [] []
  | dropNil {ls : List (List α)} {l : List α} : Interleave ls l → Interleave ([] :: ls) l
  | take {pre : List (List α)} {x : α} {xs : List α} {post : List (List α)} {l : List α} :
      Interleave (pre ++ xs :: post) l → Interleave (pre ++ (x :: xs) :: post) (x :: l)

/-- the items sent to the channels by a sequence of producer actions -/
def sends : List PAct → List Item
  | [] => []
  | .send d p :: r => (d, p) :: sends r
  | _ :: r => sends r

/-- the `ReadDir` calls of a sequence of producer actions: directory and outcome -/
def lists : List PAct → List (Path × Bool)
  | [] => []
  | .list p _ ok :: r => (p, ok) :: lists r
  | _ :: r => lists r

/-! ### The specification of the walk: which nodes are *selected*, which directories are listed.
No oracle, no actions — the plain recursive reading of "every file and every directory that passes
the filters, descending only into accepted (and listable) directories". -/

mutual
def selNode (c : WalkCfg) (p : Path) : Node → List Item
  | .file => if c.onFile && c.accF p then [(false, p)] else []
  | .dir l k =>
    if c.accD p then
      (if c.onDir then [(true, p)] else []) ++ (if l then selKids c (p ++ "/") k else [])
    else []
def selKids (c : WalkCfg) (base : Path) : Kids → List Item
  | .nil => []
  | .cons name n rest =>
    if skipName name then selKids c base rest
    else selNode c (base ++ name) n ++ selKids c base rest
end

/-- the callbacks that have to happen for the tree rooted at `root` -/
def selected (c : WalkCfg) (root : Path) (l : Bool) (k : Kids) : List Item :=
  if l then selKids c root k else []

mutual
def lstNode (c : WalkCfg) (p : Path) : Node → List (Path × Bool)
  | .file => []
  | .dir l k => if c.accD p then (p, l) :: (if l then lstKids c (p ++ "/") k else []) else []
def lstKids (c : WalkCfg) (base : Path) : Kids → List (Path × Bool)
  | .nil => []
  | .cons name n rest =>
    if skipName name then lstKids c base rest
    else lstNode c (base ++ name) n ++ lstKids c base rest
end

/-- the directories that have to be listed (the root and every accepted directory below a listable
listed one), with the outcome of the listing -/
def listed (c : WalkCfg) (root : Path) (l : Bool) (k : Kids) : List (Path × Bool) :=
  (root, l) :: (if l then lstKids c root k else [])

/-! ### `jobsync.Pool.Add` and the number of consumer goroutines `Loop.Run` starts -/

/-- `Pool.Add(amount)` on a pool with limit `max` and `counter` running jobs: the amount granted -/
def poolAdd (max counter amount : Nat) : Nat := min amount (max - counter)

/-- `Loop.Run`: `consumerMaxJob` from `LoopData.Consumers` (0 or more than `workers.MaxJob` means
`workers.MaxJob`), then `consumerPool.Add(workers.MaxJob)` consumer goroutines -/
def consumerCount (configured maxJob : Nat) : Nat :=
  let lim := if configured = 0 ∨ configured > maxJob then maxJob else configured
  poolAdd lim 0 maxJob

/-! ## 2. Queues, consumers, closer -/

/-- program counter of a consumer goroutine (`Consumer.Loop`) -/
inductive PC where
  /-- top of the `for`: about to evaluate `lifecycle.IsKilled()` -/
  | top
  /-- about to read `lifecycle.Step()` -/
  | rdStep
  /-- about to read `len(dirChan)` in the exit test; `sawClosed` = what the step read returned
  (repaired order; in the pinned order the step has not been read yet and the flag is `false`) -/
  | lenD (sawClosed : Bool)
  /-- `len(dirChan)` was 0, about to read `len(fileChan)` in the exit test -/
  | lenF (sawClosed : Bool)
  /-- else-branch: about to read `len(dirChan) != 0` -/
  | work
  /-- about to execute the non-blocking receive on `dirChan` -/
  | selD
  /-- about to read `len(fileChan) != 0` -/
  | workF
  /-- about to execute the non-blocking receive on `fileChan` -/
  | selF
  /-- inside `OnDir` (`isDir`) / `OnFile` on `p` -/
  | inCb (isDir : Bool) (p : Path)
  /-- the callback returned an error, about to call `lifecycle.Error(err)` -/
  | rep (isDir : Bool) (p : Path)
  /-- left the loop (`return`), the deferred `pool.Done()` not yet executed -/
  | exiting
  /-- `pool.Done()` executed; the goroutine is gone -/
  | exited
deriving DecidableEq, Repr

/-- program counter of the completion goroutine of `Loop.Run` -/
inductive CPC where
  | waiting    -- blocked in `producerPool.Wait()`
  | waited     -- `Wait` returned, about to `NextStep(StepClose)`
  | announced  -- about to `close(dirChan)`
  | closedD    -- about to `close(fileChan)`
  | fin
deriving DecidableEq, Repr

/-- an entry of `lifecycle.errors` -/
inductive Err where
  | cb (isDir : Bool) (p : Path)
  | listing (p : Path)
deriving DecidableEq, Repr

structure St where
  /-- the producers' remaining actions, in the order in which they will complete -/
  pending : List PAct
  qd : List Path
  qf : List Path
  dClosed : Bool
  fClosed : Bool
  /-- `lifecycle.step = StepClose` -/
  closed : Bool
  /-- the lifecycle's context is cancelled (only `lifecycle.Error` does that in this model) -/
  killed : Bool
  errors : List Err
  closer : CPC
  cons : List PC
  /-- counter of the consumer pool's wait group -/
  poolCtr : Nat
  /-- callbacks that have returned, most recent first -/
  done : List Item
  /-- ghost: the actions that killed producers never executed -/
  dropped : List PAct
deriving Repr

structure Params where
  capD : Nat
  capF : Nat
  /-- which callbacks return an error -/
  failCb : Bool → Path → Bool
  /-- `true`: repaired order (step, then emptiness); `false`: order of `pinned-base` -/
  fixedOrder : Bool

/-- where a consumer continues after a callback: after `OnDir` it falls through to the
`len(fileChan) != 0` test, after `OnFile` the loop body ends -/
def afterCb (isDir : Bool) : PC := if isDir then .workF else .top

/-- one atomic action of a consumer at program counter `pc` in state `s`: its next program counter
and the new shared state (`cons` is updated by the caller) -/
def consAct (P : Params) (s : St) : PC → PC × St
  | .top =>
    (if s.killed then .exiting else if P.fixedOrder then .rdStep else .lenD false, s)
  | .rdStep =>
    (if P.fixedOrder then .lenD s.closed else if s.closed then .exiting else .top, s)
  | .lenD b => (if s.qd.isEmpty then .lenF b else .work, s)
  | .lenF b =>
    (if s.qf.isEmpty then
        (if P.fixedOrder then (if b then .exiting else .top) else .rdStep)
      else .work, s)
  | .work => (if s.qd.isEmpty then .workF else .selD, s)
  | .selD =>
    match s.qd with
    | [] => (.top, s)   -- `default: continue`, or closed and drained: `!more → continue`
    | x :: r => (.inCb true x, { s with qd := r })
  | .workF => (if s.qf.isEmpty then .top else .selF, s)
  | .selF =>
    match s.qf with
    | [] => (.top, s)
    | x :: r => (.inCb false x, { s with qf := r })
  | .inCb d x =>
    if P.failCb d x then
      (.rep d x, { s with done := (d, x) :: s.done })
    else (afterCb d, { s with done := (d, x) :: s.done })
  | .rep d x => (afterCb d, { s with errors := s.errors ++ [.cb d x], killed := true })
  | .exiting => (.exited, { s with poolCtr := s.poolCtr - 1 })
  | .exited => (.exited, s)

def consStep (P : Params) (s : St) (i : Nat) : Option St :=
  match s.cons[i]? with
  | none => none
  | some pc =>
    if pc = .exited then none
    else
      let r := consAct P s pc
      some { r.2 with cons := s.cons.set i r.1 }

/-- the producers execute the action `a`, the head of `pending` (`rest` = its tail) -/
def prodAct (P : Params) (s : St) (rest : List PAct) : PAct → Option St
  | .send true p =>
    -- `dirChan <- p` blocks while the channel is full (and would panic on a closed channel)
    if s.qd.length < P.capD ∧ s.dClosed = false then
      some { s with pending := rest, qd := s.qd ++ [p] }
    else none
  | .send false p =>
    if s.qf.length < P.capF ∧ s.fClosed = false then
      some { s with pending := rest, qf := s.qf ++ [p] }
    else none
  | .list p _ false =>
    -- `producer.lifecycle.Error(err)`: append and kill under the lifecycle mutex
    some { s with pending := rest, errors := s.errors ++ [.listing p], killed := true }
  | .list _ _ true => some { s with pending := rest }
  | .filtD _ _ => some { s with pending := rest }
  | .filtF _ _ => some { s with pending := rest }
  | .add _ _ => some { s with pending := rest }

def prodStep (P : Params) (s : St) : Option St :=
  match s.pending with
  | [] => none
  | a :: rest => prodAct P s rest a

/-- a killed lifecycle makes producers return early: the head action is never executed -/
def abandonStep (s : St) : Option St :=
  if s.killed then
    match s.pending with
    | [] => none
    | a :: rest => some { s with pending := rest, dropped := a :: s.dropped }
  else none

def closerStep (s : St) : Option St :=
  match s.closer with
  | .waiting => if s.pending.isEmpty then some { s with closer := .waited } else none
  | .waited => some { s with closed := true, closer := .announced }
  | .announced => some { s with dClosed := true, closer := .closedD }
  | .closedD => some { s with fClosed := true, closer := .fin }
  | .fin => none

/-- scheduling choices -/
inductive Label where
  | prod
  | abandon
  | closer
  | cons (i : Nat)
deriving DecidableEq, Repr

def step (P : Params) (s : St) : Label → Option St
  | .prod => prodStep P s
  | .abandon => abandonStep s
  | .closer => closerStep s
  | .cons i => consStep P s i

def init (acts : List PAct) (n : Nat) : St :=
  { pending := acts, qd := [], qf := [], dClosed := false, fClosed := false, closed := false,
    killed := false, errors := [], closer := .waiting, cons := List.replicate n .top, poolCtr := n,
    done := [], dropped := [] }

/-- the transition system of a loop with `n` consumer goroutines whose producers complete the
actions `acts` in this order -/
def sys (P : Params) (acts : List PAct) (n : Nat) : Sys St Label :=
  { init := init acts n, step := step P }

/-- `consumerPool.Wait()` can return -/
def waitEnabled (s : St) : Prop := s.poolCtr = 0

instance (s : St) : Decidable (waitEnabled s) := inferInstanceAs (Decidable (s.poolCtr = 0))

/-- callbacks in progress -/
def inflight : List PC → List Item
  | [] => []
  | .inCb d x :: r => (d, x) :: inflight r
  | _ :: r => inflight r

/-- failures whose `lifecycle.Error` call is the reporting consumer's next action -/
def reporting : List PC → List Err
  | [] => []
  | .rep d x :: r => .cb d x :: reporting r
  | _ :: r => reporting r

def qItems (s : St) : List Item := s.qd.map (fun p => (true, p)) ++ s.qf.map (fun p => (false, p))

end Goat.Loop
