/-
Executable model of the in-memory filespace (core Lean only; linked into the `m_fs` driver).

Mirrors /repo/filesystem/filespace/memfs:
  filespace.go   `Root.*`  one function per method of `memfs.Filespace`
  wraper.go      `Wrap.*`  one function per method of `memfs.FilespaceWrapper`
  get_by_path.go `getNodeByPathNodes` (skips empty segments), `getNodeByPath`/`getDirByPath`/`getFileByPath`
  helpers.go     `splitContainsPath`
  mkdirall.go    `mkdirAll` (`mkdirAllNodes` is `Node.mkdirs` of Base/Tree)
  remove.go      `removeNodeByPath` (empty-only flag)
  copy.go        a deep copy of an immutable value is the value itself: `copyNode n = n`
  dir.go         `Kids.find/add/set/erase` of Base/Tree (`getNode/addNode/…/removeNodeByName`)
  file.go, file_handler.go   `openWriter`/`handleWrite` (truncate on open, append per `Write`),
                 `readLoop` (the `pointer` of `FileHandler.Read`)

Every function takes the path *string* as bytes exactly as the Go method receives it, and follows
the Go control flow: `ReduceAbsPath`, then `strings.Split`, then the node walk.  The state is the
root `Node`; a call returns `(state', Result)`.  Where the Go code has already changed the tree
when it detects an error (parents created by `mkdirAllNodes`, then "node exists") the model returns
that changed tree too — `Props/C01` proves that it is the unchanged tree.

A child view is `FSRef.wrap base` with `base = reduced path ++ "/"`, sharing the root (exactly
`NewFilespaceWrapper`); `World` holds one root and any number of open views.

Not modelled: modes, times, locks (C09), the `Size()` of a directory.
Writer/Reader handles are used atomically (open, all writes/reads, close) — an open handle holds the
file's lock in Go, so a sequential history cannot interleave anything with it anyway.
-/
import Goat.Base.Tree
import Goat.Spec.FS

namespace Goat
namespace MemFS

open Path (Name split join reduceAbsPath dotSeg slash)
open FS (Op Result)

/-! ### helpers.go, get_by_path.go -/

/-- `splitContainsPath`: directory part and final name of a (reduced) path string; `none` = "Path
must contains nodename" -/
def splitContainsPath (p : Bytes) : Option (List Name × Name) :=
  let nodePath := split p
  match nodePath.getLast? with
  | none => none
  | some name => if name = [] then none else some (nodePath.dropLast, name)

/-- the names a segment list really walks: `getNodeByPathNodes` skips empty segments -/
def realPath (segs : List Name) : List Name := segs.filter (fun s => s ≠ [])

/-- `getNodeByPathNodes` -/
def getNodeByPathNodes : Node → List Name → Option Node
  | n, [] => some n
  | n, s :: rest =>
    if s = [] then getNodeByPathNodes n rest
    else match n with
      | .file _ => none
      | .dir k =>
        match k.find s with
        | none => none
        | some c => getNodeByPathNodes c rest

/-- `getNodeByPath` -/
def getNodeByPath (d : Node) (p : Bytes) : Option Node :=
  if p = dotSeg then some d else getNodeByPathNodes d (split p)

/-- `getDirByPathNodes`: the children of the directory -/
def getDirByPathNodes (d : Node) (segs : List Name) : Option Kids :=
  match getNodeByPathNodes d segs with
  | some (.dir k) => some k
  | _ => none

/-- `getDirByPath` -/
def getDirByPath (d : Node) (p : Bytes) : Option Kids :=
  match getNodeByPath d p with
  | some (.dir k) => some k
  | _ => none

/-- `getFileByPath`: the data of the file -/
def getFileByPath (d : Node) (p : Bytes) : Option Bytes :=
  if p = dotSeg then none else
  match getNodeByPathNodes d (split p) with
  | some (.file data) => some data
  | _ => none

/-! ### dir.go, remove.go, mkdirall.go, copy.go -/

/-- `Dir.removeNodeByName` -/
def removeNodeByName (k : Kids) (name : Name) : Option Kids :=
  match k.find name with
  | none => none
  | some _ => some (k.erase name)

/-- what `removeNodeByNodePath` does inside the parent directory -/
def removeIn (name : Name) (emptyOnly : Bool) (k : Kids) : Option Kids :=
  if emptyOnly then
    match k.find name with
    | none => none
    | some (.file _) => removeNodeByName k name
    | some (.dir k2) => if k2.isEmpty then removeNodeByName k name else none
  else removeNodeByName k name

/-- `removeNodeByPath` -/
def removeNodeByPath (t : Node) (p : Bytes) (emptyOnly : Bool) : Option Node :=
  let nodePath := split p
  match nodePath.getLast? with
  | none => none
  | some last => t.update (realPath nodePath.dropLast) (removeIn last emptyOnly)

/-- `mkdirAll` (reduces its argument once more) -/
def mkdirAll (t : Node) (p : Bytes) : Option Node :=
  match reduceAbsPath p with
  | none => none
  | some p' => if p' = [] then some t else t.mkdirs (split p')

/-- `copyNode`/`copyDir`/`copyFile`: a fresh deep copy.  Model values cannot alias, the copy is
the node itself. -/
def copyNode (n : Node) : Node := n

/-! ### file_handler.go -/

/-- successive `FileHandler.Read` calls: `n := copy(p, data[pointer:])`, EOF when the pointer
reaches the end -/
def readLoop (data : Bytes) (pointer : Nat) : List Nat → List (Bytes × Bool)
  | [] => []
  | size :: sizes =>
    let chunk := (data.drop pointer).take size
    let pointer' := pointer + chunk.length
    (chunk, pointer' == data.length) :: readLoop data pointer' sizes

/-- `FileHandler.Write` on the file `name` of the directory at `dir`: append -/
def handleWrite (t : Node) (dir : List Name) (name : Name) (chunk : Bytes) : Option Node :=
  t.update dir fun k =>
    match k.find name with
    | some (.file d) => some (k.set name (.file (d ++ chunk)))
    | _ => none

/-! ### filespace.go — the root filespace -/
namespace Root

/-- what `WriteFile` does inside the destination directory -/
def writeIn (name : Name) (data : Bytes) (k : Kids) : Option Kids :=
  match k.find name with
  | none => k.add name (.file data)
  | some (.file _) => some (k.set name (.file data))
  | some (.dir _) => none

def writeFile (t : Node) (raw data : Bytes) : Node × Result :=
  match reduceAbsPath raw with
  | none => (t, .err)
  | some p =>
    match splitContainsPath p with
    | none => (t, .err)
    | some (dirPath, name) =>
      match t.mkdirs dirPath with
      | none => (t, .err)
      | some t1 =>
        match t1.update dirPath (writeIn name data) with
        | none => (t1, .err)
        | some t2 => (t2, .ok)

/-- what `Writer` does inside the destination directory: create an empty file or truncate -/
def openIn (name : Name) (k : Kids) : Option Kids :=
  match k.find name with
  | none => k.add name (.file [])
  | some (.file _) => some (k.set name (.file []))
  | some (.dir _) => none

/-- `Writer(path)`: the tree with the (created or truncated) file, and the handle = where it is -/
def openWriter (t : Node) (raw : Bytes) : Node × Option (List Name × Name) :=
  match reduceAbsPath raw with
  | none => (t, none)
  | some p =>
    match splitContainsPath p with
    | none => (t, none)
    | some (dirPath, name) =>
      match t.mkdirs dirPath with
      | none => (t, none)
      | some t1 =>
        match t1.update dirPath (openIn name) with
        | none => (t1, none)
        | some t2 => (t2, some (dirPath, name))

/-- all `Write`s of a handle; a failed write (impossible, see `Props/C01.writer_exact`) is `none` -/
def writeChunks (t : Node) (dir : List Name) (name : Name) : List Bytes → Option Node
  | [] => some t
  | c :: cs =>
    match handleWrite t dir name c with
    | none => none
    | some t' => writeChunks t' dir name cs

def writer (t : Node) (raw : Bytes) (chunks : List Bytes) : Node × Result :=
  match openWriter t raw with
  | (t1, none) => (t1, .err)
  | (t1, some (dir, name)) =>
    match writeChunks t1 dir name chunks with
    | none => (t1, .err)
    | some t2 => (t2, .ok)

def mkdirAll (t : Node) (raw : Bytes) : Node × Result :=
  match reduceAbsPath raw with
  | none => (t, .err)
  | some p =>
    match MemFS.mkdirAll t p with
    | none => (t, .err)
    | some t' => (t', .ok)

def remove (t : Node) (raw : Bytes) : Node × Result :=
  match reduceAbsPath raw with
  | none => (t, .err)
  | some p =>
    match removeNodeByPath t p true with
    | none => (t, .err)
    | some t' => (t', .ok)

def removeAll (t : Node) (raw : Bytes) : Node × Result :=
  match reduceAbsPath raw with
  | none => (t, .err)
  | some p =>
    match removeNodeByPath t p false with
    | none => (t, .err)
    | some t' => (t', .ok)

/-- common body of `Copy`/`CopyDirectory`/`CopyFile`; `accept` is the source type test
(`getNodeByPath` / `getDirByPath` / `getFileByPath`) -/
def copyWith (accept : Node → Bool) (t : Node) (rawSrc rawDst : Bytes) : Node × Result :=
  match reduceAbsPath rawSrc with
  | none => (t, .err)
  | some src =>
    match reduceAbsPath rawDst with
    | none => (t, .err)
    | some dst =>
      match splitContainsPath dst with
      | none => (t, .err)
      | some (dirPath, name) =>
        match getNodeByPath t src with
        | none => (t, .err)
        | some srcNode0 =>
          if ¬ accept srcNode0 then (t, .err) else
          match t.mkdirs dirPath with
          | none => (t, .err)
          | some t1 =>
            -- the Go code holds a *pointer* to the source node: it copies the node as it is now,
            -- after the destination's parents have been created
            match getNodeByPath t1 src with
            | none => (t1, .err)
            | some srcNode =>
              match t1.update dirPath (fun k => k.add name (copyNode srcNode)) with
              | none => (t1, .err)
              | some t2 => (t2, .ok)

def copy := copyWith (fun _ => true)
def copyDirectory := copyWith Node.isDir
def copyFile := copyWith (fun n => !n.isDir)

def readDir (t : Node) (raw : Bytes) : Result :=
  match reduceAbsPath raw with
  | none => .err
  | some p =>
    match getDirByPath t p with
    | none => .err
    | some k => .list k.entries

def isExist (t : Node) (raw : Bytes) : Result :=
  match reduceAbsPath raw with
  | none => .bool false
  | some p => .bool (getNodeByPath t p).isSome

def isFile (t : Node) (raw : Bytes) : Result :=
  match reduceAbsPath raw with
  | none => .bool false
  | some p => .bool (getFileByPath t p).isSome

def isDir (t : Node) (raw : Bytes) : Result :=
  match reduceAbsPath raw with
  | none => .bool false
  | some p => .bool (getDirByPath t p).isSome

def readFile (t : Node) (raw : Bytes) : Result :=
  match reduceAbsPath raw with
  | none => .err
  | some p =>
    match getFileByPath t p with
    | none => .err
    | some d => .data d

def reader (t : Node) (raw : Bytes) (sizes : List Nat) : Result :=
  match reduceAbsPath raw with
  | none => .err
  | some p =>
    match getFileByPath t p with
    | none => .err
    | some d => .chunks (readLoop d 0 sizes)

/-- `Name()` of the node at a reduced path: the key under which it hangs; the root directory was
created with the name `ROOT` -/
def nodeName (p : Bytes) : Name :=
  match (realPath (split p)).getLast? with
  | some n => n
  | none => str "ROOT"

def lstat (t : Node) (raw : Bytes) : Result :=
  match reduceAbsPath raw with
  | none => .err
  | some p =>
    match getNodeByPath t p with
    | none => .err
    | some (.file d) => .stat (nodeName p) false d.length
    | some (.dir _) => .stat (nodeName p) true 0

end Root

/-! ### wraper.go — child views -/

/-- a filespace handle: the root filespace or a wrapper with its `basePath` (`reduced ++ "/"`) -/
inductive FSRef where
  | root
  | wrap (base : Bytes)
deriving Repr, DecidableEq

/-- `NewFilespaceWrapper(fs, basePath)` -/
def newWrapper (basePath : Bytes) : Option FSRef :=
  match reduceAbsPath basePath with
  | none => none
  | some b => some (.wrap (b ++ [slash]))

namespace Wrap

/-- every wrapper method: reduce the argument, prepend the base, call the root filespace -/
def on1 (base raw : Bytes) (bad : Result) (f : Bytes → Node × Result) (t : Node) : Node × Result :=
  match reduceAbsPath raw with
  | none => (t, bad)
  | some p => f (base ++ p)

def on2 (base rawSrc rawDst : Bytes) (f : Bytes → Bytes → Node × Result) (t : Node) : Node × Result :=
  match reduceAbsPath rawSrc with
  | none => (t, .err)
  | some s =>
    match reduceAbsPath rawDst with
    | none => (t, .err)
    | some d => f (base ++ s) (base ++ d)

def copy (base : Bytes) (t : Node) (s d : Bytes) := on2 base s d (Root.copy t) t
def copyDirectory (base : Bytes) (t : Node) (s d : Bytes) := on2 base s d (Root.copyDirectory t) t
def copyFile (base : Bytes) (t : Node) (s d : Bytes) := on2 base s d (Root.copyFile t) t
def readDir (base : Bytes) (t : Node) (raw : Bytes) := on1 base raw .err (fun p => (t, Root.readDir t p)) t
def isExist (base : Bytes) (t : Node) (raw : Bytes) := on1 base raw (.bool false) (fun p => (t, Root.isExist t p)) t
def isFile (base : Bytes) (t : Node) (raw : Bytes) := on1 base raw (.bool false) (fun p => (t, Root.isFile t p)) t
def isDir (base : Bytes) (t : Node) (raw : Bytes) := on1 base raw (.bool false) (fun p => (t, Root.isDir t p)) t
def mkdirAll (base : Bytes) (t : Node) (raw : Bytes) := on1 base raw .err (Root.mkdirAll t) t
def writer (base : Bytes) (t : Node) (raw : Bytes) (chunks : List Bytes) :=
  on1 base raw .err (fun p => Root.writer t p chunks) t
def reader (base : Bytes) (t : Node) (raw : Bytes) (sizes : List Nat) :=
  on1 base raw .err (fun p => (t, Root.reader t p sizes)) t
def readFile (base : Bytes) (t : Node) (raw : Bytes) := on1 base raw .err (fun p => (t, Root.readFile t p)) t
def writeFile (base : Bytes) (t : Node) (raw data : Bytes) :=
  on1 base raw .err (fun p => Root.writeFile t p data) t
def lstat (base : Bytes) (t : Node) (raw : Bytes) := on1 base raw .err (fun p => (t, Root.lstat t p)) t

/-- `Remove`: the view's own root is refused -/
def remove (base : Bytes) (t : Node) (raw : Bytes) : Node × Result :=
  match reduceAbsPath raw with
  | none => (t, .err)
  | some p => if p = [] then (t, .err) else Root.remove t (base ++ p)

def removeAll (base : Bytes) (t : Node) (raw : Bytes) : Node × Result :=
  match reduceAbsPath raw with
  | none => (t, .err)
  | some p => if p = [] then (t, .err) else Root.removeAll t (base ++ p)

end Wrap

/-- `fs.Filespace(raw)`: the new view, `none` = error.  Existence of the path is not checked. -/
def openView : FSRef → Bytes → Option FSRef
  | .root, raw => newWrapper raw
  | .wrap base, raw =>
    match reduceAbsPath raw with
    | none => none
    | some p => newWrapper (base ++ p)

/-- one call of any of the 16 methods through a handle (for `filespace` see `openView`; here it
only answers whether the view can be opened) -/
def step (ref : FSRef) (t : Node) (op : Op) : Node × Result :=
  match ref, op with
  | .root, .copy s d => Root.copy t s d
  | .root, .copyDirectory s d => Root.copyDirectory t s d
  | .root, .copyFile s d => Root.copyFile t s d
  | .root, .readDir p => (t, Root.readDir t p)
  | .root, .isExist p => (t, Root.isExist t p)
  | .root, .isFile p => (t, Root.isFile t p)
  | .root, .isDir p => (t, Root.isDir t p)
  | .root, .mkdirAll p => Root.mkdirAll t p
  | .root, .readFile p => (t, Root.readFile t p)
  | .root, .writeFile p d => Root.writeFile t p d
  | .root, .reader p sizes => (t, Root.reader t p sizes)
  | .root, .writer p chunks => Root.writer t p chunks
  | .root, .remove p => Root.remove t p
  | .root, .removeAll p => Root.removeAll t p
  | .root, .lstat p => (t, Root.lstat t p)
  | .wrap b, .copy s d => Wrap.copy b t s d
  | .wrap b, .copyDirectory s d => Wrap.copyDirectory b t s d
  | .wrap b, .copyFile s d => Wrap.copyFile b t s d
  | .wrap b, .readDir p => Wrap.readDir b t p
  | .wrap b, .isExist p => Wrap.isExist b t p
  | .wrap b, .isFile p => Wrap.isFile b t p
  | .wrap b, .isDir p => Wrap.isDir b t p
  | .wrap b, .mkdirAll p => Wrap.mkdirAll b t p
  | .wrap b, .readFile p => Wrap.readFile b t p
  | .wrap b, .writeFile p d => Wrap.writeFile b t p d
  | .wrap b, .reader p sizes => Wrap.reader b t p sizes
  | .wrap b, .writer p chunks => Wrap.writer b t p chunks
  | .wrap b, .remove p => Wrap.remove b t p
  | .wrap b, .removeAll p => Wrap.removeAll b t p
  | .wrap b, .lstat p => Wrap.lstat b t p
  | ref, .filespace p => (t, if (openView ref p).isSome then .ok else .err)

/-! ### Histories over one memory filespace and its views -/

/-- one root tree and the handles opened so far (handle 0 is the root filespace) -/
structure World where
  root : Node
  views : List FSRef

def World.init : World := ⟨Node.empty, [.root]⟩

/-- a call through handle number `h`; a handle that was never opened answers `err` -/
def World.step (w : World) (h : Nat) (op : Op) : World × Result :=
  match w.views[h]? with
  | none => (w, .err)
  | some ref =>
    let (t', r) := MemFS.step ref w.root op
    match op with
    | .filespace p =>
      match openView ref p with
      | some v => (⟨t', w.views ++ [v]⟩, r)
      | none => (⟨t', w.views⟩, r)
    | _ => (⟨t', w.views⟩, r)

/-- a whole history: the final world and every result, in order -/
def World.run (w : World) : List (Nat × Op) → World × List Result
  | [] => (w, [])
  | (h, op) :: rest =>
    let (w1, r) := w.step h op
    let (w2, rs) := World.run w1 rest
    (w2, r :: rs)

end MemFS
end Goat
