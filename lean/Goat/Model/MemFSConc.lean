/-
Model/MemFSConc — the LOCK-GRANULAR concurrent model of the in-memory filespace (property C09).
Core Lean only.

Mirrors /repo/filesystem/filespace/memfs/{dir,file,file_handler,filespace,mkdirall,remove,copy,
get_by_path}.go at the granularity the locks give:

* objects live in a heap (`List Obj`, object id = index; allocation appends), because Go has object
  identity: a goroutine can still hold a `*Dir` that was removed from its parent meanwhile;
* one `Act` = one critical section:
    - `Dir` index operations under the directory's `mu`
      (`lookup` = getNode/getDir, `mkdirLocked` = the locked part of `mkdir`, `addNode`, `addNewFile`
      = NewFile+addNode, `removeNode` = removeNodeByName, `snapshot` = getNodes / copyDir's listing);
    - `outerLock/outerUnlock` = `Dir.Lock()/Unlock()` (the embedded RWMutex) that brackets the
      check-then-create of `WriteFile` and `Writer`;
    - `File` data operations under `dataMU` (`getData`, `setData`, `copyFile`), and a stream handle
      (`open … close`) that holds `dataMU` from `NewFileHandler` to `Close`;
    - `readLen` = `lastDir.Size()` of `Remove`: `len(nodes)` under the directory's `mu.RLock` (since
      42ebac9; before, an unlocked read — atomic in the model either way);
* a thread runs a list of `Op`s; each op is decomposed into these acts by a program counter `Pc`
  (`actOf` = which critical section comes next, `resume` = the Go control flow after it);
* `applyAct … = none` means *blocked* (the lock is held by someone else); an ill-typed act (wrong
  object kind, stale handle) is a no-op returning `Ret.err`, so enabledness depends on locks only.

`Variant` selects the lock order of three code revisions:
  `writerUnderDir`   – pre-9a06d6d `Writer`: waits for `dataMU` while holding the directory lock;
  `writeFileUnderDir`– pre-c2706af `WriteFile`: `setData` while holding the directory lock;
  `copyDirHoldsMu`   – `copyDir` keeps the source directory's `mu.RLock` while it copies children.
-/
import Goat.Base.Path
import Goat.Base.LTS

namespace Goat.MemFSConc

/-- node names are byte strings, as in the sequential model (`Goat.Path.Name`) -/
abbrev Name := Goat.Path.Name
abbrev Data := Bytes
abbrev Oid := Nat
abbrev Tid := Nat

/-! ## Objects -/

/-- `memfs.Dir`: the `nodes` slice (in order), the `index` map, the holder of the embedded
RWMutex (`Dir.Lock`), and the threads that hold `mu.RLock` across a wait (only `copyDir`). -/
structure DirObj where
  nodes : List (Name × Oid) := []
  index : Name → Option Oid := fun _ => none
  outer : Option Tid := none
  muR : List Tid := []

/-- `memfs.File`: data, the stream handle holding `dataMU`, and (ghost) the complete values the
file has held: its initial value, every `setData` value, every value at a writer's `Close`. -/
structure FileObj where
  data : Data := []
  lock : Option Tid := none
  committed : List Data := []

inductive Obj where
  | dir (d : DirObj)
  | file (f : FileObj)

abbrev Heap := List Obj

def getDir (h : Heap) (o : Oid) : Option DirObj :=
  match h[o]? with
  | some (.dir d) => some d
  | _ => none

def getFile (h : Heap) (o : Oid) : Option FileObj :=
  match h[o]? with
  | some (.file f) => some f
  | _ => none

/-- the (immutable) kind of a node: `IsDir()` -/
def kindOf (h : Heap) (o : Oid) : Bool :=
  match h[o]? with
  | some (.dir _) => true
  | _ => false

/-! ### The critical sections of one directory object (pure functions on `DirObj`) -/

def setIdx (idx : Name → Option Oid) (n : Name) (v : Option Oid) : Name → Option Oid :=
  fun m => if m = n then v else idx m

/-- `addNode`: refuses an existing name, otherwise appends to `nodes` and sets `index[name]` -/
def DirObj.add (d : DirObj) (n : Name) (o : Oid) : Option DirObj :=
  match d.index n with
  | some _ => none
  | none => some { d with nodes := d.nodes ++ [(n, o)], index := setIdx d.index n (some o) }

/-- the scan of `removeNodeByName`: drop the first node with that name -/
def removeFirst (n : Name) : List (Name × Oid) → Option (List (Name × Oid))
  | [] => none
  | (m, o) :: rest =>
    if m = n then some rest else (removeFirst n rest).map ((m, o) :: ·)

/-- `removeNodeByName` -/
def DirObj.remove (d : DirObj) (n : Name) : Option DirObj :=
  (removeFirst n d.nodes).map fun ns => { d with nodes := ns, index := setIdx d.index n none }

/-- the index `NewDir` builds from a node list (later entries overwrite earlier ones) -/
def indexOf (nodes : List (Name × Oid)) : Name → Option Oid :=
  nodes.foldl (fun idx p => setIdx idx p.1 (some p.2)) (fun _ => none)

def newDirObj (nodes : List (Name × Oid)) : DirObj :=
  { nodes := nodes, index := indexOf nodes }

/-! ## Atomic actions -/

inductive Act where
  | tau                                             -- thread-local step
  | lookup (d : Oid) (n : Name)                     -- getNode / getDir          (mu.R)
  | mkdirLocked (d : Oid) (n : Name)                -- locked part of mkdir      (mu.W)
  | addNode (d : Oid) (n : Name) (o : Oid)          -- addNode of a built node   (mu.W)
  | addNewFile (d : Oid) (n : Name) (v : Data)      -- NewFile + addNode         (mu.W)
  | removeNode (d : Oid) (n : Name)                 -- removeNodeByName          (mu.W)
  | snapshot (d : Oid) (hold : Bool)                -- getNodes; hold = keep mu.RLock (copyDir variant)
  | readLen (d : Oid)                               -- Dir.Size(): len(d.nodes)   (mu.R)
  | outerLock (d : Oid)
  | outerUnlock (d : Oid)
  | getData (f : Oid)                               -- dataMU.R
  | setData (f : Oid) (v : Data)                    -- dataMU.W
  | copyFile (f : Oid)                              -- dataMU.R + NewFile
  | newDir (nodes : List (Name × Oid)) (release : Option Oid)  -- NewDir (+ mu.RUnlock of the source)
  | openH (f : Oid) (trunc : Bool)                  -- NewFileHandler (+ truncation by Writer)
  | hwrite (f : Oid) (chunk : Data)
  | hread (f : Oid)
  | closeH (f : Oid) (commit : Bool)

inductive Ret where
  | unit
  | err
  | node (r : Option (Oid × Bool))
  | nodes (l : List (Name × Oid × Bool))
  | data (v : Data)
  | len (n : Nat)
  | oid (o : Oid)

/-- is this act one that needs the directory's `mu` exclusively? (blocked by a parked reader) -/
def muFree (d : DirObj) : Bool := d.muR.isEmpty

/-- what a critical section does to the heap: at most one existing object is replaced and at most
one new object is allocated (its id is the old heap size) -/
inductive Upd where
  | none
  | setDir (o : Oid) (d : DirObj)
  | setFile (o : Oid) (f : FileObj)

structure Eff where
  upd : Upd := .none
  alloc : Option Obj := none
  ret : Ret := .unit

def applyEff (h : Heap) (e : Eff) : Heap × Ret :=
  let h1 := match e.upd with
    | .none => h
    | .setDir o d => h.set o (.dir d)
    | .setFile o f => h.set o (.file f)
  let h2 := match e.alloc with
    | none => h1
    | some x => h1 ++ [x]
  (h2, e.ret)

/-- One critical section as an effect.  `none` = the thread has to wait. -/
def actEff (h : Heap) (t : Tid) : Act → Option Eff
  | .tau => some {}
  | .lookup d n =>
    match getDir h d with
    | none => some { ret := .node none }
    | some dd => some { ret := .node ((dd.index n).map fun o => (o, kindOf h o)) }
  | .mkdirLocked d n =>
    match getDir h d with
    | none => some { ret := .err }
    | some dd =>
      if muFree dd then
        match dd.index n with
        | some o => if kindOf h o then some { ret := .oid o } else some { ret := .err }
        | none =>
          match dd.add n h.length with
          | none => some { ret := .err }
          | some dd' => some { upd := .setDir d dd', alloc := some (.dir {}), ret := .oid h.length }
      else none
  | .addNode d n o =>
    match getDir h d with
    | none => some { ret := .err }
    | some dd =>
      if muFree dd then
        match dd.add n o with
        | none => some { ret := .err }
        | some dd' => some { upd := .setDir d dd' }
      else none
  | .addNewFile d n v =>
    match getDir h d with
    | none => some { ret := .err }
    | some dd =>
      if muFree dd then
        match dd.add n h.length with
        | none => some { ret := .err }
        | some dd' =>
          some { upd := .setDir d dd', alloc := some (.file { data := v, committed := [v] }), ret := .oid h.length }
      else none
  | .removeNode d n =>
    match getDir h d with
    | none => some { ret := .err }
    | some dd =>
      if muFree dd then
        match dd.remove n with
        | none => some { ret := .err }
        | some dd' => some { upd := .setDir d dd' }
      else none
  | .snapshot d hold =>
    match getDir h d with
    | none => some { ret := .nodes [] }
    | some dd =>
      let l := dd.nodes.map fun p => (p.1, p.2, kindOf h p.2)
      if hold then some { upd := .setDir d { dd with muR := t :: dd.muR }, ret := .nodes l }
      else some { ret := .nodes l }
  | .readLen d =>
    match getDir h d with
    | none => some { ret := .len 0 }
    | some dd => some { ret := .len dd.nodes.length }
  | .outerLock d =>
    match getDir h d with
    | none => some { ret := .err }
    | some dd =>
      match dd.outer with
      | none => some { upd := .setDir d { dd with outer := some t } }
      | some _ => none
  | .outerUnlock d =>
    match getDir h d with
    | none => some { ret := .err }
    | some dd =>
      if dd.outer = some t then some { upd := .setDir d { dd with outer := none } } else some { ret := .err }
  | .getData f =>
    match getFile h f with
    | none => some { ret := .err }
    | some ff =>
      match ff.lock with
      | none => some { ret := .data ff.data }
      | some _ => none
  | .setData f v =>
    match getFile h f with
    | none => some { ret := .err }
    | some ff =>
      match ff.lock with
      | none => some { upd := .setFile f { ff with data := v, committed := ff.committed ++ [v] } }
      | some _ => none
  | .copyFile f =>
    match getFile h f with
    | none => some { ret := .err }
    | some ff =>
      match ff.lock with
      | none => some { alloc := some (.file { data := ff.data, committed := [ff.data] }), ret := .oid h.length }
      | some _ => none
  | .newDir nodes release =>
    let upd := match release with
      | none => Upd.none
      | some src =>
        match getDir h src with
        | none => Upd.none
        | some sd => Upd.setDir src { sd with muR := sd.muR.erase t }
    some { upd := upd, alloc := some (.dir (newDirObj nodes)), ret := .oid h.length }
  | .openH f trunc =>
    match getFile h f with
    | none => some { ret := .err }
    | some ff =>
      match ff.lock with
      | none => some { upd := .setFile f { ff with lock := some t, data := if trunc then [] else ff.data } }
      | some _ => none
  | .hwrite f chunk =>
    match getFile h f with
    | none => some { ret := .err }
    | some ff =>
      if ff.lock = some t then some { upd := .setFile f { ff with data := ff.data ++ chunk } }
      else some { ret := .err }
  | .hread f =>
    match getFile h f with
    | none => some { ret := .err }
    | some ff => if ff.lock = some t then some { ret := .data ff.data } else some { ret := .err }
  | .closeH f _ =>
    -- the value a file holds when its handle is closed is complete (ghost `committed`)
    match getFile h f with
    | none => some { ret := .err }
    | some ff =>
      if ff.lock = some t then
        some { upd := .setFile f { ff with lock := none, committed := ff.committed ++ [ff.data] } }
      else some { ret := .err }

/-- One critical section.  `none` = the thread has to wait. -/
def applyAct (h : Heap) (t : Tid) (a : Act) : Option (Heap × Ret) :=
  (actEff h t a).map (applyEff h)

/-! ## Operations and their decomposition -/

/-- paths are reduced segment lists (`ReduceAbsPath` is sequential and pure: property C01/C03) -/
abbrev Path := List Name

inductive Op where
  | mkdirAll (p : Path)
  | writeFile (p : Path) (v : Data)
  | readFile (p : Path)
  | readDir (p : Path)
  | probe (p : Path) (want : Option Bool)     -- IsExist / IsFile (some false) / IsDir (some true) / Lstat
  | remove (p : Path)
  | removeAll (p : Path)
  | copy (src dst : Path)
  | openW (h : Nat) (p : Path)               -- Writer
  | openR (h : Nat) (p : Path)               -- Reader
  | hwrite (h : Nat) (chunk : Data)
  | hread (h : Nat)
  | close (h : Nat)

inductive Res where
  | ok
  | err
  | bool (b : Bool)
  | data (v : Data)
  | list (l : List (Name × Bool))
  deriving DecidableEq, Repr

/-- what to do with the node a path walk arrived at -/
inductive WK where
  | probe (want : Option Bool)
  | readFile
  | readDir
  | openR (h : Nat)
  | rmParent (n : Name) (emptyOnly : Bool)
  | copySrc (dstDir : Path) (dstName : Name)

/-- what to do with the directory `mkdirAllNodes` arrived at -/
inductive MK where
  | done
  | write (n : Name) (v : Data)
  | openW (h : Nat) (n : Name)
  | copyDst (n : Name) (src : Oid) (srcIsDir : Bool)

/-- one activation of `copyDir` -/
structure Frame where
  src : Oid
  nm : Name
  todo : List (Name × Oid × Bool)
  done : List (Name × Oid)

inductive Pc where
  | idle
  | fin (r : Res)
  | walk (cur : Oid) (rest : Path) (k : WK)
  | mk (cur : Oid) (rest : Path) (k : MK)                    -- optimistic getDir
  | mkLocked (cur : Oid) (n : Name) (rest : Path) (k : MK)   -- hook memfs.mkdir.gap, then the locked part
  -- WriteFile
  | wLock (d : Oid) (n : Name) (v : Data)
  | wLook (d : Oid) (n : Name) (v : Data)
  | wAdd (d : Oid) (n : Name) (v : Data)                     -- hook memfs.write.gap
  | wUnlockFin (d : Oid) (r : Res)
  | wUnlockSet (d : Oid) (f : Oid) (v : Data)
  | wSet (f : Oid) (v : Data)                                -- hook memfs.write.setdata
  | wSetLocked (d : Oid) (f : Oid) (v : Data)                -- old order: setData under the directory lock
  -- Writer
  | oLock (d : Oid) (h : Nat) (n : Name)
  | oLook (d : Oid) (h : Nat) (n : Name)
  | oAdd (d : Oid) (h : Nat) (n : Name)                      -- hook memfs.write.gap
  | oUnlockOpen (d : Oid) (h : Nat) (f : Oid)
  | oOpen (h : Nat) (f : Oid)                                -- hook memfs.writer.open
  | oOpenLocked (d : Oid) (h : Nat) (f : Oid)                -- old order: open under the directory lock
  -- reads
  | rData (f : Oid)
  | rList (d : Oid)
  | rOpen (h : Nat) (f : Oid)
  -- Remove / RemoveAll
  | rmLook (p : Oid) (n : Name)
  | rmLen (p : Oid) (n : Name) (o : Oid)
  | rmDo (p : Oid) (n : Name)
  -- Copy
  | cFile (d : Oid) (n : Name) (src : Oid)                   -- hook memfs.copy.file
  | cEnter (d : Oid) (n : Name) (src : Oid)
  | cDir (d : Oid) (n : Name) (stack : List Frame)
  | cAdd (d : Oid) (n : Name) (c : Oid)
  -- handle operations
  | hW (f : Oid) (h : Nat) (chunk : Data)
  | hR (f : Oid)
  | hC (f : Oid) (h : Nat) (writer : Bool)

structure Variant where
  writerUnderDir : Bool := false
  writeFileUnderDir : Bool := false
  copyDirHoldsMu : Bool := false
  deriving DecidableEq, Repr

/-- the lock order of the repaired code -/
def Variant.fixed : Variant := {}

def failRes : WK → Res
  | .probe _ => .bool false
  | _ => .err

def afterMk (k : MK) (d : Oid) : Pc :=
  match k with
  | .done => .fin .ok
  | .write n v => .wLock d n v
  | .openW h n => .oLock d h n
  | .copyDst n src srcIsDir => if srcIsDir then .cEnter d n src else .cFile d n src

def mkStart (p : Path) (k : MK) : Pc :=
  match p with
  | [] => afterMk k 0
  | _ => .mk 0 p k

def afterWalk (k : WK) (o : Oid) (isDir : Bool) : Pc :=
  match k with
  | .probe want => .fin (.bool (match want with | none => true | some w => w == isDir))
  | .readFile => if isDir then .fin .err else .rData o
  | .readDir => if isDir then .rList o else .fin .err
  | .openR h => if isDir then .fin .err else .rOpen h o
  | .rmParent n eo => if isDir then (if eo then .rmLook o n else .rmDo o n) else .fin .err
  | .copySrc dd dn => mkStart dd (.copyDst dn o isDir)

def walkStart (p : Path) (k : WK) : Pc :=
  match p with
  | [] => afterWalk k 0 true
  | _ => .walk 0 p k

structure Handle where
  id : Nat
  file : Oid
  writer : Bool
  acc : Data

def findHandle (hs : List Handle) (id : Nat) : Option Handle := hs.find? (·.id == id)

/-- split a path into directory part and last name (`splitContainsPath`) -/
def splitLast : Path → Option (Path × Name)
  | [] => none
  | [n] => some ([], n)
  | a :: rest => (splitLast rest).map fun (d, n) => (a :: d, n)

/-- the thread-local beginning of an operation -/
def start (hs : List Handle) : Op → Pc
  | .mkdirAll p => mkStart p .done
  | .writeFile p v =>
    match splitLast p with
    | none => .fin .err
    | some (d, n) => mkStart d (.write n v)
  | .readFile p => walkStart p .readFile
  | .readDir p => walkStart p .readDir
  | .probe p want => walkStart p (.probe want)
  | .remove p =>
    match splitLast p with
    | none => .fin .err
    | some (d, n) => walkStart d (.rmParent n true)
  | .removeAll p =>
    match splitLast p with
    | none => .fin .err
    | some (d, n) => walkStart d (.rmParent n false)
  | .copy src dst =>
    match splitLast dst with
    | none => .fin .err
    | some (d, n) => walkStart src (.copySrc d n)
  | .openW h p =>
    if (findHandle hs h).isSome then .fin .err else   -- test programs use a fresh handle id
    match splitLast p with
    | none => .fin .err
    | some (d, n) => mkStart d (.openW h n)
  | .openR h p =>
    if (findHandle hs h).isSome then .fin .err else
    walkStart p (.openR h)
  | .hwrite h chunk =>
    match findHandle hs h with
    | some hd => if hd.writer then .hW hd.file h chunk else .fin .err
    | none => .fin .err
  | .hread h =>
    match findHandle hs h with
    | some hd => .hR hd.file
    | none => .fin .err
  | .close h =>
    match findHandle hs h with
    | some hd => .hC hd.file h hd.writer
    | none => .fin .err

/-- the critical section a program counter is about to enter -/
def actOf (v : Variant) : Pc → Act
  | .idle => .tau
  | .fin _ => .tau
  | .walk cur (n :: _) _ => .lookup cur n
  | .walk _ [] _ => .tau
  | .mk cur (n :: _) _ => .lookup cur n
  | .mk _ [] _ => .tau
  | .mkLocked cur n _ _ => .mkdirLocked cur n
  | .wLock d _ _ => .outerLock d
  | .wLook d n _ => .lookup d n
  | .wAdd d n v => .addNewFile d n v
  | .wUnlockFin d _ => .outerUnlock d
  | .wUnlockSet d _ _ => .outerUnlock d
  | .wSet f v => .setData f v
  | .wSetLocked _ f v => .setData f v
  | .oLock d _ _ => .outerLock d
  | .oLook d _ n => .lookup d n
  | .oAdd d _ n => .addNewFile d n []
  | .oUnlockOpen d _ _ => .outerUnlock d
  | .oOpen _ f => .openH f true
  | .oOpenLocked _ _ f => .openH f true
  | .rData f => .getData f
  | .rList d => .snapshot d false
  | .rOpen _ f => .openH f false
  | .rmLook p n => .lookup p n
  | .rmLen _ _ o => .readLen o
  | .rmDo p n => .removeNode p n
  | .cFile _ _ src => .copyFile src
  | .cEnter _ _ src => .snapshot src v.copyDirHoldsMu
  | .cDir _ _ [] => .tau
  | .cDir _ _ (fr :: _) =>
    match fr.todo with
    | (_, co, false) :: _ => .copyFile co
    | (_, co, true) :: _ => .snapshot co v.copyDirHoldsMu
    | [] => .newDir fr.done (if v.copyDirHoldsMu then some fr.src else none)
  | .cAdd d n c => .addNode d n c
  | .hW f _ chunk => .hwrite f chunk
  | .hR f => .hread f
  | .hC f _ w => .closeH f w

/-- continue a walk / mkdirAll with the node just found -/
def walkOn (o : Oid) (isDir : Bool) (rest : Path) (k : WK) : Pc :=
  match rest with
  | [] => afterWalk k o isDir
  | _ => if isDir then .walk o rest k else .fin (failRes k)

def mkOn (o : Oid) (rest : Path) (k : MK) : Pc :=
  match rest with
  | [] => afterMk k o
  | _ => .mk o rest k

/-- one step of `copyDir`: the top activation `fr`, the activations below it -/
def copyStep (d : Oid) (n : Name) (fr : Frame) (stack : List Frame) (r : Ret) : Pc :=
  match fr.todo, r with
  | (cn, _, false) :: todo', .oid c =>
    .cDir d n ({ fr with todo := todo', done := fr.done ++ [(cn, c)] } :: stack)
  | (cn, co, true) :: todo', .nodes l =>
    .cDir d n ({ src := co, nm := cn, todo := l, done := [] } :: { fr with todo := todo' } :: stack)
  | [], .oid c =>
    match stack with
    | [] => .cAdd d n c
    | par :: stack' => .cDir d n ({ par with done := par.done ++ [(fr.nm, c)] } :: stack')
  | _, _ => .fin .err

/-- the Go control flow after a critical section returned -/
def resume (v : Variant) (pc : Pc) (r : Ret) : Pc :=
  match pc with
  | .idle => .idle
  | .fin _ => .idle
  | .walk _ rest k =>
    match rest, r with
    | _ :: rest', .node (some (o, isDir)) => walkOn o isDir rest' k
    | _, _ => .fin (failRes k)
  | .mk cur rest k =>
    match rest, r with
    | _ :: rest', .node (some (o, true)) => mkOn o rest' k
    | n :: rest', _ => .mkLocked cur n rest' k
    | [], _ => .fin .err
  | .mkLocked _ _ rest k =>
    match r with
    | .oid o => mkOn o rest k
    | _ => .fin .err
  | .wLock d n vv =>
    match r with
    | .unit => .wLook d n vv
    | _ => .fin .err
  | .wLook d n vv =>
    match r with
    | .node none => .wAdd d n vv
    | .node (some (o, isDir)) =>
      if isDir then .wUnlockFin d .err
      else if v.writeFileUnderDir then .wSetLocked d o vv else .wUnlockSet d o vv
    | _ => .wUnlockFin d .err
  | .wAdd d _ _ =>
    match r with
    | .oid _ => .wUnlockFin d .ok
    | _ => .wUnlockFin d .err
  | .wUnlockFin _ res => .fin res
  | .wUnlockSet _ f vv => .wSet f vv
  | .wSet _ _ =>
    match r with
    | .unit => .fin .ok
    | _ => .fin .err
  | .wSetLocked d _ _ =>
    match r with
    | .unit => .wUnlockFin d .ok
    | _ => .wUnlockFin d .err
  | .oLock d h n =>
    match r with
    | .unit => .oLook d h n
    | _ => .fin .err
  | .oLook d h n =>
    match r with
    | .node none => .oAdd d h n
    | .node (some (o, isDir)) =>
      if isDir then .wUnlockFin d .err
      else if v.writerUnderDir then .oOpenLocked d h o else .oUnlockOpen d h o
    | _ => .wUnlockFin d .err
  | .oAdd d h _ =>
    match r with
    | .oid f => if v.writerUnderDir then .oOpenLocked d h f else .oUnlockOpen d h f
    | _ => .wUnlockFin d .err
  | .oUnlockOpen _ h f => .oOpen h f
  | .oOpen _ _ =>
    match r with
    | .unit => .fin .ok
    | _ => .fin .err
  | .oOpenLocked d _ _ =>
    match r with
    | .unit => .wUnlockFin d .ok
    | _ => .wUnlockFin d .err
  | .rData _ =>
    match r with
    | .data x => .fin (.data x)
    | _ => .fin .err
  | .rList _ =>
    match r with
    | .nodes l => .fin (.list (l.map fun p => (p.1, p.2.2)))
    | _ => .fin .err
  | .rOpen _ _ =>
    match r with
    | .unit => .fin .ok
    | _ => .fin .err
  | .rmLook p n =>
    match r with
    | .node (some (o, isDir)) => if isDir then .rmLen p n o else .rmDo p n
    | _ => .fin .err
  | .rmLen p n _ =>
    match r with
    | .len k => if k = 0 then .rmDo p n else .fin .err
    | _ => .fin .err
  | .rmDo _ _ =>
    match r with
    | .unit => .fin .ok
    | _ => .fin .err
  | .cFile d n _ =>
    match r with
    | .oid c => .cAdd d n c
    | _ => .fin .err
  | .cEnter d n src =>
    match r with
    | .nodes l => .cDir d n [{ src := src, nm := n, todo := l, done := [] }]
    | _ => .fin .err
  | .cDir d n stack =>
    match stack with
    | [] => .fin .err
    | fr :: stack' => copyStep d n fr stack' r
  | .cAdd _ _ _ =>
    match r with
    | .unit => .fin .ok
    | _ => .fin .err
  | .hW _ _ _ =>
    match r with
    | .unit => .fin .ok
    | _ => .fin .err
  | .hR _ =>
    match r with
    | .data x => .fin (.data x)
    | _ => .fin .err
  | .hC _ _ _ =>
    match r with
    | .unit => .fin .ok
    | _ => .fin .err

/-- bookkeeping of the thread's handle table -/
def handleEffect (pc : Pc) (r : Ret) (hs : List Handle) : List Handle :=
  match pc, r with
  | .oOpen h f, .unit => { id := h, file := f, writer := true, acc := [] } :: hs
  | .oOpenLocked _ h f, .unit => { id := h, file := f, writer := true, acc := [] } :: hs
  | .rOpen h f, .unit => { id := h, file := f, writer := false, acc := [] } :: hs
  | .hW _ h chunk, .unit => hs.map fun hd => if hd.id == h then { hd with acc := hd.acc ++ chunk } else hd
  | .hC _ h _, .unit => hs.filter fun hd => !(hd.id == h)
  | _, _ => hs

/-! ## Threads and the transition system -/

structure Thread where
  pc : Pc := .idle
  prog : List Op := []
  handles : List Handle := []

structure State where
  heap : Heap
  threads : List Thread
  log : List (Tid × Res)      -- finished operations, newest first

def Thread.finished (th : Thread) : Bool :=
  match th.pc, th.prog with
  | .idle, [] => true
  | _, _ => false

/-- one atomic step of one thread (`none`: no such thread / finished / blocked) -/
def stepThread (v : Variant) (h : Heap) (t : Tid) (th : Thread) : Option (Heap × Thread × Option Res) :=
  match th.pc with
  | .idle =>
    match th.prog with
    | [] => none
    | op :: rest => some (h, { th with pc := start th.handles op, prog := rest }, none)
  | .fin r => some (h, { th with pc := .idle }, some r)
  | pc =>
    match applyAct h t (actOf v pc) with
    | none => none
    | some (h', r) => some (h', { th with pc := resume v pc r, handles := handleEffect pc r th.handles }, none)

def step (v : Variant) (s : State) (t : Tid) : Option State :=
  match s.threads[t]? with
  | none => none
  | some th =>
    match stepThread v s.heap t th with
    | none => none
    | some (h', th', out) =>
      some { heap := h', threads := s.threads.set t th',
             log := match out with | none => s.log | some r => (t, r) :: s.log }

/-- the initial state: an empty root directory (object 0) and one thread per program -/
def init (progs : List (List Op)) : State :=
  { heap := [.dir {}], threads := progs.map fun p => { prog := p }, log := [] }

def sys (v : Variant) (progs : List (List Op)) : LTS.Sys State Tid :=
  { init := init progs, step := step v }

def unfinished (s : State) (t : Tid) : Bool :=
  match s.threads[t]? with
  | some th => !th.finished
  | none => false

/-! ## Observations used by the driver and the examples -/

/-- resolve a path from an object (structural on the path, so no assumption on the heap shape) -/
def resolve (h : Heap) : Oid → Path → Option Oid
  | o, [] => some o
  | o, n :: rest =>
    match getDir h o with
    | none => none
    | some d =>
      match d.index n with
      | none => none
      | some c => resolve h c rest

/-- dump of the tree below an object: (path, none) for a directory, (path, some data) for a file;
`fuel` bounds the depth (the heap of a run is a forest, the driver passes the heap size) -/
def dump (h : Heap) : Nat → Oid → Path → List (Path × Option Data)
  | 0, _, _ => []
  | fuel + 1, o, pre =>
    match h[o]? with
    | some (.file f) => [(pre, some f.data)]
    | some (.dir d) => (pre, none) :: d.nodes.flatMap fun p => dump h fuel p.2 (pre ++ [p.1])
    | none => []

/-- results of thread `t`, oldest first -/
def resultsOf (s : State) (t : Tid) : List Res :=
  (s.log.filter (·.1 == t)).reverse.map (·.2)

/-- places at which the real code can be parked by the harness (verifhook yield points and
operation boundaries) -/
def hookOf : Pc → Option String
  | .idle => some "op"
  | .mkLocked .. => some "memfs.mkdir.gap"
  | .wAdd .. => some "memfs.write.gap"
  | .oAdd .. => some "memfs.write.gap"
  | .wSet .. => some "memfs.write.setdata"
  | .wSetLocked .. => some "memfs.write.setdata"
  | .oOpen .. => some "memfs.writer.open"
  | .oOpenLocked .. => some "memfs.writer.open"
  | .cFile .. => some "memfs.copy.file"
  | .cDir _ _ (fr :: _) =>
    match fr.todo with
    | (_, _, false) :: _ => some "memfs.copy.file"
    | _ => none
  | _ => none

end Goat.MemFSConc
