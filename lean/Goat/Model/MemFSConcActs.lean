/-
Model/MemFSConcActs — the ACTION TABLE of the lock-granular memfs model (property C09) as data.
Core Lean only.

`Goat/Model/MemFSConc.lean` says "one `Act` = one critical section of the Go code".  This file states,
for every constructor of `Act`, WHICH piece of /repo/filesystem/filespace/memfs it stands for: the Go
function, the lock and its mode, and the expected synchronisation skeleton of that piece, in the
vocabulary of `harness/cmd/memfsconc/skeleton.go` (go/ast extraction, regenerated on every run of
`./check C09` into `Goat/Tie/ExtractedC09.lean`):

    Lock(x) RLock(x) Unlock(x) RUnlock(x)  lock operations, x = mu | dataMU | (empty: the embedded
                                           RWMutex of `Dir`, `dir.Lock()`), `defer:` when deferred
    len:f read:f value:f slice:f write:f delete:f init:f
                                           accesses to the guarded fields nodes / index / data / time
                                           (receiver and variable names dropped)
    call:<name>                            calls of memfs functions with a non-empty skeleton
    hook:<point>                           verifhook yield points
    if{ }else{ } for{ return …             control markers, only inside a region where a lock is held
    held(<lock>.<W|R>):<item>              the item sits where the function itself holds that lock
                                           (`outer` = the embedded RWMutex)

`Expected.F` is the whole expected skeleton of the Go function F (Lean name: `.` replaced by `_`), built
from the pieces the table refers to.  `Goat/Tie/C09.lean` proves `ExtractedC09.F = Expected.F` by
`decide`, one theorem per Go function, plus the package-wide facts (which functions take a lock, which
calls are made while a lock is held, which accesses to guarded fields are outside every held region).

`Pcs` gives the decomposition of the composite operations into program counters (`Pc`) as the ordered
list of their lock operations / hooks / lock-reaching calls.
-/
import Goat.Model.MemFSConc

namespace Goat.MemFSConc.Acts

/-! ## The constructors of `Act` and `Pc`, without arguments -/

inductive Kind where
  | tau | lookup | mkdirLocked | addNode | addNewFile | removeNode | snapshot | readLen
  | outerLock | outerUnlock | getData | setData | copyFile | newDir | openH | hwrite | hread | closeH
  deriving DecidableEq, Repr

/-- total by pattern matching: a new constructor of `Act` does not compile until it is classified
here, and `table` below is total on `Kind` -/
def kindOf : Act → Kind
  | .tau => .tau
  | .lookup .. => .lookup
  | .mkdirLocked .. => .mkdirLocked
  | .addNode .. => .addNode
  | .addNewFile .. => .addNewFile
  | .removeNode .. => .removeNode
  | .snapshot .. => .snapshot
  | .readLen .. => .readLen
  | .outerLock .. => .outerLock
  | .outerUnlock .. => .outerUnlock
  | .getData .. => .getData
  | .setData .. => .setData
  | .copyFile .. => .copyFile
  | .newDir .. => .newDir
  | .openH .. => .openH
  | .hwrite .. => .hwrite
  | .hread .. => .hread
  | .closeH .. => .closeH

def allKinds : List Kind :=
  [.tau, .lookup, .mkdirLocked, .addNode, .addNewFile, .removeNode, .snapshot, .readLen, .outerLock,
   .outerUnlock, .getData, .setData, .copyFile, .newDir, .openH, .hwrite, .hread, .closeH]

inductive PcKind where
  | idle | fin | walk | mk | mkLocked
  | wLock | wLook | wAdd | wUnlockFin | wUnlockSet | wSet | wSetLocked
  | oLock | oLook | oAdd | oUnlockOpen | oOpen | oOpenLocked
  | rData | rList | rOpen | rmLook | rmLen | rmDo
  | cFile | cEnter | cDir | cAdd | hW | hR | hC
  deriving DecidableEq, Repr

def pcKindOf : Pc → PcKind
  | .idle => .idle
  | .fin .. => .fin
  | .walk .. => .walk
  | .mk .. => .mk
  | .mkLocked .. => .mkLocked
  | .wLock .. => .wLock
  | .wLook .. => .wLook
  | .wAdd .. => .wAdd
  | .wUnlockFin .. => .wUnlockFin
  | .wUnlockSet .. => .wUnlockSet
  | .wSet .. => .wSet
  | .wSetLocked .. => .wSetLocked
  | .oLock .. => .oLock
  | .oLook .. => .oLook
  | .oAdd .. => .oAdd
  | .oUnlockOpen .. => .oUnlockOpen
  | .oOpen .. => .oOpen
  | .oOpenLocked .. => .oOpenLocked
  | .rData .. => .rData
  | .rList .. => .rList
  | .rOpen .. => .rOpen
  | .rmLook .. => .rmLook
  | .rmLen .. => .rmLen
  | .rmDo .. => .rmDo
  | .cFile .. => .cFile
  | .cEnter .. => .cEnter
  | .cDir .. => .cDir
  | .cAdd .. => .cAdd
  | .hW .. => .hW
  | .hR .. => .hR
  | .hC .. => .hC

/-! ## Pieces: the critical sections themselves -/

namespace Piece

/-- `RLock(mu)` … deferred `RUnlock(mu)` -/
def muR : List String := ["RLock(mu)", "defer:RUnlock(mu)"]
/-- `Lock(mu)` … deferred `Unlock(mu)` -/
def muW : List String := ["Lock(mu)", "defer:Unlock(mu)"]
def dataR : List String := ["RLock(dataMU)", "defer:RUnlock(dataMU)"]
def dataW : List String := ["Lock(dataMU)", "defer:Unlock(dataMU)"]

/-- `getNode`: one map look-up under `mu.RLock`; absent → error return (`Act.lookup`) -/
def getNode : List String :=
  muR ++ ["held(mu.R):read:index", "held(mu.R):if{", "held(mu.R):return", "held(mu.R):}", "held(mu.R):return"]

/-- `getDir`: the same look-up, then the kind test (second early return) (`Act.lookup` with the
`isDir` component of its result) -/
def getDir : List String :=
  muR ++ ["held(mu.R):read:index", "held(mu.R):if{", "held(mu.R):return", "held(mu.R):}",
          "held(mu.R):if{", "held(mu.R):return", "held(mu.R):}", "held(mu.R):return"]

/-- `contains` (not used by any operation): the look-up alone -/
def contains : List String := muR ++ ["held(mu.R):read:index", "held(mu.R):return"]

/-- `getNodes`: `len` for the allocation and the element-wise `copy` of `nodes`, both under
`mu.RLock`; what is returned is the copy (`Act.snapshot`) -/
def getNodes : List String := muR ++ ["held(mu.R):len:nodes", "held(mu.R):read:nodes", "held(mu.R):return"]

/-- `Dir.Size` (since 42ebac9): `len(nodes)` under `mu.RLock` (`Act.readLen`) -/
def dirSize : List String := muR ++ ["held(mu.R):len:nodes", "held(mu.R):return"]

/-- the body shared by `addNode` and the locked part of `mkdir` after the re-check:
`nodes = append(nodes, n)` then `index[name] = n` (`DirObj.add`) -/
def appendAndIndex : List String :=
  ["held(mu.W):read:nodes", "held(mu.W):write:nodes", "held(mu.W):write:index", "held(mu.W):return"]

/-- `addNode`: under `mu.Lock`, FIRST the look-up of the name with an early error return, THEN the
append and the index store (`Act.addNode`, `Act.addNewFile`: `DirObj.add` refuses an existing name) -/
def addNode : List String :=
  muW ++ ["held(mu.W):read:index", "held(mu.W):if{", "held(mu.W):return", "held(mu.W):}"] ++ appendAndIndex

/-- the locked part of `mkdir` (`Act.mkdirLocked`, `Pc.mkLocked`): under `mu.Lock` the name is looked
up AGAIN; present → it is returned if it is a directory, an error otherwise (two early returns);
absent → `NewDir`, append, index store -/
def mkdirLocked : List String :=
  muW ++ ["held(mu.W):read:index", "held(mu.W):if{", "held(mu.W):if{", "held(mu.W):return", "held(mu.W):}",
          "held(mu.W):return", "held(mu.W):}", "held(mu.W):call:NewDir"] ++ appendAndIndex

/-- the optimistic part of `mkdir` (`Pc.mk`: an `Act.lookup`), then the yield point at which
`Pc.mkLocked` parks -/
def mkdirOptimistic : List String := ["call:getDir", "hook:memfs.mkdir.gap"]

/-- `removeNodeByName`: under `mu.Lock` the scan of `nodes` for the first node with the name; found →
splice, `delete(index, name)`, return; not found → error (`Act.removeNode`, `DirObj.remove`) -/
def removeNodeByName : List String :=
  muW ++ ["held(mu.W):for{", "held(mu.W):len:nodes", "held(mu.W):read:nodes", "held(mu.W):if{",
          "held(mu.W):read:nodes", "held(mu.W):read:nodes", "held(mu.W):write:nodes", "held(mu.W):delete:index",
          "held(mu.W):return", "held(mu.W):}", "held(mu.W):}", "held(mu.W):return"]

/-- `File.getData`: `len` and element-wise `copy` of `data` under `dataMU.RLock`; the copy is
returned (`Act.getData`) -/
def getData : List String :=
  dataR ++ ["held(dataMU.R):len:data", "held(dataMU.R):read:data", "held(dataMU.R):return"]

/-- `File.setData`: under `dataMU.Lock` the time stamp, a fresh slice, the element-wise copy INTO it
(`Act.setData`: the new value is complete when the lock is released) -/
def setData : List String :=
  dataW ++ ["held(dataMU.W):write:time", "held(dataMU.W):write:data", "held(dataMU.W):write:data"]

/-- `copyFile` after its yield point: `len`/`copy` of `data` and the time stamp under `dataMU.RLock`,
`NewFile` of the copy (`Act.copyFile`) -/
def copyFileLocked : List String :=
  dataR ++ ["held(dataMU.R):len:data", "held(dataMU.R):read:data", "held(dataMU.R):value:time",
            "held(dataMU.R):call:NewFile", "held(dataMU.R):return"]

/-- `NewFileHandler`: `dataMU.Lock` and NO unlock — the handle holds the lock (`Act.openH`) -/
def newFileHandler : List String := ["Lock(dataMU)", "held(dataMU.W):return"]

/-- `FileHandler.Close`: the unlock matching `NewFileHandler` (`Act.closeH`) -/
def closeHandler : List String := ["Unlock(dataMU)"]

/-- `FileHandler.Write`: time stamp and `data = append(data, p…)`; takes no lock: it runs under the
lock its handle holds (`Act.hwrite` requires `lock = some t`) -/
def handlerWrite : List String := ["write:time", "read:data", "write:data"]

/-- `FileHandler.Read`: copies out of `data`, compares the pointer with `len(data)`; no lock taken
(`Act.hread`) -/
def handlerRead : List String := ["read:data", "len:data"]

/-- the truncation by `Writer`: immediately AFTER `NewFileHandler` returned holding `dataMU`
(`Act.openH f true`) -/
def writerTruncate : List String := ["call:NewFileHandler", "write:time", "write:data"]

/-- `NewDir`: a fresh object (fields initialised in the literal), then the index built from the node
list — no lock, nobody else can see the object yet (`Act.newDir`, `newDirObj`) -/
def newDir : List String := ["init:time", "init:nodes", "init:index", "read:nodes", "write:index"]

/-- `NewFile`: a fresh object — no lock (`alloc` of `Act.addNewFile` / `Act.copyFile`) -/
def newFile : List String := ["init:time", "init:data"]

/-- check-then-create of `WriteFile` / `Writer` under the directory's embedded lock: look-up
(`Pc.wLook`/`oLook`), and on absence the yield point, `NewFile`, `addNode` (`Pc.wAdd`/`oAdd` =
`Act.addNewFile`) -/
def outerLook : List String := ["held(outer.W):call:getNode"]
def outerCreate : List String :=
  ["held(outer.W):hook:memfs.write.gap", "held(outer.W):call:NewFile", "held(outer.W):call:addNode"]

end Piece

/-! ## Expected whole skeletons, per Go function -/

namespace Expected
open Piece

def Dir_getNode := Piece.getNode
def Dir_getDir := Piece.getDir
def Dir_contains := Piece.contains
def Dir_getNodes := Piece.getNodes
def Dir_Size := Piece.dirSize
def Dir_addNode := Piece.addNode
def Dir_mkdir := mkdirOptimistic ++ mkdirLocked
def Dir_removeNodeByName := Piece.removeNodeByName
def File_getData := Piece.getData
def File_setData := Piece.setData
def copyFile := ["hook:memfs.copy.file"] ++ copyFileLocked
def NewFileHandler := newFileHandler
def FileHandler_Close := closeHandler
def FileHandler_Write := handlerWrite
def FileHandler_Read := handlerRead
def NewDir := Piece.newDir
def NewFile := Piece.newFile

/-- unsynchronised metadata getters (outside the property's observables, see the check's
assumptions) -/
def File_Size : List String := ["len:data"]
def File_ModTime : List String := ["value:time"]
def Dir_ModTime : List String := ["value:time"]

/-- `WriteFile`: `mkdirAllNodes`; `dir.Lock()`; look-up; absent → create, `dir.Unlock()`, return;
present → `dir.Unlock()`, and only then the yield point and `setData` -/
def Filespace_WriteFile : List String :=
  ["call:mkdirAllNodes", "Lock()"] ++ outerLook ++ ["held(outer.W):if{"] ++ outerCreate ++
  ["Unlock()", "held(outer.W):}", "Unlock()", "hook:memfs.write.setdata", "call:setData"]

/-- `Writer`: the same check-then-create; `dir.Unlock()` on the two error paths and on the common
path; only then the yield point, `NewFileHandler` and the truncation -/
def Filespace_Writer : List String :=
  ["call:mkdirAllNodes", "Lock()"] ++ outerLook ++ ["held(outer.W):if{"] ++ outerCreate ++
  ["held(outer.W):if{", "Unlock()", "held(outer.W):}", "held(outer.W):}else{", "held(outer.W):if{", "Unlock()",
   "held(outer.W):}", "held(outer.W):}", "Unlock()", "hook:memfs.writer.open"] ++ writerTruncate

/-- `copyDir`: the listing is a snapshot (`getNodes` takes and releases `mu` inside); the children are
copied with no lock held here; `NewDir` of the copies at the end -/
def copyDir : List String := ["call:getNodes", "call:copyDir", "call:copyFile", "value:time", "call:NewDir"]
def copyNode : List String := ["call:copyDir", "call:copyFile"]
def mkdirAllNodes : List String := ["call:mkdir"]
def mkdirAll : List String := ["call:mkdirAllNodes"]
def getNodeByPathNodes : List String := ["call:getNode", "call:getNode"]
def getNodeByPath : List String := ["call:getNodeByPathNodes"]
def getDirByPathNodes : List String := ["call:getNodeByPathNodes"]
def getDirByPath : List String := ["call:getDirByPathNodes"]
def getFileByPathNodes : List String := ["call:getNodeByPathNodes"]
def getFileByPath : List String := ["call:getFileByPathNodes"]
/-- `Remove`/`RemoveAll`: walk to the parent; (emptyOnly) `getNode`, a file → `removeNodeByName`;
a directory → `Size()` (under the child's `mu`), then `removeNodeByName`; (RemoveAll)
`removeNodeByName` directly -/
def removeNodeByNodePath : List String :=
  ["call:getDirByPathNodes", "call:getNode", "call:removeNodeByName", "call:Size", "call:removeNodeByName",
   "call:removeNodeByName"]
def removeNodeByPath : List String := ["call:removeNodeByNodePath"]
def Filespace_Remove : List String := ["call:removeNodeByPath"]
def Filespace_RemoveAll : List String := ["call:removeNodeByPath"]
def Filespace_MkdirAll : List String := ["call:mkdirAll"]
def Filespace_ReadFile : List String := ["call:getFileByPath", "call:getData"]
def Filespace_ReadDir : List String := ["call:getDirByPath", "call:getNodes"]
def Filespace_Reader : List String := ["call:getFileByPath", "call:NewFileHandler"]
def Filespace_IsExist : List String := ["call:getNodeByPath"]
def Filespace_IsFile : List String := ["call:getFileByPath"]
def Filespace_IsDir : List String := ["call:getDirByPath"]
def Filespace_Lstat : List String := ["call:getNodeByPath"]
/-- `Copy*`: source walk, `mkdirAllNodes` of the destination directory, the copy (no lock held here),
`addNode` of the finished copy -/
def Filespace_Copy : List String := ["call:getNodeByPath", "call:mkdirAllNodes", "call:copyNode", "call:addNode"]
def Filespace_CopyFile : List String := ["call:getFileByPath", "call:mkdirAllNodes", "call:copyFile", "call:addNode"]
def Filespace_CopyDirectory : List String :=
  ["call:getDirByPath", "call:mkdirAllNodes", "call:copyDir", "call:addNode"]

end Expected

/-! ## The table: `Act` constructor ↦ critical sections of the code -/

/-- one piece of Go code an `Act` stands for -/
structure CS where
  fn : String              -- the Go function, named as in `ExtractedC09.lockTakers`
  lock : String            -- "mu" | "dataMU" | "outer" | "" (this piece takes no lock)
  mode : String            -- "R" | "W" | "" ; "W(handle)" = runs under the dataMU a stream handle holds
  items : List String      -- the piece: a contiguous part of `whole`
  whole : List String      -- `Expected.fn`

open Expected in
def table : Kind → List CS
  | .tau => []
  | .lookup =>
    [{ fn := "Dir.getNode", lock := "mu", mode := "R", items := Piece.getNode, whole := Dir_getNode },
     { fn := "Dir.getDir", lock := "mu", mode := "R", items := Piece.getDir, whole := Dir_getDir },
     { fn := "Dir.contains", lock := "mu", mode := "R", items := Piece.contains, whole := Dir_contains }]
  | .mkdirLocked =>
    [{ fn := "Dir.mkdir", lock := "mu", mode := "W", items := Piece.mkdirLocked, whole := Dir_mkdir }]
  | .addNode =>
    [{ fn := "Dir.addNode", lock := "mu", mode := "W", items := Piece.addNode, whole := Dir_addNode }]
  | .addNewFile =>
    [{ fn := "NewFile", lock := "", mode := "", items := Piece.newFile, whole := NewFile },
     { fn := "Dir.addNode", lock := "mu", mode := "W", items := Piece.addNode, whole := Dir_addNode },
     { fn := "Filespace.WriteFile", lock := "outer", mode := "W", items := Piece.outerCreate, whole := Filespace_WriteFile },
     { fn := "Filespace.Writer", lock := "outer", mode := "W", items := Piece.outerCreate, whole := Filespace_Writer }]
  | .removeNode =>
    [{ fn := "Dir.removeNodeByName", lock := "mu", mode := "W", items := Piece.removeNodeByName,
       whole := Dir_removeNodeByName }]
  | .snapshot =>
    [{ fn := "Dir.getNodes", lock := "mu", mode := "R", items := Piece.getNodes, whole := Dir_getNodes }]
  | .readLen =>
    [{ fn := "Dir.Size", lock := "mu", mode := "R", items := Piece.dirSize, whole := Dir_Size }]
  | .outerLock =>
    [{ fn := "Filespace.WriteFile", lock := "outer", mode := "W", items := ["Lock()"], whole := Filespace_WriteFile },
     { fn := "Filespace.Writer", lock := "outer", mode := "W", items := ["Lock()"], whole := Filespace_Writer }]
  | .outerUnlock =>
    [{ fn := "Filespace.WriteFile", lock := "outer", mode := "W", items := ["Unlock()"], whole := Filespace_WriteFile },
     { fn := "Filespace.Writer", lock := "outer", mode := "W", items := ["Unlock()"], whole := Filespace_Writer }]
  | .getData =>
    [{ fn := "File.getData", lock := "dataMU", mode := "R", items := Piece.getData, whole := File_getData }]
  | .setData =>
    [{ fn := "File.setData", lock := "dataMU", mode := "W", items := Piece.setData, whole := File_setData }]
  | .copyFile =>
    [{ fn := "copyFile", lock := "dataMU", mode := "R", items := Piece.copyFileLocked, whole := copyFile }]
  | .newDir =>
    [{ fn := "NewDir", lock := "", mode := "", items := Piece.newDir, whole := NewDir },
     { fn := "copyDir", lock := "", mode := "", items := ["value:time", "call:NewDir"], whole := Expected.copyDir }]
  | .openH =>
    [{ fn := "NewFileHandler", lock := "dataMU", mode := "W", items := Piece.newFileHandler, whole := NewFileHandler },
     { fn := "Filespace.Writer", lock := "dataMU", mode := "W(handle)", items := Piece.writerTruncate,
       whole := Filespace_Writer }]
  | .hwrite =>
    [{ fn := "FileHandler.Write", lock := "", mode := "W(handle)", items := Piece.handlerWrite, whole := FileHandler_Write }]
  | .hread =>
    [{ fn := "FileHandler.Read", lock := "", mode := "W(handle)", items := Piece.handlerRead, whole := FileHandler_Read }]
  | .closeH =>
    [{ fn := "FileHandler.Close", lock := "dataMU", mode := "W", items := Piece.closeHandler, whole := FileHandler_Close }]

def allCS : List CS := allKinds.flatMap table

/-- `xs` occurs in `ys` as a contiguous block -/
def isInfix (xs : List String) : List String → Bool
  | [] => xs.isEmpty
  | y :: ys => (xs.isPrefixOf (y :: ys)) || isInfix xs ys

/-- the functions of package memfs that contain a lock operation themselves (sorted); each has a row
with a lock in `table` (`Goat.Tie.C09.table_covers_lock_takers`) -/
def lockTakers : List String :=
  ["Dir.Size", "Dir.addNode", "Dir.contains", "Dir.getDir", "Dir.getNode", "Dir.getNodes", "Dir.mkdir",
   "Dir.removeNodeByName", "File.getData", "File.setData", "FileHandler.Close", "Filespace.WriteFile",
   "Filespace.Writer", "NewFileHandler", "copyFile"]

/-- every function of the package from which a lock operation or a yield point can be reached (by
name): the operations the model decomposes, their helpers, the sub-path view (`FilespaceWrapper`, which
only forwards) and `DebugPrint` -/
def lockReachers : List String :=
  ["Dir.Size", "Dir.addNode", "Dir.contains", "Dir.getDir", "Dir.getNode", "Dir.getNodes", "Dir.mkdir",
   "Dir.removeNodeByName", "File.getData", "File.setData", "FileHandler.Close", "Filespace.Copy",
   "Filespace.CopyDirectory", "Filespace.CopyFile", "Filespace.DebugPrint", "Filespace.IsDir",
   "Filespace.IsExist", "Filespace.IsFile", "Filespace.Lstat", "Filespace.MkdirAll", "Filespace.ReadDir",
   "Filespace.ReadFile", "Filespace.Reader", "Filespace.Remove", "Filespace.RemoveAll", "Filespace.WriteFile",
   "Filespace.Writer", "FilespaceWrapper.Copy", "FilespaceWrapper.CopyDirectory", "FilespaceWrapper.CopyFile",
   "FilespaceWrapper.IsDir", "FilespaceWrapper.IsExist", "FilespaceWrapper.IsFile", "FilespaceWrapper.Lstat",
   "FilespaceWrapper.MkdirAll", "FilespaceWrapper.ReadDir", "FilespaceWrapper.ReadFile",
   "FilespaceWrapper.Reader", "FilespaceWrapper.Remove", "FilespaceWrapper.RemoveAll",
   "FilespaceWrapper.WriteFile", "FilespaceWrapper.Writer", "NewFileHandler", "copyDir", "copyFile", "copyNode",
   "debugPrint", "getDirByPath", "getDirByPathNodes", "getFileByPath", "getFileByPathNodes", "getNodeByPath",
   "getNodeByPathNodes", "mkdirAll", "mkdirAllNodes", "removeNodeByNodePath", "removeNodeByPath"]

/-- THE LOCK GRAPH: everything (lock operation, yield point, call that reaches a lock) a memfs function
does while it holds a lock itself.  Only the embedded directory lock is ever held across such a call,
and only across `getNode` / `addNode` (which take the SAME directory's `mu` and release it before they
return) and the creation yield point.  No wait for a file's `dataMU` is nested in any lock
(`Variant.fixed`: `writerUnderDir = writeFileUnderDir = copyDirHoldsMu = false`). -/
def nestedLocks : List String :=
  ["Filespace.WriteFile:held(outer.W):call:getNode", "Filespace.WriteFile:held(outer.W):hook:memfs.write.gap",
   "Filespace.WriteFile:held(outer.W):call:addNode", "Filespace.Writer:held(outer.W):call:getNode",
   "Filespace.Writer:held(outer.W):hook:memfs.write.gap", "Filespace.Writer:held(outer.W):call:addNode"]

/-- every access to a guarded field (`nodes`, `index`, `data`, `time`) that is NOT inside a region in
which the accessing function holds a lock itself, with the reason it is no race in the model:
* `FileHandler.Read/Write`, the truncation in `Filespace.Writer`: under the `dataMU` the handle holds
  (`Act.hread/hwrite/openH`);
* `NewDir`, `NewFile`: construction of an object nobody else can reach yet;
* `copyDir:value:time`, `Dir.ModTime`: `Dir.time` is never written after construction;
* `File.Size` (`len:data`), `File.ModTime` (`value:time`): unsynchronised metadata reads through
  `Lstat`/`ReadDir` results — OUTSIDE the model and the property's observables (stated in the check's
  assumptions; the -race stress leaves them out unless MEMFSCONC_STAT=1). -/
def unheldAccesses : List String :=
  ["Dir.ModTime:value:time", "File.ModTime:value:time", "File.Size:len:data", "FileHandler.Read:read:data",
   "FileHandler.Read:len:data", "FileHandler.Write:write:time", "FileHandler.Write:read:data",
   "FileHandler.Write:write:data", "Filespace.Writer:write:time", "Filespace.Writer:write:data",
   "NewDir:init:time", "NewDir:init:nodes", "NewDir:init:index", "NewDir:read:nodes", "NewDir:write:index",
   "NewFile:init:time", "NewFile:init:data", "copyDir:value:time"]

/-! ## Decompositions: program counters in program order -/

/-- the lock operations / yield points / lock-reaching calls one program counter stands for -/
structure Stage where
  pc : List PcKind
  items : List String

def flatten (l : List Stage) : List String := l.flatMap (·.items)

/-- `Filespace.WriteFile` -/
def writeFilePcs : List Stage :=
  [⟨[.mk, .mkLocked], ["call:mkdirAllNodes"]⟩,
   ⟨[.wLock], ["Lock()"]⟩,
   ⟨[.wLook], ["held(outer.W):call:getNode"]⟩,
   ⟨[.wAdd], ["held(outer.W):hook:memfs.write.gap", "held(outer.W):call:addNode"]⟩,
   ⟨[.wUnlockFin], ["Unlock()"]⟩,                       -- the create path ends here
   ⟨[.wUnlockSet], ["Unlock()"]⟩,                       -- existing file: unlock FIRST …
   ⟨[.wSet], ["hook:memfs.write.setdata", "call:setData"]⟩]   -- … then wait for dataMU (not `Pc.wSetLocked`)

/-- `Filespace.Writer` -/
def writerPcs : List Stage :=
  [⟨[.mk, .mkLocked], ["call:mkdirAllNodes"]⟩,
   ⟨[.oLock], ["Lock()"]⟩,
   ⟨[.oLook], ["held(outer.W):call:getNode"]⟩,
   ⟨[.oAdd], ["held(outer.W):hook:memfs.write.gap", "held(outer.W):call:addNode"]⟩,
   ⟨[.wUnlockFin], ["Unlock()", "Unlock()"]⟩,           -- addNode failed / the node is a directory
   ⟨[.oUnlockOpen], ["Unlock()"]⟩,                      -- unlock FIRST …
   ⟨[.oOpen], ["hook:memfs.writer.open", "call:NewFileHandler"]⟩]   -- … then wait for dataMU (not `Pc.oOpenLocked`)

/-- `copyDir`: `Pc.cEnter` / the directory case of `Pc.cDir` = `getNodes`; recursion; the file case of
`Pc.cDir` = `copyFile`; no lock operation in `copyDir` itself -/
def copyDirPcs : List Stage :=
  [⟨[.cEnter, .cDir], ["call:getNodes"]⟩, ⟨[.cDir], ["call:copyDir"]⟩, ⟨[.cDir, .cFile], ["call:copyFile"]⟩]

/-- `Filespace.Copy` -/
def copyPcs : List Stage :=
  [⟨[.walk], ["call:getNodeByPath"]⟩, ⟨[.mk, .mkLocked], ["call:mkdirAllNodes"]⟩,
   ⟨[.cFile, .cEnter, .cDir], ["call:copyNode"]⟩, ⟨[.cAdd], ["call:addNode"]⟩]

/-- `removeNodeByNodePath` (Remove: `emptyOnly`, RemoveAll: not) -/
def removePcs : List Stage :=
  [⟨[.walk], ["call:getDirByPathNodes"]⟩,
   ⟨[.rmLook], ["call:getNode"]⟩,
   ⟨[.rmDo], ["call:removeNodeByName"]⟩,                -- a file
   ⟨[.rmLen], ["call:Size"]⟩,
   ⟨[.rmDo], ["call:removeNodeByName"]⟩,                -- an empty directory
   ⟨[.rmDo], ["call:removeNodeByName"]⟩]                -- RemoveAll

/-- `mkdirAllNodes` is a loop over `mkdir`; `mkdir` is `Pc.mk` (optimistic `getDir`), the yield point,
`Pc.mkLocked` (the locked part) -/
def mkdirPcs : List Stage :=
  [⟨[.mk], ["call:getDir"]⟩, ⟨[.mkLocked], ["hook:memfs.mkdir.gap", "Lock(mu)", "defer:Unlock(mu)"]⟩]

/-- the path walk: `getNode` for the first segment, `getNode` in the loop (`Pc.walk`) -/
def walkPcs : List Stage := [⟨[.walk], ["call:getNode"]⟩, ⟨[.walk], ["call:getNode"]⟩]

end Goat.MemFSConc.Acts
