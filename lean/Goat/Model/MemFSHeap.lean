/-
Heap-level executable model of the in-memory filespace (core Lean only; linked into `m_fsheap`).

`Goat/Model/MemFS.lean` models memfs on *values*: file contents and listings are Lean lists, which
cannot alias.  This file mirrors the same Go code (/repo/filesystem/filespace/memfs) one level lower:
every Go slice that crosses the API boundary or is stored in a node is an *object* in a heap,
referred to by a `BufId`, so that "the caller and the tree share storage" is expressible, and the
snapshot clause of C01 becomes a statement that can be true or false (`Goat/Proofs/MemFSHeap*.lean`,
`Goat/Props/C01.lean` section 5).

  heap        `Heap.bytes : BufId → Bytes`  (backing arrays of `[]byte`),
              `Heap.lists : BufId → Entries` (backing arrays of `[]os.FileInfo`, observed as
              `(Name, IsDir)` like everywhere in the `fs` family), one allocation counter `next`
  tree        `HNode.file b` — `File.data` is the object `b`;  `HNode.dir l k` — `Dir.nodes` is
              the object `l`, and `k : HKids` is the ordered content of that slice (`(name, node)`,
              exactly the `Kids` of Base/Tree; `Dir.index` is `HKids.find`).  The slice header's
              length is `k.length`; the object `l` may be longer (stale tail left by a removal).
  caller      `HWorld.held`: every handle the caller has (buffers it made and passed in, slices it
              was handed out).  A handle to a listing carries the length of its slice header.
  ops         `HOp.call n c` — one of the 16 `filesystem.Filespace` methods through handle `n`,
              byte arguments given as `BufId`s of caller buffers;
              `HOp.alloc d` — the caller makes a buffer (`make` + fill);
              `HOp.mutate hd i b` — the caller writes into something it holds (`buf[i] = b`, or for a
              listing `l[i] = l[b % len(l)]`; that is what the `fs` protocol's `mutate` does);
              `HOp.keep hd` / `HOp.recheck hd` — the probes: still holding? / what does it contain now?

WHERE THE GO CODE COPIES AND WHERE IT SHARES  (file:line of /repo at the time of writing)
  WriteFile, new file     filespace.go:264  `datacopy = make; copy(datacopy, data)`      → `takeIn` (copy)
  WriteFile, existing     file.go:73        `f.data = make; copy(f.data, data)` (setData) → `takeIn` (copy)
  ReadFile                file.go:63        `datacopy = make; copy(datacopy, f.data)` (getData) → `handOut` (copy)
  ReadDir                 dir.go:74         `nodescopy = make; copy(nodescopy, d.nodes)` (getNodes) → `readDir` (copy)
  Writer (open)           filespace.go:214  `file.data = []byte{}`                        → fresh empty object
  handle Write            file_handler.go:26 `h.file.data = append(h.file.data, p...)`    → `appendBytes`:
                          in place when the array has room, else a new array — decided by the policy
                          `Cfg.realloc`, over which every theorem quantifies; `p` is only read
  handle Read             file_handler.go:32 `copy(p, h.file.data[h.pointer:])` writes into the
                          *caller's* buffer `p` (that is the contract of `Read`): modelled as a fresh
                          caller buffer holding the delivered bytes (the harness passes `make([]byte,n)`)
  copyFile                copy.go:14        `datacopy = make; copy(datacopy, f.data)`     → `copyNode` (copy)
  copyDir                 copy.go:24,25,39  `d.getNodes()` (copy), `nodescopy = make`, `NewDir(… nodescopy)`
                                                                                          → fresh listing object
  Dir.addNode / mkdir     dir.go:123 / 147  `d.nodes = append(d.nodes, n)`                → `appendEntry` (policy)
  Dir.removeNodeByName    dir.go:158        `d.nodes = append(d.nodes[:i], d.nodes[i+1:]...)`: ALWAYS in
                          place, the elements behind `i` are shifted down inside the same array
                                                                                          → `shiftOut`
  Lstat / ReadDir entries the `os.FileInfo` values are the live `*File`/`*Dir`; the interface
                          has no mutating method, so the caller cannot write through them.  They are
                          observed as `(Name, IsDir)` (and `Size` at the time of `Lstat`): values.

THE PRE-FIX VARIANT (`Cfg.old = true`) is the code before commits c1f9074 and e4e01df:
  `takeIn` keeps the caller's slice (`NewFile(…, data)`, `f.data = data`), `handOut` returns
  `f.data` itself, `readDir` returns `d.nodes` itself (a handle to the directory's own object with
  the current length).  Everything else is the same code — in particular `removeNodeByName` shifts
  in place in both variants; in the repaired code nobody else can see that array.

Simplifications (all stated in checks/c01.py as assumptions):
  * a directory's `k` is the logical content of `d.nodes[:len]`; the repaired `ReadDir` copies that
    content (`k.entries`) into a fresh object, and the position used by `shiftOut` is the position
    of the name in `k`.  The object `l` itself is maintained by every add/remove, and for the
    repaired code array and `k` provably never disagree (`Props/C01.listing_sync`); in the pre-fix
    variant a caller that overwrote the shared array could make them disagree, which is not followed.
  * `Reader` buffers are fresh caller buffers; handles are used atomically (as in `Model/MemFS`).
  * not modelled: modes, times, locks, `Size()` of a directory.
-/
import Goat.Model.MemFS

namespace Goat
namespace MemFSHeap

open Path (Name split join reduceAbsPath dotSeg slash)
open FS (Op Result)
open MemFS (FSRef openView splitContainsPath realPath readLoop)

abbrev BufId := Nat
abbrev Entries := List (Name × Bool)

/-- which code is modelled, and Go's `append` growth policy -/
structure Cfg where
  /-- `true`: the code before c1f9074 / e4e01df (no copies on the way in and out) -/
  old : Bool
  /-- `realloc len n`: does `append` of `n` elements to a slice of length `len` allocate a new backing
  array (Go: `len + n > cap`)?  The capacity is not tracked; every theorem holds for every policy. -/
  realloc : Nat → Nat → Bool

/-- the repaired code with a doubling growth policy (what the driver runs) -/
def Cfg.fixed : Cfg := ⟨false, fun len _ => len &&& (len - 1) == 0⟩
/-- the pre-fix code, same policy -/
def Cfg.preFix : Cfg := ⟨true, fun len _ => len &&& (len - 1) == 0⟩

/-! ### The heap -/

structure Heap where
  /-- ids `< next` have been allocated -/
  next : Nat
  bytes : BufId → Bytes
  lists : BufId → Entries

namespace Heap

def empty : Heap := ⟨0, fun _ => [], fun _ => []⟩

/-- `make([]byte, len(d))` + fill -/
def allocB (h : Heap) (d : Bytes) : Heap × BufId :=
  ({ h with next := h.next + 1, bytes := fun j => if j = h.next then d else h.bytes j }, h.next)

/-- `make([]os.FileInfo, len(l))` + fill -/
def allocL (h : Heap) (l : Entries) : Heap × BufId :=
  ({ h with next := h.next + 1, lists := fun j => if j = h.next then l else h.lists j }, h.next)

/-- write into an existing byte array -/
def setB (h : Heap) (id : BufId) (d : Bytes) : Heap :=
  { h with bytes := fun j => if j = id then d else h.bytes j }

/-- write into an existing listing array -/
def setL (h : Heap) (id : BufId) (l : Entries) : Heap :=
  { h with lists := fun j => if j = id then l else h.lists j }

/-- `c = make([]byte, len(b)); copy(c, b)` -/
def copyB (h : Heap) (id : BufId) : Heap × BufId := h.allocB (h.bytes id)

/-- one fresh caller buffer per byte string -/
def allocAll (h : Heap) : List Bytes → Heap × List BufId
  | [] => (h, [])
  | d :: ds =>
    let r := h.allocB d
    let r2 := allocAll r.1 ds
    (r2.1, r.2 :: r2.2)

end Heap

/-! ### The tree -/

mutual
inductive HNode where
  | file (b : BufId)
  | dir (l : BufId) (k : HKids)
inductive HKids where
  | nil
  | cons (name : Name) (n : HNode) (rest : HKids)
end

instance : Inhabited HNode := ⟨.file 0⟩
instance : Inhabited HKids := ⟨.nil⟩

namespace HNode
def isDir : HNode → Bool
  | .dir .. => true
  | .file _ => false
end HNode

namespace HKids

/-- `Dir.getNode` (the `index` map) -/
def find : HKids → Name → Option HNode
  | .nil, _ => none
  | .cons n x rest, m => if n = m then some x else find rest m

/-- replace the child named `m` where it stands, or append it at the end -/
def set : HKids → Name → HNode → HKids
  | .nil, m, x => .cons m x .nil
  | .cons n y rest, m, x => if n = m then .cons n x rest else .cons n y (set rest m x)

/-- drop the first child named `m` -/
def erase : HKids → Name → HKids
  | .nil, _ => .nil
  | .cons n y rest, m => if n = m then rest else .cons n y (erase rest m)

def isEmpty : HKids → Bool
  | .nil => true
  | .cons .. => false

/-- `len(d.nodes)` -/
def length : HKids → Nat
  | .nil => 0
  | .cons _ _ rest => length rest + 1

/-- position of the first child named `m` (`length` when there is none) -/
def indexOf : HKids → Name → Nat
  | .nil, _ => 0
  | .cons n _ rest, m => if n = m then 0 else indexOf rest m + 1

/-- the content of `d.nodes` observed as `(Name, IsDir)` -/
def entries : HKids → Entries
  | .nil => []
  | .cons n x rest => (n, x.isDir) :: entries rest

end HKids

mutual
/-- every heap object reachable from a node: file data arrays and directory node arrays -/
def HNode.ids : HNode → List BufId
  | .file b => [b]
  | .dir l k => l :: HKids.ids k
def HKids.ids : HKids → List BufId
  | .nil => []
  | .cons _ x rest => HNode.ids x ++ HKids.ids rest
end

mutual
/-- replace every id by the content it has in the heap: the value-level tree of `Base/Tree` -/
def HNode.deref (h : Heap) : HNode → Node
  | .file b => .file (h.bytes b)
  | .dir _ k => .dir (HKids.deref h k)
def HKids.deref (h : Heap) : HKids → Kids
  | .nil => .nil
  | .cons n x rest => .cons n (HNode.deref h x) (HKids.deref h rest)
end

/-! ### Slices of `os.FileInfo`: append and remove -/

/-- `d.nodes = append(d.nodes, e)` where `d.nodes` is `(l, len)`: the heap and the (possibly new) array -/
def appendEntry (cfg : Cfg) (h : Heap) (l : BufId) (len : Nat) (e : Name × Bool) : Heap × BufId :=
  if cfg.realloc len 1 then h.allocL ((h.lists l).take len ++ [e])
  else (h.setL l ((h.lists l).take len ++ e :: (h.lists l).drop (len + 1)), l)

/-- the array after `append(a[:i], a[i+1:len]...)`: elements `i+1 … len-1` move one place down, the
old last element stays where it was (now behind the end of the slice) -/
def shiftOut (arr : Entries) (i len : Nat) : Entries :=
  arr.take i ++ (arr.take len).drop (i + 1) ++ arr.drop (len - 1)

/-- `f.data = append(f.data, p...)` -/
def appendBytes (cfg : Cfg) (h : Heap) (b : BufId) (p : Bytes) : Heap × BufId :=
  if cfg.realloc (h.bytes b).length p.length then h.allocB (h.bytes b ++ p)
  else (h.setB b (h.bytes b ++ p), b)

/-- a byte slice coming in (`WriteFile`): copied by the repaired code, kept by the old one -/
def takeIn (cfg : Cfg) (h : Heap) (data : BufId) : Heap × BufId :=
  if cfg.old then (h, data) else h.copyB data

/-- a byte slice going out (`ReadFile`): copied by the repaired code, the node's own by the old one -/
def handOut (cfg : Cfg) (h : Heap) (b : BufId) : Heap × BufId :=
  if cfg.old then (h, b) else h.copyB b

namespace HNode

/-- walk along a list of names; `[]` is the node itself -/
def lookup : HNode → List Name → Option HNode
  | n, [] => some n
  | .file _, _ :: _ => none
  | .dir _ k, s :: rest =>
    match k.find s with
    | none => none
    | some c => c.lookup rest

/-- `mkdirAllNodes`: every step is `Dir.mkdir` — reuse a directory, fail on a file, otherwise
`NewDir(name, …, []os.FileInfo{})` (a fresh empty array) appended to `d.nodes` -/
def mkdirs (cfg : Cfg) : Heap → HNode → List Name → Option (Heap × HNode)
  | _, .file _, _ => none
  | h, .dir l k, [] => some (h, .dir l k)
  | h, .dir l k, s :: rest =>
    match k.find s with
    | none =>
      let r1 := h.allocL []
      let r2 := appendEntry cfg r1.1 l k.length (s, true)
      match mkdirs cfg r2.1 (.dir r1.2 .nil) rest with
      | none => none
      | some (h', c') => some (h', .dir r2.2 (k.set s c'))
    | some c =>
      match mkdirs cfg h c rest with
      | none => none
      | some (h', c') => some (h', .dir l (k.set s c'))

/-- "obtain the `*Dir` at a path, then change it": `f` gets the heap, the directory's array and
content and returns the new ones; `none` when the path is not an existing directory or `f` refuses -/
def update : Heap → HNode → List Name → (Heap → BufId → HKids → Option (Heap × BufId × HKids))
    → Option (Heap × HNode)
  | _, .file _, _, _ => none
  | h, .dir l k, [], f =>
    match f h l k with
    | none => none
    | some (h', l', k') => some (h', .dir l' k')
  | h, .dir l k, s :: rest, f =>
    match k.find s with
    | none => none
    | some c =>
      match update h c rest f with
      | none => none
      | some (h', c') => some (h', .dir l (k.set s c'))

end HNode

/-! ### get_by_path.go -/

/-- `getNodeByPathNodes` (skips empty segments) -/
def getNodeByPathNodes : HNode → List Name → Option HNode
  | n, [] => some n
  | n, s :: rest =>
    if s = [] then getNodeByPathNodes n rest
    else match n with
      | .file _ => none
      | .dir _ k =>
        match k.find s with
        | none => none
        | some c => getNodeByPathNodes c rest

def getNodeByPath (d : HNode) (p : Bytes) : Option HNode :=
  if p = dotSeg then some d else getNodeByPathNodes d (split p)

/-- `getDirByPath`: the array and content of the directory -/
def getDirByPath (d : HNode) (p : Bytes) : Option (BufId × HKids) :=
  match getNodeByPath d p with
  | some (.dir l k) => some (l, k)
  | _ => none

/-- `getFileByPath`: the data array of the file -/
def getFileByPath (d : HNode) (p : Bytes) : Option BufId :=
  if p = dotSeg then none else
  match getNodeByPathNodes d (split p) with
  | some (.file b) => some b
  | _ => none

/-! ### copy.go: a deep copy allocates every array anew -/

mutual
def copyNode (h : Heap) : HNode → Heap × HNode
  | .file b =>
    let r := h.copyB b
    (r.1, .file r.2)
  | .dir _ k =>
    let r := h.allocL k.entries
    let r2 := copyKids r.1 k
    (r2.1, .dir r.2 r2.2)
def copyKids (h : Heap) : HKids → Heap × HKids
  | .nil => (h, .nil)
  | .cons n x rest =>
    let r := copyNode h x
    let r2 := copyKids r.1 rest
    (r2.1, .cons n r.2 r2.2)
end

/-! ### dir.go, remove.go -/

/-- `Dir.removeNodeByName`: shift inside the same array, forget the name -/
def removeNodeByName (h : Heap) (l : BufId) (k : HKids) (name : Name) : Option (Heap × BufId × HKids) :=
  match k.find name with
  | none => none
  | some _ => some (h.setL l (shiftOut (h.lists l) (k.indexOf name) k.length), l, k.erase name)

/-- what `removeNodeByNodePath` does inside the parent directory -/
def removeIn (name : Name) (emptyOnly : Bool) (h : Heap) (l : BufId) (k : HKids) :
    Option (Heap × BufId × HKids) :=
  if emptyOnly then
    match k.find name with
    | none => none
    | some (.file _) => removeNodeByName h l k name
    | some (.dir _ k2) => if k2.isEmpty then removeNodeByName h l k name else none
  else removeNodeByName h l k name

def removeNodeByPath (h : Heap) (t : HNode) (p : Bytes) (emptyOnly : Bool) : Option (Heap × HNode) :=
  let nodePath := split p
  match nodePath.getLast? with
  | none => none
  | some last => t.update h (realPath nodePath.dropLast) (removeIn last emptyOnly)

def mkdirAll (cfg : Cfg) (h : Heap) (t : HNode) (p : Bytes) : Option (Heap × HNode) :=
  match reduceAbsPath p with
  | none => none
  | some p' => if p' = [] then some (h, t) else t.mkdirs cfg h (split p')

/-- `Dir.addNode` of a node whose arrays are already in the heap -/
def addIn (cfg : Cfg) (name : Name) (x : HNode) (h : Heap) (l : BufId) (k : HKids) :
    Option (Heap × BufId × HKids) :=
  match k.find name with
  | some _ => none
  | none =>
    let r := appendEntry cfg h l k.length (name, x.isDir)
    some (r.1, r.2, k.set name x)

/-- `copyNode(src, name)` and then `destDir.addNode(copied)` -/
def copyIn (cfg : Cfg) (name : Name) (src : HNode) (h : Heap) (l : BufId) (k : HKids) :
    Option (Heap × BufId × HKids) :=
  let r := copyNode h src
  addIn cfg name r.2 r.1 l k

/-! ### filespace.go — the root filespace.  Every method returns the heap, the tree, the result and
the handles it hands to the caller. -/

/-- what a call answers: the observable result and the slices handed out -/
structure HRes where
  res : Result
  out : List BufId := []
  /-- for a listing handed out: the length of its slice header -/
  len : Nat := 0

namespace Root

/-- what `WriteFile` does inside the destination directory -/
def writeIn (cfg : Cfg) (name : Name) (data : BufId) (h : Heap) (l : BufId) (k : HKids) :
    Option (Heap × BufId × HKids) :=
  match k.find name with
  | none =>
    let r1 := takeIn cfg h data
    let r2 := appendEntry cfg r1.1 l k.length (name, false)
    some (r2.1, r2.2, k.set name (.file r1.2))
  | some (.file _) =>
    let r1 := takeIn cfg h data
    some (r1.1, l, k.set name (.file r1.2))
  | some (.dir ..) => none

def writeFile (cfg : Cfg) (h : Heap) (t : HNode) (raw : Bytes) (data : BufId) : (Heap × HNode) × Result :=
  match reduceAbsPath raw with
  | none => ((h, t), .err)
  | some p =>
    match splitContainsPath p with
    | none => ((h, t), .err)
    | some (dirPath, name) =>
      match t.mkdirs cfg h dirPath with
      | none => ((h, t), .err)
      | some (h1, t1) =>
        match t1.update h1 dirPath (writeIn cfg name data) with
        | none => ((h1, t1), .err)
        | some s2 => (s2, .ok)

/-- what `Writer` does inside the destination directory: a new file with `[]byte{}`, or the
existing file whose data becomes `[]byte{}` -/
def openIn (cfg : Cfg) (name : Name) (h : Heap) (l : BufId) (k : HKids) : Option (Heap × BufId × HKids) :=
  match k.find name with
  | none =>
    let r1 := h.allocB []
    let r2 := appendEntry cfg r1.1 l k.length (name, false)
    some (r2.1, r2.2, k.set name (.file r1.2))
  | some (.file _) =>
    let r1 := h.allocB []
    some (r1.1, l, k.set name (.file r1.2))
  | some (.dir ..) => none

def openWriter (cfg : Cfg) (h : Heap) (t : HNode) (raw : Bytes) : (Heap × HNode) × Option (List Name × Name) :=
  match reduceAbsPath raw with
  | none => ((h, t), none)
  | some p =>
    match splitContainsPath p with
    | none => ((h, t), none)
    | some (dirPath, name) =>
      match t.mkdirs cfg h dirPath with
      | none => ((h, t), none)
      | some (h1, t1) =>
        match t1.update h1 dirPath (openIn cfg name) with
        | none => ((h1, t1), none)
        | some s2 => (s2, some (dirPath, name))

/-- `FileHandler.Write(p)` inside the file's directory; `p` is the caller's buffer, only read -/
def writeChunkIn (cfg : Cfg) (name : Name) (chunk : BufId) (h : Heap) (l : BufId) (k : HKids) :
    Option (Heap × BufId × HKids) :=
  match k.find name with
  | some (.file b) =>
    let r := appendBytes cfg h b (h.bytes chunk)
    some (r.1, l, k.set name (.file r.2))
  | _ => none

def writeChunks (cfg : Cfg) (h : Heap) (t : HNode) (dir : List Name) (name : Name) :
    List BufId → Option (Heap × HNode)
  | [] => some (h, t)
  | c :: cs =>
    match t.update h dir (writeChunkIn cfg name c) with
    | none => none
    | some (h', t') => writeChunks cfg h' t' dir name cs

def writer (cfg : Cfg) (h : Heap) (t : HNode) (raw : Bytes) (chunks : List BufId) : (Heap × HNode) × Result :=
  match openWriter cfg h t raw with
  | (s1, none) => (s1, .err)
  | (s1, some (dir, name)) =>
    match writeChunks cfg s1.1 s1.2 dir name chunks with
    | none => (s1, .err)
    | some s2 => (s2, .ok)

def mkdirAll (cfg : Cfg) (h : Heap) (t : HNode) (raw : Bytes) : (Heap × HNode) × Result :=
  match reduceAbsPath raw with
  | none => ((h, t), .err)
  | some p =>
    match MemFSHeap.mkdirAll cfg h t p with
    | none => ((h, t), .err)
    | some s => (s, .ok)

def remove (h : Heap) (t : HNode) (raw : Bytes) : (Heap × HNode) × Result :=
  match reduceAbsPath raw with
  | none => ((h, t), .err)
  | some p =>
    match removeNodeByPath h t p true with
    | none => ((h, t), .err)
    | some s => (s, .ok)

def removeAll (h : Heap) (t : HNode) (raw : Bytes) : (Heap × HNode) × Result :=
  match reduceAbsPath raw with
  | none => ((h, t), .err)
  | some p =>
    match removeNodeByPath h t p false with
    | none => ((h, t), .err)
    | some s => (s, .ok)

/-- common body of `Copy`/`CopyDirectory`/`CopyFile` -/
def copyWith (cfg : Cfg) (accept : HNode → Bool) (h : Heap) (t : HNode) (rawSrc rawDst : Bytes) :
    (Heap × HNode) × Result :=
  match reduceAbsPath rawSrc with
  | none => ((h, t), .err)
  | some src =>
    match reduceAbsPath rawDst with
    | none => ((h, t), .err)
    | some dst =>
      match splitContainsPath dst with
      | none => ((h, t), .err)
      | some (dirPath, name) =>
        match getNodeByPath t src with
        | none => ((h, t), .err)
        | some srcNode0 =>
          if ¬ accept srcNode0 then ((h, t), .err) else
          match t.mkdirs cfg h dirPath with
          | none => ((h, t), .err)
          | some (h1, t1) =>
            -- the Go code holds a pointer to the source node: it copies the node as it is now
            match getNodeByPath t1 src with
            | none => ((h1, t1), .err)
            | some srcNode =>
              match t1.update h1 dirPath (copyIn cfg name srcNode) with
              | none => ((h1, t1), .err)
              | some s2 => (s2, .ok)

def copy (cfg : Cfg) := copyWith cfg (fun _ => true)
def copyDirectory (cfg : Cfg) := copyWith cfg HNode.isDir
def copyFile (cfg : Cfg) := copyWith cfg (fun n => !n.isDir)

/-- `ReadDir`: the repaired code hands out a fresh array holding the directory's entries, the old
code the directory's own array with the current length -/
def readDir (cfg : Cfg) (h : Heap) (t : HNode) (raw : Bytes) : Heap × HRes :=
  match reduceAbsPath raw with
  | none => (h, { res := .err })
  | some p =>
    match getDirByPath t p with
    | none => (h, { res := .err })
    | some (l, k) =>
      if cfg.old then (h, { res := .list ((h.lists l).take k.length), out := [l], len := k.length })
      else
        let r := h.allocL k.entries
        (r.1, { res := .list k.entries, out := [r.2], len := k.length })

def isExist (t : HNode) (raw : Bytes) : Result :=
  match reduceAbsPath raw with
  | none => .bool false
  | some p => .bool (getNodeByPath t p).isSome

def isFile (t : HNode) (raw : Bytes) : Result :=
  match reduceAbsPath raw with
  | none => .bool false
  | some p => .bool (getFileByPath t p).isSome

def isDir (t : HNode) (raw : Bytes) : Result :=
  match reduceAbsPath raw with
  | none => .bool false
  | some p => .bool (getDirByPath t p).isSome

def readFile (cfg : Cfg) (h : Heap) (t : HNode) (raw : Bytes) : Heap × HRes :=
  match reduceAbsPath raw with
  | none => (h, { res := .err })
  | some p =>
    match getFileByPath t p with
    | none => (h, { res := .err })
    | some b =>
      let r := handOut cfg h b
      (r.1, { res := .data (r.1.bytes r.2), out := [r.2] })

/-- `Reader`, one `Read` per size into a fresh caller buffer, `Close` -/
def reader (h : Heap) (t : HNode) (raw : Bytes) (sizes : List Nat) : Heap × HRes :=
  match reduceAbsPath raw with
  | none => (h, { res := .err })
  | some p =>
    match getFileByPath t p with
    | none => (h, { res := .err })
    | some b =>
      let chunks := readLoop (h.bytes b) 0 sizes
      let r := h.allocAll (chunks.map (·.1))
      (r.1, { res := .chunks chunks, out := r.2 })

def lstat (h : Heap) (t : HNode) (raw : Bytes) : Result :=
  match reduceAbsPath raw with
  | none => .err
  | some p =>
    match getNodeByPath t p with
    | none => .err
    | some (.file b) => .stat (MemFS.Root.nodeName p) false (h.bytes b).length
    | some (.dir ..) => .stat (MemFS.Root.nodeName p) true 0

end Root

/-! ### The 16 methods through a handle -/

/-- a call: the constructors of `FS.Op`, byte arguments as ids of caller buffers -/
inductive HCall where
  | copy (src dst : Bytes)
  | copyDirectory (src dst : Bytes)
  | copyFile (src dst : Bytes)
  | readDir (p : Bytes)
  | isExist (p : Bytes)
  | isFile (p : Bytes)
  | isDir (p : Bytes)
  | mkdirAll (p : Bytes)
  | readFile (p : Bytes)
  | writeFile (p : Bytes) (data : BufId)
  | filespace (p : Bytes)
  | reader (p : Bytes) (sizes : List Nat)
  | writer (p : Bytes) (chunks : List BufId)
  | remove (p : Bytes)
  | removeAll (p : Bytes)
  | lstat (p : Bytes)

/-- the caller buffers a call hands in -/
def HCall.args : HCall → List BufId
  | .writeFile _ d => [d]
  | .writer _ cs => cs
  | _ => []

/-- the value-level call it is, given what the buffers contain now -/
def HCall.toOp (h : Heap) : HCall → Op
  | .copy s d => .copy s d
  | .copyDirectory s d => .copyDirectory s d
  | .copyFile s d => .copyFile s d
  | .readDir p => .readDir p
  | .isExist p => .isExist p
  | .isFile p => .isFile p
  | .isDir p => .isDir p
  | .mkdirAll p => .mkdirAll p
  | .readFile p => .readFile p
  | .writeFile p d => .writeFile p (h.bytes d)
  | .filespace p => .filespace p
  | .reader p sizes => .reader p sizes
  | .writer p cs => .writer p (cs.map h.bytes)
  | .remove p => .remove p
  | .removeAll p => .removeAll p
  | .lstat p => .lstat p

/-- the path string the root filespace receives for a path given to handle `ref` (wraper.go:
reduce, then prepend the base path); `none` = the wrapper refuses it itself -/
def via (ref : FSRef) (raw : Bytes) : Option Bytes :=
  match ref with
  | .root => some raw
  | .wrap base => (reduceAbsPath raw).map (base ++ ·)

/-- the same for `Remove`/`RemoveAll`: a wrapper refuses its own root -/
def viaRm (ref : FSRef) (raw : Bytes) : Option Bytes :=
  match ref with
  | .root => some raw
  | .wrap base =>
    match reduceAbsPath raw with
    | none => none
    | some p => if p = [] then none else some (base ++ p)

def noOut (r : Result) : HRes := { res := r }

/-- one call through a handle -/
def callOn (cfg : Cfg) (ref : FSRef) (h : Heap) (t : HNode) : HCall → (Heap × HNode) × HRes
  | .copy s d =>
    match via ref s, via ref d with
    | some s', some d' => let r := Root.copy cfg h t s' d'; (r.1, noOut r.2)
    | _, _ => ((h, t), noOut .err)
  | .copyDirectory s d =>
    match via ref s, via ref d with
    | some s', some d' => let r := Root.copyDirectory cfg h t s' d'; (r.1, noOut r.2)
    | _, _ => ((h, t), noOut .err)
  | .copyFile s d =>
    match via ref s, via ref d with
    | some s', some d' => let r := Root.copyFile cfg h t s' d'; (r.1, noOut r.2)
    | _, _ => ((h, t), noOut .err)
  | .readDir p =>
    match via ref p with
    | some p' => let r := Root.readDir cfg h t p'; ((r.1, t), r.2)
    | none => ((h, t), noOut .err)
  | .isExist p =>
    match via ref p with
    | some p' => ((h, t), noOut (Root.isExist t p'))
    | none => ((h, t), noOut (.bool false))
  | .isFile p =>
    match via ref p with
    | some p' => ((h, t), noOut (Root.isFile t p'))
    | none => ((h, t), noOut (.bool false))
  | .isDir p =>
    match via ref p with
    | some p' => ((h, t), noOut (Root.isDir t p'))
    | none => ((h, t), noOut (.bool false))
  | .mkdirAll p =>
    match via ref p with
    | some p' => let r := Root.mkdirAll cfg h t p'; (r.1, noOut r.2)
    | none => ((h, t), noOut .err)
  | .readFile p =>
    match via ref p with
    | some p' => let r := Root.readFile cfg h t p'; ((r.1, t), r.2)
    | none => ((h, t), noOut .err)
  | .writeFile p d =>
    match via ref p with
    | some p' => let r := Root.writeFile cfg h t p' d; (r.1, noOut r.2)
    | none => ((h, t), noOut .err)
  | .filespace p => ((h, t), noOut (if (openView ref p).isSome then .ok else .err))
  | .reader p sizes =>
    match via ref p with
    | some p' => let r := Root.reader h t p' sizes; ((r.1, t), r.2)
    | none => ((h, t), noOut .err)
  | .writer p cs =>
    match via ref p with
    | some p' => let r := Root.writer cfg h t p' cs; (r.1, noOut r.2)
    | none => ((h, t), noOut .err)
  | .remove p =>
    match viaRm ref p with
    | some p' => let r := Root.remove h t p'; (r.1, noOut r.2)
    | none => ((h, t), noOut .err)
  | .removeAll p =>
    match viaRm ref p with
    | some p' => let r := Root.removeAll h t p'; (r.1, noOut r.2)
    | none => ((h, t), noOut .err)
  | .lstat p =>
    match via ref p with
    | some p' => ((h, t), noOut (Root.lstat h t p'))
    | none => ((h, t), noOut .err)

/-! ### The world: filespace side and caller side -/

/-- something the caller holds: a byte slice, or a slice of `os.FileInfo` with its length -/
inductive Handle where
  | buf (id : BufId)
  | listing (id : BufId) (len : Nat)
deriving DecidableEq, Repr

def Handle.id : Handle → BufId
  | .buf id => id
  | .listing id _ => id

/-- what the caller sees through a handle -/
def view (h : Heap) : Handle → Result
  | .buf id => .data (h.bytes id)
  | .listing id len => .list ((h.lists id).take len)

/-- the caller writes element `i`: `buf[i] = byte(b)`, or `l[i] = l[b % len(l)]` -/
def mutateHandle (h : Heap) (hd : Handle) (i b : Nat) : Option Heap :=
  match hd with
  | .buf id =>
    if i < (h.bytes id).length then some (h.setB id ((h.bytes id).set i (UInt8.ofNat b))) else none
  | .listing id len =>
    if i < len then
      match ((h.lists id).take len)[b % len]? with
      | some e => some (h.setL id ((h.lists id).set i e))
      | none => none
    else none

structure HWorld where
  heap : Heap
  root : HNode
  /-- handle 0 is the root filespace, further handles are child views -/
  views : List FSRef
  /-- everything the caller holds -/
  held : List Handle

def HWorld.init : HWorld := ⟨(Heap.empty.allocL []).1, .dir 0 .nil, [.root], []⟩

instance : Inhabited HWorld := ⟨HWorld.init⟩

inductive HOp where
  /-- the caller makes a buffer -/
  | alloc (data : Bytes)
  /-- the caller writes into something it holds -/
  | mutate (hd : Handle) (i b : Nat)
  /-- probe: is the handle (still) held -/
  | keep (hd : Handle)
  /-- probe: what the handle shows now -/
  | recheck (hd : Handle)
  /-- a filespace method through handle number `n` -/
  | call (n : Nat) (c : HCall)

/-- the handles a call hands out -/
def outHandles (c : HCall) (r : HRes) : List Handle :=
  match c with
  | .readDir _ => r.out.map fun id => .listing id r.len
  | _ => r.out.map .buf

/-- the open handles after a call through `ref` -/
def viewsAfter (views : List FSRef) (ref : FSRef) : HCall → List FSRef
  | .filespace p =>
    match openView ref p with
    | some v => views ++ [v]
    | none => views
  | _ => views

/-- one step of the world.  The caller can only name what it holds: a step that refers to anything
else is refused (`err`) and changes nothing. -/
def HWorld.step (cfg : Cfg) (w : HWorld) : HOp → HWorld × HRes
  | .alloc d =>
    let r := w.heap.allocB d
    ({ w with heap := r.1, held := .buf r.2 :: w.held }, { res := .ok, out := [r.2] })
  | .mutate hd i b =>
    if hd ∈ w.held then
      match mutateHandle w.heap hd i b with
      | some h' => ({ w with heap := h' }, noOut .ok)
      | none => (w, noOut .err)
    else (w, noOut .err)
  | .keep hd => (w, noOut (if hd ∈ w.held then .ok else .err))
  | .recheck hd => (w, noOut (if hd ∈ w.held then view w.heap hd else .err))
  | .call n c =>
    match w.views[n]? with
    | none => (w, noOut .err)
    | some ref =>
      if c.args.all (fun id => Handle.buf id ∈ w.held) then
        let r := callOn cfg ref w.heap w.root c
        ({ heap := r.1.1, root := r.1.2, views := viewsAfter w.views ref c,
           held := outHandles c r.2 ++ w.held }, r.2)
      else (w, noOut .err)

/-- a whole history: the final world and every result, in order -/
def HWorld.run (cfg : Cfg) (w : HWorld) : List HOp → HWorld × List HRes
  | [] => (w, [])
  | op :: rest =>
    let r := w.step cfg op
    let r2 := HWorld.run cfg r.1 rest
    (r2.1, r.2 :: r2.2)

end MemFSHeap
end Goat
