/-
Model for property C15 — `commservices.SharedMutex` (named resource locks).

Go code mirrored (`/repo/app/modules/commonm/commservices/mutex/{mutex,mutex_hander}.go`):

    func (sm *SharedMutex) Lock(resources LockMap) UnlockHandler {
        list := rows of the map                       -- Go map iteration order: arbitrary
        sort.SliceStable(list, by Name)               -- `sortRows`
        for _, row := range list {                    -- `PC.acq k _`, k = rows already acquired
            mu := sm.get(row.Name)                    -- one *sync.RWMutex per name, created on demand
            if row.Value == LockR { mu.RLock() } else { mu.Lock() }
        }
        return &unlockHandler{list}                   -- `PC.inside` : the caller's critical section
    }
    func (h *unlockHandler) Unlock() {                -- `PC.rel u`, u = rows already released,
        for _, row := range h.list { … mu.RUnlock() / mu.Unlock() }   -- same (sorted) order
    }                                                 -- `PC.done`

and of `sync.RWMutex` (modelled, not verified — trusted base), in two variants:

  * `Variant.plain` — an ideal readers/writer lock: a reader is admitted unless a writer holds the
    lock, a writer is admitted when nobody holds it.
  * `Variant.pref`  — the Go runtime's lock (writer preference):
        Lock   = take the internal writer mutex `w` (at most one writer past this point), *announce*
                 (readerCount -= max), then wait until the readers that were inside have left;
        RLock  = register (readerCount++); if a writer has announced (or holds the lock) the reader
                 is parked and is admitted by that writer's `Unlock`;
        Unlock = admit every parked reader at once (readerCount += max; release readerSem r times),
                 then release `w`.
    In the model: writer `idle --announce (w free)--> announced --(no reader inside)--> acquired`,
    reader `idle --(no writer announced or holding)--> acquired` or `idle --> rwait`, and the step that
    releases a write row moves every holder that is in `rwait` on that name to `acquired` (they hold
    the read lock from that instant on, exactly as in Go, so a writer announcing next waits for them).

The lock table is not stored: the state of the lock named `m` is a function of the holders'
program counters (who holds `m` in which mode, who has announced, who is parked), which is what a
`sync.RWMutex` records in `w`, `readerCount`, `readerWait`.

Resource names are natural numbers (the rank of the Go string in byte-wise order; the driver does
the ranking).  Core Lean only.
-/
import Goat.Base.Bytes
import Goat.Base.LTS

namespace Goat.Mutex

/-! ### Lock maps -/

abbrev Name := Nat

/-- one row of a lock map: resource name and access (`true` = `LockRW`, `false` = `LockR`) -/
abbrev Row := Name × Bool

/-- a Go `LockMap` as the list of its rows in map-iteration order (arbitrary; keys are distinct) -/
abbrev LockMap := List Row

/-- keys of a Go map are distinct -/
def NodupNames (m : LockMap) : Prop := (m.map Prod.fst).Nodup

/-- rows in strictly increasing order of name -/
def Sorted (req : List Row) : Prop := (req.map Prod.fst).Pairwise (· < ·)

def insertRow (r : Row) : List Row → List Row
  | [] => [r]
  | x :: xs => if r.1 ≤ x.1 then r :: x :: xs else x :: insertRow r xs

/-- `sort.SliceStable(list, func(i, j) bool { return list[i].Name < list[j].Name })` -/
def sortRows : List Row → List Row
  | [] => []
  | r :: rs => insertRow r (sortRows rs)

/-- two lock maps name a common resource and at least one of them asks for write access;
returns the first such name of `a` -/
def conflictRows (a b : List Row) : Option Name :=
  (a.find? fun ra => b.any fun rb => ra.1 == rb.1 && (ra.2 || rb.2)).map Prod.fst

/-! ### Holders -/

inductive Phase
  | idle        -- about to call RLock/Lock on the next row (or blocked on the writer mutex `w`)
  | announced   -- writer: owns `w`, has announced, waits for the readers inside to leave
  | rwait       -- reader: registered while a writer was present, parked until that writer unlocks
  deriving DecidableEq, Repr

inductive PC
  | acq (k : Nat) (ph : Phase)   -- inside `SharedMutex.Lock`, `k` rows acquired
  | inside                        -- `Lock` has returned: the critical section
  | rel (u : Nat)                 -- inside `Unlock`, `u` rows released
  | done
  deriving DecidableEq, Repr

structure Holder where
  req : List Row      -- rows in acquisition order (sorted when built by `mkHolder`)
  pc  : PC
  deriving DecidableEq, Repr

abbrev State := List Holder

/-- the rows a holder currently holds -/
def Holder.held (h : Holder) : List Row :=
  match h.pc with
  | .acq k _ => h.req.take k
  | .inside => h.req
  | .rel u => h.req.drop u
  | .done => []

/-- the writer `h` has announced itself on lock `m` and waits for the readers to drain -/
def Holder.announcedOn (h : Holder) (m : Name) : Bool :=
  match h.pc with
  | .acq k .announced => h.req[k]? == some (m, true)
  | _ => false

/-- the reader `h` is parked on lock `m` -/
def Holder.rwaitOn (h : Holder) (m : Name) : Bool :=
  match h.pc with
  | .acq k .rwait => h.req[k]? == some (m, false)
  | _ => false

/-- `h` owns the writer side of lock `m` (announced or holding): `readerCount < 0` in Go -/
def Holder.present (h : Holder) (m : Name) : Bool :=
  h.announcedOn m || h.held.contains (m, true)

def writeHeld (s : State) (m : Name) : Bool := s.any fun h => h.held.contains (m, true)
def readHeld (s : State) (m : Name) : Bool := s.any fun h => h.held.contains (m, false)
def writerPresent (s : State) (m : Name) : Bool := s.any fun h => h.present m

/-! ### Steps of one holder -/

inductive Variant
  | plain
  | pref
  deriving DecidableEq, Repr

/-- ideal RW lock.  `none`: the holder is blocked (or finished). -/
def stepPlain (s : State) (h : Holder) : Option Holder :=
  match h.pc with
  | .acq k _ =>
    match h.req[k]? with
    | none => some { h with pc := .inside }
    | some (m, true) =>
      if writeHeld s m || readHeld s m then none else some { h with pc := .acq (k + 1) .idle }
    | some (m, false) =>
      if writeHeld s m then none else some { h with pc := .acq (k + 1) .idle }
  | .inside => some { h with pc := .rel 0 }
  | .rel u =>
    match h.req[u]? with
    | none => some { h with pc := .done }
    | some _ => some { h with pc := .rel (u + 1) }
  | .done => none

/-- Go's `sync.RWMutex`.  Returns the holder's new state and, when a write row was released,
the name whose parked readers are admitted. -/
def stepPref (s : State) (h : Holder) : Option (Holder × Option Name) :=
  match h.pc with
  | .acq k ph =>
    match h.req[k]? with
    | none => some ({ h with pc := .inside }, none)
    | some (m, true) =>
      match ph with
      | .announced =>
        if readHeld s m then none else some ({ h with pc := .acq (k + 1) .idle }, none)
      | _ =>
        if writerPresent s m then none else some ({ h with pc := .acq k .announced }, none)
    | some (m, false) =>
      match ph with
      | .rwait => none
      | _ =>
        if writerPresent s m then some ({ h with pc := .acq k .rwait }, none)
        else some ({ h with pc := .acq (k + 1) .idle }, none)
  | .inside => some ({ h with pc := .rel 0 }, none)
  | .rel u =>
    match h.req[u]? with
    | none => some ({ h with pc := .done }, none)
    | some (m, w) => some ({ h with pc := .rel (u + 1) }, if w then some m else none)
  | .done => none

/-- a writer's `Unlock` of `m` admits the reader `h` if it is parked on `m` -/
def wake (m : Name) (h : Holder) : Holder :=
  if h.rwaitOn m then
    match h.pc with
    | .acq k _ => { h with pc := .acq (k + 1) .idle }
    | _ => h
  else h

def wakeAll : Option Name → State → State
  | none, s => s
  | some m, s => s.map (wake m)

/-- scheduling choice `i`: holder number `i` makes its next step (disabled when blocked/finished) -/
def step (v : Variant) (s : State) (i : Nat) : Option State :=
  match s[i]? with
  | none => none
  | some h =>
    match v with
    | .plain => (stepPlain s h).map fun h' => s.set i h'
    | .pref => (stepPref s h).map fun (h', o) => wakeAll o (s.set i h')

/-- initial state for given acquisition orders (no sorting: `SharedMutex.Lock` *without* its sort) -/
def initRaw (reqs : List (List Row)) : State := reqs.map fun r => { req := r, pc := .acq 0 .idle }

/-- initial state of `n = maps.length` holders calling `SharedMutex.Lock(maps[i])` -/
def init (maps : List LockMap) : State := initRaw (maps.map sortRows)

/-- the transition system without the sort -/
def sysRaw (v : Variant) (reqs : List (List Row)) : LTS.Sys State Nat :=
  { init := initRaw reqs, step := step v }

/-- the transition system of `SharedMutex` used by `maps.length` holders -/
def sys (v : Variant) (maps : List LockMap) : LTS.Sys State Nat := sysRaw v (maps.map sortRows)

def Holder.finished (h : Holder) : Bool := h.pc == .done
def Holder.isInside (h : Holder) : Bool := h.pc == .inside

/-! ### Interval monitor (run on traces recorded from the real `SharedMutex`)

An interval says: holder `holder` held every row of `rows` at every instant between the sequence
numbers `enter` and `exit` (both drawn from one global atomic counter; `enter` is drawn *after*
`Lock` returned, `exit` *before* `Unlock` is called, so recorded intervals are sub-intervals of the
real holding times and two recorded intervals that intersect prove simultaneous holding). -/

structure Interval where
  holder : Nat
  rows   : List Row
  enter  : Nat
  exit   : Nat
  deriving Repr

def overlap (x y : Interval) : Bool := x.enter < y.exit && y.enter < x.exit

/-- `x` and `y` belong to different holders that were inside together although their maps conflict -/
def bad (x y : Interval) : Bool :=
  x.holder != y.holder && (overlap x y && (conflictRows x.rows y.rows).isSome)

/-- first pair of intervals that violates exclusion (positions in the list and the name) -/
def monitorFrom (base : Nat) : List Interval → Option (Nat × Nat × Name)
  | [] => none
  | x :: rest =>
    match rest.findIdx? (bad x) with
    | some d => some (base, base + 1 + d, ((rest[d]?).bind fun y => conflictRows x.rows y.rows).getD 0)
    | none => monitorFrom (base + 1) rest

def monitor (ivs : List Interval) : Option (Nat × Nat × Name) := monitorFrom 0 ivs

/-! ### `markBoolMapForNamespace` (pipc/helpers.go): parsing the `rlock` / `wlock` lists -/

def cutset : Bytes := [10, 9, 32]      -- "\n\t "

/-- `strings.Trim(row, cutset)` -/
def trim (b : Bytes) : Bytes :=
  ((b.dropWhile cutset.contains).reverse.dropWhile cutset.contains).reverse

/-- `strings.Split(s, ",")` (always at least one element) -/
def splitComma (b : Bytes) : List Bytes :=
  let rec go : Bytes → Bytes → List Bytes
    | [], cur => [cur.reverse]
    | c :: rest, cur => if c = 44 then cur.reverse :: go rest [] else go rest (c :: cur)
  go b []

def isNameStart (c : Byte) : Bool := (97 ≤ c && c ≤ 122) || (65 ≤ c && c ≤ 90) || c = 95
def isNameChar (c : Byte) : Bool := isNameStart c || (48 ≤ c && c ≤ 57)

/-- `namePattern = ^[a-zA-Z_]+[a-zA-Z0-9_]*$` -/
def nameOK : Bytes → Bool
  | [] => false
  | c :: rest => isNameStart c && rest.all isNameChar

/-- `dest[key] = value` on an association list (first occurrence is the entry) -/
def assign (key : Bytes) (value : Bool) : List (Bytes × Bool) → List (Bytes × Bool)
  | [] => [(key, value)]
  | (k, v) :: rest => if k = key then (k, value) :: rest else (k, v) :: assign key value rest

/-- the loop of `markBoolMapForNamespace` over the split rows; `none` = the error return -/
def markRows (ns : Bytes) (value : Bool) : List Bytes → List (Bytes × Bool) → Option (List (Bytes × Bool))
  | [], dest => some dest
  | row :: rows, dest =>
    let row := trim row
    match row with
    | 64 :: name =>          -- '@': global resource, the key keeps the '@'
      if nameOK name then markRows ns value rows (assign row value dest) else none
    | _ =>
      if nameOK row then markRows ns value rows (assign (ns ++ row) value dest) else none

def markBoolMapForNamespace (keys ns : Bytes) (value : Bool) (dest : List (Bytes × Bool)) :
    Option (List (Bytes × Bool)) :=
  markRows ns value (splitComma keys) dest

/-- the lock map `pipc.Run` hands to the runner for `--rlock=… --wlock=…` in lock namespace `ns`
(`none` = the command fails) -/
def parseLocks (ns rlock wlock : Bytes) : Option (List (Bytes × Bool)) := do
  let d ← if rlock = [] then some [] else markBoolMapForNamespace rlock ns false []
  if wlock = [] then some d else markBoolMapForNamespace wlock ns true d

end Goat.Mutex
