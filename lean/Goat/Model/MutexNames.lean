/-
Model for property C15 — under which NAME a resource of `pip:run --rlock=… --wlock=…` is locked.

Go code mirrored:

  * `pipservices/namespaces.NewSubNamespaces(parent, params)` — `subNamespaces`: each of the two components
    (task, lock) is `parent + ":" + params` when both are non-empty, else the non-empty one;
  * `tasks.TaskManager.Create(pip)`: the scope of the new task gets
    `NewSubNamespaces(pip.Namespaces, {Task: pip.Name})` — `taskNamespaces`: the TASK namespace grows by the
    task's name, the LOCK namespace is inherited unchanged;
  * `pipc.Run`: `scpNamespaces = NamespacesUnit.FromScope(ctx.Scope(), default {"" ""})`, the lock names are
    `markBoolMapForNamespace(list, scpNamespaces.Lock(), …)` (`Goat.Mutex.parseLocks`: plain concatenation
    `lock namespace ++ name`, `@name` stays global), and the Pip it submits carries `scpNamespaces`.

So the resources of a `pip:run` in the body of task `parent` are named in the lock namespace `parent` was
created with, whatever the task names on the way are.  Core Lean only.
-/
import Goat.Model.Mutex

namespace Goat.Mutex

structure Namespaces where
  task : Bytes
  lock : Bytes
  deriving DecidableEq, Repr

/-- one component of `NewSubNamespaces` -/
def subName (parent param : Bytes) : Bytes :=
  if parent = [] then param else if param = [] then parent else parent ++ 58 :: param   -- ':'

/-- `namespaces.NewSubNamespaces(parent, params)` -/
def subNamespaces (parent params : Namespaces) : Namespaces :=
  { task := subName parent.task params.task, lock := subName parent.lock params.lock }

/-- the namespaces defined on the scope of the task `name` that a Pip with namespaces `p` creates -/
def taskNamespaces (p : Namespaces) (name : Bytes) : Namespaces := subNamespaces p ⟨name, []⟩

/-- the lock map `pip:run --rlock=rlock --wlock=wlock` builds when run in a scope with namespaces `scp` -/
def runLocks (scp : Namespaces) (rlock wlock : Bytes) : Option (List (Bytes × Bool)) :=
  parseLocks scp.lock rlock wlock

/-- … when run in the body of the task `parent` that a Pip with namespaces `p` created -/
def nestedLocks (p : Namespaces) (parent rlock wlock : Bytes) : Option (List (Bytes × Bool)) :=
  runLocks (taskNamespaces p parent) rlock wlock

end Goat.Mutex
