/-
Model for property C15, second layer — the holders of the shared mutex are pipeline TASKS.

Go code mirrored (`/repo/app/modules/pipelinem/pipservices/runner/runner.go`, with
`tasks/manager.go: validWaitList` and `tasks/task.go`):

    func (runner *Runner) runGo(tasksManager, sandbox, task) {
        defer task.Close()                                   -- completion latch: runs LAST
        …
        if err = runner.waitForTasks(task, tasksManager); err != nil { … return }
                                                             -- `Stage.waiting k` → `.aborted`
        unlockHandler = runner.deps.SharedMutex.Lock(task.LockMap())   -- `Stage.running`, PC.acq …
        defer unlockHandler.Unlock()                         -- PC.rel … runs BEFORE task.Close
        … sandbox.Run(childCtx) … childCtx.Scope().Wait() …  -- PC.inside: the body
    }
    func (runner *Runner) waitForTasks(task, tasksManager) error {
        for _, taskName := range task.WaitList() {           -- k = entries already awaited
            relatedTask, ok = tasksManager.Get(taskName)     -- exists: `validWaitList` at Create
            if err = relatedTask.Wait(); err != nil { return err }     -- blocks until it is *finished*
            if len(relatedTask.Errors()) != 0 { return error }         -- a failed prerequisite
        }
        return nil
    }

A task is *finished* when `task.Close()` has run, which — deferred first — is after the deferred
`Unlock`: a finished task holds nothing.  A wait list can only name tasks that already exist when
the task is created (`validWaitList` rejects unknown names), i.e. tasks with a smaller index:
`WellFormed`.

State.  The lock table is the `Mutex.State` of the first layer, one entry per task.  A task that
has not yet called `SharedMutex.Lock` (it is still in `waitForTasks`, or it returned with the error)
is not a holder: its entry is *inert* — it stands at `PC.done`, which holds nothing, announces
nothing, is parked nowhere — and `stage` says where the task really is.  Calling `Lock` turns the
entry into a fresh holder (`PC.acq 0 .idle`); from there on the steps are exactly the steps of the
first layer (`Mutex.step`, both lock variants).

Two systems:
  * `tsys`        — the order of the code: wait for the prerequisites, THEN take the lock map;
  * `tsysSwapped` — the lock map first, then `waitForTasks` while holding it (what the property
                    forbids: `lock_before_wait_can_deadlock`).
Core Lean only.
-/
import Goat.Model.Mutex

namespace Goat.MutexTasks

open Goat.Mutex

/-- one submitted pipeline task -/
structure Task where
  waits : List Nat          -- `Pip.Wait`: indices of the tasks it waits for
  map   : LockMap           -- `Pip.Lock`
  fails : Bool := false     -- its body ends with an error (`Errors()` not empty afterwards)
  deriving Repr, DecidableEq

/-- a wait list names earlier tasks only (`validWaitList` at `Create`: every name must exist) -/
def WellFormed (tasks : List Task) : Prop :=
  ∀ (i : Nat) (t : Task), tasks[i]? = some t → ∀ j ∈ t.waits, j < i

inductive Stage
  | waiting (k : Nat)   -- in `waitForTasks`, `k` entries of the wait list already awaited
  | running             -- `waitForTasks` returned nil: `SharedMutex.Lock` … body … `Unlock` (see the lock table)
  | aborted             -- `waitForTasks` returned an error: the task ended without calling `Lock`
  deriving DecidableEq, Repr

structure TState where
  lock  : State
  stage : List Stage
  deriving Repr, DecidableEq

/-! ### the order of the code: wait, then lock -/

/-- task `j` has ended (`task.Close()` has run: `Wait()` on it returns) -/
def finishedAt (ts : TState) (j : Nat) : Bool :=
  match ts.stage[j]? with
  | some .aborted => true
  | some .running => (match ts.lock[j]? with | some h => h.pc == .done | none => false)
  | _ => false

/-- `len(relatedTask.Errors()) != 0` for a task that has ended -/
def failedAt (tasks : List Task) (ts : TState) (j : Nat) : Bool :=
  match ts.stage[j]? with
  | some .aborted => true
  | _ => (match tasks[j]? with | some t => t.fails | none => false)

/-- the entry of task `i` becomes a fresh holder: `SharedMutex.Lock` is called -/
def activate (s : State) (i : Nat) : State :=
  match s[i]? with
  | some h => s.set i { h with pc := .acq 0 .idle }
  | none => s

/-- scheduling choice `i`: task `i` makes its next step -/
def step (v : Variant) (tasks : List Task) (ts : TState) (i : Nat) : Option TState :=
  match tasks[i]?, ts.stage[i]? with
  | some t, some (.waiting k) =>
    match t.waits[k]? with
    | none => some { lock := activate ts.lock i, stage := ts.stage.set i .running }
    | some j =>
      if finishedAt ts j then
        some { ts with stage := ts.stage.set i (if failedAt tasks ts j then .aborted else .waiting (k + 1)) }
      else none
  | some _, some .running => (Mutex.step v ts.lock i).map fun l => { ts with lock := l }
  | _, _ => none

/-- the inert lock-table entry of a task that has not called `Lock` -/
def inertHolder (t : Task) : Holder := { req := sortRows t.map, pc := .done }

def init (tasks : List Task) : TState :=
  { lock := tasks.map inertHolder, stage := tasks.map fun _ => .waiting 0 }

/-- the transition system of `tasks.length` pipeline tasks run by `Runner.runGo` -/
def tsys (v : Variant) (tasks : List Task) : LTS.Sys TState Nat :=
  { init := init tasks, step := step v tasks }

/-! ### the swapped order: lock, then wait -/

/-- in the swapped system every task is a holder from the start; ended = its entry is done -/
def swFinishedAt (ts : TState) (j : Nat) : Bool :=
  match ts.lock[j]? with
  | some h => h.pc == .done
  | none => false

/-- `Lock(map)` first; once inside, `waitForTasks` (one step per entry) while holding the map; then the
body (`Stage.running`) or the error return (`Stage.aborted`), then the deferred `Unlock` -/
def stepSwapped (v : Variant) (tasks : List Task) (ts : TState) (i : Nat) : Option TState :=
  match tasks[i]?, ts.stage[i]?, ts.lock[i]? with
  | some t, some st, some h =>
    if h.pc == .inside then
      match st with
      | .waiting k =>
        match t.waits[k]? with
        | none => some { ts with stage := ts.stage.set i .running }
        | some j =>
          if swFinishedAt ts j then
            some { ts with stage := ts.stage.set i (if failedAt tasks ts j then .aborted else .waiting (k + 1)) }
          else none
      | _ => (Mutex.step v ts.lock i).map fun l => { ts with lock := l }
    else (Mutex.step v ts.lock i).map fun l => { ts with lock := l }
  | _, _, _ => none

def initSwapped (tasks : List Task) : TState :=
  { lock := Mutex.init (tasks.map (·.map)), stage := tasks.map fun _ => .waiting 0 }

def tsysSwapped (v : Variant) (tasks : List Task) : LTS.Sys TState Nat :=
  { init := initSwapped tasks, step := stepSwapped v tasks }

/-! ### monitor for traces of the real runner: a body starts only after its prerequisites' bodies ended

`ivs` are the recorded critical sections (`Mutex.Interval`, `holder` = task index; `enter` is drawn
inside the body after it started, `exit` inside the body before it returns, both from one global
counter).  If the runner respects wait lists, the body of a prerequisite has returned before the
body of the dependent task starts, hence `exit(prerequisite) < enter(dependent)`. -/

/-- the prerequisite `j` of an interval of task `i` is violated: `j` recorded no interval that ended
before this one began -/
def earlyFor (ivs : List Interval) (x : Interval) (j : Nat) : Bool :=
  !(ivs.any fun y => y.holder == j && y.exit < x.enter)

/-- first (task, prerequisite) pair whose order is violated -/
def orderMonitor (waits : List (List Nat)) (ivs : List Interval) : Option (Nat × Nat) :=
  ivs.findSome? fun x =>
    ((waits.getD x.holder []).find? fun j => earlyFor ivs x j).map fun j => (x.holder, j)

/-- first (task, prerequisite) pair such that the task recorded a body although the body of the
prerequisite is one that fails: `waitForTasks` must have returned the error instead -/
def failMonitor (waits : List (List Nat)) (fails : List Bool) (ivs : List Interval) : Option (Nat × Nat) :=
  ivs.findSome? fun x =>
    ((waits.getD x.holder []).find? fun j => fails.getD j false).map fun j => (x.holder, j)

end Goat.MutexTasks
