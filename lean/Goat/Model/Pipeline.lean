/-
Model of the pipeline runner and of `pip:try` (properties C14 and C16).

Mirrors (control flow only, no I/O):
  /repo/app/modules/pipelinem/pipservices/runner/runner.go      Runner.Run / runGo / waitForTasks
  /repo/app/modules/pipelinem/pipservices/tasks/manager.go      TaskManager.Create / validWaitList / Wait
  /repo/app/modules/pipelinem/pipservices/tasks/task.go         completion latch (Task.wg), Task.Wait
  /repo/app/modules/pipelinem/pipcommands/pipc/run.go, try.go   nested submission, the try block
  /repo/app/terminal/termexec/run.go                            RunLoop / RunCommand (sequential commands,
                                                                stop at first failure, stop when the context is done)
  /repo/app/scope, /repo/app/scope/contextscope                 shared context = one error flag per context

A *graph* is the static description of everything that may be submitted: tasks (wait list, body),
try blocks, and the order in which the harness main thread submits the top-level tasks.  The
dynamic system is a labelled transition system (`Goat.LTS`): the threads are the main thread, one
runner goroutine per accepted task and one goroutine per try block; a schedule is any list of
labels, a label whose thread cannot move is skipped.  Every observable action appends one event to
the trace kept in the state; the events are exactly the lines of the `trace` protocol
(`Driver/Pipeline.lean`, `harness/cmd/pipeline`).  The try goroutine records the outcome of each
`Runner.Run` of a handler (`hacc` / `hrej`); the harness sees them through a recording wrapper around
the `PipRunner` service.  The last part of the file is the model under a STEERING policy of the
harness's gate controller (`sysS`, `sysC`): one handler of a try block held in its first command.

Atomicity choices (documented deviations, all on the side of *fewer* instants, never other values):
* releasing the completion latch, closing the task scope and the `done` event are one step;
* a failing command's `ret … err` event and the `AppendError` that follows it in `RunLoop` are one step;
* `catchErr` of the try goroutine is read as "the body task closed with an error" (the body's
  context is private to the body and its descendants, which have all closed by then);
* the lock map step (`SharedMutex.Lock`) is property C15's and is skipped here (empty lock maps).

Core Lean only (this file is linked into the `m_pipeline` driver).
-/
import Goat.Base.LTS

namespace Goat.Pipeline

/-! ### Static description -/

/-- one command of a body script -/
inductive Cmd where
  | probe                 -- succeeds (harness: probe:begin / probe:end / probe:gate)
  | fail                  -- RunLoop fails here: the command returns an error (harness: probe:fail), its name is UNKNOWN
                          --   (RunCommand: "unknown command"), or its text cannot be read (it ends inside a quoted
                          --   argument / an unterminated multi-line value); in all three cases RunLoop appends the error
                          --   to the scope and returns.  For the last two the harness records the `cmd` / `ret … err`
                          --   events from a marker command on the line before.
  | stop                  -- returns nil after `Scope.Stop()` on the scope it runs in: the context is done WITHOUT an
                          --   error (harness: probe:stop).  Only in a context of its own (`isolated`): the body of a
                          --   try block without nested submissions.
  | spawn (c : Nat)       -- `pip:run --name=<c> --wait=… --body=…` : nested submission of task c
  | try_ (y : Nat)        -- `pip:try --name=<y> …`
deriving DecidableEq, Repr

/-- who submits a task -/
inductive Role where
  | top                   -- the harness main thread, `Runner.Run` directly
  | child (p i : Nat)     -- command `i` of the body of `p` (a `spawn`)
  | tbody (y : Nat)       -- body task of try block `y`
  | hsucc (y : Nat) | hfail (y : Nat) | hfin (y : Nat)   -- handlers of try block `y`
deriving DecidableEq, Repr

structure TaskDef where
  role  : Role
  depth : Nat             -- nesting depth (top = 0)
  ctx   : Nat             -- context (error list) the task's scope shares: 0 = root, y+1 = body of try y
  waits : List Nat        -- wait list, in order; an id that is never accepted = an unknown name
  body  : List Cmd
deriving Repr

structure TryDef where
  owner : Nat             -- task whose body contains the `pip:try`
  idx   : Nat             -- at which command index
  body  : Nat             -- body task
  succ  : Option Nat
  fail  : Option Nat
  fin   : Option Nat
deriving Repr

structure Graph where
  tasks : List TaskDef
  tries : List TryDef
  top   : List Nat        -- submission order of the main thread
deriving Repr

def TaskDef.dflt : TaskDef := ⟨.top, 0, 0, [], []⟩
def TryDef.dflt : TryDef := ⟨0, 0, 0, none, none, none⟩

namespace Graph
variable (g : Graph)
def n : Nat := g.tasks.length
def task (t : Nat) : TaskDef := g.tasks.getD t TaskDef.dflt
def tryd (y : Nat) : TryDef := g.tries.getD y TryDef.dflt
def role (t : Nat) : Role := (g.task t).role
def depth (t : Nat) : Nat := (g.task t).depth
def ctx (t : Nat) : Nat := (g.task t).ctx
def waits (t : Nat) : List Nat := (g.task t).waits
def body (t : Nat) : List Cmd := (g.task t).body
def cmdAt (t i : Nat) : Option Cmd := (g.body t)[i]?
/-- the handlers of a try block that are defined -/
def handlers (y : Nat) : List Nat :=
  (g.tryd y).fin.toList ++ (g.tryd y).fail.toList ++ (g.tryd y).succ.toList
end Graph

/-! ### Events (= lines of the trace protocol) -/

inductive Ev where
  | sub (t : Nat)                    -- main thread is about to call Runner.Run for top-level task t
  | acc (t : Nat)                    -- … it returned nil
  | rej (t : Nat)                    -- … it returned an error
  | fetch (t i : Nat)                -- RunLoop starts reading command i of the script of t (implementation-level
                                     --   refinement of `cmd`, observable only where the harness supplies the input stream;
                                     --   the model never emits it: its `cmd` step covers "read command i and enter it";
                                     --   RunLoop's reader goroutine may still be reading after the loop has returned)
  | cmd (t i : Nat)                  -- command i of the body of t entered
  | ret (t i : Nat) (ok : Bool)      -- … its callback returns (ok = nil error); for spawn/try: the submission result
  | done (t : Nat) (ok : Bool)       -- runner's child context of t closed: commit (ok) / rollback
  | mwait (ok : Bool)                -- TasksManager.Wait returned (ok = nil)
  | fin (t : Nat) (ok : Bool)        -- after mwait: task t of the manager's table has no errors (ok)
  | root (ok : Bool)                 -- root scope Err() = nil at the very end
  | hacc (h : Nat)                   -- try goroutine: `Runner.Run` for handler h returned nil (the handler task exists)
  | hrej (h : Nat)                   -- … returned an error (the manager refused the submission)
  | stall (t : Nat)                  -- harness gate controller: it held one handler of a try block at its first command
                                     --   and waited generously for the fate of handler t (first command / close / refusal
                                     --   of a submission of that try) — nothing happened.  The model never emits it
                                     --   (`Props/C16.stall_free`); the monitor accepts it only after a cause of failure
deriving DecidableEq, Repr

/-! ### Dynamic state -/

/-- program counter of a task's runner goroutine (`runGo`) -/
inductive PC where
  | idle                      -- not submitted yet
  | rejected                  -- Create refused the submission (and forgot it: fix a91657e)
  | waiting (k : Nat)         -- accepted; `waitForTasks` has passed k entries of the wait list
  | run (i : Nat)             -- RunLoop is about to read command i
  | inCmd (i : Nat)           -- the callback of command i is running
  | afterCmd (i : Nat)        -- callback returned nil; RunCommand closes the command scope (waits for its children)
  | closing (full : Bool)     -- RunLoop returned (full: at end of script) / a prerequisite failed; deferred closes pending
  | finished                  -- latch released, task scope closed
deriving DecidableEq, Repr

def PC.accepted : PC → Bool
  | .idle => false
  | .rejected => false
  | _ => true

/-- program counter of the goroutine started by `pip:try` -/
inductive TG where
  | idle
  | waitBody                  -- separatedScope.Wait()
  | subFin (v : Bool)         -- about to submit finally; v = body finished without error
  | subFail (v : Bool)
  | subSucc (v : Bool)
  | done                      -- parentScope.DoneTask()
deriving DecidableEq, Repr

/-- the harness main thread -/
inductive MP where
  | sub (j : Nat)             -- about to log `sub top[j]`
  | create (j : Nat)          -- inside Runner.Run for top[j]
  | wait                      -- TasksManager.Wait
  | fins (t : Nat)            -- reporting the table, task by task
  | finished
deriving DecidableEq, Repr

structure St where
  pc   : Nat → PC
  tg   : Nat → TG
  mp   : MP
  cerr : Nat → Bool           -- per context: error list non-empty (⇒ Done() closed)
  tr   : List Ev              -- trace so far, oldest first

inductive Label where
  | main
  | task (t : Nat)            -- runner of t takes its next step
  | stop (t : Nat)            -- runner of t takes the `<-Done()` branch of RunLoop's select
  | tryg (y : Nat)
deriving DecidableEq, Repr

def upd {α : Type} (f : Nat → α) (k : Nat) (v : α) : Nat → α := fun x => if x = k then v else f x

def init : St := ⟨fun _ => .idle, fun _ => .idle, .sub 0, fun _ => false, []⟩

/-! ### `TaskManager.validWaitList` and `Create` -/

/-- `validWaitList(path, task, counter)`: `acc` = "name is in the manager's table", `self` = `path[0]`.
`fuel` = counter + 1 (the Go code starts at 100 and fails when the counter becomes negative). -/
def validWL (acc : Nat → Bool) (waitsOf : Nat → List Nat) (self : Nat) : Nat → List Nat → Bool
  | 0, _ => false
  | f + 1, ws => ws.all fun w => w != self && acc w && validWL acc waitsOf self f (waitsOf w)

def inTable (g : Graph) (s : St) (w : Nat) : Bool := decide (w < g.n) && (s.pc w).accepted

/-- the scope task `t` is started in can take a new task (`parentScope.AddTasks(1)` at the head of
`Create`, fix "a pipeline task signs on to the scope it is started in"): its context has not failed.
The body of a try block is started in the separated scope, whose context is fresh. -/
def submitCtxOk (g : Graph) (s : St) (t : Nat) : Bool :=
  match g.role t with
  | .tbody _ => true
  | _ => !s.cerr (g.ctx t)

/-- does `Create` accept task `t` now: the scope it is started in is not done, wait list valid against
the table, root scope not done -/
def canCreate (g : Graph) (s : St) (t : Nat) : Bool :=
  validWL (inTable g s) g.waits t 101 (g.waits t) && !s.cerr 0 && submitCtxOk g s t

/-! ### Transitions -/

def emit (s : St) (e : Ev) : St := { s with tr := s.tr ++ [e] }

/-- all accepted tasks have released their latch (`manager.wg` is zero) -/
def allFinished (g : Graph) (s : St) : Bool :=
  (List.range g.n).all fun t => !(s.pc t).accepted || s.pc t == .finished

/-- no task of the table has an error -/
def tableOk (g : Graph) (s : St) : Bool :=
  (List.range g.n).all fun t => !(s.pc t).accepted || !s.cerr (g.ctx t)

def stepMain (g : Graph) (s : St) : Option St :=
  match s.mp with
  | .sub j =>
    match g.top[j]? with
    | some t => some (emit { s with mp := .create j } (.sub t))
    | none => some { s with mp := .wait }
  | .create j =>
    match g.top[j]? with
    | some t =>
      if canCreate g s t then some (emit { s with mp := .sub (j + 1), pc := upd s.pc t (.waiting 0) } (.acc t))
      else some (emit { s with mp := .sub (j + 1), pc := upd s.pc t .rejected } (.rej t))
    | none => none
  | .wait =>
    if allFinished g s then some (emit { s with mp := .fins 0 } (.mwait (tableOk g s))) else none
  | .fins t =>
    if t < g.n then
      if (s.pc t).accepted then some (emit { s with mp := .fins (t + 1) } (.fin t (!s.cerr (g.ctx t))))
      else some { s with mp := .fins (t + 1) }
    else some (emit { s with mp := .finished } (.root (!s.cerr 0)))
  | .finished => none

/-- the children of command `i` of `t` (tasks hanging below the command scope) have closed -/
def cmdChildrenFinished (g : Graph) (s : St) (c : Cmd) : Bool :=
  match c with
  | .probe => true
  | .fail => true
  | .stop => true
  | .spawn c => s.pc c == .finished
  | .try_ y => s.tg y == .done && s.pc (g.tryd y).body == .finished &&
      (g.handlers y).all fun h => !(s.pc h).accepted || s.pc h == .finished

def stepTask (g : Graph) (s : St) (t : Nat) : Option St :=
  match s.pc t with
  | .waiting k =>
    match (g.waits t)[k]? with
    | none => some { s with pc := upd s.pc t (.run 0) }
    | some w =>
      if s.pc w == .finished then
        if s.cerr (g.ctx w) then
          some { s with pc := upd s.pc t (.closing false), cerr := upd s.cerr (g.ctx t) true }
        else some { s with pc := upd s.pc t (.waiting (k + 1)) }
      else none
  | .run i =>
    if i < (g.body t).length then some (emit { s with pc := upd s.pc t (.inCmd i) } (.cmd t i))
    else some { s with pc := upd s.pc t (.closing true) }
  | .inCmd i =>
    match g.cmdAt t i with
    | none => none
    | some .probe => some (emit { s with pc := upd s.pc t (.afterCmd i) } (.ret t i true))
    | some .stop => some (emit { s with pc := upd s.pc t (.afterCmd i) } (.ret t i true))
    | some .fail =>
      some (emit { s with pc := upd s.pc t (.closing false), cerr := upd s.cerr (g.ctx t) true } (.ret t i false))
    | some (.spawn c) =>
      if canCreate g s c then
        some (emit { s with pc := upd (upd s.pc c (.waiting 0)) t (.afterCmd i) } (.ret t i true))
      else
        some (emit { s with pc := upd (upd s.pc c .rejected) t (.closing false),
                            cerr := upd s.cerr (g.ctx t) true } (.ret t i false))
    | some (.try_ y) =>
      -- parentScope.AddTasks(1) refuses when the owner's context is done; Create when the root's is (the body is
      -- started in the separated scope, whose context is fresh)
      if !s.cerr (g.ctx t) && canCreate g s (g.tryd y).body then
        some (emit { s with pc := upd (upd s.pc (g.tryd y).body (.waiting 0)) t (.afterCmd i),
                            tg := upd s.tg y .waitBody } (.ret t i true))
      else
        some (emit { s with pc := upd (upd s.pc (g.tryd y).body .rejected) t (.closing false),
                            cerr := upd s.cerr (g.ctx t) true } (.ret t i false))
  | .afterCmd i =>
    match g.cmdAt t i with
    | none => none
    | some c =>
      if cmdChildrenFinished g s c then
        if s.cerr (g.ctx t) then some { s with pc := upd s.pc t (.closing false) }
        else some { s with pc := upd s.pc t (.run (i + 1)) }
      else none
  | .closing _ =>
    some (emit { s with pc := upd s.pc t .finished } (.done t (!s.cerr (g.ctx t))))
  | _ => none

/-- a command with index below `j` of the body of `t` stopped the scope (they have all been executed
when RunLoop is about to read command `j`) -/
def selfStopped (g : Graph) (t j : Nat) : Bool :=
  (List.range j).any fun i => g.cmdAt t i == some .stop

def stepStop (g : Graph) (s : St) (t : Nat) : Option St :=
  match s.pc t with
  | .run j =>
    if s.cerr (g.ctx t) || selfStopped g t j then some { s with pc := upd s.pc t (.closing false) } else none
  | _ => none

/-- one `Runner.Run` of a handler from the try goroutine: `sel` = this handler is to be run -/
def submitHandler (g : Graph) (s : St) (y : Nat) (h : Option Nat) (sel : Bool) (next : TG) : St :=
  match h, sel with
  | some h, true =>
    if canCreate g s h then emit { s with pc := upd s.pc h (.waiting 0), tg := upd s.tg y next } (.hacc h)
    else emit { s with pc := upd s.pc h .rejected, cerr := upd s.cerr (g.ctx (g.tryd y).owner) true,
                       tg := upd s.tg y .done } (.hrej h)
  | _, _ => { s with tg := upd s.tg y next }

def stepTry (g : Graph) (s : St) (y : Nat) : Option St :=
  match s.tg y with
  | .waitBody =>
    if s.pc (g.tryd y).body == .finished then
      some { s with tg := upd s.tg y (.subFin (decide (Ev.done (g.tryd y).body true ∈ s.tr))) }
    else none
  | .subFin v => some (submitHandler g s y (g.tryd y).fin true (.subFail v))
  | .subFail v => some (submitHandler g s y (g.tryd y).fail (!v) (.subSucc v))
  | .subSucc v => some (submitHandler g s y (g.tryd y).succ v .done)
  | _ => none

def step (g : Graph) (s : St) : Label → Option St
  | .main => stepMain g s
  | .task t => stepTask g s t
  | .stop t => stepStop g s t
  | .tryg y => stepTry g s y

def sys (g : Graph) : LTS.Sys St Label := ⟨init, step g⟩

/-- the state after a schedule -/
def run (g : Graph) (sched : List Label) : St := (sys g).run sched

/-! ### Well-formed graphs (decidable; checked by the driver before monitoring) -/

def roleOk (g : Graph) (t : Nat) : Bool :=
  let d := g.task t
  match d.role with
  | .top => d.depth == 0 && d.ctx == 0 && g.top.contains t
  | .child p i => g.cmdAt p i == some (.spawn t) && d.depth == g.depth p + 1 && d.ctx == g.ctx p
  | .tbody y => decide (y < g.tries.length) && (g.tryd y).body == t && d.ctx == y + 1 &&
      d.depth == g.depth (g.tryd y).owner + 1 && d.waits.isEmpty
  | .hsucc y => decide (y < g.tries.length) && (g.tryd y).succ == some t && d.ctx == g.ctx (g.tryd y).owner &&
      d.depth == g.depth (g.tryd y).owner + 1 && d.waits.isEmpty
  | .hfail y => decide (y < g.tries.length) && (g.tryd y).fail == some t && d.ctx == g.ctx (g.tryd y).owner &&
      d.depth == g.depth (g.tryd y).owner + 1 && d.waits.isEmpty
  | .hfin y => decide (y < g.tries.length) && (g.tryd y).fin == some t && d.ctx == g.ctx (g.tryd y).owner &&
      d.depth == g.depth (g.tryd y).owner + 1 && d.waits.isEmpty

/-- a wait-list entry: an unknown name, or a task submitted by name at the same depth in the same context -/
def waitOk (g : Graph) (t w : Nat) : Bool :=
  decide (g.n ≤ w) ||
    ((match g.role w with | .top => true | .child _ _ => true | _ => false) &&
      g.depth w == g.depth t && g.ctx w == g.ctx t)

/-- task `t` is alone in its context: the body of a try block that submits nothing -/
def isolated (g : Graph) (t : Nat) : Bool :=
  (match g.role t with | .tbody _ => true | _ => false) &&
  (g.body t).all fun c => match c with | .spawn _ => false | .try_ _ => false | _ => true

def cmdOk (g : Graph) (t i : Nat) (c : Cmd) : Bool :=
  match c with
  | .probe => true
  | .fail => true
  | .stop => isolated g t
  | .spawn c => decide (c < g.n) && g.role c == .child t i
  | .try_ y => decide (y < g.tries.length) && (g.tryd y).owner == t && (g.tryd y).idx == i

def tryOk (g : Graph) (y : Nat) : Bool :=
  let d := g.tryd y
  decide (d.owner < g.n) && g.cmdAt d.owner d.idx == some (.try_ y) &&
  decide (d.body < g.n) && g.role d.body == .tbody y &&
  (match d.succ with | some h => decide (h < g.n) && g.role h == .hsucc y | none => true) &&
  (match d.fail with | some h => decide (h < g.n) && g.role h == .hfail y | none => true) &&
  (match d.fin with | some h => decide (h < g.n) && g.role h == .hfin y | none => true)

def allIdx {α : Type} (l : List α) (p : Nat → α → Bool) : Bool :=
  (List.range l.length).all fun i => match l[i]? with | some a => p i a | none => true

def wf (g : Graph) : Bool :=
  (List.range g.n).all (fun t =>
    roleOk g t && !(g.body t).isEmpty && (g.waits t).all (waitOk g t) && allIdx (g.body t) (cmdOk g t)) &&
  (List.range g.tries.length).all (tryOk g) &&
  g.top.all (fun t => decide (t < g.n) && g.role t == .top) &&
  g.top.Nodup

/-! ### The declarative trace property and its monitor

`Ok g pre e` says when event `e` may follow the events `pre`; a trace satisfies the property
(`TraceOk`) when every one of its events is `Ok` after the events before it.  Every clause only
looks *back*, so the property is prefix closed; it is decidable, and `accepts` decides it
(`Props/C14.accepts_iff`).  The clauses are one-directional where the implementation is: task
scopes share their parent's context, so a task may report an error although nothing of its own
failed — a `done … fail` only needs *some* cause in its context (or in the root context, whose
failure makes the manager refuse submissions), never a cause of its own.
The clauses about the handlers of a try block that HAVE to run are timed (`handlerFate`): a handler
that did not start is excused only by a cause of failure recorded BEFORE the event that sealed its
fate, never by a failure that shows up somewhere later in the trace. -/

def hasDone (pre : List Ev) (t : Nat) : Prop := Ev.done t true ∈ pre ∨ Ev.done t false ∈ pre
def hasRet (pre : List Ev) (t i : Nat) : Prop := Ev.ret t i true ∈ pre ∨ Ev.ret t i false ∈ pre
def hasMwait (pre : List Ev) : Prop := Ev.mwait true ∈ pre ∨ Ev.mwait false ∈ pre

/-- a command of a task of context `X` returned an error (a failing command, a refused submission) -/
def isCause (g : Graph) (X : Nat) : Ev → Bool
  | .ret t _ false => g.ctx t == X
  | _ => false

def isFail : Ev → Bool
  | .ret _ _ false => true
  | _ => false

def isDoneFail : Ev → Bool
  | .done _ false => true
  | _ => false

def causeIn (g : Graph) (X : Nat) (pre : List Ev) : Prop := ∃ e ∈ pre, isCause g X e = true
/-- a reason for task `t` to report an error: a cause in its own context or in the root context -/
def causeFor (g : Graph) (pre : List Ev) (t : Nat) : Prop := causeIn g (g.ctx t) pre ∨ causeIn g 0 pre
def anyCause (pre : List Ev) : Prop := ∃ e ∈ pre, isFail e = true

/-- the acceptance of a task is visible in the trace (tasks submitted by name, try bodies) -/
def acceptedEv (g : Graph) (pre : List Ev) (t : Nat) : Prop :=
  match g.role t with
  | .top => Ev.acc t ∈ pre
  | .child p i => Ev.ret p i true ∈ pre
  | .tbody y => Ev.ret (g.tryd y).owner (g.tryd y).idx true ∈ pre
  | _ => False

/-- what must have happened before the body of `t` may start, by role -/
def submitted (g : Graph) (pre : List Ev) (t : Nat) : Prop :=
  match g.role t with
  | .top => Ev.sub t ∈ pre
  | .child p i => Ev.cmd p i ∈ pre
  | .tbody y => Ev.cmd (g.tryd y).owner (g.tryd y).idx ∈ pre
  | .hfin y => hasDone pre (g.tryd y).body
  | .hsucc y => Ev.done (g.tryd y).body true ∈ pre
  | .hfail y => Ev.done (g.tryd y).body false ∈ pre

def waitsOk (g : Graph) (pre : List Ev) (t : Nat) : Prop := ∀ w ∈ g.waits t, Ev.done w true ∈ pre

/-- the handlers of try `y` that have to run, given how its body closed -/
def selected (g : Graph) (pre : List Ev) (y : Nat) : List Nat :=
  (g.tryd y).fin.toList ++
  (if Ev.done (g.tryd y).body false ∈ pre then (g.tryd y).fail.toList else []) ++
  (if Ev.done (g.tryd y).body true ∈ pre then (g.tryd y).succ.toList else [])

/-- command `i` of `t` returned nil and everything it started closed without error -/
def cmdDoneOk (g : Graph) (pre : List Ev) (t i : Nat) : Prop :=
  Ev.ret t i true ∈ pre ∧
  match g.cmdAt t i with
  | some (.spawn c) => Ev.done c true ∈ pre
  | some (.try_ y) => hasDone pre (g.tryd y).body ∧ ∀ h ∈ selected g pre y, Ev.done h true ∈ pre
  | _ => True

def isHandler (g : Graph) (t : Nat) : Bool :=
  match g.role t with
  | .hsucc _ => true
  | .hfail _ => true
  | .hfin _ => true
  | _ => false

/-- The fate of a handler `h` of try `y` that has to run, as seen when the owner of the try closes.
Either it STARTED (first command entered), or one of two EVENTS sealed its fate — and the clause of
that event (`Ok`) demands the cause of failure strictly BEFORE the event:
* it was accepted by the manager and closed without having started: `done h false` needs a cause of
  failure in the handler's (= the owner's) context or in the root context among the events before it
  (RunLoop took the `<-Done()` branch before the first command);
* a handler submission of this try was refused: `hrej` needs a cause in the handler's (= the owner's)
  or the root context before it (the manager refuses a task whose scope or whose root scope is done;
  the try goroutine then stops submitting).
A failure that happens later — in particular a failure of another handler of the same try after
this one could have started — excuses nothing: an event-order condition, not an end-of-trace one. -/
def handlerFate (g : Graph) (pre : List Ev) (y h : Nat) : Prop :=
  Ev.cmd h 0 ∈ pre ∨ (Ev.hacc h ∈ pre ∧ Ev.done h false ∈ pre) ∨ ∃ h' ∈ g.handlers y, Ev.hrej h' ∈ pre

/-- command `i` of `t` returned and everything it started has closed; every handler of a try block
that was started or accepted by the manager has closed, and every selected handler has met its fate -/
def cmdClosed (g : Graph) (pre : List Ev) (t i : Nat) : Prop :=
  hasRet pre t i ∧
  (Ev.ret t i true ∈ pre →
    match g.cmdAt t i with
    | some (.spawn c) => hasDone pre c
    | some (.try_ y) => hasDone pre (g.tryd y).body ∧
        (∀ h ∈ g.handlers y, Ev.cmd h 0 ∈ pre → hasDone pre h) ∧
        (∀ h ∈ g.handlers y, Ev.hacc h ∈ pre → hasDone pre h) ∧
        (∀ h ∈ selected g pre y, handlerFate g pre y h)
    | _ => True)

/-- a command of `t` that stops the scope has been entered (and the first command too): the task may
close WITHOUT error although not all of its commands ran — those that were entered completed -/
def selfStop (g : Graph) (pre : List Ev) (t : Nat) : Prop :=
  Ev.cmd t 0 ∈ pre ∧ ∃ i ∈ List.range (g.body t).length, g.cmdAt t i = some .stop ∧ Ev.cmd t i ∈ pre

def retOk (g : Graph) (pre : List Ev) (t i : Nat) (ok : Bool) : Prop :=
  match g.cmdAt t i with
  | some .probe => ok = true
  | some .stop => ok = true
  | some .fail => ok = false
  | some (.spawn c) => ok = true → ∀ w ∈ g.waits c, acceptedEv g pre w
  | some (.try_ _) => True
  | none => False

def Ok (g : Graph) (pre : List Ev) : Ev → Prop
  | .sub t => t ∈ g.top
  | .acc t => Ev.sub t ∈ pre ∧ ∀ w ∈ g.waits t, acceptedEv g pre w
  | .rej t => Ev.sub t ∈ pre
  | .cmd t i => i < (g.body t).length ∧ Ev.cmd t i ∉ pre ∧ ¬ hasDone pre t ∧
      (if i = 0 then submitted g pre t ∧ waitsOk g pre t else cmdDoneOk g pre t (i - 1))
  | .fetch t i => i < (g.body t).length ∧ Ev.fetch t i ∉ pre ∧
      (if i = 0 then submitted g pre t ∧ waitsOk g pre t else cmdDoneOk g pre t (i - 1))
  | .ret t i ok => Ev.cmd t i ∈ pre ∧ ¬ hasRet pre t i ∧ ¬ hasDone pre t ∧ retOk g pre t i ok
  | .done t ok => ¬ hasDone pre t ∧
      (∀ i ∈ List.range (g.body t).length, Ev.cmd t i ∈ pre → cmdClosed g pre t i) ∧
      (if ok then waitsOk g pre t ∧
          ((∀ i ∈ List.range (g.body t).length, cmdDoneOk g pre t i) ∨
           (selfStop g pre t ∧ ∀ i ∈ List.range (g.body t).length, Ev.cmd t i ∈ pre → cmdDoneOk g pre t i))
       else causeFor g pre t)
  | .mwait ok => (∀ t ∈ List.range g.n, acceptedEv g pre t → hasDone pre t) ∧
      (if ok then ∀ e ∈ pre, isDoneFail e = false else anyCause pre)
  | .fin t ok => hasMwait pre ∧
      (if ok then ∀ u ∈ List.range g.n, Ev.done u false ∈ pre → g.ctx u ≠ g.ctx t else causeFor g pre t)
  | .root ok => hasMwait pre ∧
      (if ok then ∀ u ∈ List.range g.n, Ev.done u false ∈ pre → g.ctx u ≠ 0 else causeIn g 0 pre)
  | .hacc h => isHandler g h = true ∧ submitted g pre h
  | .hrej h => isHandler g h = true ∧ submitted g pre h ∧ causeFor g pre h
  | .stall t => isHandler g t = true ∧ causeFor g pre t

/-- second group of clauses: an error report is *exactly* a task of that context having closed with
an error (the converse of the `if ok` branches of `Ok`) -/
def Ok2 (g : Graph) (pre : List Ev) : Ev → Prop
  | .mwait false => ∃ e ∈ pre, isDoneFail e = true
  | .fin t false => ∃ u ∈ List.range g.n, Ev.done u false ∈ pre ∧ g.ctx u = g.ctx t
  | .root false => ∃ u ∈ List.range g.n, Ev.done u false ∈ pre ∧ g.ctx u = 0
  | _ => True

/-- the declarative property of a trace -/
def TraceOk (g : Graph) (tr : List Ev) : Prop :=
  ∀ pre e post, tr = pre ++ e :: post → Ok g pre e

def TraceOk2 (g : Graph) (tr : List Ev) : Prop :=
  ∀ pre e post, tr = pre ++ e :: post → Ok2 g pre e

instance (pre : List Ev) (t : Nat) : Decidable (hasDone pre t) := by unfold hasDone; infer_instance
instance (pre : List Ev) (t i : Nat) : Decidable (hasRet pre t i) := by unfold hasRet; infer_instance
instance (pre : List Ev) : Decidable (hasMwait pre) := by unfold hasMwait; infer_instance
instance (g : Graph) (X : Nat) (pre : List Ev) : Decidable (causeIn g X pre) := by unfold causeIn; infer_instance
instance (g : Graph) (pre : List Ev) (t : Nat) : Decidable (causeFor g pre t) := by unfold causeFor; infer_instance
instance (pre : List Ev) : Decidable (anyCause pre) := by unfold anyCause; infer_instance
instance (g : Graph) (pre : List Ev) (t : Nat) : Decidable (acceptedEv g pre t) := by
  unfold acceptedEv; split <;> infer_instance
instance (g : Graph) (pre : List Ev) (t : Nat) : Decidable (submitted g pre t) := by
  unfold submitted; split <;> infer_instance
instance (g : Graph) (pre : List Ev) (t : Nat) : Decidable (waitsOk g pre t) := by unfold waitsOk; infer_instance
instance (g : Graph) (pre : List Ev) (t i : Nat) : Decidable (cmdDoneOk g pre t i) := by
  unfold cmdDoneOk; split <;> infer_instance
instance (g : Graph) (pre : List Ev) (y h : Nat) : Decidable (handlerFate g pre y h) := by
  unfold handlerFate; infer_instance
instance (g : Graph) (pre : List Ev) (t i : Nat) : Decidable (cmdClosed g pre t i) := by
  unfold cmdClosed; split <;> infer_instance
instance (g : Graph) (pre : List Ev) (t : Nat) : Decidable (selfStop g pre t) := by unfold selfStop; infer_instance
instance (g : Graph) (pre : List Ev) (t i : Nat) (ok : Bool) : Decidable (retOk g pre t i ok) := by
  unfold retOk; split <;> infer_instance
instance (g : Graph) (pre : List Ev) (e : Ev) : Decidable (Ok g pre e) := by
  cases e <;> unfold Ok <;> infer_instance

instance (g : Graph) (pre : List Ev) (e : Ev) : Decidable (Ok2 g pre e) := by
  unfold Ok2; split <;> infer_instance

/-- the monitor proper: `pre` = events already consumed -/
def acceptsFrom (g : Graph) (pre : List Ev) : List Ev → Bool
  | [] => true
  | e :: rest => decide (Ok g pre e ∧ Ok2 g pre e) && acceptsFrom g (pre ++ [e]) rest

/-- the trace monitor of C14/C16 -/
def accepts (g : Graph) (tr : List Ev) : Bool := acceptsFrom g [] tr

/-- position (0-based) of the first event that is not `Ok`, for the driver's `reject <seq>` line -/
def firstBad (g : Graph) (pre : List Ev) : List Ev → Option (Nat × Ev)
  | [] => none
  | e :: rest => if Ok g pre e ∧ Ok2 g pre e then firstBad g (pre ++ [e]) rest else some (pre.length, e)

/-! ### Steered schedules: the harness's gate controller holds one handler of a try block

A single free-running trace cannot tell "the finally handler NEVER starts while the selected handler
is still running" from "it sometimes does not": the schedule has to be steered.  The harness holds
the FIRST command of one handler of a try block at a gate (after its `cmd h 0` event, before the
command returns) until it has SEEN the fate of the other one — its first command, its close, or a
refused submission of that try, all of them events of the trace.  The controller waits generously;
only when nothing whatsoever can move any more does its wait expire, and then it records
`stall <awaited handler>` and lets the held handler go.  `Props/C16.stall_free`: in the model that
never happens — under every steering policy and every schedule the awaited fate stays reachable
without the held handler.  An implementation that queues one handler behind the other (through a
wait list, a lock, a sequential `Wait`) stalls. -/

/-- how the controller steers one try block -/
inductive Steer where
  | free
  | holdSel (untilDone : Bool)   -- the first command of the selected (fail / success) handler is held until the
                                 --   finally handler has started (`false`) / has closed (`true`)
  | holdFin (untilDone : Bool)   -- the first command of the finally handler is held until the selected handler has
                                 --   started / has closed
deriving DecidableEq, Repr

/-- the handler of try `y` that has to run besides `finally`, read off the trace like the controller does -/
def selectedH (g : Graph) (tr : List Ev) (y : Nat) : Option Nat :=
  if Ev.done (g.tryd y).body false ∈ tr then (g.tryd y).fail
  else if Ev.done (g.tryd y).body true ∈ tr then (g.tryd y).succ
  else none

/-- the controller has seen the fate of handler `w` of try `y` -/
def fateSeen (g : Graph) (tr : List Ev) (y w : Nat) (untilDone : Bool) : Bool :=
  (!untilDone && decide (Ev.cmd w 0 ∈ tr)) || decide (hasDone tr w) ||
  (g.handlers y).any fun h' => decide (Ev.hrej h' ∈ tr)

/-- for whom the handler `h` is made to wait in its first command: (try, awaited handler, until its close) -/
def heldFor (g : Graph) (pol : Nat → Steer) (tr : List Ev) (h : Nat) : Option (Nat × Nat × Bool) :=
  match g.role h with
  | .hfin y =>
    match pol y with
    | .holdFin d => (selectedH g tr y).map fun w => (y, w, d)
    | _ => none
  | .hfail y =>
    match pol y with
    | .holdSel d => (g.tryd y).fin.map fun w => (y, w, d)
    | _ => none
  | .hsucc y =>
    match pol y with
    | .holdSel d => (g.tryd y).fin.map fun w => (y, w, d)
    | _ => none
  | _ => none

/-- the step of the runner of `h` that lets its first command return is held back by the gate -/
def blocked (g : Graph) (pol : Nat → Steer) (s : St) : Label → Bool
  | .task h =>
    s.pc h == .inCmd 0 &&
      match heldFor g pol s.tr h with
      | some (y, w, d) => !fateSeen g s.tr y w d
      | none => false
  | _ => false

/-- the system under a steering policy, without time-outs (what the driver simulates) -/
def stepS (g : Graph) (pol : Nat → Steer) (s : St) (l : Label) : Option St :=
  if blocked g pol s l then none else step g s l

def sysS (g : Graph) (pol : Nat → Steer) : LTS.Sys St Label := ⟨init, stepS g pol⟩

/-- every label that can ever be enabled -/
def labels (g : Graph) : List Label :=
  .main :: ((List.range g.n).map .task ++ (List.range g.n).map .stop ++ (List.range g.tries.length).map .tryg)

/-- the controller with its time-out: `rel` = handlers it let go after a stall -/
structure CSt where
  st  : St
  rel : List Nat

inductive CLabel where
  | sys (l : Label)
  | timeout (h : Nat)        -- the wait on behalf of the held handler `h` expires
deriving DecidableEq, Repr

def blockedC (g : Graph) (pol : Nat → Steer) (c : CSt) (l : Label) : Bool :=
  blocked g pol c.st l && !(match l with | .task h => c.rel.contains h | _ => false)

def stepSysC (g : Graph) (pol : Nat → Steer) (c : CSt) (l : Label) : Option St :=
  if blockedC g pol c l then none else step g c.st l

/-- nothing can move: here, and only here, the generous wait of the controller expires -/
def quiescent (g : Graph) (pol : Nat → Steer) (c : CSt) : Bool :=
  (labels g).all fun l => (stepSysC g pol c l).isNone

def stepC (g : Graph) (pol : Nat → Steer) (c : CSt) : CLabel → Option CSt
  | .sys l => (stepSysC g pol c l).map fun s' => { c with st := s' }
  | .timeout h =>
    if blockedC g pol c (.task h) && quiescent g pol c then
      match heldFor g pol c.st.tr h with
      | some (_, w, _) => some { st := emit c.st (.stall w), rel := h :: c.rel }
      | none => none
    else none

def sysC (g : Graph) (pol : Nat → Steer) : LTS.Sys CSt CLabel := ⟨⟨init, []⟩, stepC g pol⟩

/-- the state after a schedule of the steered system with time-outs -/
def runC (g : Graph) (pol : Nat → Steer) (sched : List CLabel) : CSt := (sysC g pol).run sched

/-! ### The defect of the pinned tree: a rejected submission stays in the table with its latch armed

`Create` inserted the task into `manager.tasks` before validating the wait list and did not remove
it on the error paths.  `TaskManager.Wait` then waits on the latch of a task nobody will ever run.
The model of *that* code differs from `stepMain` in one place: the rejected task counts as a
member of the table whose latch is never released. -/

/-- `Wait` of the pinned tree: every table entry — including rejected submissions — must have released its latch -/
def allFinishedOld (g : Graph) (s : St) : Bool :=
  (List.range g.n).all fun t => s.pc t == .idle || s.pc t == .finished

def stepMainOld (g : Graph) (s : St) : Option St :=
  match s.mp with
  | .wait => if allFinishedOld g s then some (emit { s with mp := .fins 0 } (.mwait (tableOk g s))) else none
  | _ => stepMain g s

def stepOld (g : Graph) (s : St) : Label → Option St
  | .main => stepMainOld g s
  | l => step g s l

def sysOld (g : Graph) : LTS.Sys St Label := ⟨init, stepOld g⟩

end Goat.Pipeline
