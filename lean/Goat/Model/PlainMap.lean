/-
Model of the config / translation map code (property C20):

  /repo/varutil/plainmap/rmap.go   RecursiveMapToPlainMap (`flatten`), ToRecursiveMap /
                                   StringMapToRecursiveMap (`rebuild`)
  /repo/varutil/plainmap/json.go   PlainStringMapToJSON (`emit`), JSONToPlainStringMap (`read`)
  /repo/varutil/plainmap/main.go   formatStringJSON = encoding/json.Marshal of a string (`fmtString`)
  github.com/buger/jsonparser      ObjectEach / Get / getType / blockEnd / stringEnd / Unescape, as far
                                   as the reader uses them (`members`, `getValue`, `blockEnd`,
                                   `stringEnd`, `unesc`)
  /repo/i18n/i18mem/main.go        Set / Translate (`I18.set`, `I18.translate`)
  /repo/i18n/fsi18loader/main.go   Load = one Set per *.json file, in the order the consumers get to them
                                   (`load`)

Go maps are association lists in *write order* (oldest first); a later write of the same key wins
(`Flat.get`).  Go strings are byte lists.  Loops that the Go code runs over indices are written as
recursions over the remaining input; where the Go recursion is not structural (`emitLoop`, `members`)
the model carries a fuel argument that the entry points initialise generously (the theorems in
`Props/C20` show the fuel is never exhausted on the inputs they speak about, and the correspondence
run compares model and code on everything else).

`members` has a parameter `fixed`:  `false` mirrors the code as it is (nested-or-top decided by testing
whether the accumulated key is empty — finding KF-C20-1), `true` mirrors the proposed one-line repair
(the depth is passed down instead).

Core Lean only (this file is linked into the `m_pmap` driver).
-/
import Goat.Base.Bytes

namespace Goat.PlainMap

def dot : Byte := 46
def dq : Byte := 34
def bsl : Byte := 92
def colon : Byte := 58
def comma : Byte := 44
def lbrace : Byte := 123
def rbrace : Byte := 125
def lbrack : Byte := 91
def rbrack : Byte := 93

/-! ## Flat maps -/

/-- a Go `map[string]α` as the list of its writes, oldest first -/
abbrev Flat (α : Type) := List (Bytes × α)

/-- `m[k]` with presence: the last write of `k` wins -/
def Flat.get {α : Type} : Flat α → Bytes → Option α
  | [], _ => none
  | (k', v) :: rest, k =>
    match Flat.get rest k with
    | some x => some x
    | none => if k' = k then some v else none

def Flat.keys {α : Type} (f : Flat α) : List Bytes := f.map Prod.fst

/-- `strings.Split(s, ".")` (never empty) -/
def splitDot : Bytes → List Bytes
  | [] => [[]]
  | c :: r =>
    if c = dot then [] :: splitDot r
    else match splitDot r with
      | seg :: segs => (c :: seg) :: segs
      | [] => [[c]]

/-- `strings.Join(p, ".")` -/
def joinDot : List Bytes → Bytes
  | [] => []
  | [a] => a
  | a :: b :: rest => a ++ dot :: joinDot (b :: rest)

/-! ## Nested maps: association trees -/

/-- a `map[string]interface{}` whose values are leaves (`α`) or nested maps; a value of this type
is a list of entries, each entry a leaf or a sub-map -/
inductive Tree (α : Type) where
  | nil : Tree α
  | leaf (k : Bytes) (v : α) (rest : Tree α) : Tree α
  | node (k : Bytes) (child : Tree α) (rest : Tree α) : Tree α
deriving Repr

namespace Tree
variable {α : Type}

/-- `node[k]` (first entry named `k`) -/
def find? (k : Bytes) : Tree α → Option (α ⊕ Tree α)
  | nil => none
  | leaf k' v rest => if k' = k then some (.inl v) else find? k rest
  | node k' c rest => if k' = k then some (.inr c) else find? k rest

def mk (k : Bytes) (e : α ⊕ Tree α) (rest : Tree α) : Tree α :=
  match e with
  | .inl v => leaf k v rest
  | .inr c => node k c rest

/-- `node[k] = e`: replaces the entry named `k` or adds one -/
def put (k : Bytes) (e : α ⊕ Tree α) : Tree α → Tree α
  | nil => mk k e nil
  | leaf k' v rest => if k' = k then mk k e rest else leaf k' v (put k e rest)
  | node k' c rest => if k' = k then mk k e rest else node k' c (put k e rest)

/-- the leaf stored under a path of keys -/
def leafAt : Tree α → List Bytes → Option α
  | _, [] => none
  | t, [k] => match t.find? k with
    | some (.inl v) => some v
    | _ => none
  | t, k :: p => match t.find? k with
    | some (.inr c) => c.leafAt p
    | _ => none

/-- `recursiveMapToPlainMapNode(out, source, basekey, separator)`; entries in source order -/
def flattenNode (base sep : Bytes) : Tree α → Flat α
  | nil => []
  | leaf k v rest => (base ++ sep ++ k, v) :: flattenNode base sep rest
  | node k c rest => flattenNode (base ++ sep ++ k) [dot] c ++ flattenNode base sep rest

/-- `RecursiveMapToPlainMap` -/
def flatten (t : Tree α) : Flat α := flattenNode [] [] t

/-- one iteration of the loop of `ToRecursiveMap`: `toRecursiveMapCreateNode` along all but the
last segment (creating missing maps, failing on a leaf), then `node[last] = value` -/
def insert : List Bytes → α → Tree α → Option (Tree α)
  | [], _, _ => none
  | [k], v, t => some (t.put k (.inl v))
  | k :: p, v, t =>
    match t.find? k with
    | none => (insert p v nil).map fun c => t.put k (.inr c)
    | some (.inr c) => (insert p v c).map fun c' => t.put k (.inr c')
    | some (.inl _) => none

end Tree

/-- `ToRecursiveMap` / `StringMapToRecursiveMap` over the entries in iteration order `src` -/
def rebuild {α : Type} (src : Flat α) : Option (Tree α) :=
  src.foldlM (fun out kv => if kv.1 = [] then none else Tree.insert (splitDot kv.1) kv.2 out) Tree.nil

/-! ## JSON strings: encoding/json's string encoder and jsonparser's decoder -/

def hexDigit (n : Nat) : Byte :=
  if n < 10 then UInt8.ofNat (48 + n) else UInt8.ofNat (87 + n)

/-- `\u00XY` -/
def u00 (b : Byte) : Bytes := [bsl, 117, 48, 48, hexDigit (b.toNat / 16), hexDigit (b.toNat % 16)]

/-- the ASCII branch of `appendString(dst, src, escapeHTML = true)` (go1.23): what is appended for byte `b < 0x80` -/
def escAscii (b : Byte) : Bytes :=
  if b = dq ∨ b = bsl then [bsl, b]
  else if b = 8 then [bsl, 98]
  else if b = 12 then [bsl, 102]
  else if b = 10 then [bsl, 110]
  else if b = 13 then [bsl, 114]
  else if b = 9 then [bsl, 116]
  else if b < 32 ∨ b = 60 ∨ b = 62 ∨ b = 38 then u00 b
  else [b]

def inRange (lo hi b : Byte) : Bool := lo ≤ b && b ≤ hi

/-- `utf8.first[b0]`: size of the sequence and the accepted range of its second byte -/
def firstInfo (b0 : Byte) : Option (Nat × Byte × Byte) :=
  if inRange 0xC2 0xDF b0 then some (2, 0x80, 0xBF)
  else if b0 = 0xE0 then some (3, 0xA0, 0xBF)
  else if inRange 0xE1 0xEC b0 then some (3, 0x80, 0xBF)
  else if b0 = 0xED then some (3, 0x80, 0x9F)
  else if inRange 0xEE 0xEF b0 then some (3, 0x80, 0xBF)
  else if b0 = 0xF0 then some (4, 0x90, 0xBF)
  else if inRange 0xF1 0xF3 b0 then some (4, 0x80, 0xBF)
  else if b0 = 0xF4 then some (4, 0x80, 0x8F)
  else none

/-- `utf8.DecodeRuneInString` as far as the encoder needs it: the size of the well-formed sequence
at the head of `s` (first byte ≥ 0x80), or 0 for `(RuneError, 1)` -/
def runeLen (s : Bytes) : Nat :=
  match s with
  | [] => 0
  | b0 :: t =>
    match firstInfo b0 with
    | none => 0
    | some (sz, lo, hi) =>
      match t with
      | [] => 0
      | b1 :: t1 =>
        if !inRange lo hi b1 then 0 else if sz = 2 then 2 else
        match t1 with
        | [] => 0
        | b2 :: t2 =>
          if !inRange 0x80 0xBF b2 then 0 else if sz = 3 then 3 else
          match t2 with
          | [] => 0
          | b3 :: _ => if inRange 0x80 0xBF b3 then 4 else 0

def uFFFD : Bytes := [bsl, 117, 102, 102, 102, 100]
def u2028 : Bytes := [bsl, 117, 50, 48, 50, 56]
def u2029 : Bytes := [bsl, 117, 50, 48, 50, 57]

/-- the loop of `appendString`.  `skip`/`copy`: the remaining bytes of a multi-byte sequence that was
recognised at its first byte are copied through (`copy = true`) or dropped because the escape of
U+2028 / U+2029 was written for them. -/
def escLoop : Nat → Bool → Bytes → Bytes
  | _, _, [] => []
  | n + 1, cp, b :: rest => (if cp then [b] else []) ++ escLoop n cp rest
  | 0, _, b :: rest =>
    if b < 0x80 then escAscii b ++ escLoop 0 true rest
    else match runeLen (b :: rest) with
      | 0 => uFFFD ++ escLoop 0 true rest
      | n + 1 =>
        if b = 0xE2 ∧ rest.take 2 = [0x80, 0xA8] then u2028 ++ escLoop n false rest
        else if b = 0xE2 ∧ rest.take 2 = [0x80, 0xA9] then u2029 ++ escLoop n false rest
        else b :: escLoop n true rest

/-- `formatStringJSON(s)` = `json.Marshal(s)` -/
def fmtString (s : Bytes) : Bytes := dq :: escLoop 0 true s ++ [dq]

/-- `utf8.EncodeRune` -/
def encodeRune (r : Nat) : Bytes :=
  if r ≤ 0x7F then [UInt8.ofNat r]
  else if r ≤ 0x7FF then [UInt8.ofNat (0xC0 + r / 64), UInt8.ofNat (0x80 + r % 64)]
  else if r > 0x10FFFF ∨ (0xD800 ≤ r ∧ r ≤ 0xDFFF) then [0xEF, 0xBF, 0xBD]
  else if r ≤ 0xFFFF then
    [UInt8.ofNat (0xE0 + r / 4096), UInt8.ofNat (0x80 + r / 64 % 64), UInt8.ofNat (0x80 + r % 64)]
  else
    [UInt8.ofNat (0xF0 + r / 262144), UInt8.ofNat (0x80 + r / 4096 % 64), UInt8.ofNat (0x80 + r / 64 % 64),
     UInt8.ofNat (0x80 + r % 64)]

/-- jsonparser `h2I` -/
def h2I (c : Byte) : Option Nat :=
  if inRange 48 57 c then some (c.toNat - 48)
  else if inRange 65 70 c then some (c.toNat - 55)
  else if inRange 97 102 c then some (c.toNat - 87)
  else none

/-- the four hex digits of `decodeSingleUnicodeEscape` -/
def hex4 (a b c d : Byte) : Option Nat :=
  match h2I a, h2I b, h2I c, h2I d with
  | some x, some y, some z, some w => some (x * 4096 + y * 256 + z * 16 + w)
  | _, _, _, _ => none

/-- `backslashCharEscapeTable` -/
def simpleEsc (e : Byte) : Option Byte :=
  if e = dq then some dq
  else if e = bsl then some bsl
  else if e = 47 then some 47
  else if e = 98 then some 8
  else if e = 102 then some 12
  else if e = 110 then some 10
  else if e = 114 then some 13
  else if e = 116 then some 9
  else none

def isSurrogate (r : Nat) : Bool := 0xD800 ≤ r && r ≤ 0xDFFF

/-- `combineUTF16Surrogates` -/
def combine (hi lo : Nat) : Nat := 0x10000 + (hi - 0xD800) * 1024 + (lo - 0xDC00)

/-- jsonparser `Unescape` (byte-wise instead of block-wise copying).  A `\u` escape of a surrogate
code unit takes the four hex digits at offset 8..11 as its partner *without looking at offsets 6,7*
and accepts any partner ≥ 0xDC00 — as the library does. -/
def unesc : Bytes → Option Bytes
  | [] => some []
  | b :: rest =>
    if b ≠ bsl then (unesc rest).map (b :: ·) else
    match rest with
    | [] => none
    | e :: r =>
      match simpleEsc e with
      | some x => (unesc r).map (x :: ·)
      | none =>
        if e ≠ 117 then none else
        match r with
        | a :: b :: c :: d :: r1 =>
          match hex4 a b c d with
          | none => none
          | some cp =>
            if !isSurrogate cp then (unesc r1).map (encodeRune cp ++ ·) else
            match r1 with
            | _ :: _ :: e' :: f :: g :: h :: r2 =>
              match hex4 e' f g h with
              | none => none
              | some lo => if lo < 0xDC00 then none else (unesc r2).map (encodeRune (combine cp lo) ++ ·)
            | _ => none
        | _ => none

/-! ## The emitter `PlainStringMapToJSON` -/

/-- Go's `<` on strings -/
def bytesLt : Bytes → Bytes → Bool
  | [], [] => false
  | [], _ :: _ => true
  | _ :: _, [] => false
  | a :: as, b :: bs => if a < b then true else if b < a then false else bytesLt as bs

/-- `sort.Strings` -/
def sortKeys (ks : List Bytes) : List Bytes := ks.mergeSort (fun a b => !bytesLt b a)

/-- `strings.HasPrefix(k, p)` together with `k[len(p):]` -/
def stripPrefix : Bytes → Bytes → Option Bytes
  | [], k => some k
  | _ :: _, [] => none
  | a :: p, b :: k => if a = b then stripPrefix p k else none

/-- `strings.Index(d, ".")` together with `d[:i]` and `d[i+1:]` -/
def cutDot : Bytes → Option (Bytes × Bytes)
  | [] => none
  | c :: r =>
    if c = dot then some ([], r)
    else match cutDot r with
      | some (seg, more) => some (c :: seg, more)
      | none => none

/-- `if json != "" { json += "," }` seen from the member that comes first -/
def sepIf (more : Bytes) : Bytes := if more = [] then [] else [comma]

/-- `plainStringMapToJSON(prefix, index, keys, plainmap)`: returns the keys not consumed
(`keys[i:]`) and the members written.  `prefix` is empty or ends with a dot. -/
def emitLoop (m : Flat Bytes) : Nat → Bytes → List Bytes → List Bytes × Bytes
  | 0, _, ks => (ks, [])
  | _ + 1, _, [] => ([], [])
  | fuel + 1, pre, k :: ks =>
    match stripPrefix pre k with
    | none => (k :: ks, [])
    | some diff =>
      match cutDot diff with
      | some (seg, _) =>
        let r1 := emitLoop m fuel (pre ++ seg ++ [dot]) (k :: ks)
        let r2 := emitLoop m fuel pre r1.1
        (r2.1, fmtString seg ++ colon :: lbrace :: r1.2 ++ rbrace :: sepIf r2.2 ++ r2.2)
      | none =>
        let r2 := emitLoop m fuel pre ks
        (r2.1, fmtString diff ++ colon :: fmtString ((m.get k).getD []) ++ sepIf r2.2 ++ r2.2)

def emitFuel (ks : List Bytes) : Nat := (ks.map fun k => k.length + 1).sum + 1

/-- `PlainStringMapToJSON` for a map given by its entries (distinct keys) -/
def emit (m : Flat Bytes) : Bytes :=
  let ks := sortKeys m.keys
  lbrace :: (emitLoop m (emitFuel ks) [] ks).2 ++ [rbrace]

/-! ## The reader `JSONToPlainStringMap` (jsonparser.ObjectEach and what it calls) -/

def isWs (c : Byte) : Bool := c = 32 || c = 10 || c = 13 || c = 9

/-- `data[nextToken(data):]` (empty when `nextToken` answers -1) -/
def skipWs : Bytes → Bytes
  | [] => []
  | c :: r => if isWs c then skipWs r else c :: r

/-- `stringEnd` on the bytes after an opening quote: the raw content and what follows the closing
quote.  A quote closes the string iff it is preceded by an even number of backslashes
(`par` = parity of the current run of backslashes). -/
def stringEnd : Bool → Bytes → Option (Bytes × Bytes)
  | _, [] => none
  | par, c :: r =>
    if c = dq ∧ par = false then some ([], r)
    else
      let par' := if c = bsl then !par else false
      match stringEnd par' r with
      | some (s, rest) => some (c :: s, rest)
      | none => none

inductive Scan where
  | out
  | str (par : Bool)
deriving Repr, DecidableEq

/-- `blockEnd(data, open, close)`: the block up to the matching close symbol and what follows it.
`Scan.str` is the time spent inside `stringEnd` for a string met on the way. -/
def blockEnd (o c : Byte) : Nat → Scan → Bytes → Option (Bytes × Bytes)
  | _, _, [] => none
  | lvl, .out, b :: r =>
    if b = dq then (blockEnd o c lvl (.str false) r).map fun x => (b :: x.1, x.2)
    else if b = o then (blockEnd o c (lvl + 1) .out r).map fun x => (b :: x.1, x.2)
    else if b = c then
      if lvl ≤ 1 then some ([b], r) else (blockEnd o c (lvl - 1) .out r).map fun x => (b :: x.1, x.2)
    else (blockEnd o c lvl .out r).map fun x => (b :: x.1, x.2)
  | lvl, .str par, b :: r =>
    if b = dq ∧ par = false then (blockEnd o c lvl .out r).map fun x => (b :: x.1, x.2)
    else (blockEnd o c lvl (.str (if b = bsl then !par else false)) r).map fun x => (b :: x.1, x.2)

def isTerm (c : Byte) : Bool := isWs c || c = comma || c = rbrace || c = rbrack

/-- `data[:tokenEnd(data)]`, `data[tokenEnd(data):]` -/
def tokenSplit : Bytes → Bytes × Bytes
  | [] => ([], [])
  | c :: r => if isTerm c then ([], c :: r) else let x := tokenSplit r; (c :: x.1, x.2)

inductive Kind where
  | string | number | object | array | boolean | null
deriving Repr, DecidableEq

def litTrue : Bytes := [116, 114, 117, 101]
def litFalse : Bytes := [102, 97, 108, 115, 101]
def litNull : Bytes := [110, 117, 108, 108]

/-- `Get(data)` without keys, on data that starts at a token: `getType` plus the quote stripping of
`internalGet`; returns the kind, the value bytes and the rest -/
def getValue : Bytes → Option (Kind × Bytes × Bytes)
  | [] => none
  | c :: r =>
    if c = dq then (stringEnd false r).map fun x => (.string, x.1, x.2)
    else if c = lbrack then (blockEnd lbrack rbrack 0 .out (c :: r)).map fun x => (.array, x.1, x.2)
    else if c = lbrace then (blockEnd lbrace rbrace 0 .out (c :: r)).map fun x => (.object, x.1, x.2)
    else
      let t := tokenSplit (c :: r)
      if c = 116 ∨ c = 102 then
        if t.1 = litTrue ∨ t.1 = litFalse then some (.boolean, t.1, t.2) else none
      else if c = 117 ∨ c = 110 then
        if t.1 = litNull then some (.null, t.1, t.2) else none
      else if inRange 48 57 c ∨ c = 45 then some (.number, t.1, t.2)
      else none

/-- the body of `jsonparser.ObjectEach(data, callback)` after the opening brace, with the callback
of `jsonToPlainStringMap(resultKey, result, data)` inlined.  `top`/`pfx`: whether this is the
outermost object / the accumulated key.  Entries are returned in document order. -/
def members (fixed : Bool) : Nat → Bool → Bytes → Bytes → Option (Flat Bytes)
  | 0, _, _, _ => none
  | fuel + 1, top, pfx, d =>
    match skipWs d with
    | [] => none
    | c :: d1 =>
      if c = rbrace then some [] else
      if c ≠ dq then none else
      match stringEnd false d1 with
      | none => none
      | some (rawKey, d2) =>
        match unesc rawKey with
        | none => none
        | some key =>
          match skipWs d2 with
          | [] => none
          | c2 :: d3 =>
            if c2 ≠ colon then none else
            match getValue (skipWs d3) with
            | none => none
            | some (kind, value, d5) =>
              let nested := if fixed then !top else decide (pfx ≠ [])
              let nk := if nested then pfx ++ dot :: key else key
              let here : Option (Flat Bytes) :=
                match kind with
                | .object =>
                  match skipWs value with
                  | c' :: inner => if c' = lbrace then members fixed fuel false nk inner else none
                  | [] => none
                | .string => (unesc value).map fun s => [(nk, s)]
                | .number => some [(nk, value)]
                | _ => some []
              match here with
              | none => none
              | some es =>
                match skipWs d5 with
                | [] => none
                | c5 :: d6 =>
                  if c5 = rbrace then some es
                  else if c5 = comma then (members fixed fuel top pfx d6).map (es ++ ·)
                  else none

/-- `JSONToPlainStringMap(data)`; `none` = an error is returned -/
def readWith (fixed : Bool) (data : Bytes) : Option (Flat Bytes) :=
  match skipWs data with
  | c :: d => if c = lbrace then members fixed (data.length + 1) true [] d else none
  | [] => none

/-- the code as it is -/
def read (data : Bytes) : Option (Flat Bytes) := readWith false data

/-- the code with the proposed repair of KF-C20-1 -/
def readFixed (data : Bytes) : Option (Flat Bytes) := readWith true data

/-! ## i18mem and the loader -/

/-- `I18Mem.translates` -/
abbrev I18 := Flat Bytes

/-- `I18Mem.Set(values)`: every entry of `values` is written -/
def I18.set (st : I18) (values : Flat Bytes) : I18 := st ++ values

/-- `I18Mem.Translate(key)` without arguments, for a `%`-free stored value (`fmt.Sprintf(v) = v`) -/
def I18.translate (st : I18) (key : Bytes) : Option Bytes := st.get key

/-- `strings.HasSuffix(subPath, ".json")` -/
def isJsonName (p : Bytes) : Bool := (p.reverse.take 5) == [110, 111, 115, 106, 46]

/-- `fsi18loader.Load`: the files the walk reaches (path, content), in the order in which the
consumers happen to process them; files not named `*.json` are filtered out; a file that does not
parse is an error.  `none` = Load returns an error. -/
def load (reader : Bytes → Option (Flat Bytes)) (files : List (Bytes × Bytes)) : Option I18 :=
  (files.filter fun f => isJsonName f.1).foldlM
    (fun st f => (reader f.2).map fun tmap => I18.set st tmap) []

end Goat.PlainMap
