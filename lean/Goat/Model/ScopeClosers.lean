/-
The guard of `Scope.Close` under CONCURRENT callers (property C11, "closing twice is refused loudly rather
than repeating the events"), /repo/app/scope/scope.go:

    func (scp *Scope) Close() (err error) {
        scp.preventDoubleClosed()          // unlocked fast path (only ever refuses)
        scp.mu.Lock(); defer scp.mu.Unlock()
        scp.preventDoubleClosed()          // TEST  ┐ one critical section
        scp.closed = true                  // SET   ┘
        … BeforeClose, Wait, triple, AfterClose, parent.DoneTask() …
    }

Any number of goroutines call `Close` on ONE scope.  Goroutine `g` has its own program counter:

    idle ─(test: closed?)→ refused                                   (the panic "scope … is closed at")
    idle ─(test-and-set)──→ run 0 → run 1 → … → run 5 → done         (atomic = true: the code)
    idle ─(test)→ tested ─(set)→ run 0 → …                           (atomic = false: test and set are two steps)

`run i` fires protocol step `i`: 0 beforeClose, 1-3 the commit or rollback triple, 4 afterClose,
5 parent.DoneTask().  A schedule is any list of goroutine numbers (`step g` = the next step of goroutine g;
a goroutine that has returned or panicked does nothing): ALL interleavings of ANY number of closers.
`Goat/Model/Scope.lean` is the `atomic = true` system with one program counter per scope (`close s` is the
test-and-set, `Phase` the counter of the winner); this file only adds the per-caller counters needed to
state what happens to the other callers and to exhibit the split variant.  Core Lean only.
-/
namespace Goat.Closers

inductive Pc where
  | idle | tested | run (i : Nat) | refused | done
  deriving DecidableEq, Repr

structure St where
  closed : Bool := false
  pc : Nat → Pc := fun _ => .idle
  fired : List Nat := []          -- protocol steps fired by anybody, oldest first

def protoLen : Nat := 6

def St.setPc (st : St) (g : Nat) (p : Pc) : St := { st with pc := fun h => if h = g then p else st.pc h }

/-- the next step of goroutine `g` -/
def step (atomic : Bool) (st : St) (g : Nat) : St :=
  match st.pc g with
  | .idle =>
    if st.closed then st.setPc g .refused
    else if atomic then ({ st with closed := true }).setPc g (.run 0)
    else st.setPc g .tested
  | .tested => ({ st with closed := true }).setPc g (.run 0)
  | .run i =>
    if i < protoLen then
      ({ st with fired := st.fired ++ [i] }).setPc g (if i + 1 = protoLen then .done else .run (i + 1))
    else st
  | .refused => st
  | .done => st

def run (atomic : Bool) (sched : List Nat) : St := sched.foldl (step atomic) {}

/-- how far a goroutine that runs the protocol has got -/
def Pc.progress : Pc → Option Nat
  | .run i => some i
  | .done => some protoLen
  | _ => none

/-- the goroutine got past the guard -/
def Pc.runs (p : Pc) : Bool := p.progress.isSome

end Goat.Closers
