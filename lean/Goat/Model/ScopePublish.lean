/-
Model/ScopePublish — the publication order of a scope's failure (property C12), as a small labelled
transition system.  Core Lean only, executable.

`Goat/Model/ScopeSignal.lean` mirrors `AppendError` in the order of the code (record the errors under
`errorsMU`, unlock, then `Stop()`); its theorem `Goat.C12.done_only_if_stopped_or_error` already
says that a done context nobody stopped holds an error.  This file isolates the one design decision
behind that clause so that BOTH orders can be stated and compared:

      AppendError(e)   =   record:  errorsMU.Lock(); errors = append(errors, e); errorsMU.Unlock()
                           close:   Stop()  =  doneOnce.Do(func() { close(done) })

`Order.recordThenClose` is the code in /repo (`ScopeSignal`'s steps `appWrite` then `stopClose`),
`Order.closeThenRecord` the swapped order.  Around the appenders run the goroutines that can tell the
difference:

      observer of context c      blocked on `<-c.Done()` (or polling `c.IsDone()`); once woken it reads
                                 `c.Err()` / `c.Errors()`                        (wait → woke → saw b)
      watcher of child c of p    the goroutine of `NewIsolated(p)`: blocked on `<-p.Done()`; once woken it
                                 reads `p.Errors()` and then calls `c.Kill()` = `c.AppendError(Canceled)`
                                 (it becomes an appender on c) or `c.Stop()`      (wait → woke → appStart c | stopStart c)

Any number of goroutines (`pcs : Nat → PC`), any number of contexts (`errs`, `closed` are functions of the
context index), chains of isolated children of any depth.  Nobody calls `Stop` from outside: a `stopStart`
can only come from a watcher.  One transition = one shared access (the lock-protected record is one
critical section; a blocked receive is a disabled step).
-/
import Goat.Base.LTS

namespace Goat.ScopePublish
open Goat.LTS

inductive Order where
  | recordThenClose     -- the code in /repo
  | closeThenRecord     -- the swapped order
deriving DecidableEq, Repr

inductive PC where
  | idle
  | appStart (c : Nat)            -- AppendError(e) / Kill() on context c called, no shared access yet
  | appMid (c : Nat)              -- the first of its two accesses done
  | obsWait (c : Nat)             -- blocked on <-Done() of c
  | obsWoke (c : Nat)             -- the receive succeeded; about to read Err()
  | obsSaw (c : Nat) (err : Bool) -- has read Err(): `err` = (Err() != nil)
  | watchWait (p c : Nat)         -- watcher of isolated child c of parent p: blocked on <-p.Done()
  | watchWoke (p c : Nat)         -- the receive succeeded; about to read p.Errors()
  | stopStart (c : Nat)           -- Stop() on c called (by a watcher that saw no error)
deriving DecidableEq, Repr

structure State where
  errs   : Nat → Nat     -- how many errors context c holds
  closed : Nat → Bool    -- c's done channel is closed
  pcs    : Nat → PC      -- where goroutine t stands

def State.setPC (s : State) (t : Nat) (pc : PC) : State :=
  { s with pcs := fun u => if u = t then pc else s.pcs u }
def State.record (s : State) (c : Nat) : State :=
  { s with errs := fun d => if d = c then s.errs d + 1 else s.errs d }
def State.close (s : State) (c : Nat) : State :=
  { s with closed := fun d => if d = c then true else s.closed d }

/-- one shared access of goroutine `t`; `none` = blocked on a receive / nothing to do -/
def step (o : Order) (s : State) (t : Nat) : Option State :=
  match s.pcs t with
  | .idle => none
  | .obsSaw _ _ => none
  | .appStart c =>
    match o with
    | .recordThenClose => some ((s.record c).setPC t (.appMid c))
    | .closeThenRecord => some ((s.close c).setPC t (.appMid c))
  | .appMid c =>
    match o with
    | .recordThenClose => some ((s.close c).setPC t .idle)
    | .closeThenRecord => some ((s.record c).setPC t .idle)
  | .obsWait c => if s.closed c then some (s.setPC t (.obsWoke c)) else none
  | .obsWoke c => some (s.setPC t (.obsSaw c (decide (0 < s.errs c))))
  | .watchWait p c => if s.closed p then some (s.setPC t (.watchWoke p c)) else none
  | .watchWoke p c => some (s.setPC t (if 0 < s.errs p then .appStart c else .stopStart c))
  | .stopStart c => some ((s.close c).setPC t .idle)

/-- what a goroutine may be doing initially: nothing, calling `AppendError`/`Kill`, waiting on `Done()`,
or being the watcher of an isolated child — in particular nobody is calling `Stop` -/
def PC.initial : PC → Prop
  | .idle | .appStart _ | .obsWait _ | .watchWait _ _ => True
  | _ => False

def initState (pcs : Nat → PC) : State := { errs := fun _ => 0, closed := fun _ => false, pcs := pcs }

/-- the system: a schedule is a list of goroutine numbers -/
def sys (o : Order) (pcs : Nat → PC) : Sys State Nat := { init := initState pcs, step := step o }

/-- goroutines given by a list (everything beyond it idle): the form used by the evaluated witnesses -/
def ofList (l : List PC) : Nat → PC := fun t => l.getD t .idle

end Goat.ScopePublish
