/-
Model/ScopeSignal — failure signalling of the goatcore scopes (property C12), as a labelled
transition system with any number of goroutines.  Core Lean only, executable.

What is mirrored (goatcore, after the fix commits 0e3d946 and 927d128):

  app/scope/contextscope/context.go, isolated.go           (both context kinds, same code)

      AppendError(errs...)   errorsMU.Lock(); for non-nil err: errors = append(errors, err);
                             errorsMU.Unlock(); if any non-nil: Stop()
      Kill()                 AppendError(context.Canceled)
      Stop()                 doneOnce.Do(func() { close(done) })
      IsDone()               non-blocking receive on done
      Err()/Errors()         errorsMU.Lock(); copy of errors; errorsMU.Unlock()
      NewIsolated(parent)    go func() { select { case <-parent.Done(): if len(parent.Errors())
                             != 0 { isolated.Kill() } else { isolated.Stop() }
                             case <-isolated.done: return } }()

  app/scope/scope.go, child.go

      AddTasks(1)            if IsDone() { return ErrDoned }; wg.Add(1)        (check, then add)
      NewChild(parent, ..)   registered := AddTasks(1) == nil; child.parent = parent iff registered;
                             the child's context is the parent's own context object unless one is given
      Close()                ...; if parent != nil { parent.DoneTask() }       (wg.Add(-1))

Granularity.  One transition = one access to shared memory, or one whole critical section where
the code holds a lock: `errorsMU.Lock` (blocks while another goroutine owns the mutex), the read of
the slice header, the write of the extended slice + `Unlock`, entering `Once.Do` (blocks while
another goroutine is inside it), `close(done)` + leaving the `Once`, the non-blocking receive of
`IsDone`, the two halves of `Errors()`, the `select` of the propagation goroutine (the choice
between two ready cases is the scheduler's: labels `run`/`alt`), its `parent.Errors()` read, the
`IsDone` test of `AddTasks`, its `wg.Add(1)`, the construction of the child, the `wg.Add(-1)` of
`Close`.  A call label performs the local call *and* the first shared access of the operation.

`closes` counts executions of `close(done)`: the channel is closed iff `closes ≥ 1`, and a state
with `closes ≥ 2` is the run-time panic "close of closed channel".  `wg` is an `Int` so that the
run-time panic "sync: negative WaitGroup counter" is the reachable state `wg < 0`.

`requested`, `stopCalls`, `propKills`, `propStops` are ghost fields (what was asked for, by whom);
no transition reads them.

The system is parameterised by a `Variant`; `Variant.fixed` is the code in /repo,
`Variant.pinned` the tree before the two fix commits (Stop = `if !IsDone() { close(done) }`,
accessors read without the mutex, NewChild ignores the refusal of AddTasks).  Two further switches
describe mutants used by the self-test of the check.

Not modelled here (property C11/C13 own them): listeners and events, the Wait of Close, the closed
flag checks of `scope.Scope.Kill/Stop/AppendError`, data scopes.  `Close` is over-approximated:
it may fire at any time (it does not wait for the scope's own counter), which only adds behaviours.
-/
import Goat.Base.LTS

namespace Goat.ScopeSignal
open Goat.LTS

/-- id of `context.Canceled` in error lists -/
def canceled : Nat := 0

inductive Kind where
  | plain
  | isolated (parent : Nat)
deriving DecidableEq, Repr

/-- state of a `sync.Once` -/
inductive Once where
  | fresh
  | running (t : Nat)
  | finished
deriving DecidableEq, Repr

/-- one context object (`contextscope.ContextScope` or `contextscope.Isolated`) -/
structure Ctx where
  kind      : Kind
  errors    : List Nat := []
  mu        : Option Nat := none      -- owner of errorsMU
  once      : Once := .fresh          -- doneOnce
  closes    : Nat := 0                -- executions of close(done)
  requested : List Nat := []          -- ghost: every non-nil error handed to AppendError/Kill, by anyone, in call order
  stopCalls : Nat := 0                -- ghost: Stop() calls made by callers
  propKills : Nat := 0                -- ghost: Kill() calls made by the propagation goroutine (their Canceled is in `requested`)
  propStops : Nat := 0                -- ghost: Stop() calls made by the propagation goroutine
deriving DecidableEq, Repr

/-- one `scope.Scope` as far as signalling is concerned -/
structure Scope where
  ctx    : Nat                        -- index of its context object (shared children alias the parent's)
  wg     : Int := 0                   -- sync.WaitGroup counter
  parent : Option Nat := none         -- the `parent` field: where Close signs off
  closed : Bool := false
deriving DecidableEq, Repr

/-- where a goroutine stands -/
inductive PC where
  | idle
  | exited
  | appLock   (c : Nat) (ids : List Nat)        -- AppendError: before errorsMU.Lock
  | appRead   (c : Nat) (ids : List Nat)        -- in the critical section, before reading the slice
  | appWrite  (c : Nat) (ids snap : List Nat)   -- slice read (snap), before writing append(snap, ids…) and Unlock
  | stopEnter (c : Nat)                         -- Stop: before Once.Do / before the IsDone test (pinned)
  | stopClose (c : Nat)                         -- inside the Once body / after the test said "not done": before close(done)
  | isDone    (c : Nat)
  | errLock   (c : Nat)                         -- Err/Errors: before errorsMU.Lock
  | errRead   (c : Nat)                         -- holding errorsMU: copy and Unlock
  | propWait  (c p : Nat)                       -- propagation goroutine of isolated context c, parent p: at the select
  | propCheck (c p : Nat)                       -- took `<-parent.Done()`: before parent.Errors()
  | ncCheck   (p : Nat) (own : Option Nat)      -- NewChild of scope p: AddTasks' IsDone test
  | ncAdd     (p : Nat) (own : Option Nat)      -- test said "not done": before wg.Add(1)
  | ncMk      (p : Nat) (own : Option Nat) (reg : Bool)  -- before the child object is published
  | closing   (sid : Nat)                       -- Close: the sign-off from the parent
deriving DecidableEq, Repr

structure State where
  ctxs    : List Ctx
  scopes  : List Scope
  threads : List PC
deriving DecidableEq, Repr

structure Variant where
  onceStop    : Bool   -- Stop closes under sync.Once (false: `if !IsDone() { close(done) }`)
  lockAppend  : Bool   -- AppendError holds errorsMU around the append (false: mutant)
  lockRead    : Bool   -- Err/Errors hold errorsMU (false: pinned tree)
  childChecks : Bool   -- NewChild keeps `parent` only if AddTasks accepted (false: pinned tree)
  propParent  : Bool   -- mutant: the propagation goroutine stops/kills the parent instead of its own context
deriving DecidableEq, Repr

def Variant.fixed : Variant := ⟨true, true, true, true, false⟩
def Variant.pinned : Variant := ⟨false, true, false, false, false⟩
/-- mutant: AppendError without errorsMU -/
def Variant.unlockedAppend : Variant := ⟨true, false, true, true, false⟩
/-- mutant: the propagation goroutine acts on the parent -/
def Variant.propToParent : Variant := ⟨true, true, true, true, true⟩

/-- operations on the context of a scope -/
inductive Op where
  | append (ids : List Nat)     -- AppendError with these non-nil errors (nil arguments are skipped by the code)
  | kill
  | stop
  | isDone
  | err
deriving DecidableEq, Repr

inductive Call where
  | op (o : Op) (sid : Nat)                 -- o on scope sid (a shared child resolves to its parent's context)
  | newChild (p : Nat) (own : Option Nat)   -- scope.NewChild(p, {ContextScope: own})
  | close (sid : Nat)
deriving DecidableEq, Repr

inductive Label where
  | call (t : Nat) (k : Call)   -- idle goroutine t starts k and performs its first shared access
  | run (t : Nat)               -- goroutine t performs its next shared access
  | alt (t : Nat)               -- propagation goroutine t takes the `<-isolated.done` case of its select
deriving DecidableEq, Repr

namespace State

def setPC (s : State) (t : Nat) (pc : PC) : State := { s with threads := s.threads.set t pc }
def setCtx (s : State) (c : Nat) (x : Ctx) : State := { s with ctxs := s.ctxs.set c x }
def setScope (s : State) (i : Nat) (x : Scope) : State := { s with scopes := s.scopes.set i x }

end State

/-- the local part of a call: resolve the scope, bump the ghost counters, move to the entry point -/
def enter (s : State) (t : Nat) : Call → Option State
  | .op o sid =>
    match s.threads[t]?, s.scopes[sid]? with
    | some .idle, some sc =>
      match s.ctxs[sc.ctx]? with
      | none => none
      | some x =>
        let c := sc.ctx
        match o with
        | .append ids => some ((s.setCtx c { x with requested := x.requested ++ ids }).setPC t (.appLock c ids))
        | .kill => some ((s.setCtx c { x with requested := x.requested ++ [canceled] }).setPC t (.appLock c [canceled]))
        | .stop => some ((s.setCtx c { x with stopCalls := x.stopCalls + 1 }).setPC t (.stopEnter c))
        | .isDone => some (s.setPC t (.isDone c))
        | .err => some (s.setPC t (.errLock c))
    | _, _ => none
  | .newChild p own =>
    match s.threads[t]? with
    | some .idle => some (s.setPC t (.ncCheck p own))
    | _ => none
  | .close sid =>
    match s.threads[t]? with
    | some .idle => some (s.setPC t (.closing sid))
    | _ => none

/-- one shared access of goroutine `t`; `none` = blocked / nothing to do -/
def stepT (v : Variant) (s : State) (t : Nat) (alt : Bool) : Option State :=
  match s.threads[t]? with
  | none => none
  | some pc =>
    match pc with
    | .idle => none
    | .exited => none
    | .appLock c ids =>
      match s.ctxs[c]? with
      | none => none
      | some x =>
        if v.lockAppend then
          (if x.mu = none then some ((s.setCtx c { x with mu := some t }).setPC t (.appRead c ids)) else none)
        else some (s.setPC t (.appRead c ids))
    | .appRead c ids =>
      match s.ctxs[c]? with
      | none => none
      | some x => some (s.setPC t (.appWrite c ids x.errors))
    | .appWrite c ids snap =>
      match s.ctxs[c]? with
      | none => none
      | some x =>
        some ((s.setCtx c { x with errors := snap ++ ids, mu := if v.lockAppend then none else x.mu }).setPC t
          (if ids = [] then .idle else .stopEnter c))
    | .stopEnter c =>
      match s.ctxs[c]? with
      | none => none
      | some x =>
        if v.onceStop then
          match x.once with
          | .fresh => some ((s.setCtx c { x with once := .running t }).setPC t (.stopClose c))
          | .running _ => none
          | .finished => some (s.setPC t .idle)
        else
          (if x.closes = 0 then some (s.setPC t (.stopClose c)) else some (s.setPC t .idle))
    | .stopClose c =>
      match s.ctxs[c]? with
      | none => none
      | some x =>
        some ((s.setCtx c { x with closes := x.closes + 1,
                                   once := if v.onceStop then .finished else x.once }).setPC t .idle)
    | .isDone _ => some (s.setPC t .idle)
    | .errLock c =>
      match s.ctxs[c]? with
      | none => none
      | some x =>
        if v.lockRead then
          (if x.mu = none then some ((s.setCtx c { x with mu := some t }).setPC t (.errRead c)) else none)
        else some (s.setPC t (.errRead c))
    | .errRead c =>
      match s.ctxs[c]? with
      | none => none
      | some x => some ((s.setCtx c { x with mu := if v.lockRead then none else x.mu }).setPC t .idle)
    | .propWait c p =>
      match s.ctxs[c]?, s.ctxs[p]? with
      | some x, some px =>
        if alt then (if 1 ≤ x.closes then some (s.setPC t .exited) else none)
        else (if 1 ≤ px.closes then some (s.setPC t (.propCheck c p)) else none)
      | _, _ => none
    | .propCheck c p =>
      match s.ctxs[p]? with
      | none => none
      | some px =>
        if v.lockRead && px.mu ≠ none then none else
        let tgt := if v.propParent then p else c
        match s.ctxs[tgt]? with
        | none => none
        | some x =>
          if px.errors ≠ [] then
            some ((s.setCtx tgt { x with requested := x.requested ++ [canceled], propKills := x.propKills + 1 }).setPC t
              (.appLock tgt [canceled]))
          else
            some ((s.setCtx tgt { x with propStops := x.propStops + 1 }).setPC t (.stopEnter tgt))
    | .ncCheck p own =>
      match s.scopes[p]? with
      | none => none
      | some sc =>
        match s.ctxs[sc.ctx]? with
        | none => none
        | some x => if 1 ≤ x.closes then some (s.setPC t (.ncMk p own false)) else some (s.setPC t (.ncAdd p own))
    | .ncAdd p own =>
      match s.scopes[p]? with
      | none => none
      | some sc => some ((s.setScope p { sc with wg := sc.wg + 1 }).setPC t (.ncMk p own true))
    | .ncMk p own reg =>
      match s.scopes[p]? with
      | none => none
      | some sc =>
        let child : Scope := { ctx := own.getD sc.ctx,
                               parent := if reg || !v.childChecks then some p else none }
        some ({ s with scopes := s.scopes ++ [child] }.setPC t .idle)
    | .closing sid =>
      match s.scopes[sid]? with
      | none => none
      | some sc =>
        if sc.closed then none else
        let s1 := s.setScope sid { sc with closed := true }
        match sc.parent with
        | none => some (s1.setPC t .idle)
        | some p =>
          match s1.scopes[p]? with
          | none => some (s1.setPC t .idle)
          | some ps => some ((s1.setScope p { ps with wg := ps.wg - 1 }).setPC t .idle)

def step (v : Variant) (s : State) : Label → Option State
  | .call t k => (enter s t k).bind (fun s' => stepT v s' t false)
  | .run t => stepT v s t false
  | .alt t => stepT v s t true

/-- the propagation goroutines started by `NewIsolated`, one per isolated context -/
def propThreads : List Kind → Nat → List PC
  | [], _ => []
  | .plain :: ks, i => propThreads ks (i + 1)
  | .isolated p :: ks, i => .propWait i p :: propThreads ks (i + 1)

def rootScopes : Nat → Nat → List Scope
  | 0, _ => []
  | n + 1, i => { ctx := i } :: rootScopes n (i + 1)

/-- A configuration: `n` caller goroutines and a forest of contexts (`kinds[c] = isolated p` means
context `c` was made by `NewIsolated(p)`).  Scope `i` (for `i < kinds.length`) is the root scope
wrapping context `i`; further scopes are created by `newChild`. -/
structure Config where
  n     : Nat
  kinds : List Kind
deriving Repr

def initState (cfg : Config) : State :=
  { ctxs := cfg.kinds.map (fun k => { kind := k }),
    scopes := rootScopes cfg.kinds.length 0,
    threads := List.replicate cfg.n .idle ++ propThreads cfg.kinds 0 }

def sys (v : Variant) (cfg : Config) : Sys State Label :=
  { init := initState cfg, step := step v }

/-! ### Observables -/

def Ctx.done (x : Ctx) : Bool := decide (1 ≤ x.closes)
def Ctx.doubleClose (x : Ctx) : Bool := decide (2 ≤ x.closes)

/-- some context's `done` channel was closed twice (run-time panic) -/
def State.doubleClose (s : State) : Bool := s.ctxs.any Ctx.doubleClose
/-- some wait group went negative (run-time panic) -/
def State.negativeCounter (s : State) : Bool := s.scopes.any (fun sc => decide (sc.wg < 0))

/-- the context a pending context operation works on -/
def PC.onCtx : PC → Option Nat
  | .appLock c _ | .appRead c _ | .appWrite c _ _ | .stopEnter c | .stopClose c
  | .isDone c | .errLock c | .errRead c => some c
  | _ => none

/-- no goroutine is inside an operation on context `c` (the propagation goroutine parked at its
`select`, or between the select and its decision, does not count: it has not called anything yet) -/
def State.quiet (s : State) (c : Nat) : Prop :=
  ∀ (t : Nat) (pc : PC), s.threads[t]? = some pc → pc.onCtx ≠ some c

/-- executable form of `quiet` -/
def State.quietB (s : State) (c : Nat) : Bool := s.threads.all (fun pc => pc.onCtx != some c)

/-- what the shared access that label `l` is about to perform observes (used by the driver only) -/
inductive Event where
  | none
  | isDone (c : Nat) (b : Bool)
  | errs (c : Nat) (es : List Nat)
  | closed (c : Nat) (nth : Nat)        -- close(done) executed for the nth time
  | refused (p : Nat)                   -- AddTasks answered ErrDoned
  | wg (p : Nat) (v : Int)
deriving Repr

def eventOfPC (s : State) : PC → Event
  | .isDone c => match s.ctxs[c]? with | some x => .isDone c x.done | none => .none
  | .errRead c => match s.ctxs[c]? with | some x => .errs c x.errors | none => .none
  | .stopClose c => match s.ctxs[c]? with | some x => .closed c (x.closes + 1) | none => .none
  | .ncCheck p _ =>
    match s.scopes[p]? with
    | some sc => match s.ctxs[sc.ctx]? with | some x => if x.done then .refused p else .none | none => .none
    | none => .none
  | .ncAdd p _ => match s.scopes[p]? with | some sc => .wg p (sc.wg + 1) | none => .none
  | .closing sid =>
    match s.scopes[sid]? with
    | some sc =>
      match sc.parent with
      | some p => match s.scopes[p]? with | some ps => .wg p (ps.wg - 1) | none => .none
      | none => .none
    | none => .none
  | _ => .none

/-! ### History monitor

`Hist` is what the stress harness records about ONE context after all goroutines have returned:
how many tagged (non-nil, non-Canceled) errors were appended, how many `Kill` and `Stop` calls were
made, for an isolated context whether its parent was done / held errors when the harness looked, and
what the accessors answered.  `conforms` is the quiescent content of the theorems of C12 read as a
decision procedure. -/
structure Hist where
  isolated   : Bool
  appended   : Nat      -- non-nil tagged errors handed to AppendError
  kills      : Nat
  stops      : Nat
  parentDone : Bool
  parentErr  : Bool
  lenTagged  : Nat      -- tagged errors in Errors()
  lenCancel  : Nat      -- context.Canceled entries in Errors()
  errNonNil  : Bool     -- Err() != nil
  done       : Bool     -- receive on Done() succeeded
  panics     : Nat
deriving Repr, DecidableEq

def conforms (h : Hist) : Bool :=
  h.panics == 0
  && h.lenTagged == h.appended
  && (h.lenCancel == h.kills || (h.isolated && h.parentDone && h.parentErr && h.lenCancel == h.kills + 1))
  && (h.errNonNil == decide (0 < h.lenTagged + h.lenCancel))
  && (!(decide (0 < h.stops + h.appended + h.kills)) || h.done)
  && (!h.done || decide (0 < h.stops + h.lenTagged + h.lenCancel) || (h.isolated && h.parentDone))

def isCanceled (e : Nat) : Bool := e == canceled

/-- The history of context `x` in state `s` as the harness would have recorded it, read off the ghost fields:
tagged errors are the non-`Canceled` ones handed in, `kills` the `Canceled` ones not accounted for by the
propagation goroutine; the parent's flags are those of the parent context in `s` (the harness reads them
after the child's — they only ever turn from false to true, and `conforms` is monotone in them). -/
def histOf (s : State) (x : Ctx) : Hist :=
  let par : Option Ctx := match x.kind with | .isolated p => s.ctxs[p]? | .plain => none
  { isolated := match x.kind with | .isolated _ => true | .plain => false,
    appended := x.requested.countP (fun e => !isCanceled e),
    kills := x.requested.countP isCanceled - x.propKills,
    stops := x.stopCalls,
    parentDone := match par with | some px => px.done | none => false,
    parentErr := match par with | some px => !px.errors.isEmpty | none => false,
    lenTagged := x.errors.countP (fun e => !isCanceled e),
    lenCancel := x.errors.countP isCanceled,
    errNonNil := !x.errors.isEmpty,
    done := x.done,
    panics := 0 }

def conformsWhy (h : Hist) : String :=
  if h.panics != 0 then "panic"
  else if h.lenTagged != h.appended then "lost-or-extra-error"
  else if !(h.lenCancel == h.kills || (h.isolated && h.parentDone && h.parentErr && h.lenCancel == h.kills + 1)) then "canceled-count"
  else if h.errNonNil != decide (0 < h.lenTagged + h.lenCancel) then "err-accessor"
  else if decide (0 < h.stops + h.appended + h.kills) && !h.done then "not-done"
  else if h.done && !(decide (0 < h.stops + h.lenTagged + h.lenCancel) || (h.isolated && h.parentDone)) then "spurious-done"
  else "ok"

end Goat.ScopeSignal
