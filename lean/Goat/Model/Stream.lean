/-
Executable model of goatcore's streams and stream-based copy helpers (core Lean only; linked into
the `m_stream` driver).  Property C04.

Mirrors, in the Go control flow:
  filesystem/filespace/memfs/file_handler.go   `WHandle` kind `mem` (`Writer` truncates the file when it
                                                opens it, `Write` appends), `RHandle` style `eager`
                                                (`Read`: copy from the pointer, `io.EOF` together with the
                                                last bytes, and again on every later read)
  filesystem/filespace/diskfs/filespace.go      `WHandle` kind `disk`: `os.OpenFile(O_WRONLY|O_CREATE|O_TRUNC)`,
        diskfs/handler.go                       writes go to the file offset; `RHandle` style `lazy` (`*os.File`:
                                                `io.EOF` only on a read that finds nothing left)
  encryptfs, fscache                            seen through their plain side they are one of the two kinds:
                                                enc∘X behaves as X (the AEAD is opaque, the reader serves the
                                                decrypted bytes eagerly), the cache writes into a memfs buffer
  io.Copy (Go standard library)                 `ioLoop`: the generic read/write loop with an ARBITRARY chunking
                                                oracle (`sizes`: how many bytes each `Read` delivers at most);
                                                modelled, trusted as the stdlib contract
  filesystem/fshelper/main.go   StreamCopy      `streamCopy2` (source and destination path may differ: the same
  filesystem/fshelper/copier.go copyFile        function is `Copier.copyFile`); error propagation of every stage
  filesystem/fshelper/copy.go   Copy            `treeCopy`: the callbacks `OnDir` = `MkdirAll`, `OnFile` =
                                                `MkdirAll(path.Dir)` + `StreamCopy`, run over an ARBITRARY visiting
                                                order of the source's nodes (what C08 guarantees of `fsloop`: every
                                                node exactly once when no error occurred; after the first error —
                                                the lifecycle is strict — any number `extra` of further callbacks),
                                                errors collected, result = error iff any was collected
  filesystem/fshelper/copier.go Copier.Do       `copierDo`

The filesystems the helpers work on are the point-wise specification states of `Goat/Spec/FS.lean`
(`Path → Option Entry`) with the Spec's own `MkdirAll`/write post-states; C01 proves that memfs refines them.
The two destination kinds differ in one respect only: a memory `Writer` creates missing parent directories,
a disk `Writer` needs the parent directory.

Fault injection: every stage of every helper consults a `Plan` (`Stage → call index → Option Mode`) with the
number of calls of that stage made so far (`Calls`); `oneFault s k m` fails exactly the `k`-th call of stage
`s` (what the harness's decorator does), `noFault` none.  A `short` read delivers part of the data together
with a non-EOF error; a `short` write stores part of the chunk and reports fewer bytes than asked
(`io.ErrShortWrite`); a `short` writer `Close` loses the last chunk written (a backend that delivers its last
bytes on `Close`, and fails).  A failing `Close` has closed the underlying stream.
-/
import Goat.Base.Tree
import Goat.Spec.FS

namespace Goat
namespace Stream

open FS (Entry State)
open Path (Name)

abbrev Path := List Name

/-! ### 1. Fault injection -/

/-- the faultable calls: on the source `Reader(p)`, `Read`, reader `Close`, `ReadDir`, `Filespace(p)`;
on the destination `Writer(p)`, `Write`, writer `Close`, `MkdirAll`, `Filespace(p)` -/
inductive Stage where
  | openReader | read | closeReader | list | srcView
  | openWriter | write | closeWriter | mkdir | dstView
deriving DecidableEq, Repr

/-- `hard`: the call does nothing and returns an error; `short` (read/write only): part of the bytes is
transferred, then the error (for a write: `n < len(p)` and no error) -/
inductive Mode where
  | hard | short
deriving DecidableEq, Repr

/-- which calls fail -/
abbrev Plan := Stage → Nat → Option Mode

def noFault : Plan := fun _ _ => none

/-- fail the `k`-th (from 0) call of stage `s` -/
def oneFault (s : Stage) (k : Nat) (m : Mode) : Plan :=
  fun s' k' => if s' = s ∧ k' = k then some m else none

/-- the `fault : Option (Stage × Nat)` of DESIGN C04 -/
def planOf : Option (Stage × Nat) → Plan
  | none => noFault
  | some (s, k) => oneFault s k .hard

/-- how many calls of each stage have been made -/
abbrev Calls := Stage → Nat

def Calls.zero : Calls := fun _ => 0
def Calls.add (c : Calls) (s : Stage) (n : Nat) : Calls := fun s' => if s' = s then c s' + n else c s'
def Calls.bump (c : Calls) (s : Stage) : Calls := c.add s 1

/-! ### 2. Reader handles -/

/-- when `io.EOF` is reported: `eager` with the read that reaches the end (memfs `FileHandler`, the
decrypting reader), `lazy` by a read that finds nothing left (`*os.File`) -/
inductive EofStyle where
  | eager | lazy
deriving DecidableEq, Repr

structure RHandle where
  data : Bytes
  pos : Nat
  style : EofStyle

/-- `fs.Reader(path)` on a file holding `data` -/
def RHandle.open (style : EofStyle) (data : Bytes) : RHandle := ⟨data, 0, style⟩

/-- `Read(buf)` with `len(buf) = n`: the bytes delivered, whether `io.EOF` came with them, the handle -/
def RHandle.read (h : RHandle) (n : Nat) : Bytes × Bool × RHandle :=
  let chunk := (h.data.drop h.pos).take n
  let pos' := h.pos + chunk.length
  match h.style with
  | .eager => (chunk, pos' == h.data.length, { h with pos := pos' })
  | .lazy => (chunk, n != 0 && chunk.isEmpty, { h with pos := pos' })

/-- successive reads with buffers of the given sizes -/
def RHandle.reads : RHandle → List Nat → List (Bytes × Bool)
  | _, [] => []
  | h, n :: ns => ((h.read n).1, (h.read n).2.1) :: reads (h.read n).2.2 ns

/-! ### 3. Writer handles -/

/-- destination kinds: `mem` (memfs; also the cache, whose buffer is a memfs, and enc∘mem),
`disk` (diskfs; also enc∘disk) -/
inductive Backend where
  | mem | disk
deriving DecidableEq, Repr

structure WHandle where
  kind : Backend
  /-- the file's content as stored -/
  content : Bytes
  /-- file offset of the next write (disk); a memory handle appends -/
  off : Nat
  /-- length of the most recent `Write` (what a `Close` that loses its last bytes loses) -/
  lastLen : Nat := 0

/-- a writer opened on a path where `old` stands (`none` = no file); `trunc` = the open truncates -/
def WHandle.openWith (trunc : Bool) (kind : Backend) (old : Option Bytes) : WHandle :=
  ⟨kind, if trunc then [] else old.getD [], 0, 0⟩

/-- what the CURRENT code does when a writer is opened: memfs `Writer` sets `file.data = []byte{}`
(after `fix: memfs Writer replaces old content`), diskfs `Writer` passes `os.O_TRUNC`
(after `fix: diskfs Writer truncates an existing file`) -/
def truncOnOpen : Backend → Bool
  | .mem => true
  | .disk => true

def WHandle.open (kind : Backend) (old : Option Bytes) : WHandle :=
  WHandle.openWith (truncOnOpen kind) kind old

/-- `Write(p)`: memory `file.data = append(file.data, p...)`; disk: overwrite at the offset -/
def WHandle.write (h : WHandle) (p : Bytes) : WHandle :=
  match h.kind with
  | .mem => { h with content := h.content ++ p, lastLen := p.length }
  | .disk => { h with content := h.content.take h.off ++ p ++ h.content.drop (h.off + p.length),
                      off := h.off + p.length, lastLen := p.length }

def WHandle.writes (h : WHandle) : List Bytes → WHandle
  | [] => h
  | c :: cs => (h.write c).writes cs

/-- `Close()`: what the file holds from then on -/
def WHandle.close (h : WHandle) : Bytes := h.content

/-- a `Close` that fails to deliver the last chunk written (a backend that hands its last bytes over only on
`Close` — diskfs syncs there, the encrypting writer seals and writes there — and fails doing so) -/
def WHandle.loseLast (h : WHandle) : WHandle :=
  { h with content := h.content.take (h.content.length - h.lastLen), lastLen := 0 }

/-! ### 4. Filesystems -/

def isFileB : Option Entry → Bool
  | some (.file _) => true
  | _ => false

def isDirB : Option Entry → Bool
  | some .dir => true
  | _ => false

def fileData : Option Entry → Option Bytes
  | some (.file d) => some d
  | _ => none

/-- all prefixes of a path, the path itself included -/
def prefixes (p : Path) : List Path := (List.range (p.length + 1)).map (p.take ·)

/-- executable `FS.mkdirOk`: no node on the way to `p` (including `p`) is a file -/
def mkdirOkB (S : State) (p : Path) : Bool := (prefixes p).all fun q => !isFileB (S q)

/-- the file at `p` holds `d` -/
def put (S : State) (p : Path) (d : Bytes) : State := fun q => if q = p then some (.file d) else S q

/-- a source filespace: its tree, how its readers report EOF, and whether `Reader(p)` of a DIRECTORY
succeeds (diskfs: `os.OpenFile(dir, O_RDONLY)` does; every `Read` of such a handle then fails) -/
structure Src where
  style : EofStyle
  st : State
  dirOpens : Bool := false

/-- `Reader(p)`: `some (some data)` a file's reader, `some none` a handle whose reads all fail (a directory
opened by diskfs), `none` = the open fails -/
def Src.openReader (S : Src) (p : Path) : Option (Option Bytes) :=
  match S.st p with
  | some (.file d) => some (some d)
  | some .dir => if S.dirOpens then some none else none
  | none => none

/-- a destination filespace -/
structure Dest where
  kind : Backend
  st : State

/-- `MkdirAll(p)` (Spec: `Mut (mkdirOk S p) (mkdirSt S p)`); `none` = error, nothing changed -/
def Dest.mkdirAll (D : Dest) (p : Path) : Option Dest :=
  if mkdirOkB D.st p then some { D with st := FS.mkdirSt D.st p } else none

/-- can `Writer(p)` be opened: not the root, not a directory; memory creates the parents (no file on the
way), disk needs the parent directory -/
def Dest.canOpen (D : Dest) (p : Path) : Bool :=
  !p.isEmpty && !isDirB (D.st p) &&
    match D.kind with
    | .mem => mkdirOkB D.st p.dropLast
    | .disk => isDirB (D.st p.dropLast)

/-- `Writer(p)`: the filesystem with the created/truncated file, and the handle -/
def Dest.openWriter (D : Dest) (p : Path) : Option (Dest × WHandle) :=
  if D.canOpen p then
    let w := WHandle.open D.kind (fileData (D.st p))
    let S1 := match D.kind with
      | .mem => FS.mkdirSt D.st p.dropLast
      | .disk => D.st
    some ({ D with st := put S1 p w.content }, w)
  else none

/-- the file at `p` holds what the handle has stored -/
def Dest.store (D : Dest) (p : Path) (w : WHandle) : Dest := { D with st := put D.st p w.content }

/-- `Writer(p)`, one `Write` per chunk, `Close` -/
def Dest.writer (D : Dest) (p : Path) (chunks : List Bytes) : Option Dest :=
  match D.openWriter p with
  | none => none
  | some (d1, w) => some (d1.store p (w.writes chunks))

/-- `Reader(p)`, one `Read` per size, `Close` -/
def Src.reader (S : Src) (p : Path) (sizes : List Nat) : Option (List (Bytes × Bool)) :=
  match S.st p with
  | some (.file d) => some ((RHandle.open S.style d).reads sizes)
  | _ => none

/-! ### 5. `io.Copy` -/

/-- `io.Copy` allocates a 32 KiB buffer when neither side offers `WriteTo`/`ReadFrom` -/
def bufSize : Nat := 32768

inductive RStat where
  | more | eof | err
deriving DecidableEq, Repr

/-- one `src.Read(buf)` under the plan; at most `n` bytes are delivered -/
def faultyRead (pl : Plan) (c : Calls) (r : RHandle) (n : Nat) : Bytes × RStat × Calls × RHandle :=
  match pl .read (c .read) with
  | some .hard => ([], .err, c.bump .read, r)
  | some .short => ((r.read (n / 2)).1, .err, c.bump .read, (r.read (n / 2)).2.2)
  | none => ((r.read n).1, if (r.read n).2.1 then .eof else .more, c.bump .read, (r.read n).2.2)

/-- one `dst.Write(chunk)` under the plan; `false` = error or short write -/
def faultyWrite (pl : Plan) (c : Calls) (w : WHandle) (chunk : Bytes) : Bool × Calls × WHandle :=
  match pl .write (c .write) with
  | some .hard => (false, c.bump .write, w)
  | some .short => (false, c.bump .write, w.write (chunk.take (chunk.length / 2)))
  | none => (true, c.bump .write, w.write chunk)

/-- how many bytes the next `Read` delivers at most: the oracle's next size (never more than the buffer),
a full buffer once the oracle's list is used up -/
def chunkSize : List Nat → Nat
  | [] => bufSize
  | s :: _ => min s bufSize

structure CopyOut where
  ok : Bool
  calls : Calls
  r : RHandle
  w : WHandle

/-- the loop of `io.copyBuffer`:
```
for { nr, er := src.Read(buf)
      if nr > 0 { nw, ew := dst.Write(buf[0:nr]); if ew != nil {err = ew; break}
                  if nr != nw {err = ErrShortWrite; break} }
      if er != nil { if er != EOF {err = er}; break } }
```
`sizes` is the chunking oracle (the i-th `Read` delivers at most `sizes[i]` bytes, a full buffer once the
list is used up); `fuel` bounds the iterations (`ioCopy` supplies enough, see `Props/C04.ioCopy_exact`). -/
def ioLoop (pl : Plan) : Nat → List Nat → Calls → RHandle → WHandle → CopyOut
  | 0, _, c, r, w => ⟨false, c, r, w⟩
  | fuel + 1, sizes, c, r, w =>
    -- (chunk, status, calls, reader) of this round's Read
    let rd := faultyRead pl c r (chunkSize sizes)
    if rd.1.isEmpty then
      match rd.2.1 with
      | .more => ioLoop pl fuel sizes.tail rd.2.2.1 rd.2.2.2 w
      | .eof => ⟨true, rd.2.2.1, rd.2.2.2, w⟩
      | .err => ⟨false, rd.2.2.1, rd.2.2.2, w⟩
    else
      -- (ok, calls, writer) of this round's Write
      let wr := faultyWrite pl rd.2.2.1 w rd.1
      if wr.1 then
        match rd.2.1 with
        | .more => ioLoop pl fuel sizes.tail wr.2.1 rd.2.2.2 wr.2.2
        | .eof => ⟨true, wr.2.1, rd.2.2.2, wr.2.2⟩
        | .err => ⟨false, wr.2.1, rd.2.2.2, wr.2.2⟩
      else ⟨false, wr.2.1, rd.2.2.2, wr.2.2⟩

/-- `io.Copy(writer, reader)` -/
def ioCopy (pl : Plan) (sizes : List Nat) (c : Calls) (r : RHandle) (w : WHandle) : CopyOut :=
  ioLoop pl (sizes.length + (r.data.length - r.pos) + 2) sizes c r w

/-! ### 6. `fshelper.StreamCopy` / `Copier.copyFile` -/

/-- outcome of a helper: `ok` = it returned `nil` -/
structure Out where
  ok : Bool
  calls : Calls
  dst : Dest

/-- `writer.Close()` under the plan: `hard` = everything was delivered but an error is returned,
`short` = the last chunk written is lost and an error is returned -/
def faultyCloseW (pl : Plan) (c : Calls) (w : WHandle) : Bool × Calls × WHandle :=
  match pl .closeWriter (c .closeWriter) with
  | some .hard => (false, c.bump .closeWriter, w)
  | some .short => (false, c.bump .closeWriter, w.loseLast)
  | none => (true, c.bump .closeWriter, w)

/-- `StreamCopy(sourcefs, destfs, subPath)` with `sp = dp = subPath`; `Copier.copyFile` with
`sp = SrcPath`, `dp = DestPath`.  A `Close` whose error is ignored is still a call. -/
def streamCopy2 (pl : Plan) (sizes : List Nat) (c : Calls) (src : Src) (sp : Path) (dst : Dest) (dp : Path) : Out :=
  -- if reader, err = sourcefs.Reader(subPath); err != nil { return err }
  match pl .openReader (c .openReader) with
  | some _ => ⟨false, c.bump .openReader, dst⟩
  | none =>
    let c := c.bump .openReader
    match src.openReader sp with
    | some content =>
      -- if writer, err = destfs.Writer(subPath); err != nil { reader.Close(); return err }
      match pl .openWriter (c .openWriter) with
      | some _ => ⟨false, (c.bump .openWriter).bump .closeReader, dst⟩
      | none =>
        let c := c.bump .openWriter
        match dst.openWriter dp with
        | none => ⟨false, c.bump .closeReader, dst⟩
        | some (d1, w) =>
          -- if _, err = io.Copy(writer, reader); err != nil { writer.Close(); reader.Close(); return err }
          let o := match content with
            | some d => ioCopy pl sizes c (RHandle.open src.style d) w
            | none => ⟨false, c.bump .read, RHandle.open src.style [], w⟩   -- the first Read fails
          let cw := faultyCloseW pl o.calls o.w
          let d2 := d1.store dp cw.2.2
          if !o.ok then ⟨false, cw.2.1.bump .closeReader, d2⟩
          else
            -- if err = writer.Close(); err != nil { reader.Close(); return err }
            if !cw.1 then ⟨false, cw.2.1.bump .closeReader, d2⟩
            else
              -- if err = reader.Close(); err != nil { return err }
              match pl .closeReader (cw.2.1 .closeReader) with
              | some _ => ⟨false, cw.2.1.bump .closeReader, d2⟩
              | none => ⟨true, cw.2.1.bump .closeReader, d2⟩
    | none => ⟨false, c, dst⟩

/-- `fshelper.StreamCopy` -/
def streamCopy (pl : Plan) (sizes : List Nat) (c : Calls) (src : Src) (dst : Dest) (p : Path) : Out :=
  streamCopy2 pl sizes c src p dst p

/-! ### 7. `fshelper.Copy` -/

/-- a node the walk hands to a callback: `(isDir, path relative to the walked root)` -/
abbrev Item := Bool × Path

/-- `destfs.MkdirAll(p)` under the plan -/
def mkdirStep (pl : Plan) (c : Calls) (dst : Dest) (p : Path) : Out :=
  match pl .mkdir (c .mkdir) with
  | some _ => ⟨false, c.bump .mkdir, dst⟩
  | none =>
    match dst.mkdirAll p with
    | none => ⟨false, c.bump .mkdir, dst⟩
    | some d => ⟨true, c.bump .mkdir, d⟩

/-- the callbacks of `Copy`; `sb`/`db` are the roots of the source and destination views
(`[]` for `Copy` on root filespaces) -/
def onItem (pl : Plan) (sizes : List Nat) (src : Src) (sb db : Path) (c : Calls) (dst : Dest) : Item → Out
  | (true, p) =>
    -- OnDir: return destfs.MkdirAll(subPath, …)
    mkdirStep pl c dst (db ++ p)
  | (false, p) =>
    -- OnFile: MkdirAll(path.Dir(subPath)); StreamCopy(srcfs, destfs, subPath)
    let o := mkdirStep pl c dst (db ++ p.dropLast)
    if o.ok then streamCopy2 pl sizes o.calls src (sb ++ p) o.dst (db ++ p) else o

/-- callbacks that still run after the first error (their own errors are collected too) -/
def runAll (pl : Plan) (sizes : List Nat) (src : Src) (sb db : Path) : List Item → Calls → Dest → Calls × Dest
  | [], c, d => (c, d)
  | it :: rest, c, d =>
    let o := onItem pl sizes src sb db c d it
    runAll pl sizes src sb db rest o.calls o.dst

/-- the callbacks in visiting order; after the first failing one at most `extra` more run -/
def copyItems (pl : Plan) (sizes : List Nat) (src : Src) (sb db : Path) (extra : Nat) :
    List Item → Calls → Dest → Out
  | [], c, d => ⟨true, c, d⟩
  | it :: rest, c, d =>
    let o := onItem pl sizes src sb db c d it
    if o.ok then copyItems pl sizes src sb db extra rest o.calls o.dst
    else
      let cd := runAll pl sizes src sb db (rest.take extra) o.calls o.dst
      ⟨false, cd.1, cd.2⟩

/-- does one of the next `n` `ReadDir` calls fail -/
def listFails (pl : Plan) (c : Calls) (n : Nat) : Bool :=
  (List.range n).any fun i => (pl .list (c .list + i)).isSome

/-- `Copy(srcfs, destfs, nil)` where the walk hands out `order`.  The walk lists the root and every
directory; a failing listing is in the error list (C08) and some callbacks (`order.take extra`) may have run. -/
def treeCopy (pl : Plan) (sizes : List Nat) (extra : Nat) (c : Calls) (src : Src) (sb : Path) (dst : Dest)
    (db : Path) (order : List Item) : Out :=
  let nList := 1 + (order.filter (·.1)).length
  if listFails pl c nList then
    let cd := runAll pl sizes src sb db (order.take extra) (c.add .list nList) dst
    ⟨false, cd.1, cd.2⟩
  else copyItems pl sizes src sb db extra order (c.add .list nList) dst

/-! ### 8. `fshelper.Copier.Do` -/

/-- `Copier{SrcFS, SrcPath, DestFS, DestPath}.Do()`; `order` = the visiting order of the source subtree -/
def copierDo (pl : Plan) (sizes : List Nat) (extra : Nat) (c : Calls) (src : Src) (sp : Path) (dst : Dest)
    (dp : Path) (order : List Item) : Out :=
  match src.st sp with
  | some (.file _) =>
    -- if c.SrcFS.IsFile(c.SrcPath) { return c.copyFile() }
    streamCopy2 pl sizes c src sp dst dp
  | some .dir =>
    -- srcFS, err = c.SrcFS.Filespace(c.SrcPath)
    match pl .srcView (c .srcView) with
    | some _ => ⟨false, c.bump .srcView, dst⟩
    | none =>
      -- err = c.DestFS.MkdirAll(c.DestPath, …)
      let o := mkdirStep pl (c.bump .srcView) dst dp
      if o.ok then
        -- destFS, err = c.DestFS.Filespace(c.DestPath)
        match pl .dstView (o.calls .dstView) with
        | some _ => ⟨false, o.calls.bump .dstView, o.dst⟩
        | none => treeCopy pl sizes extra (o.calls.bump .dstView) src sp o.dst dp order
      else o
  | none =>
    -- !c.SrcFS.IsDir(c.SrcPath): "… is not a directory"
    ⟨false, c, dst⟩

/-! ### 9. Concrete source trees -/

def entryOf : Node → Entry
  | .file d => .file d
  | .dir _ => .dir

/-- what stands at each path of a concrete tree -/
def stateOf (t : Node) : State := fun q => (t.lookup q).map entryOf

/-- the nodes of a tree below its root, as the walk selects them (pre-order; any permutation of this
list is a possible visiting order) -/
def nodesOf : Node → List Item
  | .file _ => []
  | .dir k => (Kids.walk [] k).map fun x => (x.2.isNone, x.1)

end Stream
end Goat
