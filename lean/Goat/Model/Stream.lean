/-
Executable model of goatcore's streams and stream-based copy helpers (core Lean only; linked into
the `m_stream` driver).  Property C04.

Mirrors, in the Go control flow:
  filesystem/filespace/memfs/file_handler.go   `WHandle` kind `mem` (`Writer` truncates the file when it
                                                opens it, `Write` appends), `RHandle` style `eager`
                                                (`Read`: copy from the pointer, `io.EOF` together with the
                                                last bytes, and again on every later read)
  filesystem/filespace/diskfs/filespace.go      `WHandle` kind `disk`: `os.OpenFile(O_WRONLY|O_CREATE|O_TRUNC)`,
        diskfs/handler.go                       writes go to the file offset; `RHandle` style `lazy` (`*os.File`:
                                                `io.EOF` only on a read that finds nothing left)
  encryptfs, fscache                            seen through their plain side they are one of the two kinds:
                                                enc∘X behaves as X (the AEAD is opaque, the reader serves the
                                                decrypted bytes eagerly), the cache writes into a memfs buffer
  io.Copy (Go standard library)                 `ioLoop`: the generic read/write loop with an ARBITRARY chunking
                                                oracle (`sizes`: how many bytes each `Read` delivers at most);
                                                modelled, trusted as the stdlib contract
  filesystem/fshelper/main.go   StreamCopy      `streamCopy2` (source and destination path may differ: the same
  filesystem/fshelper/copier.go copyFile        function is `Copier.copyFile`); error propagation of every stage
  filesystem/fshelper/copy.go   Copy            `treeCopy`: the callbacks `OnDir` = `MkdirAll`, `OnFile` =
                                                `MkdirAll(path.Dir)` + `StreamCopy`, run over an ARBITRARY visiting
                                                order of the source's nodes (what C08 guarantees of `fsloop`: every
                                                node exactly once when no error occurred; after the first error —
                                                the lifecycle is strict — any number `extra` of further callbacks),
                                                errors collected, result = error iff any was collected
  filesystem/fshelper/copier.go Copier.Do       `copierDo`

The filesystems the helpers work on are the point-wise specification states of `Goat/Spec/FS.lean`
(`Path → Option Entry`) with the Spec's own `MkdirAll`/write post-states; C01 proves that memfs refines them.
The two destination kinds differ in one respect only: a memory `Writer` creates missing parent directories,
a disk `Writer` needs the parent directory.

Fault injection: every stage of every helper consults a `Plan` (`Stage → call index → Option Mode`) with the
number of calls of that stage made so far (`Calls`); `oneFault s k m` fails exactly the `k`-th call of stage
`s` (what the harness's decorator does), `noFault` none.  A `short` read delivers part of the data together
with a non-EOF error; a `short` write stores part of the chunk and reports fewer bytes than asked
(`io.ErrShortWrite`); a `short` writer `Close` loses the last chunk written (a backend that delivers its last
bytes on `Close`, and fails).  A failing `Close` has closed the underlying stream.
-/
import Goat.Base.Tree
import Goat.Spec.FS

namespace Goat
namespace Stream

open FS (Entry State)
open Path (Name)

abbrev Path := List Name

/-! ### 1. Fault injection -/

/-- the faultable calls: on the source `Reader(p)`, `Read`, reader `Close`, `ReadDir`, `Filespace(p)`;
on the destination `Writer(p)`, `Write`, writer `Close`, `MkdirAll`, `Filespace(p)` -/
inductive Stage where
  | openReader | read | closeReader | list | srcView
  | openWriter | write | closeWriter | mkdir | dstView
deriving DecidableEq, Repr

/-- `hard`: the call does nothing and returns an error; `short` (read/write only): part of the bytes is
transferred, then the error (for a write: `n < len(p)` and no error) -/
inductive Mode where
  | hard | short
deriving DecidableEq, Repr

/-- which calls fail -/
abbrev Plan := Stage → Nat → Option Mode

def noFault : Plan := fun _ _ => none

/-- fail the `k`-th (from 0) call of stage `s` -/
def oneFault (s : Stage) (k : Nat) (m : Mode) : Plan :=
  fun s' k' => if s' = s ∧ k' = k then some m else none

/-- the `fault : Option (Stage × Nat)` of DESIGN C04 -/
def planOf : Option (Stage × Nat) → Plan
  | none => noFault
  | some (s, k) => oneFault s k .hard

/-- how many calls of each stage have been made -/
abbrev Calls := Stage → Nat

def Calls.zero : Calls := fun _ => 0
def Calls.add (c : Calls) (s : Stage) (n : Nat) : Calls := fun s' => if s' = s then c s' + n else c s'
def Calls.bump (c : Calls) (s : Stage) : Calls := c.add s 1

/-! ### 2. Reader handles -/

/-- when `io.EOF` is reported: `eager` with the read that reaches the end (memfs `FileHandler`, the
decrypting reader), `lazy` by a read that finds nothing left (`*os.File`) -/
inductive EofStyle where
  | eager | lazy
deriving DecidableEq, Repr

structure RHandle where
  data : Bytes
  pos : Nat
  style : EofStyle

/-- `fs.Reader(path)` on a file holding `data` -/
def RHandle.open (style : EofStyle) (data : Bytes) : RHandle := ⟨data, 0, style⟩

/-- `Read(buf)` with `len(buf) = n`: the bytes delivered, whether `io.EOF` came with them, the handle -/
def RHandle.read (h : RHandle) (n : Nat) : Bytes × Bool × RHandle :=
  let chunk := (h.data.drop h.pos).take n
  let pos' := h.pos + chunk.length
  match h.style with
  | .eager => (chunk, pos' == h.data.length, { h with pos := pos' })
  | .lazy => (chunk, n != 0 && chunk.isEmpty, { h with pos := pos' })

/-- successive reads with buffers of the given sizes -/
def RHandle.reads : RHandle → List Nat → List (Bytes × Bool)
  | _, [] => []
  | h, n :: ns => ((h.read n).1, (h.read n).2.1) :: reads (h.read n).2.2 ns

/-! ### 3. Writer handles -/

/-- destination kinds: `mem` (memfs; also the cache, whose buffer is a memfs, and enc∘mem),
`disk` (diskfs; also enc∘disk) -/
inductive Backend where
  | mem | disk
deriving DecidableEq, Repr

structure WHandle where
  kind : Backend
  /-- the file's content as stored -/
  content : Bytes
  /-- file offset of the next write (disk); a memory handle appends -/
  off : Nat
  /-- length of the most recent `Write` (what a `Close` that loses its last bytes loses) -/
  lastLen : Nat := 0

/-- a writer opened on a path where `old` stands (`none` = no file); `trunc` = the open truncates -/
def WHandle.openWith (trunc : Bool) (kind : Backend) (old : Option Bytes) : WHandle :=
  ⟨kind, if trunc then [] else old.getD [], 0, 0⟩

/-- what the CURRENT code does when a writer is opened: memfs `Writer` sets `file.data = []byte{}`
(after `fix: memfs Writer replaces old content`), diskfs `Writer` passes `os.O_TRUNC`
(after `fix: diskfs Writer truncates an existing file`) -/
def truncOnOpen : Backend → Bool
  | .mem => true
  | .disk => true

def WHandle.open (kind : Backend) (old : Option Bytes) : WHandle :=
  WHandle.openWith (truncOnOpen kind) kind old

/-- `Write(p)`: memory `file.data = append(file.data, p...)`; disk: overwrite at the offset -/
def WHandle.write (h : WHandle) (p : Bytes) : WHandle :=
  match h.kind with
  | .mem => { h with content := h.content ++ p, lastLen := p.length }
  | .disk => { h with content := h.content.take h.off ++ p ++ h.content.drop (h.off + p.length),
                      off := h.off + p.length, lastLen := p.length }

def WHandle.writes (h : WHandle) : List Bytes → WHandle
  | [] => h
  | c :: cs => (h.write c).writes cs

/-- `Close()`: what the file holds from then on -/
def WHandle.close (h : WHandle) : Bytes := h.content

/-- a `Close` that fails to deliver the last chunk written (a backend that hands its last bytes over only on
`Close` — diskfs syncs there, the encrypting writer seals and writes there — and fails doing so) -/
def WHandle.loseLast (h : WHandle) : WHandle :=
  { h with content := h.content.take (h.content.length - h.lastLen), lastLen := 0 }

/-! ### 4. Filesystems -/

def isFileB : Option Entry → Bool
  | some (.file _) => true
  | _ => false

def isDirB : Option Entry → Bool
  | some .dir => true
  | _ => false

def fileData : Option Entry → Option Bytes
  | some (.file d) => some d
  | _ => none

/-- all prefixes of a path, the path itself included -/
def prefixes (p : Path) : List Path := (List.range (p.length + 1)).map (p.take ·)

/-- executable `FS.mkdirOk`: no node on the way to `p` (including `p`) is a file -/
def mkdirOkB (S : State) (p : Path) : Bool := (prefixes p).all fun q => !isFileB (S q)

/-- the file at `p` holds `d` -/
def put (S : State) (p : Path) (d : Bytes) : State := fun q => if q = p then some (.file d) else S q

/-- a source filespace: its tree, how its readers report EOF, and whether `Reader(p)` of a DIRECTORY
succeeds (diskfs: `os.OpenFile(dir, O_RDONLY)` does; every `Read` of such a handle then fails) -/
structure Src where
  style : EofStyle
  st : State
  dirOpens : Bool := false

/-- `Reader(p)`: `some (some data)` a file's reader, `some none` a handle whose reads all fail (a directory
opened by diskfs), `none` = the open fails -/
def Src.openReader (S : Src) (p : Path) : Option (Option Bytes) :=
  match S.st p with
  | some (.file d) => some (some d)
  | some .dir => if S.dirOpens then some none else none
  | none => none

/-- a destination filespace -/
structure Dest where
  kind : Backend
  st : State

/-- `MkdirAll(p)` (Spec: `Mut (mkdirOk S p) (mkdirSt S p)`); `none` = error, nothing changed -/
def Dest.mkdirAll (D : Dest) (p : Path) : Option Dest :=
  if mkdirOkB D.st p then some { D with st := FS.mkdirSt D.st p } else none

/-- can `Writer(p)` be opened: not the root, not a directory; memory creates the parents (no file on the
way), disk needs the parent directory -/
def Dest.canOpen (D : Dest) (p : Path) : Bool :=
  !p.isEmpty && !isDirB (D.st p) &&
    match D.kind with
    | .mem => mkdirOkB D.st p.dropLast
    | .disk => isDirB (D.st p.dropLast)

/-- `Writer(p)`: the filesystem with the created/truncated file, and the handle -/
def Dest.openWriter (D : Dest) (p : Path) : Option (Dest × WHandle) :=
  if D.canOpen p then
    let w := WHandle.open D.kind (fileData (D.st p))
    let S1 := match D.kind with
      | .mem => FS.mkdirSt D.st p.dropLast
      | .disk => D.st
    some ({ D with st := put S1 p w.content }, w)
  else none

/-- the file at `p` holds what the handle has stored -/
def Dest.store (D : Dest) (p : Path) (w : WHandle) : Dest := { D with st := put D.st p w.content }

/-- `Writer(p)`, one `Write` per chunk, `Close` -/
def Dest.writer (D : Dest) (p : Path) (chunks : List Bytes) : Option Dest :=
  match D.openWriter p with
  | none => none
  | some (d1, w) => some (d1.store p (w.writes chunks))

/-- `Reader(p)`, one `Read` per size, `Close` -/
def Src.reader (S : Src) (p : Path) (sizes : List Nat) : Option (List (Bytes × Bool)) :=
  match S.st p with
  | some (.file d) => some ((RHandle.open S.style d).reads sizes)
  | _ => none

/-! ### 5. `io.Copy` -/

/-- `io.Copy` allocates a 32 KiB buffer when neither side offers `WriteTo`/`ReadFrom` -/
def bufSize : Nat := 32768

inductive RStat where
  | more | eof | err
deriving DecidableEq, Repr

/-- one `src.Read(buf)` under the plan; at most `n` bytes are delivered -/
def faultyRead (pl : Plan) (c : Calls) (r : RHandle) (n : Nat) : Bytes × RStat × Calls × RHandle :=
  match pl .read (c .read) with
  | some .hard => ([], .err, c.bump .read, r)
  | some .short => ((r.read (n / 2)).1, .err, c.bump .read, (r.read (n / 2)).2.2)
  | none => ((r.read n).1, if (r.read n).2.1 then .eof else .more, c.bump .read, (r.read n).2.2)

/-- one `dst.Write(chunk)` under the plan; `false` = error or short write -/
def faultyWrite (pl : Plan) (c : Calls) (w : WHandle) (chunk : Bytes) : Bool × Calls × WHandle :=
  match pl .write (c .write) with
  | some .hard => (false, c.bump .write, w)
  | some .short => (false, c.bump .write, w.write (chunk.take (chunk.length / 2)))
  | none => (true, c.bump .write, w.write chunk)

/-- how many bytes the next `Read` delivers at most: the oracle's next size (never more than the buffer),
a full buffer once the oracle's list is used up -/
def chunkSize : List Nat → Nat
  | [] => bufSize
  | s :: _ => min s bufSize

structure CopyOut where
  ok : Bool
  calls : Calls
  r : RHandle
  w : WHandle

/-- the loop of `io.copyBuffer`:
```
for { nr, er := src.Read(buf)
      if nr > 0 { nw, ew := dst.Write(buf[0:nr]); if ew != nil {err = ew; break}
                  if nr != nw {err = ErrShortWrite; break} }
      if er != nil { if er != EOF {err = er}; break } }
```
`sizes` is the chunking oracle (the i-th `Read` delivers at most `sizes[i]` bytes, a full buffer once the
list is used up); `fuel` bounds the iterations (`ioCopy` supplies enough, see `Props/C04.ioCopy_exact`). -/
def ioLoop (pl : Plan) : Nat → List Nat → Calls → RHandle → WHandle → CopyOut
  | 0, _, c, r, w => ⟨false, c, r, w⟩
  | fuel + 1, sizes, c, r, w =>
    -- (chunk, status, calls, reader) of this round's Read
    let rd := faultyRead pl c r (chunkSize sizes)
    if rd.1.isEmpty then
      match rd.2.1 with
      | .more => ioLoop pl fuel sizes.tail rd.2.2.1 rd.2.2.2 w
      | .eof => ⟨true, rd.2.2.1, rd.2.2.2, w⟩
      | .err => ⟨false, rd.2.2.1, rd.2.2.2, w⟩
    else
      -- (ok, calls, writer) of this round's Write
      let wr := faultyWrite pl rd.2.2.1 w rd.1
      if wr.1 then
        match rd.2.1 with
        | .more => ioLoop pl fuel sizes.tail wr.2.1 rd.2.2.2 wr.2.2
        | .eof => ⟨true, wr.2.1, rd.2.2.2, wr.2.2⟩
        | .err => ⟨false, wr.2.1, rd.2.2.2, wr.2.2⟩
      else ⟨false, wr.2.1, rd.2.2.2, wr.2.2⟩

/-- `io.Copy(writer, reader)` -/
def ioCopy (pl : Plan) (sizes : List Nat) (c : Calls) (r : RHandle) (w : WHandle) : CopyOut :=
  ioLoop pl (sizes.length + (r.data.length - r.pos) + 2) sizes c r w

/-! ### 6. `fshelper.StreamCopy` / `Copier.copyFile` -/

/-- outcome of a helper: `ok` = it returned `nil` -/
structure Out where
  ok : Bool
  calls : Calls
  dst : Dest

/-- `writer.Close()` under the plan: `hard` = everything was delivered but an error is returned,
`short` = the last chunk written is lost and an error is returned -/
def faultyCloseW (pl : Plan) (c : Calls) (w : WHandle) : Bool × Calls × WHandle :=
  match pl .closeWriter (c .closeWriter) with
  | some .hard => (false, c.bump .closeWriter, w)
  | some .short => (false, c.bump .closeWriter, w.loseLast)
  | none => (true, c.bump .closeWriter, w)

/-- `StreamCopy(sourcefs, destfs, subPath)` with `sp = dp = subPath`; `Copier.copyFile` with
`sp = SrcPath`, `dp = DestPath`.  A `Close` whose error is ignored is still a call. -/
def streamCopy2 (pl : Plan) (sizes : List Nat) (c : Calls) (src : Src) (sp : Path) (dst : Dest) (dp : Path) : Out :=
  -- if reader, err = sourcefs.Reader(subPath); err != nil { return err }
  match pl .openReader (c .openReader) with
  | some _ => ⟨false, c.bump .openReader, dst⟩
  | none =>
    let c := c.bump .openReader
    match src.openReader sp with
    | some content =>
      -- if writer, err = destfs.Writer(subPath); err != nil { reader.Close(); return err }
      match pl .openWriter (c .openWriter) with
      | some _ => ⟨false, (c.bump .openWriter).bump .closeReader, dst⟩
      | none =>
        let c := c.bump .openWriter
        match dst.openWriter dp with
        | none => ⟨false, c.bump .closeReader, dst⟩
        | some (d1, w) =>
          -- if _, err = io.Copy(writer, reader); err != nil { writer.Close(); reader.Close(); return err }
          let o := match content with
            | some d => ioCopy pl sizes c (RHandle.open src.style d) w
            | none => ⟨false, c.bump .read, RHandle.open src.style [], w⟩   -- the first Read fails
          let cw := faultyCloseW pl o.calls o.w
          let d2 := d1.store dp cw.2.2
          if !o.ok then ⟨false, cw.2.1.bump .closeReader, d2⟩
          else
            -- if err = writer.Close(); err != nil { reader.Close(); return err }
            if !cw.1 then ⟨false, cw.2.1.bump .closeReader, d2⟩
            else
              -- if err = reader.Close(); err != nil { return err }
              match pl .closeReader (cw.2.1 .closeReader) with
              | some _ => ⟨false, cw.2.1.bump .closeReader, d2⟩
              | none => ⟨true, cw.2.1.bump .closeReader, d2⟩
    | none => ⟨false, c, dst⟩

/-- `fshelper.StreamCopy` -/
def streamCopy (pl : Plan) (sizes : List Nat) (c : Calls) (src : Src) (dst : Dest) (p : Path) : Out :=
  streamCopy2 pl sizes c src p dst p

/-! ### 7. `fshelper.Copy` -/

/-- a node the walk hands to a callback: `(isDir, path relative to the walked root)` -/
abbrev Item := Bool × Path

/-- `destfs.MkdirAll(p)` under the plan -/
def mkdirStep (pl : Plan) (c : Calls) (dst : Dest) (p : Path) : Out :=
  match pl .mkdir (c .mkdir) with
  | some _ => ⟨false, c.bump .mkdir, dst⟩
  | none =>
    match dst.mkdirAll p with
    | none => ⟨false, c.bump .mkdir, dst⟩
    | some d => ⟨true, c.bump .mkdir, d⟩

/-- the callbacks of `Copy`; `sb`/`db` are the roots of the source and destination views
(`[]` for `Copy` on root filespaces) -/
def onItem (pl : Plan) (sizes : List Nat) (src : Src) (sb db : Path) (c : Calls) (dst : Dest) : Item → Out
  | (true, p) =>
    -- OnDir: return destfs.MkdirAll(subPath, …)
    mkdirStep pl c dst (db ++ p)
  | (false, p) =>
    -- OnFile: MkdirAll(path.Dir(subPath)); StreamCopy(srcfs, destfs, subPath)
    let o := mkdirStep pl c dst (db ++ p.dropLast)
    if o.ok then streamCopy2 pl sizes o.calls src (sb ++ p) o.dst (db ++ p) else o

/-- callbacks that still run after the first error (their own errors are collected too) -/
def runAll (pl : Plan) (sizes : List Nat) (src : Src) (sb db : Path) : List Item → Calls → Dest → Calls × Dest
  | [], c, d => (c, d)
  | it :: rest, c, d =>
    let o := onItem pl sizes src sb db c d it
    runAll pl sizes src sb db rest o.calls o.dst

/-- the callbacks in visiting order; after the first failing one at most `extra` more run -/
def copyItems (pl : Plan) (sizes : List Nat) (src : Src) (sb db : Path) (extra : Nat) :
    List Item → Calls → Dest → Out
  | [], c, d => ⟨true, c, d⟩
  | it :: rest, c, d =>
    let o := onItem pl sizes src sb db c d it
    if o.ok then copyItems pl sizes src sb db extra rest o.calls o.dst
    else
      let cd := runAll pl sizes src sb db (rest.take extra) o.calls o.dst
      ⟨false, cd.1, cd.2⟩

/-- does one of the next `n` `ReadDir` calls fail -/
def listFails (pl : Plan) (c : Calls) (n : Nat) : Bool :=
  (List.range n).any fun i => (pl .list (c .list + i)).isSome

/-- `Copy(srcfs, destfs, nil)` where the walk hands out `order`.  The walk lists the root and every
directory; a failing listing is in the error list (C08) and some callbacks (`order.take extra`) may have run. -/
def treeCopy (pl : Plan) (sizes : List Nat) (extra : Nat) (c : Calls) (src : Src) (sb : Path) (dst : Dest)
    (db : Path) (order : List Item) : Out :=
  let nList := 1 + (order.filter (·.1)).length
  if listFails pl c nList then
    let cd := runAll pl sizes src sb db (order.take extra) (c.add .list nList) dst
    ⟨false, cd.1, cd.2⟩
  else copyItems pl sizes src sb db extra order (c.add .list nList) dst

/-! ### 8. `fshelper.Copier.Do` -/

/-- `Copier{SrcFS, SrcPath, DestFS, DestPath}.Do()`; `order` = the visiting order of the source subtree -/
def copierDo (pl : Plan) (sizes : List Nat) (extra : Nat) (c : Calls) (src : Src) (sp : Path) (dst : Dest)
    (dp : Path) (order : List Item) : Out :=
  match src.st sp with
  | some (.file _) =>
    -- if c.SrcFS.IsFile(c.SrcPath) { return c.copyFile() }
    streamCopy2 pl sizes c src sp dst dp
  | some .dir =>
    -- srcFS, err = c.SrcFS.Filespace(c.SrcPath)
    match pl .srcView (c .srcView) with
    | some _ => ⟨false, c.bump .srcView, dst⟩
    | none =>
      -- err = c.DestFS.MkdirAll(c.DestPath, …)
      let o := mkdirStep pl (c.bump .srcView) dst dp
      if o.ok then
        -- destFS, err = c.DestFS.Filespace(c.DestPath)
        match pl .dstView (o.calls .dstView) with
        | some _ => ⟨false, o.calls.bump .dstView, o.dst⟩
        | none => treeCopy pl sizes extra (o.calls.bump .dstView) src sp o.dst dp order
      else o
  | none =>
    -- !c.SrcFS.IsDir(c.SrcPath): "… is not a directory"
    ⟨false, c, dst⟩

/-! ### 9. Concrete source trees -/

def entryOf : Node → Entry
  | .file d => .file d
  | .dir _ => .dir

/-- what stands at each path of a concrete tree -/
def stateOf (t : Node) : State := fun q => (t.lookup q).map entryOf

/-- the nodes of a tree below its root, as the walk selects them (pre-order; any permutation of this
list is a possible visiting order) -/
def nodesOf : Node → List Item
  | .file _ => []
  | .dir k => (Kids.walk [] k).map fun x => (x.2.isNone, x.1)

/-! ### 10. Open handles on ONE memory file: an open reader next to a rewriting writer

`filesystem/filespace/memfs/file.go`: a `File` is `data []byte` (a slice: backing array + length) and the lock
`dataMU`.  `file_handler.go`: a stream handle — reader or writer alike — is created by `NewFileHandler`, which
takes `dataMU.Lock()`, and gives the lock back in `Close`: from open to `Close` the handle owns the file, a
second handle WAITS.  `Read` copies from the LIVE `file.data[pointer:]`; `Writer` sets `file.data = []byte{}`
(a fresh array) and `Write` appends.

The model has the file's storage (`Cell`: backing array, length, lock), ONE open reader handle (`MReader`) and
ONE rewriting thread (`Sys.phase`/`todo`: `Writer(p)`, one `Write` per chunk, `Close`) and lets the two
interleave: `wstep` is one step of the rewriter (a step that has to wait for the lock changes nothing), the
reader's actions are `openReader` (after `awaitFree`: it waits for the lock too), `readR`, `closeReader`; a
schedule `ws : List Nat` says how many rewriter steps happen before each action of the reader's thread.

The discipline is a parameter (`Disc`), so that the code's own and the variants can be stated side by side:
  reader  `lock`   the CURRENT memfs: the handle holds the lock from open to Close and reads the live slice
          `copy`   the handle owns a private copy made under the lock when it was opened (the decrypting reader
                   of encryptfs reads everything and closes the underlying stream in its constructor; a cache
                   reader of a file of the remote filespace while the writer goes to the buffer)
          `alias`  the handle keeps the slice header `file.data` (same backing array) and lets go of the lock
  writer  `fresh`  the CURRENT memfs: `file.data = []byte{}`
          `inPlace` `file.data = file.data[:0]` — keeps the backing array
`alias` + `inPlace` is the seeded change C04-5 (`Disc.seeded`); every other combination is `Disc.safe`.
Go's aliasing is modelled by detaching: whenever the file gets a NEW backing array (`fresh` truncation, an
`append` beyond the capacity) a reader that shares the old array from then on owns what that array held — the
abandoned array is never written again (only `file.data` is ever appended to).  The capacity is
`back.length`; the slack a real `append` adds beyond what is needed is never visible (a reader sees at most the
length it was opened with, which is within the capacity of that time) and is left out.  A `Read`, a `Write`
are atomic steps (the `alias` variant has a data race in Go; the interleaving of whole calls is enough to show it).
-/

/-- the reader side of the discipline -/
inductive RDisc where
  | lock | copy | alias
deriving DecidableEq, Repr

/-- how `Writer(p)` truncates -/
inductive TDisc where
  | fresh | inPlace
deriving DecidableEq, Repr

structure Disc where
  rd : RDisc
  tr : TDisc
deriving DecidableEq, Repr

/-- the CURRENT memfs (and the cache for a file of its buffer) -/
def Disc.memfs : Disc := ⟨.lock, .fresh⟩
/-- encryptfs over memfs; the cache for a file that lives in the remote filespace -/
def Disc.priv : Disc := ⟨.copy, .fresh⟩
/-- the seeded change C04-5: snapshot of the slice header + truncation in place -/
def Disc.seeded : Disc := ⟨.alias, .inPlace⟩

/-- every discipline but `alias` + `inPlace` -/
def Disc.safe (d : Disc) : Bool := !(d.rd == .alias && d.tr == .inPlace)

/-- storage of a memfs `File`: `file.data = back[:len]`, `locked` = `dataMU` is held by a stream handle -/
structure Cell where
  back : Bytes
  len : Nat
  locked : Bool

def Cell.content (c : Cell) : Bytes := c.back.take c.len

/-- where an open reader takes its bytes from -/
inductive RView where
  /-- the live `file.data` (`lock`) -/
  | live
  /-- a private array -/
  | own (d : Bytes)
  /-- the first `n` bytes of the file's CURRENT backing array (`alias`) -/
  | shared (n : Nat)

structure MReader where
  view : RView
  pos : Nat

/-- the bytes the handle reads from, as they are NOW -/
def MReader.data (m : MReader) (c : Cell) : Bytes :=
  match m.view with
  | .live => c.content
  | .own d => d
  | .shared n => c.back.take n

/-- the rewriter's progress: before `Writer(p)` has got the lock, between open and `Close`, after `Close` -/
inductive Phase where
  | idle | writing | closed
deriving DecidableEq, Repr

structure Sys where
  cell : Cell
  /-- the open reader, if any -/
  rd : Option MReader
  phase : Phase
  /-- the chunks the rewriter still has to write -/
  todo : List Bytes

/-- a file holding `old` in an array with spare capacity `slack`, nobody has it open, the rewriter is about
to write `chunks` -/
def Sys.init (old slack : Bytes) (chunks : List Bytes) : Sys :=
  ⟨⟨old ++ slack, old.length, false⟩, none, .idle, chunks⟩

/-- the file gets a new backing array: a reader that shares the old one keeps what it held -/
def detach (c : Cell) : Option MReader → Option MReader
  | some ⟨.shared n, pos⟩ => some ⟨.own (c.back.take n), pos⟩
  | r => r

/-- ONE step of the rewriting thread.
`idle`: `NewFileHandler(file)` — `dataMU.Lock()`: while another handle holds the lock the thread waits (the
state does not change); then the truncation.  `writing`: the next `Write` (`append`: in place while the
capacity suffices, else a new array), or `Close` (`dataMU.Unlock()`).  `closed`: nothing. -/
def wstep (cfg : Disc) (s : Sys) : Sys :=
  match s.phase with
  | .idle =>
    if s.cell.locked then s else
    match cfg.tr with
    | .fresh => { s with cell := ⟨[], 0, true⟩, rd := detach s.cell s.rd, phase := .writing }
    | .inPlace => { s with cell := ⟨s.cell.back, 0, true⟩, phase := .writing }
  | .writing =>
    match s.todo with
    | [] => { s with cell := { s.cell with locked := false }, phase := .closed }
    | c :: rest =>
      if s.cell.len + c.length ≤ s.cell.back.length then
        { s with cell := { s.cell with back := s.cell.back.take s.cell.len ++ c ++ s.cell.back.drop (s.cell.len + c.length),
                                       len := s.cell.len + c.length },
                 todo := rest }
      else
        { s with cell := { s.cell with back := s.cell.back.take s.cell.len ++ c, len := s.cell.len + c.length },
                 rd := detach s.cell s.rd, todo := rest }
  | .closed => s

def wsteps (cfg : Disc) : Nat → Sys → Sys
  | 0, s => s
  | n + 1, s => wsteps cfg n (wstep cfg s)

/-- the reader's thread is about to open the file and finds the lock taken (by the rewriter: there is no other
handle): it waits, i.e. only the rewriter moves, until its `Close` -/
def awaitFree (cfg : Disc) (s : Sys) : Sys :=
  if s.cell.locked then wsteps cfg (s.todo.length + 1) s else s

/-- `Reader(p)` once the lock is free -/
def openReader (cfg : Disc) (s : Sys) : Sys :=
  match cfg.rd with
  | .lock => { s with cell := { s.cell with locked := true }, rd := some ⟨.live, 0⟩ }
  | .copy => { s with rd := some ⟨.own s.cell.content, 0⟩ }
  | .alias => { s with rd := some ⟨.shared s.cell.len, 0⟩ }

/-- `Read(buf)`, `len(buf) = n`, on the open reader (memfs `FileHandler.Read`: `io.EOF` with the last bytes):
the `eager` `RHandle.read` on the bytes the handle sees NOW -/
def readR (s : Sys) (n : Nat) : Bytes × Bool × Sys :=
  match s.rd with
  | none => ([], false, s)
  | some m =>
    let r := (RHandle.mk (m.data s.cell) m.pos .eager).read n
    (r.1, r.2.1, { s with rd := some { m with pos := r.2.2.pos } })

/-- the reader's `Close`: a `lock` handle gives the lock back -/
def closeReader (s : Sys) : Sys :=
  match s.rd with
  | none => s
  | some ⟨.live, _⟩ => { s with cell := { s.cell with locked := false }, rd := none }
  | some _ => { s with rd := none }

/-- the bytes the open reader sees now ([] when there is none) -/
def Sys.readerData (s : Sys) : Bytes :=
  match s.rd with
  | none => []
  | some m => m.data s.cell

/-- one `Read` per size; before the i-th, `ws[i]` steps of the rewriter -/
def readsI (cfg : Disc) : List Nat → List Nat → Sys → List (Bytes × Bool) × List Nat × Sys
  | ws, [], s => ([], ws, s)
  | ws, n :: ns, s =>
    let r := readR (wsteps cfg (ws.headD 0) s) n
    let rest := readsI cfg ws.tail ns r.2.2
    ((r.1, r.2.1) :: rest.1, rest.2.1, rest.2.2)

structure RdOut where
  /-- the content of the file at the moment the reader was opened -/
  atOpen : Bytes
  /-- per `Read`: the bytes delivered, whether `io.EOF` came with them -/
  out : List (Bytes × Bool)
  /-- the system just before the reader's `Close` -/
  beforeClose : Sys
  /-- the system after both threads have finished -/
  fin : Sys

/-- a reader's life next to a rewrite of the same file, under the schedule `ws`:
`ws[0]` rewriter steps, `Reader(p)` (waiting for the lock if need be), then per size `ws[i+1]` rewriter steps
and a `Read`, then `ws[len+1]` rewriter steps and `Close`; finally the rewriter runs to its end.  Every
interleaving of the two threads is such a schedule (entries beyond the list are 0). -/
def readerRun (cfg : Disc) (ws sizes : List Nat) (s : Sys) : RdOut :=
  let s1 := awaitFree cfg (wsteps cfg (ws.headD 0) s)
  let rr := readsI cfg ws.tail sizes (openReader cfg s1)
  let s2 := wsteps cfg (rr.2.1.headD 0) rr.2.2
  let s3 := closeReader s2
  ⟨s1.cell.content, rr.1, s2, wsteps cfg (s3.todo.length + 2) s3⟩

/-! `io.Copy` over an ABSTRACT reader: `ioLoop` with the reader's state type and its `Read` as parameters
(`ioLoopG RHandle.read` is `ioLoop`: `Proofs/StreamConc.ioLoopG_eq`), so that the same loop can be run on a
reader whose file is being rewritten between its reads. -/

structure CopyOutG (ρ : Type) where
  ok : Bool
  calls : Calls
  r : ρ
  w : WHandle

def faultyReadG {ρ : Type} (rd : ρ → Nat → Bytes × Bool × ρ) (pl : Plan) (c : Calls) (r : ρ) (n : Nat) :
    Bytes × RStat × Calls × ρ :=
  match pl .read (c .read) with
  | some .hard => ([], .err, c.bump .read, r)
  | some .short => ((rd r (n / 2)).1, .err, c.bump .read, (rd r (n / 2)).2.2)
  | none => ((rd r n).1, if (rd r n).2.1 then .eof else .more, c.bump .read, (rd r n).2.2)

def ioLoopG {ρ : Type} (rd : ρ → Nat → Bytes × Bool × ρ) (pl : Plan) : Nat → List Nat → Calls → ρ → WHandle → CopyOutG ρ
  | 0, _, c, r, w => ⟨false, c, r, w⟩
  | fuel + 1, sizes, c, r, w =>
    let x := faultyReadG rd pl c r (chunkSize sizes)
    if x.1.isEmpty then
      match x.2.1 with
      | .more => ioLoopG rd pl fuel sizes.tail x.2.2.1 x.2.2.2 w
      | .eof => ⟨true, x.2.2.1, x.2.2.2, w⟩
      | .err => ⟨false, x.2.2.1, x.2.2.2, w⟩
    else
      let wr := faultyWrite pl x.2.2.1 w x.1
      if wr.1 then
        match x.2.1 with
        | .more => ioLoopG rd pl fuel sizes.tail wr.2.1 x.2.2.2 wr.2.2
        | .eof => ⟨true, wr.2.1, x.2.2.2, wr.2.2⟩
        | .err => ⟨false, wr.2.1, x.2.2.2, wr.2.2⟩
      else ⟨false, wr.2.1, x.2.2.2, wr.2.2⟩

/-- a `Read` of the copy's source reader under a schedule: first the rewriter's steps, then the `Read` -/
def rdC (cfg : Disc) (x : Sys × List Nat) (n : Nat) : Bytes × Bool × (Sys × List Nat) :=
  let r := readR (wsteps cfg (x.2.headD 0) x.1) n
  (r.1, r.2.1, (r.2.2, x.2.tail))

/-- `fshelper.StreamCopy(sourcefs, destfs, subPath)` (the text of `streamCopy2`) whose SOURCE file — a memory
file, `s` — is being rewritten by another thread while the copy runs; `dst`/`dp` is some other filespace.
Schedule: `ws[0]` rewriter steps before `sourcefs.Reader` (which waits for the lock), `ws[i+1]` before the
i-th `Read` that `io.Copy` makes, the next entry before `reader.Close()`; then the rewriter runs to its end.
Returns the helper's outcome and the source system afterwards. -/
def streamCopyRW (cfg : Disc) (pl : Plan) (sizes : List Nat) (c : Calls) (ws : List Nat) (s : Sys) (dst : Dest)
    (dp : Path) : Out × Sys :=
  let fin := fun (s : Sys) => wsteps cfg (s.todo.length + 2) s
  let closeR := fun (x : Sys × List Nat) => fin (closeReader (wsteps cfg (x.2.headD 0) x.1))
  match pl .openReader (c .openReader) with
  | some _ => (⟨false, c.bump .openReader, dst⟩, fin (wsteps cfg (ws.headD 0) s))
  | none =>
    let c := c.bump .openReader
    let s := openReader cfg (awaitFree cfg (wsteps cfg (ws.headD 0) s))
    match pl .openWriter (c .openWriter) with
    | some _ => (⟨false, (c.bump .openWriter).bump .closeReader, dst⟩, closeR (s, ws.tail))
    | none =>
      let c := c.bump .openWriter
      match dst.openWriter dp with
      | none => (⟨false, c.bump .closeReader, dst⟩, closeR (s, ws.tail))
      | some (d1, w) =>
        let o := ioLoopG (rdC cfg) pl (sizes.length + s.readerData.length + 2) sizes c (s, ws.tail) w
        let cw := faultyCloseW pl o.calls o.w
        let d2 := d1.store dp cw.2.2
        if !o.ok then (⟨false, cw.2.1.bump .closeReader, d2⟩, closeR o.r)
        else
          if !cw.1 then (⟨false, cw.2.1.bump .closeReader, d2⟩, closeR o.r)
          else
            match pl .closeReader (cw.2.1 .closeReader) with
            | some _ => (⟨false, cw.2.1.bump .closeReader, d2⟩, closeR o.r)
            | none => (⟨true, cw.2.1.bump .closeReader, d2⟩, closeR o.r)

end Stream
end Goat
