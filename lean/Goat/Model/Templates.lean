/-
Model of the template providers (C19):
  /repo/goathtml/ghprovider/{main,loader}.go   (html/template)
  /repo/goattext/gtprovider/{main,loader}.go   (text/template)
  /repo/filesystem/fsloop/walk.go              (WalkFS: the order in which files are parsed)

Part 1  template sets.  A template set is `Name → Option Body`.  Parsing one file first builds the
        file's own tree set (`parse.Tree.add`: the first non-blank definition of a name wins, a
        second non-blank one is the parse error "multiple definition", the top-level content is
        the tree named after the receiving template, here always `baseTemplate`), then merges it
        into the receiving set (`Template.AddParseTree`/`associate`: a definition replaces an
        older one unless the new body is blank and the name is already defined).
Part 2  the providers.  State = base pointer + layout map + view map; `Base/Layout/View` of the
        html and of the text provider are written out separately (they differ in where a missing
        directory is detected, in what is cached then, and in where `Clone` is called).
        A template object carries an `executed` flag: `html/template` refuses to `Clone` a
        template after it (or any member of its set) has been executed; `text/template` does not.
        A request may be followed by the caller executing the object it got (`exec`), which
        marks the *cache entry* when the provider handed out the cached object itself.
        `Variant` selects between the code as it is and its two earlier, defective revisions
        (cached base/layout objects handed out themselves; view cache keyed by a joined string).
Part 3  the WalkFS order over a flat, insertion-ordered file list (memfs keeps directory
        entries in creation order).
Part 4  concurrency: a transition system in which the cache-map read and the two halves of the
        map write are separate actions; a read or a write that happens while another goroutine
        is inside a write is the outcome `fatal` (Go: "concurrent map read and map write").
Core Lean only (linked into the `m_tmpl` driver).
-/
import Goat.Base.Bytes

namespace Goat.Tmpl

abbrev Name := Bytes
abbrev Body := Bytes

/-! ## Part 1: template sets -/

abbrev TSet := Name → Option Body

def TSet.empty : TSet := fun _ => none

def TSet.set (t : TSet) (n : Name) (b : Body) : TSet := fun m => if m = n then some b else t m

/-- `unicode.IsSpace` on the ASCII range (what `bytes.TrimSpace` strips). -/
def isSpace (c : Byte) : Bool := c == 32 || (9 ≤ c && c ≤ 13)

/-- `parse.IsEmptyTree` for a body that is plain text: only white space. -/
def blank (b : Body) : Bool := b.all isSpace

/-- name of the template every file is parsed into (`template.New("baseTemplate")`, kept by `Clone`) -/
def rootName : Name := [98, 97, 115, 101, 84, 101, 109, 112, 108, 97, 116, 101]  -- "baseTemplate" (a literal list: `decide` can evaluate it)

structure File where
  /-- the path ends with the provider's extension (other files are skipped by the walk callback) -/
  tmpl : Bool
  /-- `{{define "name"}}body{{end}}` blocks in source order -/
  defines : List (Name × Body)
  /-- the top-level content -/
  root : Body
  /-- syntactically malformed (the parser reports an error) -/
  bad : Bool

/-- `parse.Tree.add`: one more tree for the file's own tree set. -/
def addTree (ts : TSet) (nb : Name × Body) : Option TSet :=
  match ts nb.1 with
  | none => some (ts.set nb.1 nb.2)
  | some old =>
    if blank old then some (ts.set nb.1 nb.2)
    else if blank nb.2 then some ts
    else none

def foldOpt {α β : Type} (f : α → β → Option α) : α → List β → Option α
  | a, [] => some a
  | a, b :: bs => match f a b with
    | none => none
    | some a' => foldOpt f a' bs

/-- the tree set of one file, or the loader's error ("empty file", syntax error, multiple definition) -/
def fileTrees (f : File) : Option TSet :=
  if f.bad then none
  else if f.defines.isEmpty && f.root.isEmpty then none
  else foldOpt addTree TSet.empty (f.defines ++ [(rootName, f.root)])

/-- one name of `AddParseTree`/`associate`: the new tree `top` replaces the old one `bot` unless it
is blank and the name is already defined. -/
def pick (top bot : Option Body) : Option Body :=
  match top with
  | none => bot
  | some b =>
    if blank b then (match bot with
      | some o => some o
      | none => some b)
    else some b

/-- `top` merged over `bot` (`AddParseTree` for every tree of `top`) -/
def over (top bot : TSet) : TSet := fun n => pick (top n) (bot n)

/-- `TemplateLoader.Load` into the set `t` -/
def parseInto (t : TSet) (f : File) : Option TSet :=
  match fileTrees f with
  | none => none
  | some tr => some (over tr t)

/-- the `WalkFS` callback over the files of one directory tree, in walk order; stops at the first error -/
def load (t : TSet) : List File → Option TSet
  | [] => some t
  | f :: fs =>
    if f.tmpl then
      match parseInto t f with
      | none => none
      | some t' => load t' fs
    else load t fs

/-! ## Part 2: the providers -/

inductive Kind where
  | html | text
deriving DecidableEq, Repr

structure Tmpl where
  defs : TSet
  executed : Bool

def Tmpl.new : Tmpl := { defs := TSet.empty, executed := false }

/-- `Template.Clone`: html refuses once the set has been executed. -/
def clone (k : Kind) (t : Tmpl) : Option Tmpl :=
  if k = Kind.html ∧ t.executed = true then none else some { defs := t.defs, executed := false }

/-- Which revision of the providers is modelled.  The code as it is in /repo: both flags `true`.
`cloneOut = false`: before commit 0187fed the html provider handed out its cached base/layout
objects themselves (defect 22b); `true`: it hands out clones.
`pairKey = false`: before commit 7d60dbb the view cache was keyed by the joined string
`layout + ":" + view`; `true`: by the pair.  The old variants are kept because the disproofs
`cache_transparent_false_html` / `_false_colon` are about them. -/
structure Variant where
  cloneOut : Bool
  pairKey : Bool
deriving DecidableEq, Repr

abbrev Key := Name × Name

def colon : Byte := 58

/-- `viewKey{layoutName, viewName}`; in the old variant the Go string `layoutName + ":" + viewName` -/
def mkKey (V : Variant) (l v : Name) : Key :=
  if V.pairKey then (l, v) else (l ++ colon :: v, [])

/-- The files of the three layers in `WalkFS` order; `none` = the directory does not exist. -/
structure Src where
  helpers : Option (List File)
  layout : Name → Option (List File)
  view : Name → Option (List File)

structure St where
  base : Option Tmpl
  layouts : Name → Option Tmpl
  views : Key → Option Tmpl

def St.init : St := { base := none, layouts := fun _ => none, views := fun _ => none }

/-- which cache slot the object handed to the caller lives in -/
inductive Ref where
  | fresh
  | base
  | layout (n : Name)
  | view (k : Key)

def defaultLayout : Name := [100, 101, 102, 97, 117, 108, 116]  -- "default"

def normL (l : Name) : Name := if l = [] then defaultLayout else l

/-- html: a cached object is handed out as a clone (as itself in the old variant) -/
def handOut (V : Variant) (t : Tmpl) (r : Ref) : Option (Tmpl × Ref) :=
  if V.cloneOut then
    match clone Kind.html t with
    | none => none
    | some c => some (c, Ref.fresh)
  else some (t, r)

/-- `ghprovider.Provider.Base` + `base` -/
def htmlBase (V : Variant) (src : Src) (cached : Bool) (s : St) : Option (Tmpl × Ref) × St :=
  match s.base with
  | some t => (handOut V t Ref.base, s)
  | none =>
    match src.helpers with
    | none => (some (Tmpl.new, Ref.fresh), s)          -- returned without being cached
    | some fs =>
      match load TSet.empty fs with
      | none => (none, s)
      | some d =>
        let t : Tmpl := { defs := d, executed := false }
        if cached then (handOut V t Ref.base, { s with base := some t })
        else (some (t, Ref.fresh), s)

/-- `ghprovider.Provider.Layout` + `layout` (`name` already defaulted) -/
def htmlLayout (V : Variant) (src : Src) (cached : Bool) (name : Name) (s : St) :
    Option (Tmpl × Ref) × St :=
  match s.layouts name with
  | some t => (handOut V t (Ref.layout name), s)
  | none =>
    match htmlBase V src cached s with
    | (none, s1) => (none, s1)
    | (some (b, _), s1) =>
      match clone Kind.html b with
      | none => (none, s1)
      | some c =>
        match src.layout name with
        | none => (some (c, Ref.fresh), s1)            -- returned without being cached
        | some fs =>
          match load c.defs fs with
          | none => (none, s1)
          | some d =>
            let t : Tmpl := { defs := d, executed := false }
            if cached then
              (handOut V t (Ref.layout name),
                { s1 with layouts := fun m => if m = name then some t else s1.layouts m })
            else (some (t, Ref.fresh), s1)

/-- `ghprovider.Provider.View` + `view` (`l` already defaulted, `v ≠ ""`): no `IsDir` test here,
`WalkFS` of a missing directory visits nothing -/
def htmlView (V : Variant) (src : Src) (cached : Bool) (l v : Name) (s : St) :
    Option (Tmpl × Ref) × St :=
  let key := mkKey V l v
  match s.views key with
  | some t => (some (t, Ref.view key), s)
  | none =>
    match htmlLayout V src cached l s with
    | (none, s1) => (none, s1)
    | (some (lt, _), s1) =>
      match clone Kind.html lt with
      | none => (none, s1)
      | some c =>
        match load c.defs ((src.view v).getD []) with
        | none => (none, s1)
        | some d =>
          let t : Tmpl := { defs := d, executed := false }
          if cached then
            (some (t, Ref.view key), { s1 with views := fun m => if m = key then some t else s1.views m })
          else (some (t, Ref.fresh), s1)

/-- `gtprovider.Provider.Base` + `base`: the empty base of a missing helpers directory is cached too -/
def textBase (src : Src) (cached : Bool) (s : St) : Option Tmpl × St :=
  match s.base with
  | some t => (some t, s)
  | none =>
    match src.helpers with
    | none =>
      if cached then (some Tmpl.new, { s with base := some Tmpl.new }) else (some Tmpl.new, s)
    | some fs =>
      match load TSet.empty fs with
      | none => (none, s)
      | some d =>
        let t : Tmpl := { defs := d, executed := false }
        if cached then (some t, { s with base := some t }) else (some t, s)

/-- `gtprovider.Provider.Layout` + `layout`: without a layout directory the base object itself
becomes the layout (no clone) -/
def textLayout (src : Src) (cached : Bool) (name : Name) (s : St) : Option Tmpl × St :=
  match s.layouts name with
  | some t => (some t, s)
  | none =>
    match textBase src cached s with
    | (none, s1) => (none, s1)
    | (some b, s1) =>
      match src.layout name with
      | none =>
        if cached then (some b, { s1 with layouts := fun m => if m = name then some b else s1.layouts m })
        else (some b, s1)
      | some fs =>
        match clone Kind.text b with
        | none => (none, s1)
        | some c =>
          match load c.defs fs with
          | none => (none, s1)
          | some d =>
            let t : Tmpl := { defs := d, executed := false }
            if cached then (some t, { s1 with layouts := fun m => if m = name then some t else s1.layouts m })
            else (some t, s1)

/-- `gtprovider.Provider.View` + `view`: without a view directory the layout object itself is the view -/
def textView (V : Variant) (src : Src) (cached : Bool) (l v : Name) (s : St) : Option Tmpl × St :=
  let key := mkKey V l v
  match s.views key with
  | some t => (some t, s)
  | none =>
    match textLayout src cached l s with
    | (none, s1) => (none, s1)
    | (some lt, s1) =>
      match src.view v with
      | none =>
        if cached then (some lt, { s1 with views := fun m => if m = key then some lt else s1.views m })
        else (some lt, s1)
      | some fs =>
        match clone Kind.text lt with
        | none => (none, s1)
        | some c =>
          match load c.defs fs with
          | none => (none, s1)
          | some d =>
            let t : Tmpl := { defs := d, executed := false }
            if cached then (some t, { s1 with views := fun m => if m = key then some t else s1.views m })
            else (some t, s1)

/-- one call of the public API, optionally followed by the caller executing what it got -/
inductive Req where
  | base (exec : Bool)
  | layout (l : Name) (exec : Bool)
  | view (l v : Name) (exec : Bool)
deriving Repr

def Req.exec : Req → Bool
  | .base e => e
  | .layout _ e => e
  | .view _ _ e => e

/-- `Template.Execute` by a caller.  html/template marks the set only when the executed template
exists (`escape` returns "incomplete or empty template" before touching anything otherwise); the
root template exists as soon as one file has been parsed. -/
def Tmpl.run (t : Tmpl) : Tmpl := { t with executed := t.executed || (t.defs rootName).isSome }

/-- the caller executes the object it was given: visible to the provider iff that object is a cache entry -/
def markExec (s : St) : Ref → St
  | Ref.fresh => s
  | Ref.base => { s with base := s.base.map Tmpl.run }
  | Ref.layout n => { s with layouts := fun m => if m = n then (s.layouts m).map Tmpl.run else s.layouts m }
  | Ref.view k => { s with views := fun m => if m = k then (s.views m).map Tmpl.run else s.views m }

def htmlCall (V : Variant) (src : Src) (cached : Bool) (s : St) : Req → Option (Tmpl × Ref) × St
  | .base _ => htmlBase V src cached s
  | .layout l _ => htmlLayout V src cached (normL l) s
  | .view l v _ => if v = [] then (none, s) else htmlView V src cached (normL l) v s

def textCall (V : Variant) (src : Src) (cached : Bool) (s : St) : Req → Option Tmpl × St
  | .base _ => textBase src cached s
  | .layout l _ => textLayout src cached (normL l) s
  | .view l v _ => if v = [] then (none, s) else textView V src cached (normL l) v s

/-- A request and its answer (the definitions of the returned template; `none` = error).
Executing a `text/template` changes nothing in it, so for the text provider `exec` is not a
state change (which also makes the aliasing base = layout = view unobservable). -/
def step (V : Variant) (k : Kind) (src : Src) (cached : Bool) (s : St) (r : Req) : Option TSet × St :=
  match k with
  | Kind.html =>
    match htmlCall V src cached s r with
    | (none, s1) => (none, s1)
    | (some (t, ref), s1) => (some t.defs, if r.exec then markExec s1 ref else s1)
  | Kind.text =>
    match textCall V src cached s r with
    | (none, s1) => (none, s1)
    | (some t, s1) => (some t.defs, s1)

def runFrom (V : Variant) (k : Kind) (src : Src) (cached : Bool) : St → List Req → List (Option TSet)
  | _, [] => []
  | s, r :: rs => (step V k src cached s r).1 :: runFrom V k src cached (step V k src cached s r).2 rs

/-- the answers of a fresh provider to a request sequence -/
def run (V : Variant) (k : Kind) (src : Src) (cached : Bool) (reqs : List Req) : List (Option TSet) :=
  runFrom V k src cached St.init reqs

/-! ### The specification: what a fresh build from the files gives -/

def specBase (src : Src) : Option TSet :=
  match src.helpers with
  | none => some TSet.empty
  | some fs => load TSet.empty fs

/-- `l` already defaulted -/
def specLayout (src : Src) (l : Name) : Option TSet :=
  match specBase src with
  | none => none
  | some b =>
    match src.layout l with
    | none => some b
    | some fs => load b fs

/-- `l` already defaulted, `v ≠ ""` -/
def specView (src : Src) (l v : Name) : Option TSet :=
  match specLayout src l with
  | none => none
  | some lt => load lt ((src.view v).getD [])

def specAns (src : Src) : Req → Option TSet
  | .base _ => specBase src
  | .layout l _ => specLayout src (normL l)
  | .view l v _ => if v = [] then none else specView src (normL l) v

/-- what one layer defines on its own -/
def layerDefs (fs : Option (List File)) : Option TSet := load TSet.empty (fs.getD [])

/-! ## Part 3: WalkFS order over an insertion-ordered flat file list -/

structure Entry where
  /-- path segments below the directory being looked at -/
  path : List Bytes
  /-- `none`: a directory created explicitly -/
  file : Option File

def eraseDupsB : List Bytes → List Bytes → List Bytes
  | _, [] => []
  | seen, x :: xs => if seen.contains x then eraseDupsB seen xs else x :: eraseDupsB (x :: seen) xs

def below (es : List Entry) (h : Bytes) : List Entry :=
  es.filterMap fun e =>
    match e.path with
    | x :: rest => if x = h then some { e with path := rest } else none
    | [] => none

/-- `fsloop.WalkFS` with a file callback only: directory entries in creation order, depth first -/
def walk : Nat → List Entry → List File
  | 0, _ => []
  | fuel + 1, es =>
    let heads := eraseDupsB [] (es.filterMap fun e => e.path.head?)
    heads.flatMap fun h =>
      let subs := below es h
      match subs.find? (fun e => e.path.isEmpty && e.file.isSome) with
      | some { file := some f, .. } => [f]
      | _ => walk fuel subs

def stripPrefix : List Bytes → List Bytes → Option (List Bytes)
  | [], p => some p
  | _ :: _, [] => none
  | d :: ds, x :: xs => if d = x then stripPrefix ds xs else none

def subtree (es : List Entry) (dir : List Bytes) : List Entry :=
  es.filterMap fun e =>
    match stripPrefix dir e.path with
    | some rest => some { e with path := rest }
    | none => none

/-- `fs.IsDir(dir)` -/
def isDir (es : List Entry) (dir : List Bytes) : Bool :=
  dir.isEmpty || (subtree es dir).any fun e => !e.path.isEmpty || e.file.isNone

def depth (es : List Entry) : Nat := es.foldl (fun m e => max m e.path.length) 0

def dirFiles (es : List Entry) (dir : List Bytes) : Option (List File) :=
  if isDir es dir then some (walk (depth es + 1) (subtree es dir)) else none

/-- `strings.Split(name, "/")` without empty segments (the filespace normalises the path) -/
def segments (n : Bytes) : List Bytes :=
  let rec go (cur : Bytes) (acc : List Bytes) : Bytes → List Bytes
    | [] => (if cur.isEmpty then acc else cur.reverse :: acc).reverse
    | c :: cs => if c = 47 then go [] (if cur.isEmpty then acc else cur.reverse :: acc) cs else go (c :: cur) acc cs
  go [] [] n

/-- `WriteFile`: an existing file keeps its place in the directory listing -/
def writeEntry (es : List Entry) (p : List Bytes) (f : Option File) : List Entry :=
  if es.any (fun e => e.path == p) then
    es.map fun e => if e.path == p then { e with file := (match f with | some x => some x | none => e.file) } else e
  else es ++ [{ path := p, file := f }]

/-- the layers as the providers address them: `helpers/`, `layouts/{name}/`, `views/{name}/` -/
def srcOf (es : List Entry) : Src :=
  { helpers := dirFiles es [str "helpers"]
    layout := fun n => dirFiles es (str "layouts" :: segments n)
    view := fun n => dirFiles es (str "views" :: segments n) }

/-! ## Part 4: concurrent use of one guarded cache map

One goroutine's request against one of the provider's maps (`views`, `layouts`; the base pointer
has the same shape).  `guard = true` is the protocol after commit 2a64c6e (the look-up takes the
read lock), `guard = false` the pinned one (look-up without any lock).  The lock state is
derived from the program counters: the write lock is held by the goroutine that is in one of the
states `wlocked … wrote`, read locks by those in `rlocked`/`rread`. -/

inductive PC where
  | idle                 -- not in a call (or the call has returned)
  | rlocked              -- holds the read lock, look-up not yet done
  | rread (hit : Bool)   -- look-up done, read lock still held
  | wantW                -- miss: about to take the write lock
  | wlocked              -- holds the write lock, re-check not yet done
  | built                -- re-check missed, template built
  | writing              -- inside the map assignment
  | wrote                -- about to release the write lock
deriving DecidableEq, Repr

def PC.inW : PC → Bool
  | .wlocked | .built | .writing | .wrote => true
  | _ => false

def PC.inR : PC → Bool
  | .rlocked | .rread _ => true
  | _ => false

structure Sys where
  pcs : List PC
  /-- the key is in the map -/
  filled : Bool
  /-- the runtime has aborted the process -/
  fatal : Bool
deriving Repr

def Sys.init (n : Nat) : Sys := { pcs := List.replicate n PC.idle, filled := false, fatal := false }

/-- some goroutine is inside a map assignment (the runtime's `hashWriting` flag) -/
def Sys.midWrite (s : Sys) : Bool := s.pcs.any (· == PC.writing)

def Sys.canRLock (s : Sys) : Bool := s.pcs.all (fun p => !p.inW)

def Sys.canLock (s : Sys) : Bool := s.pcs.all (fun p => !p.inW && !p.inR)

def Sys.setPC (s : Sys) (i : Nat) (p : PC) : Sys := { s with pcs := s.pcs.set i p }

/-- goroutine `i` makes its next move (no move if it is blocked on a lock or does not exist) -/
def Sys.step (guard cached : Bool) (s : Sys) (i : Nat) : Sys :=
  if s.fatal then s else
  match s.pcs[i]? with
  | none => s
  | some PC.idle =>
    if guard then (if s.canRLock then s.setPC i PC.rlocked else s)
    else if s.midWrite then { s with fatal := true }                     -- unguarded read during a write
    else s.setPC i (if s.filled then PC.idle else PC.wantW)
  | some PC.rlocked =>
    if s.midWrite then { s with fatal := true } else s.setPC i (PC.rread s.filled)
  | some (PC.rread hit) => s.setPC i (if hit then PC.idle else PC.wantW)
  | some PC.wantW => if s.canLock then s.setPC i PC.wlocked else s
  | some PC.wlocked =>
    if s.midWrite then { s with fatal := true }
    else s.setPC i (if s.filled then PC.wrote else PC.built)
  | some PC.built =>
    if cached then (if s.midWrite then { s with fatal := true } else s.setPC i PC.writing)
    else s.setPC i PC.wrote
  | some PC.writing => { (s.setPC i PC.wrote) with filled := true }
  | some PC.wrote => s.setPC i PC.idle

def Sys.run (guard cached : Bool) (s : Sys) (sched : List Nat) : Sys :=
  sched.foldl (Sys.step guard cached) s

end Goat.Tmpl
