/-
Executable model of the *path plumbing* of every filespace view kind of goatcore, as a STACK of layers
of any depth over a bottom filespace (core Lean only; linked into the `m_views` driver).  Property C03.

Mirrors, method by method (what each of the 16 `filesystem.Filespace` methods does with its raw path
argument(s) before it calls the filespace it wraps):

  filesystem/filespace/memfs/wraper.go     `Wrapper.*`    memory wrapper (`FilespaceWrapper`)
  filesystem/fshelper/subfs.go             `SubFS.*`      sub-path view (`SubFS`)
  filesystem/fshelper/rofs.go              `ReadOnly.*`   read-only mask (`ROFilespace`)
  filesystem/filespace/encryptfs/filespace.go  `Encrypted.*`  encrypted view: names are delegated unchanged
  filesystem/fscache/cache.go              `Cache.Filespace` = `fshelper.NewSubFS(cache, path)`: kind `cacheChild`
  filesystem/filespace/diskfs/filespace.go `Disk.*`       disk filespace: `ReduceAbsPath`, then root path ++ result

A layer is `(kind, dir)`: `dir` is the base path the Go struct stores WITHOUT the final "/" that every
constructor appends (`basePath = dir ++ "/"`); it is whatever the constructor computed — `ReduceAbsPath`
of the argument for the memory wrapper, `path.Clean` of it for the sub-path view (which may start with
`..`: such a view is dead, every call through it fails in the filespace below), the absolute host path
for a disk root.  The read-only mask and the encrypted view have no path of their own.

`Layer.down l op`   the call handed to the wrapped filespace, `none` = the layer itself refuses
                    (climbing argument; removal of its own root; a mutation through the read-only mask)
`run B ls s op`     a call through the stack `ls` (head = outermost view) over bottom `B` in state `s`
`openView B s ls raw`   `Filespace(raw)` of the stack: the new stack (views of views to any depth)
`step`              all 16 methods (`Filespace` answers whether the view can be opened)

Contents of files are not transformed here: the encrypted view is modelled as pure delegation (its
ciphers are property C05), the cache child as a sub-path view over whatever the cache is (C06/C07).
-/
import Goat.Model.MemFS

namespace Goat
namespace Views

open Path (Name split join reduceAbsPath clean slash)
open FS (Op Result)

inductive ViewKind where
  | memWrapper
  | subPath
  | readOnly
  | encrypted
  | cacheChild
  | diskRoot
deriving Repr, DecidableEq

/-- one view of the stack: its kind and the base path it stores (without the final "/") -/
structure Layer where
  kind : ViewKind
  dir : Bytes
deriving Repr, DecidableEq

/-- what a call answers when it fails before anything is touched: `false` for the three predicates,
an error otherwise -/
def failResult : Op → Result
  | .isExist _ | .isFile _ | .isDir _ => .bool false
  | _ => .err

/-- the methods that change a filespace -/
def isMutator : Op → Bool
  | .copy _ _ | .copyDirectory _ _ | .copyFile _ _ | .mkdirAll _ | .writeFile _ _ | .writer _ _
  | .remove _ | .removeAll _ => true
  | _ => false

/-! ### The common shape of wraper.go, subfs.go and diskfs/filespace.go

Every method is `if path, err = varutil.ReduceAbsPath(path); err != nil { return err }` (twice for
the copies) followed by the same method of the wrapped filespace on `basePath + path`;
`Remove`/`RemoveAll` additionally refuse the empty reduced path (the view's own root).
`Filespace` is not handed down by these kinds (see `openView`). -/

/-- `basePath + ReduceAbsPath(raw)`; `none` = "break isolation space" -/
def rebase (base raw : Bytes) : Option Bytes :=
  match reduceAbsPath raw with
  | none => none
  | some p => some (base ++ p)

/-- the same for `Remove`/`RemoveAll`: the empty reduced path is refused -/
def rebaseNonRoot (base raw : Bytes) : Option Bytes :=
  match reduceAbsPath raw with
  | none => none
  | some p => if p = [] then none else some (base ++ p)

/-- the copies: both arguments, source first -/
def rebase2 (base s d : Bytes) (k : Bytes → Bytes → Op) : Option Op :=
  match rebase base s with
  | none => none
  | some s' =>
    match rebase base d with
    | none => none
    | some d' => some (k s' d')

def prefixOp (base : Bytes) : Op → Option Op
  | .copy s d => rebase2 base s d .copy
  | .copyDirectory s d => rebase2 base s d .copyDirectory
  | .copyFile s d => rebase2 base s d .copyFile
  | .readDir p => (rebase base p).map .readDir
  | .isExist p => (rebase base p).map .isExist
  | .isFile p => (rebase base p).map .isFile
  | .isDir p => (rebase base p).map .isDir
  | .mkdirAll p => (rebase base p).map .mkdirAll
  | .readFile p => (rebase base p).map .readFile
  | .writeFile p data => (rebase base p).map (.writeFile · data)
  | .reader p sizes => (rebase base p).map (.reader · sizes)
  | .writer p chunks => (rebase base p).map (.writer · chunks)
  | .remove p => (rebaseNonRoot base p).map .remove
  | .removeAll p => (rebaseNonRoot base p).map .removeAll
  | .lstat p => (rebase base p).map .lstat
  | .filespace _ => none

/-- memfs/wraper.go: `w.fs.X(w.basePath + reduced)` -/
def Wrapper.down (dir : Bytes) (op : Op) : Option Op := prefixOp (dir ++ [slash]) op
/-- fshelper/subfs.go: `sub.fs.X(sub.basePath + reduced)` -/
def SubFS.down (dir : Bytes) (op : Op) : Option Op := prefixOp (dir ++ [slash]) op
/-- diskfs/filespace.go: the host call on `fs.path + reduced` -/
def Disk.down (dir : Bytes) (op : Op) : Option Op := prefixOp (dir ++ [slash]) op

/-- fshelper/rofs.go: the eight mutating methods return an error without touching `ro.fs`, the seven
reading methods are `ro.fs.X(src)` with the argument untouched -/
def ReadOnly.down (op : Op) : Option Op :=
  match op with
  | .copy _ _ | .copyDirectory _ _ | .copyFile _ _ | .mkdirAll _ | .writeFile _ _ | .writer _ _
  | .remove _ | .removeAll _ => none
  | .filespace _ => none
  | .readDir p => some (.readDir p)
  | .isExist p => some (.isExist p)
  | .isFile p => some (.isFile p)
  | .isDir p => some (.isDir p)
  | .readFile p => some (.readFile p)
  | .reader p sizes => some (.reader p sizes)
  | .lstat p => some (.lstat p)

/-- encryptfs/filespace.go: every method is `fs.baseFS.X(path)` with the path untouched (contents pass
through the cipher, which is not modelled here) -/
def Encrypted.down (op : Op) : Option Op := some op

/-- what a layer hands to the filespace it wraps -/
def Layer.down (l : Layer) (op : Op) : Option Op :=
  match l.kind with
  | .memWrapper => Wrapper.down l.dir op
  | .subPath => SubFS.down l.dir op
  | .cacheChild => SubFS.down l.dir op
  | .diskRoot => Disk.down l.dir op
  | .readOnly => ReadOnly.down op
  | .encrypted => Encrypted.down op

/-- the call that reaches the bottom filespace through the whole stack (head = outermost view) -/
def downAll : List Layer → Op → Option Op
  | [], op => some op
  | l :: ls, op =>
    match l.down op with
    | none => none
    | some op' => downAll ls op'

/-! ### Constructors -/

/-- `memfs.NewFilespaceWrapper(fs, basePath)`: fails on a climbing base path -/
def newWrapper (raw : Bytes) : Option Layer :=
  match reduceAbsPath raw with
  | none => none
  | some b => some ⟨.memWrapper, b⟩

/-- `fshelper.NewSubFS(fs, basePath)`: `path.Clean(basePath) + "/"`, never fails -/
def newSubFS (raw : Bytes) : Layer := ⟨.subPath, clean raw⟩

/-- `fshelper.NewReadonlyFS(fs)` -/
def newReadOnly : Layer := ⟨.readOnly, []⟩

/-- `encryptfs.NewEncryptFS(fs, settings)` -/
def newEncrypted : Layer := ⟨.encrypted, []⟩

/-- `(*fscache.Cache).Filespace(subPath)` = `fshelper.NewSubFS(c, subPath)` -/
def newCacheChild (raw : Bytes) : Layer := ⟨.cacheChild, clean raw⟩

/-- `diskfs.NewFilespace(path)` for an absolute path: `filepath.Abs` cleans it -/
def newDisk (absPath : Bytes) : Layer := ⟨.diskRoot, clean absPath⟩

/-! ### A stack over a bottom filespace -/

/-- the filespace at the bottom of a stack: its 16 methods and what its own `Filespace(raw)` returns
(a layer over the same bottom) -/
structure Bottom (σ : Type) where
  step : σ → Op → σ × Result
  view : σ → Bytes → Option Layer

/-- any of the 15 methods other than `Filespace` through the stack: every layer either refuses (the call
fails, nothing below is touched) or hands its transformed call down -/
def run {σ : Type} (B : Bottom σ) : List Layer → σ → Op → σ × Result
  | [], s, op => B.step s op
  | l :: ls, s, op =>
    match l.down op with
    | none => (s, failResult op)
    | some op' => run B ls s op'

/-- `Filespace(raw)` through the stack: the stack of the new view, `none` = error.
  memory wrapper   `NewFilespaceWrapper(w.fs, w.basePath+reduced)` (reduces the joined path once more)
  sub-path view    `SubFS{basePath: sub.basePath + reduced + "/", fs: sub.fs}` (also the cache child)
  read-only mask   `NewReadonlyFS(NewSubFS(ro.fs, src))`: never fails, the argument is only `path.Clean`ed
  encrypted view   the child of the wrapped filespace, wrapped again
  disk             reduced, must be an existing directory on the host, `NewFilespace(fs.path+reduced)` -/
def openView {σ : Type} (B : Bottom σ) (s : σ) : List Layer → Bytes → Option (List Layer)
  | [], raw => (B.view s raw).map fun l => [l]
  | l :: ls, raw =>
    match l.kind with
    | .memWrapper =>
      match reduceAbsPath raw with
      | none => none
      | some p => (newWrapper (l.dir ++ [slash] ++ p)).map fun l' => l' :: ls
    | .subPath =>
      match reduceAbsPath raw with
      | none => none
      | some p => some (⟨.subPath, l.dir ++ [slash] ++ p⟩ :: ls)
    | .cacheChild =>
      match reduceAbsPath raw with
      | none => none
      | some p => some (⟨.cacheChild, l.dir ++ [slash] ++ p⟩ :: ls)
    | .readOnly => some (newReadOnly :: newSubFS raw :: ls)
    | .encrypted => (openView B s ls raw).map fun ls' => l :: ls'
    | .diskRoot =>
      match reduceAbsPath raw with
      | none => none
      | some p =>
        let full := l.dir ++ [slash] ++ p
        match (run B ls s (.isDir full)).2 with
        | .bool true => some (newDisk full :: ls)
        | _ => none

/-- all 16 methods through the stack -/
def step {σ : Type} (B : Bottom σ) (ls : List Layer) (s : σ) (op : Op) : σ × Result :=
  match op with
  | .filespace raw => (s, if (openView B s ls raw).isSome then .ok else .err)
  | _ => run B ls s op

/-! ### The memory filespace as bottom -/

/-- `memfs.Filespace` (the root filespace of `Model/MemFS.lean`); its `Filespace(raw)` is a memory wrapper -/
def memBottom : Bottom Node where
  step := MemFS.step .root
  view := fun _ raw => newWrapper raw

/-! ### Where a stack is rooted -/

/-- the segments a layer adds to the root of the view: `ReduceAbsPath` of its stored path (`none`: the
stored path climbs — a dead view); the mask and the encrypted view add nothing -/
def Layer.segs (l : Layer) : Option (List Name) :=
  match l.kind with
  | .readOnly | .encrypted => some []
  | _ => Path.norm l.dir

/-- root of a view that adds `d` below a view rooted at `root` (`none`: dead) -/
def rootPlus (root : Option (List Name)) (d : Option (List Name)) : Option (List Name) :=
  match root, d with
  | some b, some d => some (b ++ d)
  | _, _ => none

/-- the root of the whole stack in coordinates of the bottom filespace (`none`: some layer is dead) -/
def rootOf : List Layer → Option (List Name)
  | [] => some []
  | l :: ls => rootPlus (rootOf ls) l.segs

/-- the stack contains a read-only mask -/
def hasReadOnly (ls : List Layer) : Bool := ls.any fun l => l.kind == .readOnly

end Views
end Goat
