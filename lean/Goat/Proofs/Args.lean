/-
Helper lemmas for property C17 (`varutil.ReadArguments`, `argscope.InjectArgs`/`SeparateArgs`).
The model is `Goat/Model/Args.lean` (fixed); nothing here changes a definition of the model.
The property statements themselves are in `Goat/Props/C17.lean`.
-/
import Goat.Model.Args
import Std.Data.String.ToNat

namespace Goat.Args

/-! ### One-step unfoldings of `mainLoop` (one lemma per branch of the Go `switch`) -/
section steps
variable {s : St} {ch : Byte} {rest : Bytes}

theorem step_nl_esc (h : s.esc = true) :
    mainLoop s (nl :: rest) = mainLoop { s with esc := false } rest := by
  rw [mainLoop.eq_2]; simp only [if_pos h, if_true]

theorem step_nl (h : ¬ s.esc = true) :
    mainLoop s (nl :: rest) = .ok s.args false rest := by
  rw [mainLoop.eq_2]; simp only [if_neg h, if_true]

theorem step_blank (h1 : ¬ ch = nl) (h2 : ch = sp ∨ ch = tab) :
    mainLoop s (ch :: rest) = mainLoop { s with esc := false, sep := true } rest := by
  rw [mainLoop.eq_2]; simp only [if_neg h1, if_pos h2]

theorem step_bs (h1 : ¬ ch = nl) (h2 : ¬ (ch = sp ∨ ch = tab)) (h3 : ¬ s.esc = true ∧ ch = bs) :
    mainLoop s (ch :: rest) = mainLoop { s with esc := true } rest := by
  rw [mainLoop.eq_2]; simp only [if_neg h1, if_neg h2, if_pos h3]

theorem step_panic (h1 : ¬ ch = nl) (h2 : ¬ (ch = sp ∨ ch = tab)) (h3 : ¬ (¬ s.esc = true ∧ ch = bs))
    (hc : s.open.cur = none) : mainLoop s (ch :: rest) = .panic := by
  rw [mainLoop.eq_2]; simp only [if_neg h1, if_neg h2, if_neg h3, hc]

theorem step_dq {c : Bytes} (h1 : ¬ ch = nl) (h2 : ¬ (ch = sp ∨ ch = tab)) (h3 : ¬ (¬ s.esc = true ∧ ch = bs))
    (hc : s.open.cur = some c) (h4 : ¬ s.open.esc = true ∧ ch = dq) :
    mainLoop s (ch :: rest) = quoteLoop s.open.done c false rest := by
  rw [mainLoop.eq_2]; simp only [if_neg h1, if_neg h2, if_neg h3, hc, if_pos h4]

theorem step_push {c : Bytes} (h1 : ¬ ch = nl) (h2 : ¬ (ch = sp ∨ ch = tab)) (h3 : ¬ (¬ s.esc = true ∧ ch = bs))
    (hc : s.open.cur = some c) (h4 : ¬ (¬ s.open.esc = true ∧ ch = dq))
    (h5 : ¬ (¬ s.open.esc = true ∧ ch = lt ∧ endsWith c [eq, lt] = true)) :
    mainLoop s (ch :: rest) =
      mainLoop { done := s.open.done, cur := some (c ++ [ch]), esc := false, sep := false } rest := by
  rw [mainLoop.eq_2]; simp only [if_neg h1, if_neg h2, if_neg h3, hc, if_neg h4, if_neg h5]

theorem step_hd_tagerr {c : Bytes} {e : Bool} (h1 : ¬ ch = nl) (h2 : ¬ (ch = sp ∨ ch = tab))
    (h3 : ¬ (¬ s.esc = true ∧ ch = bs))
    (hc : s.open.cur = some c) (h4 : ¬ (¬ s.open.esc = true ∧ ch = dq))
    (h5 : ¬ s.open.esc = true ∧ ch = lt ∧ endsWith c [eq, lt] = true)
    (ht : tagLine [] rest = .error e) :
    mainLoop s (ch :: rest) = .err e [] := by
  rw [mainLoop.eq_2]; simp only [if_neg h1, if_neg h2, if_neg h3, hc, if_neg h4, if_pos h5]
  split
  · next e' h => rw [ht] at h; cases h; rfl
  · next h => rw [ht] at h; cases h

theorem step_hd_notag {c rest1 : Bytes} (h1 : ¬ ch = nl) (h2 : ¬ (ch = sp ∨ ch = tab))
    (h3 : ¬ (¬ s.esc = true ∧ ch = bs))
    (hc : s.open.cur = some c) (h4 : ¬ (¬ s.open.esc = true ∧ ch = dq))
    (h5 : ¬ s.open.esc = true ∧ ch = lt ∧ endsWith c [eq, lt] = true)
    (ht : tagLine [] rest = .ok ([], rest1)) :
    mainLoop s (ch :: rest) = .err false rest1 := by
  rw [mainLoop.eq_2]; simp only [if_neg h1, if_neg h2, if_neg h3, hc, if_neg h4, if_pos h5]
  split
  · next e' h => rw [ht] at h; cases h
  · next h => rw [ht] at h; cases h; simp

theorem step_hd_nobody {c tag rest1 : Bytes} (h1 : ¬ ch = nl) (h2 : ¬ (ch = sp ∨ ch = tab))
    (h3 : ¬ (¬ s.esc = true ∧ ch = bs))
    (hc : s.open.cur = some c) (h4 : ¬ (¬ s.open.esc = true ∧ ch = dq))
    (h5 : ¬ s.open.esc = true ∧ ch = lt ∧ endsWith c [eq, lt] = true)
    (ht : tagLine [] rest = .ok (tag, rest1)) (hne : ¬ tag = [])
    (hb : bodyLoop (nl :: tag) [] rest1 = none) :
    mainLoop s (ch :: rest) = .err true [] := by
  rw [mainLoop.eq_2]; simp only [if_neg h1, if_neg h2, if_neg h3, hc, if_neg h4, if_pos h5]
  split
  · next e' h => rw [ht] at h; cases h
  · next h =>
    rw [ht] at h; cases h; simp only [if_neg hne]
    split
    · rfl
    · next h' => rw [hb] at h'; cases h'

theorem step_hd {c tag rest1 value rest2 : Bytes} (h1 : ¬ ch = nl) (h2 : ¬ (ch = sp ∨ ch = tab))
    (h3 : ¬ (¬ s.esc = true ∧ ch = bs))
    (hc : s.open.cur = some c) (h4 : ¬ (¬ s.open.esc = true ∧ ch = dq))
    (h5 : ¬ s.open.esc = true ∧ ch = lt ∧ endsWith c [eq, lt] = true)
    (ht : tagLine [] rest = .ok (tag, rest1)) (hne : ¬ tag = [])
    (hb : bodyLoop (nl :: tag) [] rest1 = some (value, rest2)) :
    mainLoop s (ch :: rest) =
      mainLoop { done := s.open.done, cur := some (c.take (c.length - 1) ++ trimBlank value),
                 esc := s.open.esc, sep := s.open.sep } rest2 := by
  rw [mainLoop.eq_2]; simp only [if_neg h1, if_neg h2, if_neg h3, hc, if_neg h4, if_pos h5]
  split
  · next e' h => rw [ht] at h; cases h
  · next h =>
    rw [ht] at h; cases h; simp only [if_neg hne]
    split
    · next h' => rw [hb] at h'; cases h'
    · next h' => rw [hb] at h'; cases h'; rfl

end steps


/-! ### No panic -/

/-- the invariant that keeps `args[len(args)-1]` in range -/
def Good (s : St) : Prop := s.sep = false → s.cur ≠ none

theorem good_open_cur {s : St} (h : Good s) : s.open.cur ≠ none := by
  unfold St.open
  split
  · simp
  · next hs => exact h (by simpa using hs)

theorem open_sep (s : St) : s.open.sep = s.sep := by
  unfold St.open; split <;> rfl

theorem open_esc (s : St) : s.open.esc = s.esc := by
  unfold St.open; split <;> rfl

theorem no_panic_aux :
    (∀ (s : St) (inp : Bytes), Good s → mainLoop s inp ≠ .panic) := by
  intro s inp
  apply mainLoop.induct (motive1 := fun s inp => Good s → mainLoop s inp ≠ .panic)
    (motive2 := fun done c esc inp => quoteLoop done c esc inp ≠ .panic)
  case case1 => intro s _; rw [mainLoop.eq_1]; exact Outcome.noConfusion
  case case2 => intro s rest h ih g; rw [step_nl_esc h]; exact ih g
  case case3 => intro s rest h g; rw [step_nl h]; exact Outcome.noConfusion
  case case4 => intro s ch rest h1 h2 ih g; rw [step_blank h1 h2]; exact ih (fun h => by cases h)
  case case5 => intro s ch rest h1 h2 h3 ih g; rw [step_bs h1 h2 h3]; exact ih g
  case case6 => intro s ch rest h1 h2 h3 s' hc g; exact absurd hc (good_open_cur g)
  case case7 => intro s ch rest h1 h2 h3 s' c hc h4 ih g; rw [step_dq h1 h2 h3 hc h4]; exact ih
  case case8 =>
    intro s ch rest h1 h2 h3 s' c hc h4 h5 e ht g
    rw [step_hd_tagerr h1 h2 h3 hc h4 h5 ht]; exact Outcome.noConfusion
  case case9 =>
    intro s ch rest h1 h2 h3 s' c hc h4 h5 r1 ht g
    rw [step_hd_notag h1 h2 h3 hc h4 h5 ht]; exact Outcome.noConfusion
  case case10 =>
    intro s ch rest h1 h2 h3 s' c hc h4 h5 tag r1 ht hne hb g
    rw [step_hd_nobody h1 h2 h3 hc h4 h5 ht hne hb]; exact Outcome.noConfusion
  case case11 =>
    intro s ch rest h1 h2 h3 s' c hc h4 h5 tag r1 ht hne v r2 hb ih g
    rw [step_hd h1 h2 h3 hc h4 h5 ht hne hb]; exact ih (fun _ => by simp)
  case case12 =>
    intro s ch rest h1 h2 h3 s' c hc h4 h5 ih g
    rw [step_push h1 h2 h3 hc h4 h5]; exact ih (fun _ => by simp)
  case case13 => intro d c e; rw [quoteLoop.eq_1]; exact Outcome.noConfusion
  case case14 =>
    intro d c e ch rest h ih; rw [quoteLoop.eq_2, if_pos h]; exact ih (fun _ => by simp)
  case case15 =>
    intro d c e rest h ih; rw [quoteLoop.eq_2, if_neg h, if_pos rfl]; exact ih
  case case16 =>
    intro d c e ch rest h hb ih; rw [quoteLoop.eq_2, if_neg h, if_neg hb]; exact ih


/-! ### Reading stops at the newline -/

/-- what a result says about the unread remainder, relative to the input `inp` -/
def Stops (inp : Bytes) : Outcome → Prop
  | .ok _ false r => nl :: r <:+ inp
  | .ok _ true r => r = []
  | _ => True

theorem Stops.mono {a b : Bytes} {o : Outcome} (h : Stops a o) (hab : a <:+ b) : Stops b o := by
  cases o with
  | ok args eof r =>
    cases eof with
    | false => exact List.IsSuffix.trans h hab
    | true => exact h
  | err _ _ => trivial
  | panic => trivial

theorem tagLine_suffix : ∀ (tag inp : Bytes) {t r}, tagLine tag inp = .ok (t, r) → r <:+ inp := by
  intro tag inp
  induction inp generalizing tag with
  | nil => intro t r h; simp [tagLine] at h
  | cons ch rest ih =>
    intro t r h
    unfold tagLine at h
    split at h
    · cases h; exact List.suffix_cons _ _
    · split at h
      · exact (ih _ h).trans (List.suffix_cons _ _)
      · split at h
        · cases h
        · exact (ih _ h).trans (List.suffix_cons _ _)

theorem bodyLoop_suffix (marker : Bytes) :
    ∀ (v inp : Bytes) {x r}, bodyLoop marker v inp = some (x, r) → r <:+ inp := by
  intro v inp
  induction inp generalizing v with
  | nil => intro x r h; simp [bodyLoop] at h
  | cons ch rest ih =>
    intro x r h
    unfold bodyLoop at h
    simp only at h
    split at h
    · cases h; exact List.suffix_cons _ _
    · exact (ih _ h).trans (List.suffix_cons _ _)

theorem stops_aux (s : St) (inp : Bytes) : Stops inp (mainLoop s inp) := by
  apply mainLoop.induct (motive1 := fun s inp => Stops inp (mainLoop s inp))
    (motive2 := fun done c esc inp => Stops inp (quoteLoop done c esc inp))
  case case1 => intro s; rw [mainLoop.eq_1]; rfl
  case case2 => intro s rest h ih; rw [step_nl_esc h]; exact ih.mono (List.suffix_cons _ _)
  case case3 => intro s rest h; rw [step_nl h]; exact List.suffix_refl _
  case case4 => intro s ch rest h1 h2 ih; rw [step_blank h1 h2]; exact ih.mono (List.suffix_cons _ _)
  case case5 => intro s ch rest h1 h2 h3 ih; rw [step_bs h1 h2 h3]; exact ih.mono (List.suffix_cons _ _)
  case case6 => intro s ch rest h1 h2 h3 s' hc; rw [step_panic h1 h2 h3 hc]; trivial
  case case7 =>
    intro s ch rest h1 h2 h3 s' c hc h4 ih; rw [step_dq h1 h2 h3 hc h4]
    exact ih.mono (List.suffix_cons _ _)
  case case8 =>
    intro s ch rest h1 h2 h3 s' c hc h4 h5 e ht
    rw [step_hd_tagerr h1 h2 h3 hc h4 h5 ht]; trivial
  case case9 =>
    intro s ch rest h1 h2 h3 s' c hc h4 h5 r1 ht
    rw [step_hd_notag h1 h2 h3 hc h4 h5 ht]; trivial
  case case10 =>
    intro s ch rest h1 h2 h3 s' c hc h4 h5 tag r1 ht hne hb
    rw [step_hd_nobody h1 h2 h3 hc h4 h5 ht hne hb]; trivial
  case case11 =>
    intro s ch rest h1 h2 h3 s' c hc h4 h5 tag r1 ht hne v r2 hb ih
    rw [step_hd h1 h2 h3 hc h4 h5 ht hne hb]
    exact ih.mono (((bodyLoop_suffix _ _ _ hb).trans (tagLine_suffix _ _ ht)).trans
      (List.suffix_cons _ _))
  case case12 =>
    intro s ch rest h1 h2 h3 s' c hc h4 h5 ih
    rw [step_push h1 h2 h3 hc h4 h5]; exact ih.mono (List.suffix_cons _ _)
  case case13 => intro d c e; rw [quoteLoop.eq_1]; trivial
  case case14 =>
    intro d c e ch rest h ih; rw [quoteLoop.eq_2, if_pos h]; exact ih.mono (List.suffix_cons _ _)
  case case15 =>
    intro d c e rest h ih; rw [quoteLoop.eq_2, if_neg h, if_pos rfl]
    exact ih.mono (List.suffix_cons _ _)
  case case16 =>
    intro d c e ch rest h hb ih; rw [quoteLoop.eq_2, if_neg h, if_neg hb]
    exact ih.mono (List.suffix_cons _ _)


/-! ### `endsWith` is `<:+` -/

theorem endsWith_iff (l suf : Bytes) : endsWith l suf = true ↔ suf <:+ l := by
  unfold endsWith
  rw [beq_iff_eq, ← List.reverse_prefix, List.prefix_iff_eq_take, List.length_reverse]
  exact eq_comm

/-! ### Plain words -/

/-- a byte the splitter copies without looking at it twice (apart from the `=<<` check) -/
def PlainByte (b : Byte) : Prop := b ≠ sp ∧ b ≠ tab ∧ b ≠ nl ∧ b ≠ dq ∧ b ≠ bs

instance (b : Byte) : Decidable (PlainByte b) := by unfold PlainByte; infer_instance

/-- bytes that keep the splitter out of all its special branches: no blank, newline, quote or
backslash, and the heredoc opener `=<<` does not occur -/
def PlainBytes (w : Bytes) : Prop := (∀ b ∈ w, PlainByte b) ∧ ¬ [eq, lt, lt] <:+: w

instance (w : Bytes) : Decidable (PlainBytes w) := by unfold PlainBytes; infer_instance

/-- a non-empty run of plain bytes -/
def PlainWord (w : Bytes) : Prop := w ≠ [] ∧ PlainBytes w

instance (w : Bytes) : Decidable (PlainWord w) := by unfold PlainWord; infer_instance

theorem open_unsep (done : List Bytes) (c : Option Bytes) (e : Bool) :
    St.open ⟨done, c, e, false⟩ = ⟨done, c, e, false⟩ := by
  simp [St.open]

theorem open_sep' (done : List Bytes) (c : Option Bytes) (e : Bool) :
    St.open ⟨done, c, e, true⟩ = ⟨St.args ⟨done, c, e, true⟩, some [], e, true⟩ := by
  simp [St.open]

/-- inside an argument, plain bytes are appended one by one -/
theorem plain_run (done : List Bytes) (c w tail : Bytes) (hw : ∀ b ∈ w, PlainByte b)
    (hi : ¬ [eq, lt, lt] <:+: c ++ w) :
    mainLoop ⟨done, some c, false, false⟩ (w ++ tail)
      = mainLoop ⟨done, some (c ++ w), false, false⟩ tail := by
  induction w generalizing c with
  | nil => simp
  | cons b w ih =>
    obtain ⟨h1, h2, h3, h4, h5⟩ := hw b (by simp)
    rw [List.cons_append,
      step_push (s := ⟨done, some c, false, false⟩) (c := c) h3 (by simp [h1, h2]) (by simp [h5])
        (by rw [open_unsep]) (by simp [h4])]
    · rw [open_unsep]
      have := ih (c ++ [b]) (fun x hx => hw x (by simp [hx])) (by simpa using hi)
      simpa using this
    · rintro ⟨-, hb, he⟩
      subst hb
      obtain ⟨p, hp⟩ := (endsWith_iff _ _).1 he
      apply hi
      refine ⟨p, w, ?_⟩
      rw [← hp]; simp

/-- the first plain byte after a separator opens a new argument -/
theorem plain_open (done : List Bytes) (cur : Option Bytes) (b : Byte) (rest : Bytes)
    (hb : PlainByte b) :
    mainLoop ⟨done, cur, false, true⟩ (b :: rest)
      = mainLoop ⟨St.args ⟨done, cur, false, true⟩, some [b], false, false⟩ rest := by
  obtain ⟨h1, h2, h3, h4, h5⟩ := hb
  rw [step_push (s := ⟨done, cur, false, true⟩) (c := []) h3 (by simp [h1, h2]) (by simp [h5])
        (by rw [open_sep']) (by simp [h4]) (by simp [endsWith])]
  rw [open_sep']; rfl

/-- a plain word after a separator becomes exactly one new argument -/
theorem word_sep (done : List Bytes) (cur : Option Bytes) (w tail : Bytes) (hw : PlainWord w) :
    mainLoop ⟨done, cur, false, true⟩ (w ++ tail)
      = mainLoop ⟨St.args ⟨done, cur, false, true⟩, some w, false, false⟩ tail := by
  obtain ⟨hne, hp, hi⟩ := hw
  cases w with
  | nil => exact absurd rfl hne
  | cons b w =>
    rw [List.cons_append, plain_open _ _ _ _ (hp b (by simp)),
      plain_run _ [b] w tail (fun x hx => hp x (by simp [hx])) (by simpa using hi)]
    rfl

/-- reading blank-separated plain words from a separated state: the state reached has exactly
the words appended to the arguments -/
theorem words_aux (ws : List Bytes) (hws : ∀ w ∈ ws, PlainWord w) :
    ∀ (done : List Bytes) (cur : Option Bytes) (tail : Bytes),
    ∃ s' : St, s'.esc = false ∧ s'.args = St.args ⟨done, cur, false, true⟩ ++ ws ∧
      mainLoop ⟨done, cur, false, true⟩ (List.intercalate [sp] ws ++ tail) = mainLoop s' tail := by
  induction ws with
  | nil => intro done cur tail; exact ⟨⟨done, cur, false, true⟩, rfl, by simp, by simp⟩
  | cons a more ih =>
    intro done cur tail
    have ha := hws a (by simp)
    cases more with
    | nil =>
      refine ⟨⟨St.args ⟨done, cur, false, true⟩, some a, false, false⟩, rfl, rfl, ?_⟩
      rw [List.intercalate_singleton, word_sep _ _ _ _ ha]
    | cons b more' =>
      obtain ⟨s', h1, h2, h3⟩ := ih (fun w hw => hws w (by simp [hw]))
        (St.args ⟨done, cur, false, true⟩) (some a) tail
      refine ⟨s', h1, ?_, ?_⟩
      · rw [h2]; simp [St.args]
      · rw [List.intercalate_cons_cons, List.append_assoc, List.append_assoc, word_sep _ _ _ _ ha,
          List.singleton_append, step_blank (by decide) (Or.inl rfl)]
        exact h3

theorem words_main (ws : List Bytes) (hws : ∀ w ∈ ws, PlainWord w) (rest : Bytes) :
    readArgs (List.intercalate [sp] ws ++ nl :: rest) = .ok ws false rest := by
  obtain ⟨s', h1, h2, h3⟩ := words_aux ws hws [] none (nl :: rest)
  rw [readArgs, h3, step_nl (by simp [h1]), h2]; rfl

theorem words_eof_main (ws : List Bytes) (hws : ∀ w ∈ ws, PlainWord w) :
    readArgs (List.intercalate [sp] ws) = .ok ws true [] := by
  obtain ⟨s', h1, h2, h3⟩ := words_aux ws hws [] none []
  rw [List.append_nil] at h3
  rw [readArgs, h3, mainLoop.eq_1, h2]; rfl


/-! ### Quoted arguments -/

/-- reference quoting of one byte inside an open quote -/
def escByte (b : Byte) : Bytes :=
  if b = dq then [bs, dq]
  else if b = bs then [dq, bs, bs, dq]      -- close the quote, emit `\\` outside, reopen
  else [b]

def renderBody (a : Bytes) : Bytes := a.flatMap escByte

/-- `"` body `"` -/
def render (a : Bytes) : Bytes := dq :: renderBody a ++ [dq]

/-- all arguments: `render a₁ ␠ render a₂ ␠ …` -/
def renderLine : List Bytes → Bytes
  | [] => []
  | [a] => render a
  | a :: b :: more => render a ++ sp :: renderLine (b :: more)

theorem quote_dq (done : List Bytes) (c rest : Bytes) :
    quoteLoop done c false (dq :: rest) = mainLoop ⟨done, some c, false, false⟩ rest := by
  rw [quoteLoop.eq_2, if_pos ⟨by simp, rfl⟩]

theorem quote_bs (done : List Bytes) (c : Bytes) (e : Bool) (rest : Bytes) :
    quoteLoop done c e (bs :: rest) = quoteLoop done c true rest := by
  rw [quoteLoop.eq_2, if_neg (by simp; intro; decide), if_pos rfl]

theorem quote_esc (done : List Bytes) (c : Bytes) (ch : Byte) (rest : Bytes) (h : ch ≠ bs) :
    quoteLoop done c true (ch :: rest) = quoteLoop done (c ++ [ch]) false rest := by
  rw [quoteLoop.eq_2, if_neg (by simp), if_neg h]

theorem quote_other (done : List Bytes) (c : Bytes) (ch : Byte) (rest : Bytes)
    (h1 : ch ≠ dq) (h2 : ch ≠ bs) :
    quoteLoop done c false (ch :: rest) = quoteLoop done (c ++ [ch]) false rest := by
  rw [quoteLoop.eq_2, if_neg (by simp [h1]), if_neg h2]

/-- `\\"` read inside an argument (outside quotes) appends a backslash and reopens the quote -/
theorem bsbsdq (done : List Bytes) (c rest : Bytes) :
    mainLoop ⟨done, some c, false, false⟩ (bs :: bs :: dq :: rest)
      = quoteLoop done (c ++ [bs]) false rest := by
  rw [step_bs (by decide) (by decide) ⟨by simp, rfl⟩]
  rw [step_push (c := c) (by decide) (by decide) (by simp) (by rw [open_unsep])
        (by rw [open_unsep]; simp) (by rw [open_unsep]; simp)]
  rw [open_unsep]
  rw [step_dq (c := c ++ [bs]) (by decide) (by decide) (by simp; decide) (by rw [open_unsep])
        (by rw [open_unsep]; simp)]
  rw [open_unsep]

/-- inside a quote: consuming the rendered body and the closing quote appends exactly `a` -/
theorem quote_body (done : List Bytes) (c a tail : Bytes) :
    quoteLoop done c false (renderBody a ++ dq :: tail)
      = mainLoop ⟨done, some (c ++ a), false, false⟩ tail := by
  induction a generalizing c with
  | nil => simp [renderBody, quote_dq]
  | cons b a ih =>
    have hcons : renderBody (b :: a) = escByte b ++ renderBody a := by simp [renderBody]
    have hc : c ++ b :: a = c ++ [b] ++ a := by simp
    rw [hcons, hc, ← ih (c ++ [b])]
    by_cases hq : b = dq
    · subst hq
      have : escByte dq = [bs, dq] := by decide
      rw [this]
      simp only [List.cons_append, List.nil_append]
      rw [quote_bs, quote_esc _ _ _ _ (by decide)]
    · by_cases hb : b = bs
      · subst hb
        have : escByte bs = [dq, bs, bs, dq] := by decide
        rw [this]
        simp only [List.cons_append, List.nil_append]
        rw [quote_dq, bsbsdq]
      · have : escByte b = [b] := by simp [escByte, hq, hb]
        rw [this]
        simp only [List.cons_append, List.nil_append]
        rw [quote_other _ _ _ _ hq hb]

/-- one rendered argument, read from a separated state, becomes exactly one new argument -/
theorem one_arg (done : List Bytes) (cur : Option Bytes) (a tail : Bytes) :
    mainLoop ⟨done, cur, false, true⟩ (render a ++ tail)
      = mainLoop ⟨St.args ⟨done, cur, false, true⟩, some a, false, false⟩ tail := by
  simp only [render, List.cons_append, List.append_assoc]
  rw [step_dq (c := []) (by decide) (by decide) (by simp; decide) (by rw [open_sep'])
        (by rw [open_sep']; simp)]
  rw [open_sep', quote_body]
  simp

theorem quoted_aux (done : List Bytes) (cur : Option Bytes) (args : List Bytes) (rest : Bytes) :
    mainLoop ⟨done, cur, false, true⟩ (renderLine args ++ nl :: rest)
      = .ok (St.args ⟨done, cur, false, true⟩ ++ args) false rest := by
  induction args generalizing done cur with
  | nil => simp [renderLine, step_nl]
  | cons a more ih =>
    cases more with
    | nil =>
      simp only [renderLine]
      rw [one_arg, step_nl (by simp)]; rfl
    | cons b more' =>
      simp only [renderLine, List.append_assoc, List.cons_append]
      rw [one_arg, step_blank (by decide) (Or.inl rfl), ih]
      simp [St.args]

theorem quoted_main (args : List Bytes) (rest : Bytes) :
    readArgs (renderLine args ++ nl :: rest) = .ok args false rest := by
  have := quoted_aux [] none args rest
  simpa [readArgs, St.args] using this

/-! ### Line continuation -/

theorem continuation_main (s : St) (rest : Bytes) (h : s.esc = false) :
    mainLoop s (bs :: nl :: rest) = mainLoop s rest := by
  rw [step_bs (by decide) (by decide) ⟨by simp [h], rfl⟩, step_nl_esc rfl]
  cases s; simp_all


/-! ### Heredoc arguments -/

theorem isLetter_plain {b : Byte} (h : isLetter b = true) : b ≠ nl ∧ b ≠ sp ∧ b ≠ tab := by
  refine ⟨?_, ?_, ?_⟩ <;> (intro hb; subst hb; revert h; decide)

/-- a marker line consisting of letters only is read up to and including its newline -/
theorem tagLine_letters (t : Bytes) (ht : ∀ b ∈ t, isLetter b = true) (acc r : Bytes) :
    tagLine acc (t ++ nl :: r) = .ok (acc ++ t, r) := by
  induction t generalizing acc with
  | nil => simp [tagLine]
  | cons b t ih =>
    have hb := ht b (by simp)
    rw [List.cons_append, tagLine, if_neg (isLetter_plain hb).1, if_pos hb,
      ih (fun x hx => ht x (by simp [hx]))]
    simp

/-- the heredoc body ends at the first position where the accumulated value ends with the
marker -/
theorem bodyLoop_first (m : Bytes) (y : Bytes) : ∀ (v rest : Bytes), y ≠ [] → m <:+ v ++ y →
    (∀ n, 0 < n → n < y.length → ¬ m <:+ v ++ y.take n) →
    bodyLoop m v (y ++ rest) = some ((v ++ y).take ((v ++ y).length - m.length), rest) := by
  induction y with
  | nil => intro v rest h; exact absurd rfl h
  | cons ch y ih =>
    intro v rest _ hend hfirst
    rw [List.cons_append, bodyLoop]
    by_cases hy : y = []
    · subst hy
      rw [if_pos ((endsWith_iff _ _).2 hend)]
      simp
    · have h1 : ¬ endsWith (v ++ [ch]) m = true := by
        rw [endsWith_iff]
        have := hfirst 1 (by omega) (by
          cases y with
          | nil => exact absurd rfl hy
          | cons _ _ => simp)
        simpa using this
      rw [if_neg h1, ih (v ++ [ch]) rest hy (by simpa using hend)]
      · simp
      · intro n hn hlt
        have := hfirst (n + 1) (by omega) (by simp; omega)
        simpa using this

/-- no proper prefix of `x ++ "\n" ++ t` ends with the marker `"\n" ++ t`, i.e. the marker first
occurs at the very end (the Go loop stops at the first occurrence) -/
def MarkerFirstAtEnd (t x : Bytes) : Prop :=
  ∀ n, n < (x ++ nl :: t).length → ¬ (nl :: t) <:+ (x ++ nl :: t).take n

instance (t x : Bytes) : Decidable (MarkerFirstAtEnd t x) := by
  unfold MarkerFirstAtEnd; infer_instance

theorem bodyLoop_marker (t x rest : Bytes) (h : MarkerFirstAtEnd t x) :
    bodyLoop (nl :: t) [] (x ++ nl :: t ++ rest) = some (x, rest) := by
  have := bodyLoop_first (nl :: t) (x ++ nl :: t) [] rest (by simp) (by simp)
    (fun n _ hn => by simpa using h n hn)
  rw [List.append_assoc] at this
  simpa using this

/-- a key made of plain bytes, followed by `=<`, is still a plain word -/
theorem plainWord_key (k : Bytes) (h : PlainBytes k) : PlainWord (k ++ [eq, lt]) := by
  obtain ⟨hp, hi⟩ := h
  refine ⟨by simp, ?_, ?_⟩
  · intro b hb
    rw [List.mem_append] at hb
    rcases hb with hb | hb
    · exact hp b hb
    · simp at hb; rcases hb with rfl | rfl <;> decide
  · intro hinf
    apply hi
    rw [← List.reverse_infix] at hinf ⊢
    have e1 : ([eq, lt, lt] : Bytes).reverse = [lt, lt, eq] := rfl
    have e2 : (k ++ [eq, lt]).reverse = lt :: eq :: k.reverse := by simp
    rw [e1, e2, List.infix_cons_iff] at hinf
    rcases hinf with h | h
    · rw [List.cons_prefix_cons, List.cons_prefix_cons] at h
      exact absurd h.2.1 (by decide)
    · rw [List.infix_cons_iff] at h
      rcases h with h | h
      · rw [List.cons_prefix_cons] at h
        exact absurd h.1 (by decide)
      · exact h

theorem heredoc_aux (done : List Bytes) (cur : Option Bytes) (k t x tail : Bytes)
    (hk : PlainBytes k) (ht : ∀ b ∈ t, isLetter b = true) (hne : t ≠ [])
    (hx : MarkerFirstAtEnd t x) :
    mainLoop ⟨done, cur, false, true⟩ (k ++ [eq, lt, lt] ++ t ++ [nl] ++ x ++ [nl] ++ t ++ tail)
      = mainLoop ⟨St.args ⟨done, cur, false, true⟩, some (k ++ [eq] ++ trimBlank x), false, false⟩
          tail := by
  have e : k ++ [eq, lt, lt] ++ t ++ [nl] ++ x ++ [nl] ++ t ++ tail
      = (k ++ [eq, lt]) ++ lt :: (t ++ nl :: (x ++ nl :: t ++ tail)) := by simp
  rw [e, word_sep _ _ _ _ (plainWord_key k hk)]
  rw [step_hd (c := k ++ [eq, lt]) (tag := t) (rest1 := x ++ nl :: t ++ tail) (value := x)
        (rest2 := tail) (by decide) (by decide) (by simp; decide) (by rw [open_unsep])
        (fun h => absurd h.2 (by decide))
        ⟨by rw [open_unsep]; simp, rfl, (endsWith_iff _ _).2 ⟨k, rfl⟩⟩
        (by simpa using tagLine_letters t ht [] _) hne (bodyLoop_marker t x tail hx)]
  rw [open_unsep]
  have : (k ++ [eq, lt]).take ((k ++ [eq, lt]).length - 1) = k ++ [eq] := by
    have e3 : k ++ [eq, lt] = (k ++ [eq]) ++ [lt] := by simp
    rw [e3, List.length_append, List.length_singleton, Nat.add_sub_cancel, List.take_left']
    rfl
  rw [this]

theorem heredoc_main (k t x rest : Bytes)
    (hk : PlainBytes k) (ht : ∀ b ∈ t, isLetter b = true) (hne : t ≠ [])
    (hx : MarkerFirstAtEnd t x) :
    readArgs (k ++ [eq, lt, lt] ++ t ++ [nl] ++ x ++ [nl] ++ t ++ nl :: rest)
      = .ok [k ++ [eq] ++ trimBlank x] false rest := by
  rw [readArgs, heredoc_aux [] none k t x (nl :: rest) hk ht hne hx, step_nl (by simp)]
  rfl


/-! ### `natKey` is injective -/

theorem byteArray_toList_loop (bs : ByteArray) (i : Nat) (r : List UInt8) :
    ByteArray.toList.loop bs i r = r.reverse ++ bs.data.toList.drop i := by
  fun_induction ByteArray.toList.loop bs i r with
  | case1 i r h ih =>
    rw [ih]
    cases bs with
    | mk d =>
      have hi : i < d.toList.length := by rw [Array.length_toList]; exact h
      rw [List.drop_eq_getElem_cons hi]
      have : ByteArray.get! ⟨d⟩ i = d.toList[i] := by
        have hi' : i < d.size := h
        simp [ByteArray.get!, hi']
      rw [this]; simp
  | case2 i r h =>
    cases bs with
    | mk d =>
      have hi : d.toList.length ≤ i := by rw [Array.length_toList]; exact Nat.le_of_not_lt h
      rw [List.drop_eq_nil_of_le hi]; simp

theorem byteArray_toList (bs : ByteArray) : bs.toList = bs.data.toList := by
  simp [ByteArray.toList, byteArray_toList_loop]

theorem str_injective {a b : String} (h : str a = str b) : a = b := by
  unfold str at h
  rw [byteArray_toList, byteArray_toList] at h
  have h2 : a.toUTF8 = b.toUTF8 := ByteArray.ext (Array.toList_inj.1 h)
  exact String.toByteArray_inj.1 h2

theorem natKey_injective {m n : Nat} (h : natKey m = natKey n) : m = n := by
  unfold natKey at h
  have h1 := str_injective h
  have h2 : toString m = toString n := (String.append_right_inj "$").1 h1
  exact Nat.repr_injective h2


theorem str_append (a b : String) : str (a ++ b) = str a ++ str b := by
  unfold str
  rw [byteArray_toList, byteArray_toList, byteArray_toList]
  simp

theorem str_dollar : str "$" = [36] := by
  unfold str
  rw [byteArray_toList]
  decide

/-- every positional key starts with `$` -/
theorem natKey_head (i : Nat) : (natKey i).head? = some 36 := by
  unfold natKey
  rw [str_append, str_dollar]; rfl

/-! ### `List.span` -/

theorem span_loop_pos {α} (p : α → Bool) (a r acc : List α) (h : ∀ x ∈ a, p x = true) :
    List.span.loop p (a ++ r) acc = List.span.loop p r (a.reverse ++ acc) := by
  induction a generalizing acc with
  | nil => rfl
  | cons x a ih =>
    rw [List.cons_append, List.span.loop, h x (by simp)]
    simp only
    rw [ih _ (fun y hy => h y (by simp [hy]))]
    simp

theorem span_all {α} (p : α → Bool) (a : List α) (h : ∀ x ∈ a, p x = true) :
    a.span p = (a, []) := by
  have := span_loop_pos p a [] [] h
  rw [List.append_nil] at this
  rw [List.span, this]; simp [List.span.loop]

theorem span_first {α} (p : α → Bool) (a : List α) (b : α) (s : List α)
    (h : ∀ x ∈ a, p x = true) (hb : p b = false) :
    (a ++ b :: s).span p = (a, b :: s) := by
  rw [List.span, span_loop_pos p a (b :: s) [] h, List.span.loop, hb]; simp

/-! ### `SeparateArgs` -/

theorem separateArgs_none (all : List Bytes) (h : dashdash ∉ all) :
    separateArgs all = (all, []) := by
  unfold separateArgs
  rw [span_all (fun x => decide (x ≠ dashdash)) all
    (fun x hx => decide_eq_true (show x ≠ dashdash from fun e => h (e ▸ hx)))]

theorem separateArgs_split (a s : List Bytes) (h : dashdash ∉ a) :
    separateArgs (a ++ dashdash :: s) = (a, s) := by
  unfold separateArgs
  rw [span_first (fun x => decide (x ≠ dashdash)) a dashdash s
    (fun x hx => decide_eq_true (show x ≠ dashdash from fun e => h (e ▸ hx)))
    (decide_eq_false (fun h => h rfl))]

/-! ### `InjectArgs` -/

/-- the positional arguments: those without `=` -/
def positionals (args : List Bytes) : List Bytes := args.filter (fun a => !a.contains eq)

/-- the key under which a named argument (one containing `=`) is stored -/
def namedKey (a : Bytes) : Bytes := (splitEq (trimDash (trimDash a))).1

theorem positionals_named (a : Bytes) (l : List Bytes) (h : a.contains eq = true) :
    positionals (a :: l) = positionals l := by
  unfold positionals
  rw [List.filter_cons_of_neg (by rw [h]; simp)]

theorem positionals_pos (a : Bytes) (l : List Bytes) (h : ¬ a.contains eq = true) :
    positionals (a :: l) = a :: positionals l := by
  unfold positionals
  rw [List.filter_cons_of_pos (by rw [Bool.not_eq_true] at h; rw [h]; simp)]

theorem lookupLast_cons_ne (k : Bytes) (p : Bytes × Bytes) (l : List (Bytes × Bytes))
    (h : p.1 ≠ k) : lookupLast k (p :: l) = lookupLast k l := by
  obtain ⟨k', v⟩ := p
  rw [lookupLast]
  split
  · next w hw => exact hw.symm
  · next hn => rw [if_neg h, hn]

theorem lookupLast_cons_eq (k v : Bytes) (l : List (Bytes × Bytes))
    (h : lookupLast k l = none) : lookupLast k ((k, v) :: l) = some v := by
  rw [lookupLast, h]; simp

theorem lookupLast_none (k : Bytes) (l : List (Bytes × Bytes)) (h : ∀ p ∈ l, p.1 ≠ k) :
    lookupLast k l = none := by
  induction l with
  | nil => rfl
  | cons p l ih =>
    rw [lookupLast_cons_ne k p l (h p (by simp))]
    exact ih (fun q hq => h q (by simp [hq]))

theorem lookupLast_append_none (k : Bytes) (l1 l2 : List (Bytes × Bytes))
    (h : lookupLast k l2 = none) : lookupLast k (l1 ++ l2) = lookupLast k l1 := by
  induction l1 with
  | nil => rw [List.nil_append, h]; rfl
  | cons p l ih =>
    obtain ⟨k', v⟩ := p
    rw [List.cons_append, lookupLast, lookupLast, ih]

theorem lookupLast_append_some (k w : Bytes) (l1 l2 : List (Bytes × Bytes))
    (h : lookupLast k l2 = some w) : lookupLast k (l1 ++ l2) = some w := by
  induction l1 with
  | nil => simpa using h
  | cons p l ih =>
    obtain ⟨k', v⟩ := p
    rw [List.cons_append, lookupLast, ih]

theorem injectSets_named (i : Nat) (a : Bytes) (rest : List Bytes) (h : a.contains eq = true) :
    injectSets i (a :: rest) = splitEq (trimDash (trimDash a)) :: injectSets i rest := by
  rw [injectSets, if_pos h]

theorem injectSets_pos (i : Nat) (a : Bytes) (rest : List Bytes) (h : ¬ a.contains eq = true) :
    injectSets i (a :: rest) = (natKey i, a) :: injectSets (i + 1) rest := by
  rw [injectSets, if_neg h]

theorem injectSets_append (i : Nat) (l1 l2 : List Bytes) :
    injectSets i (l1 ++ l2) = injectSets i l1 ++ injectSets (i + (positionals l1).length) l2 := by
  induction l1 generalizing i with
  | nil => simp [injectSets, positionals]
  | cons a l ih =>
    by_cases h : a.contains eq = true
    · rw [List.cons_append, injectSets_named _ _ _ h, injectSets_named _ _ _ h, ih,
        positionals_named _ _ h]
      rfl
    · rw [List.cons_append, injectSets_pos _ _ _ h, injectSets_pos _ _ _ h, ih,
        positionals_pos _ _ h, List.length_cons, Nat.add_assoc, Nat.add_comm 1]
      rfl

theorem length_injectSets (i : Nat) (l : List Bytes) : (injectSets i l).length = l.length := by
  induction l generalizing i with
  | nil => rfl
  | cons a l ih =>
    by_cases h : a.contains eq = true
    · rw [injectSets_named _ _ _ h]; simp [ih]
    · rw [injectSets_pos _ _ _ h]; simp [ih]

/-- key `$n` after the `SetValue` calls numbered from `j`: found iff `j ≤ n` and there are more
than `n - j` positional arguments -/
theorem lookup_natKey (n : Nat) (args : List Bytes)
    (hcol : ∀ a ∈ args, a.contains eq = true → namedKey a ≠ natKey n) (j : Nat) :
    lookupLast (natKey n) (injectSets j args)
      = if n < j then none else (positionals args)[n - j]? := by
  induction args generalizing j with
  | nil => simp [injectSets, positionals, lookupLast]
  | cons a rest ih =>
    have ih' := ih (fun b hb => hcol b (by simp [hb]))
    by_cases h : a.contains eq = true
    · rw [injectSets_named _ _ _ h, lookupLast_cons_ne _ _ _ (hcol a (by simp) h), ih' j,
        positionals_named _ _ h]
    · rw [injectSets_pos _ _ _ h]
      rw [positionals_pos _ _ h]
      by_cases hnj : n = j
      · subst hnj
        rw [lookupLast_cons_eq _ _ _ (by rw [ih']; simp)]
        simp
      · rw [lookupLast_cons_ne _ _ _ (fun e => hnj (natKey_injective e).symm), ih' (j + 1)]
        by_cases hlt : n < j
        · rw [if_pos hlt, if_pos (by omega)]
        · rw [if_neg hlt, if_neg (by omega)]
          have : n - j = (n - (j + 1)) + 1 := by omega
          rw [this, List.getElem?_cons_succ]

theorem trimDash_cons (c : Byte) (r : Bytes) : trimDash (c :: r) = if c = 45 then r else c :: r := by
  unfold trimDash
  split
  · next h => cases h; simp
  · next h =>
    rw [if_neg]
    intro hc; subst hc; exact h _ rfl

theorem splitEq_key (k v : Bytes) (hk : eq ∉ k) : splitEq (k ++ eq :: v) = (k, v) := by
  unfold splitEq
  rw [span_first (fun x => decide (x ≠ eq)) k eq v
    (fun x hx => decide_eq_true (show x ≠ eq from fun e => hk (e ▸ hx)))
    (decide_eq_false (fun h => h rfl))]

/-- the three spellings `k=v`, `-k=v`, `--k=v` -/
def Dashes (d : Bytes) : Prop := d = [] ∨ d = [45] ∨ d = [45, 45]

instance (d : Bytes) : Decidable (Dashes d) := by unfold Dashes; infer_instance

theorem named_split (d k v : Bytes) (hd : Dashes d) (hk : eq ∉ k) (h45 : k.head? ≠ some 45) :
    splitEq (trimDash (trimDash (d ++ k ++ eq :: v))) = (k, v) := by
  have hnd : trimDash (k ++ eq :: v) = k ++ eq :: v := by
    cases k with
    | nil => rw [List.nil_append, trimDash_cons, if_neg (by decide)]
    | cons c k => rw [List.cons_append, trimDash_cons, if_neg (by simpa using h45)]
  rcases hd with rfl | rfl | rfl
  · rw [List.nil_append, hnd, hnd, splitEq_key k v hk]
  · rw [List.append_assoc, List.singleton_append, trimDash_cons, if_pos rfl, hnd, splitEq_key k v hk]
  · have : [45, 45] ++ k ++ eq :: v = 45 :: 45 :: (k ++ eq :: v) := by simp
    rw [this, trimDash_cons, if_pos rfl, trimDash_cons, if_pos rfl, splitEq_key k v hk]

theorem named_contains (d k v : Bytes) : (d ++ k ++ eq :: v).contains eq = true := by
  simp

end Goat.Args
