/-
Helper lemmas for property C17 (`varutil.ReadArguments`, `argscope.InjectArgs`/`SeparateArgs`).
The model is `Goat/Model/Args.lean` (fixed); nothing here changes a definition of the model.
The property statements themselves are in `Goat/Props/C17.lean`.
-/
import Goat.Model.Args
import Std.Data.String.ToNat

namespace Goat.Args

/-! ### One-step unfoldings of `mainLoop` (one lemma per branch of the Go `switch`) -/
section steps
variable {s : St} {ch : Byte} {rest : Bytes}

theorem step_nl_esc (h : s.esc = true) :
    mainLoop s (nl :: rest) = mainLoop { s with esc := false } rest := by
  rw [mainLoop.eq_2]; simp only [if_pos h, if_true]

theorem step_nl (h : ¬ s.esc = true) :
    mainLoop s (nl :: rest) = .ok s.args false rest := by
  rw [mainLoop.eq_2]; simp only [if_neg h, if_true]

theorem step_blank (h1 : ¬ ch = nl) (h2 : ch = sp ∨ ch = tab) :
    mainLoop s (ch :: rest) = mainLoop { s with esc := false, sep := true } rest := by
  rw [mainLoop.eq_2]; simp only [if_neg h1, if_pos h2]

theorem step_bs (h1 : ¬ ch = nl) (h2 : ¬ (ch = sp ∨ ch = tab)) (h3 : ¬ s.esc = true ∧ ch = bs) :
    mainLoop s (ch :: rest) = mainLoop { s with esc := true } rest := by
  rw [mainLoop.eq_2]; simp only [if_neg h1, if_neg h2, if_pos h3]

theorem step_panic (h1 : ¬ ch = nl) (h2 : ¬ (ch = sp ∨ ch = tab)) (h3 : ¬ (¬ s.esc = true ∧ ch = bs))
    (hc : s.open.cur = none) : mainLoop s (ch :: rest) = .panic := by
  rw [mainLoop.eq_2]; simp only [if_neg h1, if_neg h2, if_neg h3, hc]

theorem step_dq {c : Bytes} (h1 : ¬ ch = nl) (h2 : ¬ (ch = sp ∨ ch = tab)) (h3 : ¬ (¬ s.esc = true ∧ ch = bs))
    (hc : s.open.cur = some c) (h4 : ¬ s.open.esc = true ∧ ch = dq) :
    mainLoop s (ch :: rest) = quoteLoop s.open.done c false rest := by
  rw [mainLoop.eq_2]; simp only [if_neg h1, if_neg h2, if_neg h3, hc, if_pos h4]

theorem step_push {c : Bytes} (h1 : ¬ ch = nl) (h2 : ¬ (ch = sp ∨ ch = tab)) (h3 : ¬ (¬ s.esc = true ∧ ch = bs))
    (hc : s.open.cur = some c) (h4 : ¬ (¬ s.open.esc = true ∧ ch = dq))
    (h5 : ¬ (¬ s.open.esc = true ∧ ch = lt ∧ endsWith c [eq, lt] = true)) :
    mainLoop s (ch :: rest) =
      mainLoop { done := s.open.done, cur := some (c ++ [ch]), esc := false, sep := false } rest := by
  rw [mainLoop.eq_2]; simp only [if_neg h1, if_neg h2, if_neg h3, hc, if_neg h4, if_neg h5]

theorem step_hd_tagerr {c : Bytes} {e : Bool} (h1 : ¬ ch = nl) (h2 : ¬ (ch = sp ∨ ch = tab))
    (h3 : ¬ (¬ s.esc = true ∧ ch = bs))
    (hc : s.open.cur = some c) (h4 : ¬ (¬ s.open.esc = true ∧ ch = dq))
    (h5 : ¬ s.open.esc = true ∧ ch = lt ∧ endsWith c [eq, lt] = true)
    (ht : tagLine [] rest = .error e) :
    mainLoop s (ch :: rest) = .err e [] := by
  rw [mainLoop.eq_2]; simp only [if_neg h1, if_neg h2, if_neg h3, hc, if_neg h4, if_pos h5]
  split
  · next e' h => rw [ht] at h; cases h; rfl
  · next h => rw [ht] at h; cases h

theorem step_hd_notag {c rest1 : Bytes} (h1 : ¬ ch = nl) (h2 : ¬ (ch = sp ∨ ch = tab))
    (h3 : ¬ (¬ s.esc = true ∧ ch = bs))
    (hc : s.open.cur = some c) (h4 : ¬ (¬ s.open.esc = true ∧ ch = dq))
    (h5 : ¬ s.open.esc = true ∧ ch = lt ∧ endsWith c [eq, lt] = true)
    (ht : tagLine [] rest = .ok ([], rest1)) :
    mainLoop s (ch :: rest) = .err false rest1 := by
  rw [mainLoop.eq_2]; simp only [if_neg h1, if_neg h2, if_neg h3, hc, if_neg h4, if_pos h5]
  split
  · next e' h => rw [ht] at h; cases h
  · next h => rw [ht] at h; cases h; simp

theorem step_hd_nobody {c tag rest1 : Bytes} (h1 : ¬ ch = nl) (h2 : ¬ (ch = sp ∨ ch = tab))
    (h3 : ¬ (¬ s.esc = true ∧ ch = bs))
    (hc : s.open.cur = some c) (h4 : ¬ (¬ s.open.esc = true ∧ ch = dq))
    (h5 : ¬ s.open.esc = true ∧ ch = lt ∧ endsWith c [eq, lt] = true)
    (ht : tagLine [] rest = .ok (tag, rest1)) (hne : ¬ tag = [])
    (hb : bodyLoop (nl :: tag) [] rest1 = none) :
    mainLoop s (ch :: rest) = .err true [] := by
  rw [mainLoop.eq_2]; simp only [if_neg h1, if_neg h2, if_neg h3, hc, if_neg h4, if_pos h5]
  split
  · next e' h => rw [ht] at h; cases h
  · next h =>
    rw [ht] at h; cases h; simp only [if_neg hne]
    split
    · rfl
    · next h' => rw [hb] at h'; cases h'

theorem step_hd {c tag rest1 value rest2 : Bytes} (h1 : ¬ ch = nl) (h2 : ¬ (ch = sp ∨ ch = tab))
    (h3 : ¬ (¬ s.esc = true ∧ ch = bs))
    (hc : s.open.cur = some c) (h4 : ¬ (¬ s.open.esc = true ∧ ch = dq))
    (h5 : ¬ s.open.esc = true ∧ ch = lt ∧ endsWith c [eq, lt] = true)
    (ht : tagLine [] rest = .ok (tag, rest1)) (hne : ¬ tag = [])
    (hb : bodyLoop (nl :: tag) [] rest1 = some (value, rest2)) :
    mainLoop s (ch :: rest) =
      mainLoop { done := s.open.done, cur := some (c.take (c.length - 1) ++ trimBlank value),
                 esc := s.open.esc, sep := s.open.sep } rest2 := by
  rw [mainLoop.eq_2]; simp only [if_neg h1, if_neg h2, if_neg h3, hc, if_neg h4, if_pos h5]
  split
  · next e' h => rw [ht] at h; cases h
  · next h =>
    rw [ht] at h; cases h; simp only [if_neg hne]
    split
    · next h' => rw [hb] at h'; cases h'
    · next h' => rw [hb] at h'; cases h'; rfl

end steps

end Goat.Args
