/-
Helper lemmas for property C17 (`varutil.ReadArguments`, `argscope.InjectArgs`/`SeparateArgs`).
The model is `Goat/Model/Args.lean` (fixed); nothing here changes a definition of the model.
The property statements themselves are in `Goat/Props/C17.lean`.
-/
import Goat.Model.Args
import Std.Data.String.ToNat

namespace Goat.Args

/-! ### One-step unfoldings of `mainLoop` (one lemma per branch of the Go `switch`) -/
section steps
variable {s : St} {ch : Byte} {rest : Bytes}

theorem step_nl_esc (h : s.esc = true) :
    mainLoop s (nl :: rest) = mainLoop { s with esc := false } rest := by
  rw [mainLoop.eq_2]; simp only [if_pos h, if_true]

theorem step_nl (h : ¬ s.esc = true) :
    mainLoop s (nl :: rest) = .ok s.args false rest := by
  rw [mainLoop.eq_2]; simp only [if_neg h, if_true]

theorem step_blank (h1 : ¬ ch = nl) (h2 : ch = sp ∨ ch = tab) :
    mainLoop s (ch :: rest) = mainLoop { s with esc := false, sep := true } rest := by
  rw [mainLoop.eq_2]; simp only [if_neg h1, if_pos h2]

theorem step_bs (h1 : ¬ ch = nl) (h2 : ¬ (ch = sp ∨ ch = tab)) (h3 : ¬ s.esc = true ∧ ch = bs) :
    mainLoop s (ch :: rest) = mainLoop { s with esc := true } rest := by
  rw [mainLoop.eq_2]; simp only [if_neg h1, if_neg h2, if_pos h3]

theorem step_panic (h1 : ¬ ch = nl) (h2 : ¬ (ch = sp ∨ ch = tab)) (h3 : ¬ (¬ s.esc = true ∧ ch = bs))
    (hc : s.open.cur = none) : mainLoop s (ch :: rest) = .panic := by
  rw [mainLoop.eq_2]; simp only [if_neg h1, if_neg h2, if_neg h3, hc]

theorem step_dq {c : Bytes} (h1 : ¬ ch = nl) (h2 : ¬ (ch = sp ∨ ch = tab)) (h3 : ¬ (¬ s.esc = true ∧ ch = bs))
    (hc : s.open.cur = some c) (h4 : ¬ s.open.esc = true ∧ ch = dq) :
    mainLoop s (ch :: rest) = quoteLoop s.open.done c false rest := by
  rw [mainLoop.eq_2]; simp only [if_neg h1, if_neg h2, if_neg h3, hc, if_pos h4]

theorem step_push {c : Bytes} (h1 : ¬ ch = nl) (h2 : ¬ (ch = sp ∨ ch = tab)) (h3 : ¬ (¬ s.esc = true ∧ ch = bs))
    (hc : s.open.cur = some c) (h4 : ¬ (¬ s.open.esc = true ∧ ch = dq))
    (h5 : ¬ (¬ s.open.esc = true ∧ ch = lt ∧ endsWith c [eq, lt] = true)) :
    mainLoop s (ch :: rest) =
      mainLoop { done := s.open.done, cur := some (c ++ [ch]), esc := false, sep := false } rest := by
  rw [mainLoop.eq_2]; simp only [if_neg h1, if_neg h2, if_neg h3, hc, if_neg h4, if_neg h5]

theorem step_hd_tagerr {c : Bytes} {e : Bool} (h1 : ¬ ch = nl) (h2 : ¬ (ch = sp ∨ ch = tab))
    (h3 : ¬ (¬ s.esc = true ∧ ch = bs))
    (hc : s.open.cur = some c) (h4 : ¬ (¬ s.open.esc = true ∧ ch = dq))
    (h5 : ¬ s.open.esc = true ∧ ch = lt ∧ endsWith c [eq, lt] = true)
    (ht : tagLine [] rest = .error e) :
    mainLoop s (ch :: rest) = .err e [] := by
  rw [mainLoop.eq_2]; simp only [if_neg h1, if_neg h2, if_neg h3, hc, if_neg h4, if_pos h5]
  split
  · next e' h => rw [ht] at h; cases h; rfl
  · next h => rw [ht] at h; cases h

theorem step_hd_notag {c rest1 : Bytes} (h1 : ¬ ch = nl) (h2 : ¬ (ch = sp ∨ ch = tab))
    (h3 : ¬ (¬ s.esc = true ∧ ch = bs))
    (hc : s.open.cur = some c) (h4 : ¬ (¬ s.open.esc = true ∧ ch = dq))
    (h5 : ¬ s.open.esc = true ∧ ch = lt ∧ endsWith c [eq, lt] = true)
    (ht : tagLine [] rest = .ok ([], rest1)) :
    mainLoop s (ch :: rest) = .err false rest1 := by
  rw [mainLoop.eq_2]; simp only [if_neg h1, if_neg h2, if_neg h3, hc, if_neg h4, if_pos h5]
  split
  · next e' h => rw [ht] at h; cases h
  · next h => rw [ht] at h; cases h; simp

theorem step_hd_nobody {c tag rest1 : Bytes} (h1 : ¬ ch = nl) (h2 : ¬ (ch = sp ∨ ch = tab))
    (h3 : ¬ (¬ s.esc = true ∧ ch = bs))
    (hc : s.open.cur = some c) (h4 : ¬ (¬ s.open.esc = true ∧ ch = dq))
    (h5 : ¬ s.open.esc = true ∧ ch = lt ∧ endsWith c [eq, lt] = true)
    (ht : tagLine [] rest = .ok (tag, rest1)) (hne : ¬ tag = [])
    (hb : bodyLoop (nl :: tag) [] rest1 = none) :
    mainLoop s (ch :: rest) = .err true [] := by
  rw [mainLoop.eq_2]; simp only [if_neg h1, if_neg h2, if_neg h3, hc, if_neg h4, if_pos h5]
  split
  · next e' h => rw [ht] at h; cases h
  · next h =>
    rw [ht] at h; cases h; simp only [if_neg hne]
    split
    · rfl
    · next h' => rw [hb] at h'; cases h'

theorem step_hd {c tag rest1 value rest2 : Bytes} (h1 : ¬ ch = nl) (h2 : ¬ (ch = sp ∨ ch = tab))
    (h3 : ¬ (¬ s.esc = true ∧ ch = bs))
    (hc : s.open.cur = some c) (h4 : ¬ (¬ s.open.esc = true ∧ ch = dq))
    (h5 : ¬ s.open.esc = true ∧ ch = lt ∧ endsWith c [eq, lt] = true)
    (ht : tagLine [] rest = .ok (tag, rest1)) (hne : ¬ tag = [])
    (hb : bodyLoop (nl :: tag) [] rest1 = some (value, rest2)) :
    mainLoop s (ch :: rest) =
      mainLoop { done := s.open.done, cur := some (c.take (c.length - 1) ++ trimBlank value),
                 esc := s.open.esc, sep := s.open.sep } rest2 := by
  rw [mainLoop.eq_2]; simp only [if_neg h1, if_neg h2, if_neg h3, hc, if_neg h4, if_pos h5]
  split
  · next e' h => rw [ht] at h; cases h
  · next h =>
    rw [ht] at h; cases h; simp only [if_neg hne]
    split
    · next h' => rw [hb] at h'; cases h'
    · next h' => rw [hb] at h'; cases h'; rfl

end steps


/-! ### No panic -/

/-- the invariant that keeps `args[len(args)-1]` in range -/
def Good (s : St) : Prop := s.sep = false → s.cur ≠ none

theorem good_open_cur {s : St} (h : Good s) : s.open.cur ≠ none := by
  unfold St.open
  split
  · simp
  · next hs => exact h (by simpa using hs)

theorem open_sep (s : St) : s.open.sep = s.sep := by
  unfold St.open; split <;> rfl

theorem open_esc (s : St) : s.open.esc = s.esc := by
  unfold St.open; split <;> rfl

theorem no_panic_aux :
    (∀ (s : St) (inp : Bytes), Good s → mainLoop s inp ≠ .panic) := by
  intro s inp
  apply mainLoop.induct (motive1 := fun s inp => Good s → mainLoop s inp ≠ .panic)
    (motive2 := fun done c esc inp => quoteLoop done c esc inp ≠ .panic)
  case case1 => intro s _; rw [mainLoop.eq_1]; exact Outcome.noConfusion
  case case2 => intro s rest h ih g; rw [step_nl_esc h]; exact ih g
  case case3 => intro s rest h g; rw [step_nl h]; exact Outcome.noConfusion
  case case4 => intro s ch rest h1 h2 ih g; rw [step_blank h1 h2]; exact ih (fun h => by cases h)
  case case5 => intro s ch rest h1 h2 h3 ih g; rw [step_bs h1 h2 h3]; exact ih g
  case case6 => intro s ch rest h1 h2 h3 s' hc g; exact absurd hc (good_open_cur g)
  case case7 => intro s ch rest h1 h2 h3 s' c hc h4 ih g; rw [step_dq h1 h2 h3 hc h4]; exact ih
  case case8 =>
    intro s ch rest h1 h2 h3 s' c hc h4 h5 e ht g
    rw [step_hd_tagerr h1 h2 h3 hc h4 h5 ht]; exact Outcome.noConfusion
  case case9 =>
    intro s ch rest h1 h2 h3 s' c hc h4 h5 r1 ht g
    rw [step_hd_notag h1 h2 h3 hc h4 h5 ht]; exact Outcome.noConfusion
  case case10 =>
    intro s ch rest h1 h2 h3 s' c hc h4 h5 tag r1 ht hne hb g
    rw [step_hd_nobody h1 h2 h3 hc h4 h5 ht hne hb]; exact Outcome.noConfusion
  case case11 =>
    intro s ch rest h1 h2 h3 s' c hc h4 h5 tag r1 ht hne v r2 hb ih g
    rw [step_hd h1 h2 h3 hc h4 h5 ht hne hb]; exact ih (fun _ => by simp)
  case case12 =>
    intro s ch rest h1 h2 h3 s' c hc h4 h5 ih g
    rw [step_push h1 h2 h3 hc h4 h5]; exact ih (fun _ => by simp)
  case case13 => intro d c e; rw [quoteLoop.eq_1]; exact Outcome.noConfusion
  case case14 =>
    intro d c e ch rest h ih; rw [quoteLoop.eq_2, if_pos h]; exact ih (fun _ => by simp)
  case case15 =>
    intro d c e rest h ih; rw [quoteLoop.eq_2, if_neg h, if_pos rfl]; exact ih
  case case16 =>
    intro d c e ch rest h hb ih; rw [quoteLoop.eq_2, if_neg h, if_neg hb]; exact ih


/-! ### Reading stops at the newline -/

/-- what a result says about the unread remainder, relative to the input `inp` -/
def Stops (inp : Bytes) : Outcome → Prop
  | .ok _ false r => nl :: r <:+ inp
  | .ok _ true r => r = []
  | _ => True

theorem Stops.mono {a b : Bytes} {o : Outcome} (h : Stops a o) (hab : a <:+ b) : Stops b o := by
  cases o with
  | ok args eof r =>
    cases eof with
    | false => exact List.IsSuffix.trans h hab
    | true => exact h
  | err _ _ => trivial
  | panic => trivial

theorem tagLine_suffix : ∀ (tag inp : Bytes) {t r}, tagLine tag inp = .ok (t, r) → r <:+ inp := by
  intro tag inp
  induction inp generalizing tag with
  | nil => intro t r h; simp [tagLine] at h
  | cons ch rest ih =>
    intro t r h
    unfold tagLine at h
    split at h
    · cases h; exact List.suffix_cons _ _
    · split at h
      · exact (ih _ h).trans (List.suffix_cons _ _)
      · split at h
        · cases h
        · exact (ih _ h).trans (List.suffix_cons _ _)

theorem bodyLoop_suffix (marker : Bytes) :
    ∀ (v inp : Bytes) {x r}, bodyLoop marker v inp = some (x, r) → r <:+ inp := by
  intro v inp
  induction inp generalizing v with
  | nil => intro x r h; simp [bodyLoop] at h
  | cons ch rest ih =>
    intro x r h
    unfold bodyLoop at h
    simp only at h
    split at h
    · cases h; exact List.suffix_cons _ _
    · exact (ih _ h).trans (List.suffix_cons _ _)

theorem stops_aux (s : St) (inp : Bytes) : Stops inp (mainLoop s inp) := by
  apply mainLoop.induct (motive1 := fun s inp => Stops inp (mainLoop s inp))
    (motive2 := fun done c esc inp => Stops inp (quoteLoop done c esc inp))
  case case1 => intro s; rw [mainLoop.eq_1]; rfl
  case case2 => intro s rest h ih; rw [step_nl_esc h]; exact ih.mono (List.suffix_cons _ _)
  case case3 => intro s rest h; rw [step_nl h]; exact List.suffix_refl _
  case case4 => intro s ch rest h1 h2 ih; rw [step_blank h1 h2]; exact ih.mono (List.suffix_cons _ _)
  case case5 => intro s ch rest h1 h2 h3 ih; rw [step_bs h1 h2 h3]; exact ih.mono (List.suffix_cons _ _)
  case case6 => intro s ch rest h1 h2 h3 s' hc; rw [step_panic h1 h2 h3 hc]; trivial
  case case7 =>
    intro s ch rest h1 h2 h3 s' c hc h4 ih; rw [step_dq h1 h2 h3 hc h4]
    exact ih.mono (List.suffix_cons _ _)
  case case8 =>
    intro s ch rest h1 h2 h3 s' c hc h4 h5 e ht
    rw [step_hd_tagerr h1 h2 h3 hc h4 h5 ht]; trivial
  case case9 =>
    intro s ch rest h1 h2 h3 s' c hc h4 h5 r1 ht
    rw [step_hd_notag h1 h2 h3 hc h4 h5 ht]; trivial
  case case10 =>
    intro s ch rest h1 h2 h3 s' c hc h4 h5 tag r1 ht hne hb
    rw [step_hd_nobody h1 h2 h3 hc h4 h5 ht hne hb]; trivial
  case case11 =>
    intro s ch rest h1 h2 h3 s' c hc h4 h5 tag r1 ht hne v r2 hb ih
    rw [step_hd h1 h2 h3 hc h4 h5 ht hne hb]
    exact ih.mono (((bodyLoop_suffix _ _ _ hb).trans (tagLine_suffix _ _ ht)).trans
      (List.suffix_cons _ _))
  case case12 =>
    intro s ch rest h1 h2 h3 s' c hc h4 h5 ih
    rw [step_push h1 h2 h3 hc h4 h5]; exact ih.mono (List.suffix_cons _ _)
  case case13 => intro d c e; rw [quoteLoop.eq_1]; trivial
  case case14 =>
    intro d c e ch rest h ih; rw [quoteLoop.eq_2, if_pos h]; exact ih.mono (List.suffix_cons _ _)
  case case15 =>
    intro d c e rest h ih; rw [quoteLoop.eq_2, if_neg h, if_pos rfl]
    exact ih.mono (List.suffix_cons _ _)
  case case16 =>
    intro d c e ch rest h hb ih; rw [quoteLoop.eq_2, if_neg h, if_neg hb]
    exact ih.mono (List.suffix_cons _ _)


/-! ### `endsWith` is `<:+` -/

theorem endsWith_iff (l suf : Bytes) : endsWith l suf = true ↔ suf <:+ l := by
  unfold endsWith
  rw [beq_iff_eq, ← List.reverse_prefix, List.prefix_iff_eq_take, List.length_reverse]
  exact eq_comm

/-! ### Plain words -/

/-- a byte the splitter copies without looking at it twice (apart from the `=<<` check) -/
def PlainByte (b : Byte) : Prop := b ≠ sp ∧ b ≠ tab ∧ b ≠ nl ∧ b ≠ dq ∧ b ≠ bs

instance (b : Byte) : Decidable (PlainByte b) := by unfold PlainByte; infer_instance

/-- bytes that keep the splitter out of all its special branches: no blank, newline, quote or
backslash, and the heredoc opener `=<<` does not occur -/
def PlainBytes (w : Bytes) : Prop := (∀ b ∈ w, PlainByte b) ∧ ¬ [eq, lt, lt] <:+: w

instance (w : Bytes) : Decidable (PlainBytes w) := by unfold PlainBytes; infer_instance

/-- a non-empty run of plain bytes -/
def PlainWord (w : Bytes) : Prop := w ≠ [] ∧ PlainBytes w

instance (w : Bytes) : Decidable (PlainWord w) := by unfold PlainWord; infer_instance

theorem open_unsep (done : List Bytes) (c : Option Bytes) (e : Bool) :
    St.open ⟨done, c, e, false⟩ = ⟨done, c, e, false⟩ := by
  simp [St.open]

theorem open_sep' (done : List Bytes) (c : Option Bytes) (e : Bool) :
    St.open ⟨done, c, e, true⟩ = ⟨St.args ⟨done, c, e, true⟩, some [], e, true⟩ := by
  simp [St.open]

/-- inside an argument, plain bytes are appended one by one -/
theorem plain_run (done : List Bytes) (c w tail : Bytes) (hw : ∀ b ∈ w, PlainByte b)
    (hi : ¬ [eq, lt, lt] <:+: c ++ w) :
    mainLoop ⟨done, some c, false, false⟩ (w ++ tail)
      = mainLoop ⟨done, some (c ++ w), false, false⟩ tail := by
  induction w generalizing c with
  | nil => simp
  | cons b w ih =>
    obtain ⟨h1, h2, h3, h4, h5⟩ := hw b (by simp)
    rw [List.cons_append,
      step_push (s := ⟨done, some c, false, false⟩) (c := c) h3 (by simp [h1, h2]) (by simp [h5])
        (by rw [open_unsep]) (by simp [h4])]
    · rw [open_unsep]
      have := ih (c ++ [b]) (fun x hx => hw x (by simp [hx])) (by simpa using hi)
      simpa using this
    · rintro ⟨-, hb, he⟩
      subst hb
      obtain ⟨p, hp⟩ := (endsWith_iff _ _).1 he
      apply hi
      refine ⟨p, w, ?_⟩
      rw [← hp]; simp

/-- the first plain byte after a separator opens a new argument -/
theorem plain_open (done : List Bytes) (cur : Option Bytes) (b : Byte) (rest : Bytes)
    (hb : PlainByte b) :
    mainLoop ⟨done, cur, false, true⟩ (b :: rest)
      = mainLoop ⟨St.args ⟨done, cur, false, true⟩, some [b], false, false⟩ rest := by
  obtain ⟨h1, h2, h3, h4, h5⟩ := hb
  rw [step_push (s := ⟨done, cur, false, true⟩) (c := []) h3 (by simp [h1, h2]) (by simp [h5])
        (by rw [open_sep']) (by simp [h4]) (by simp [endsWith])]
  rw [open_sep']; rfl

/-- a plain word after a separator becomes exactly one new argument -/
theorem word_sep (done : List Bytes) (cur : Option Bytes) (w tail : Bytes) (hw : PlainWord w) :
    mainLoop ⟨done, cur, false, true⟩ (w ++ tail)
      = mainLoop ⟨St.args ⟨done, cur, false, true⟩, some w, false, false⟩ tail := by
  obtain ⟨hne, hp, hi⟩ := hw
  cases w with
  | nil => exact absurd rfl hne
  | cons b w =>
    rw [List.cons_append, plain_open _ _ _ _ (hp b (by simp)),
      plain_run _ [b] w tail (fun x hx => hp x (by simp [hx])) (by simpa using hi)]
    rfl

/-- reading blank-separated plain words from a separated state: the state reached has exactly
the words appended to the arguments -/
theorem words_aux (ws : List Bytes) (hws : ∀ w ∈ ws, PlainWord w) :
    ∀ (done : List Bytes) (cur : Option Bytes) (tail : Bytes),
    ∃ s' : St, s'.esc = false ∧ s'.args = St.args ⟨done, cur, false, true⟩ ++ ws ∧
      mainLoop ⟨done, cur, false, true⟩ (List.intercalate [sp] ws ++ tail) = mainLoop s' tail := by
  induction ws with
  | nil => intro done cur tail; exact ⟨⟨done, cur, false, true⟩, rfl, by simp, by simp⟩
  | cons a more ih =>
    intro done cur tail
    have ha := hws a (by simp)
    cases more with
    | nil =>
      refine ⟨⟨St.args ⟨done, cur, false, true⟩, some a, false, false⟩, rfl, rfl, ?_⟩
      rw [List.intercalate_singleton, word_sep _ _ _ _ ha]
    | cons b more' =>
      obtain ⟨s', h1, h2, h3⟩ := ih (fun w hw => hws w (by simp [hw]))
        (St.args ⟨done, cur, false, true⟩) (some a) tail
      refine ⟨s', h1, ?_, ?_⟩
      · rw [h2]; simp [St.args]
      · rw [List.intercalate_cons_cons, List.append_assoc, List.append_assoc, word_sep _ _ _ _ ha,
          List.singleton_append, step_blank (by decide) (Or.inl rfl)]
        exact h3

theorem words_main (ws : List Bytes) (hws : ∀ w ∈ ws, PlainWord w) (rest : Bytes) :
    readArgs (List.intercalate [sp] ws ++ nl :: rest) = .ok ws false rest := by
  obtain ⟨s', h1, h2, h3⟩ := words_aux ws hws [] none (nl :: rest)
  rw [readArgs, h3, step_nl (by simp [h1]), h2]; rfl

theorem words_eof_main (ws : List Bytes) (hws : ∀ w ∈ ws, PlainWord w) :
    readArgs (List.intercalate [sp] ws) = .ok ws true [] := by
  obtain ⟨s', h1, h2, h3⟩ := words_aux ws hws [] none []
  rw [List.append_nil] at h3
  rw [readArgs, h3, mainLoop.eq_1, h2]; rfl


/-! ### Quoted arguments -/

/-- reference quoting of one byte inside an open quote -/
def escByte (b : Byte) : Bytes :=
  if b = dq then [bs, dq]
  else if b = bs then [dq, bs, bs, dq]      -- close the quote, emit `\\` outside, reopen
  else [b]

def renderBody (a : Bytes) : Bytes := a.flatMap escByte

/-- `"` body `"` -/
def render (a : Bytes) : Bytes := dq :: renderBody a ++ [dq]

/-- all arguments: `render a₁ ␠ render a₂ ␠ …` -/
def renderLine : List Bytes → Bytes
  | [] => []
  | [a] => render a
  | a :: b :: more => render a ++ sp :: renderLine (b :: more)

theorem quote_dq (done : List Bytes) (c rest : Bytes) :
    quoteLoop done c false (dq :: rest) = mainLoop ⟨done, some c, false, false⟩ rest := by
  rw [quoteLoop.eq_2, if_pos ⟨by simp, rfl⟩]

theorem quote_bs (done : List Bytes) (c : Bytes) (e : Bool) (rest : Bytes) :
    quoteLoop done c e (bs :: rest) = quoteLoop done c true rest := by
  rw [quoteLoop.eq_2, if_neg (by simp; intro; decide), if_pos rfl]

theorem quote_esc (done : List Bytes) (c : Bytes) (ch : Byte) (rest : Bytes) (h : ch ≠ bs) :
    quoteLoop done c true (ch :: rest) = quoteLoop done (c ++ [ch]) false rest := by
  rw [quoteLoop.eq_2, if_neg (by simp), if_neg h]

theorem quote_other (done : List Bytes) (c : Bytes) (ch : Byte) (rest : Bytes)
    (h1 : ch ≠ dq) (h2 : ch ≠ bs) :
    quoteLoop done c false (ch :: rest) = quoteLoop done (c ++ [ch]) false rest := by
  rw [quoteLoop.eq_2, if_neg (by simp [h1]), if_neg h2]

/-- `\\"` read inside an argument (outside quotes) appends a backslash and reopens the quote -/
theorem bsbsdq (done : List Bytes) (c rest : Bytes) :
    mainLoop ⟨done, some c, false, false⟩ (bs :: bs :: dq :: rest)
      = quoteLoop done (c ++ [bs]) false rest := by
  rw [step_bs (by decide) (by decide) ⟨by simp, rfl⟩]
  rw [step_push (c := c) (by decide) (by decide) (by simp) (by rw [open_unsep])
        (by rw [open_unsep]; simp) (by rw [open_unsep]; simp)]
  rw [open_unsep]
  rw [step_dq (c := c ++ [bs]) (by decide) (by decide) (by simp; decide) (by rw [open_unsep])
        (by rw [open_unsep]; simp)]
  rw [open_unsep]

/-- inside a quote: consuming the rendered body and the closing quote appends exactly `a` -/
theorem quote_body (done : List Bytes) (c a tail : Bytes) :
    quoteLoop done c false (renderBody a ++ dq :: tail)
      = mainLoop ⟨done, some (c ++ a), false, false⟩ tail := by
  induction a generalizing c with
  | nil => simp [renderBody, quote_dq]
  | cons b a ih =>
    have hcons : renderBody (b :: a) = escByte b ++ renderBody a := by simp [renderBody]
    have hc : c ++ b :: a = c ++ [b] ++ a := by simp
    rw [hcons, hc, ← ih (c ++ [b])]
    by_cases hq : b = dq
    · subst hq
      have : escByte dq = [bs, dq] := by decide
      rw [this]
      simp only [List.cons_append, List.nil_append]
      rw [quote_bs, quote_esc _ _ _ _ (by decide)]
    · by_cases hb : b = bs
      · subst hb
        have : escByte bs = [dq, bs, bs, dq] := by decide
        rw [this]
        simp only [List.cons_append, List.nil_append]
        rw [quote_dq, bsbsdq]
      · have : escByte b = [b] := by simp [escByte, hq, hb]
        rw [this]
        simp only [List.cons_append, List.nil_append]
        rw [quote_other _ _ _ _ hq hb]

/-- one rendered argument, read from a separated state, becomes exactly one new argument -/
theorem one_arg (done : List Bytes) (cur : Option Bytes) (a tail : Bytes) :
    mainLoop ⟨done, cur, false, true⟩ (render a ++ tail)
      = mainLoop ⟨St.args ⟨done, cur, false, true⟩, some a, false, false⟩ tail := by
  simp only [render, List.cons_append, List.append_assoc]
  rw [step_dq (c := []) (by decide) (by decide) (by simp; decide) (by rw [open_sep'])
        (by rw [open_sep']; simp)]
  rw [open_sep', quote_body]
  simp

theorem quoted_aux (done : List Bytes) (cur : Option Bytes) (args : List Bytes) (rest : Bytes) :
    mainLoop ⟨done, cur, false, true⟩ (renderLine args ++ nl :: rest)
      = .ok (St.args ⟨done, cur, false, true⟩ ++ args) false rest := by
  induction args generalizing done cur with
  | nil => simp [renderLine, step_nl]
  | cons a more ih =>
    cases more with
    | nil =>
      simp only [renderLine]
      rw [one_arg, step_nl (by simp)]; rfl
    | cons b more' =>
      simp only [renderLine, List.append_assoc, List.cons_append]
      rw [one_arg, step_blank (by decide) (Or.inl rfl), ih]
      simp [St.args]

theorem quoted_main (args : List Bytes) (rest : Bytes) :
    readArgs (renderLine args ++ nl :: rest) = .ok args false rest := by
  have := quoted_aux [] none args rest
  simpa [readArgs, St.args] using this

/-! ### Line continuation -/

theorem continuation_main (s : St) (rest : Bytes) (h : s.esc = false) :
    mainLoop s (bs :: nl :: rest) = mainLoop s rest := by
  rw [step_bs (by decide) (by decide) ⟨by simp [h], rfl⟩, step_nl_esc rfl]
  cases s; simp_all

end Goat.Args
