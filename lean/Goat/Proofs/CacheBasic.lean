/-
Helper lemmas about the cache model (`Goat/Model/Cache.lean`): what each method leaves alone.
-/
import Goat.Model.Cache

namespace Goat
namespace Cache

open FS (Op Result)
open MemFS

theorem copier_remote (s : State) (inB : Bool) (src dest : Bytes) :
    (copier s inB src dest).1.remote = s.remote := rfl

theorem copy_remote (s : State) (a b : Bytes) : (copy s a b).1.remote = s.remote := by
  unfold copy
  simp only []
  split
  · rfl
  · rfl

theorem stepCache_remote (s : State) (op : Op) : (stepCache s op).1.remote = s.remote := by
  cases op <;> simp only [stepCache]
  case copy a b => exact copy_remote s a b
  case copyDirectory a b =>
    unfold copyDirectory
    simp only []
    split
    · rfl
    · rw [copy_remote]
  case copyFile a b =>
    unfold copyFile
    simp only []
    split
    · rfl
    · rw [copy_remote]
  case mkdirAll p => simp [mkdirAll]
  case writeFile p d => simp [writeFile]
  case writer p c => simp [writer]
  case remove p => simp [remove]
  case removeAll p => simp [removeAll]

theorem step_remote (h : Handle) (s : State) (op : Op) : (step h s op).1.remote = s.remote := by
  cases h with
  | cache => exact stepCache_remote s op
  | sub base =>
    simp only [step]
    split
    · exact stepCache_remote s _
    · rfl

theorem run_remote (s : State) (ops : List (Handle × Op)) : (run s ops).remote = s.remote := by
  induction ops generalizing s with
  | nil => rfl
  | cons x rest ih =>
    obtain ⟨h, op⟩ := x
    simp only [run]
    rw [ih, step_remote]

end Cache
end Goat
