/-
Histories of the class of `commit_equiv_partial`: view invariant and journal invariant along the history, then
Commit (any order, any failure position, any number of retries).
-/
import Goat.Proofs.CacheCommit

namespace Goat
namespace Cache

open Path (Name norm join slash Reduced Plain cleanPath reduceAbsPath)
open FS (Op Result Entry Mut)
open MemFS MemAbs

theorem writeClass_rywClass (x : Handle × Op) (h : writeClass x = true) : rywClass x = true := by
  obtain ⟨hd, op⟩ := x
  cases op <;> simp_all [rywClass, writeClass]

theorem bufferOnlyAt_writeClass (r : Node) (h : Handle) (op : Op) (hc : writeClass (h, op) = true) :
    bufferOnlyAt r h op = true := by
  cases op <;> simp [writeClass] at hc
  case copyFile a b =>
    cases h with
    | cache => rfl
    | sub base =>
      simp only [bufferOnlyAt, cacheOp, subOp]
      cases reduceAbsPath a <;> cases reduceAbsPath b <;> rfl
  all_goals (cases h <;> simp [bufferOnlyAt, cacheOp, subOp] <;> (try split) <;> simp_all)

theorem cacheOp_writeFile {h : Handle} {b : List Name}
    (hs : h = .cache ∧ b = [] ∨ ∃ base0, h = .sub (base0 ++ [slash]) ∧ norm (base0 ++ [slash]) = some b)
    (raw data : Bytes) (p : List Name) (hn : norm raw = some p) :
    cacheOp h (.writeFile raw data) = some (.writeFile (cachePath h p raw) data) := by
  rcases hs with ⟨rfl, rfl⟩ | ⟨base0, rfl, hb⟩
  · rfl
  · simp [cacheOp, subOp, reduceAbsPath_of_norm hn, cachePath]

/-- ONE CALL of the class: view and journal invariants are kept, the call succeeds -/
theorem cinv_step {s : State} {D : Node} (V : VInv s D) (J : JInv s) (h : Handle) (op : Op)
    (hc : writeClass (h, op) = true) (hdir : (directStep D h op).2 = .ok) :
    (step h s op).2 = .ok ∧ VInv (step h s op).1 (directStep D h op).1 ∧ JInv (step h s op).1 := by
  have hv := vinv_step V h op (writeClass_rywClass _ hc) hdir (bufferOnlyAt_writeClass _ h op hc)
  refine ⟨hv.1, hv.2, ?_⟩
  have hok : h.ok = true := by
    cases op <;> simp [writeClass] at hc <;> first | exact hc | exact hc.1
  obtain ⟨b, ref, hbase, hsr, hvw, hshape⟩ := handle_ok hok
  have hD' := direct_inv hok D V.hd op
  have hstep := (step_refines ref b hvw D V.hd op).1
  simp only [directStep, hsr] at hdir hD'
  cases op with
  | writeFile raw data =>
    simp only [FS.Step] at hstep
    cases hn : norm raw with
    | none => rw [hn] at hstep; rw [hstep.1] at hdir; cases hdir
    | some p =>
      rw [hn] at hstep
      obtain ⟨hpre, hpost⟩ := mut_ok hstep hdir
      have hnc := norm_cachePath hshape raw p hn
      have hne : b ++ p ≠ [] := hpre.1
      have hcp : cleanPath (cachePath h p raw) = join (b ++ p) := Path.cleanPath_of_norm _ _ hnc hne
      rw [(step_eq_cachePath hshape s raw p hn).1 data]
      have hw := vinv_writeFile V (cachePath h p raw) data (b ++ p) hnc hpre hD' hpost
      refine jinv_write_like J _ (b ++ p) data (cleanPath (cachePath h p raw))
        (Path.norm_cleanPath _ _ hnc) ?_ (V.writeOk hpre) hw.2.2.1 hw.2.2.2 rfl rfl rfl
      rw [hcp]
      exact norm_pathDir_join _ (Path.norm_reduced _ _ hnc) hne
  | writer raw cs =>
    simp only [FS.Step] at hstep
    cases hn : norm raw with
    | none => rw [hn] at hstep; rw [hstep.1] at hdir; cases hdir
    | some p =>
      rw [hn] at hstep
      obtain ⟨hpre, hpost⟩ := mut_ok hstep hdir
      have hnc := norm_cachePath hshape raw p hn
      have hne : b ++ p ≠ [] := hpre.1
      have hcp : cleanPath (cachePath h p raw) = join (b ++ p) := Path.cleanPath_of_norm _ _ hnc hne
      rw [(step_eq_cachePath hshape s raw p hn).2.1 cs]
      have hw := vinv_writer V (cachePath h p raw) cs (b ++ p) hnc hpre hD' hpost
      refine jinv_write_like J _ (b ++ p) cs.flatten (cleanPath (cachePath h p raw))
        (Path.norm_cleanPath _ _ hnc) ?_ (V.writeOk hpre) hw.2.2.1 hw.2.2.2 rfl rfl rfl
      rw [hcp]
      exact norm_pathDir_join _ (Path.norm_reduced _ _ hnc) hne
  | mkdirAll raw =>
    simp only [FS.Step] at hstep
    cases hn : norm raw with
    | none => rw [hn] at hstep; rw [hstep.1] at hdir; cases hdir
    | some p =>
      rw [hn] at hstep
      obtain ⟨hpre, hpost⟩ := mut_ok hstep hdir
      have hnc := norm_cachePath hshape raw p hn
      rw [(step_eq_cachePath hshape s raw p hn).2.2.1]
      have hw := vinv_mkdirAll V (cachePath h p raw) (b ++ p) hnc hpre hD' hpost
      exact jinv_mkdir_like J _ (b ++ p) (cleanPath (cachePath h p raw)) (Path.norm_cleanPath _ _ hnc)
        (V.mkdirOk hpre) hw.2.2 rfl rfl rfl rfl
  | copyFile rs rd =>
    simp only [FS.Step] at hstep
    cases hns : norm rs with
    | none => rw [hns] at hstep; simp only [] at hstep; rw [hstep.1] at hdir; cases hdir
    | some ps =>
      cases hnd : norm rd with
      | none => rw [hns, hnd] at hstep; simp only [] at hstep; rw [hstep.1] at hdir; cases hdir
      | some pd =>
        rw [hns, hnd] at hstep
        simp only [] at hstep
        obtain ⟨hpre, hpost⟩ := mut_ok hstep hdir
        rw [step_eq_copyFile hshape s rs rd ps pd hns hnd]
        have hncd := norm_cachePath hshape rd pd hnd
        obtain ⟨d0, _, _, hbuf, hwj, hmj, hrj, hraj, hwok⟩ :=
          vinv_copyFile V (cachePath h ps rs) (cachePath h pd rd) (b ++ ps) (b ++ pd)
            (norm_cachePath hshape rs ps hns) hncd hpre hD' hpost
        have hred := Path.norm_reduced _ _ hncd
        exact jinv_write_like J _ (b ++ pd) d0 (join (b ++ pd)) (Path.norm_join _ hred)
          (norm_pathDir_join _ hred hwok.1) (V.writeOk hwok) hbuf hwj hmj hrj hraj
  | _ => simp [writeClass] at hc

/-- ALL HISTORIES of the class -/
theorem cinv_run {s : State} {D : Node} (V : VInv s D) (J : JInv s) (ops : List (Handle × Op))
    (hclass : ops.all writeClass = true) (hdirect : allDirectOk D ops = true) :
    VInv (run s ops) (directRun D ops) ∧ JInv (run s ops) ∧ ∀ r ∈ runResults s ops, r = .ok := by
  induction ops generalizing s D with
  | nil => exact ⟨V, J, by simp [runResults]⟩
  | cons x rest ih =>
    obtain ⟨h, op⟩ := x
    simp only [List.all_cons, Bool.and_eq_true] at hclass
    simp only [allDirectOk, directResults, List.all_cons, Bool.and_eq_true, beq_iff_eq] at hdirect
    obtain ⟨hr, V', J'⟩ := cinv_step V J h op hclass.1 hdirect.1
    have := ih V' J' hclass.2 (by simpa [allDirectOk] using hdirect.2)
    refine ⟨this.1, this.2.1, ?_⟩
    intro r hr'
    simp only [runResults, List.mem_cons] at hr'
    rcases hr' with rfl | hr'
    · exact hr
    · exact this.2.2 r hr'

/-- on the class the co-simulation `Sim` is: the cache's history next to the direct history -/
theorem sim_run_class (m : Sim) (V : VInv m.cache m.direct) (J : JInv m.cache) (ops : List (Handle × Op))
    (hclass : ops.all writeClass = true) (hdirect : allDirectOk m.direct ops = true) :
    (m.run (ops.map fun x => HOp.call x.1 x.2)).cache = run m.cache ops
    ∧ (m.run (ops.map fun x => HOp.call x.1 x.2)).direct = directRun m.direct ops := by
  induction ops generalizing m with
  | nil => exact ⟨rfl, rfl⟩
  | cons x rest ih =>
    obtain ⟨h, op⟩ := x
    simp only [List.all_cons, Bool.and_eq_true] at hclass
    simp only [allDirectOk, directResults, List.all_cons, Bool.and_eq_true, beq_iff_eq] at hdirect
    obtain ⟨hr, V', J'⟩ := cinv_step V J h op hclass.1 hdirect.1
    have hok : h.ok = true := by
      cases op <;> simp [writeClass] at hclass <;> first | exact hclass.1 | exact hclass.1.1
    obtain ⟨b, ref, _, hsr, _, _⟩ := handle_ok hok
    have hmut : isMutating op = true := by cases op <;> simp [writeClass] at hclass <;> rfl
    have hstep : (m.step (.call h op)).1.cache = (step h m.cache op).1
        ∧ (m.step (.call h op)).1.direct = (directStep m.direct h op).1 := by
      simp [Sim.step, hmut, hr, directStep, hsr]
    simp only [List.map_cons, Sim.run, run, directRun]
    have := ih (m.step (.call h op)).1 (by rw [hstep.1, hstep.2]; exact V') (by rw [hstep.1]; exact J') hclass.2
      (by rw [hstep.2]; simpa [allDirectOk] using hdirect.2)
    rw [this.1, this.2, hstep.1, hstep.2]
    exact ⟨rfl, rfl⟩

/-- Commit changes nothing but the remote -/
theorem commitWith_frame (rm rma mk wr : List Bytes) (fa : Option Nat) (s : State) :
    (commitWith rm rma mk wr fa s).1.buffer = s.buffer ∧ (commitWith rm rma mk wr fa s).1.remove = s.remove
    ∧ (commitWith rm rma mk wr fa s).1.removeAll = s.removeAll
    ∧ (commitWith rm rma mk wr fa s).1.mkdirAll = s.mkdirAll ∧ (commitWith rm rma mk wr fa s).1.write = s.write := by
  unfold commitWith
  rcases commitRemove fa rm s.remote 0 with ⟨r1, n1, ok1⟩
  cases ok1
  · exact ⟨rfl, rfl, rfl, rfl, rfl⟩
  · simp only []
    rcases commitRemoveAll fa rma r1 n1 with ⟨r2, n2, ok2⟩
    cases ok2
    · exact ⟨rfl, rfl, rfl, rfl, rfl⟩
    · simp only []
      rcases commitMkdir fa s.buffer mk r2 n2 with ⟨r3, n3, ok3⟩
      cases ok3
      · exact ⟨rfl, rfl, rfl, rfl, rfl⟩
      · exact ⟨rfl, rfl, rfl, rfl, rfl⟩

end Cache
end Goat
