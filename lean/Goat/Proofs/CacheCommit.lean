/-
Commit on the class of `commit_equiv_partial`: the journal invariant `JInv`, the two replay loops that matter
there (mkdirAll, write) started from ANY remote tree that lies "between" the original remote and the direct
tree, with an injected failure at any call, in any iteration order.
-/
import Goat.Proofs.CacheRyw

namespace Goat
namespace Cache

open Path (Name norm join slash Reduced Plain cleanPath reduceAbsPath)
open FS (Op Result Entry Mut)
open MemFS MemAbs

/-- every proper prefix of an existing path is a directory -/
theorem prefix_is_dir (t : Node) (M q : List Name) (hM : abs t M ≠ none) (hq : q <+: M) (hne : q ≠ M) :
    abs t q = some .dir := by
  obtain ⟨r, rfl⟩ := hq
  have hr : r ≠ [] := fun e => hne (by simp [e])
  exact abs_parent_dir t q r hr hM

theorem prefix_of_dir_is_dir (t : Node) (M q : List Name) (hM : abs t M = some .dir) (hq : q <+: M) :
    abs t q = some .dir := by
  by_cases hne : q = M
  · rw [hne]; exact hM
  · exact prefix_is_dir t M q (by rw [hM]; simp) hq hne

theorem prefix_dropLast_ne {α} (q W : List α) (hW : W ≠ []) (hq : q <+: W.dropLast) : q ≠ W := by
  intro e
  have h1 := hq.length_le
  have h2 : W.dropLast.length = W.length - 1 := List.length_dropLast
  have h3 : W.length ≠ 0 := fun e => hW (List.length_eq_zero_iff.mp e)
  rw [e] at h1
  omega

theorem ioChunks_flatten (d : Bytes) : (ioChunks d).flatten = d := by
  unfold ioChunks
  split
  · next h => simp at h; simp [h]
  · simp

section
variable (buffer : Node) (hb : Inv buffer) (R0 : FS.State) (hc : Compat (abs buffer) R0)

/-- the remote tree during a replay: well formed, and at every path either still the original remote's entry
or an entry of the buffer's kind where the buffer has one (the buffer's own entry once the replay got there; a
partly written file when a `Write` on the remote failed) -/
def Between (Rc : Node) : Prop :=
  Inv Rc ∧ ∀ q, abs Rc q = R0 q
    ∨ ((abs Rc q).map Entry.isDir = (abs buffer q).map Entry.isDir ∧ abs buffer q ≠ none)

/-- the path already carries the buffer's entry -/
def Done (Rc : Node) (q : List Name) : Prop := abs Rc q = abs buffer q ∧ abs buffer q ≠ none

omit hc in
theorem Done.kind {Rc : Node} {q : List Name} (h : Done buffer Rc q) :
    (abs Rc q).map Entry.isDir = (abs buffer q).map Entry.isDir ∧ abs buffer q ≠ none :=
  ⟨by rw [h.1], h.2⟩

include hc in
/-- `remote.MkdirAll(m)` for a directory `M` of the buffer, on a tree in between -/
theorem between_mkdir (Rc : Node) (hRc : Between buffer R0 Rc) (m : Bytes) (M : List Name)
    (hn : norm m = some M) (hM : abs buffer M = some .dir) :
    (Root.mkdirAll Rc m).2 = .ok ∧ Between buffer R0 (Root.mkdirAll Rc m).1
    ∧ (∀ q, Done buffer Rc q → Done buffer (Root.mkdirAll Rc m).1 q)
    ∧ (∀ q, q <+: M → Done buffer (Root.mkdirAll Rc m).1 q) := by
  have hw := root_mkdirAll Rc hRc.1 m M hn
  have hpre : FS.mkdirOk (abs Rc) M := by
    intro q hq d hf
    have hBq := prefix_of_dir_is_dir buffer M q hM hq
    rcases hRc.2 q with h | ⟨h, _⟩
    · have := hc q _ _ hBq (h ▸ hf); simp [Entry.isDir] at this
    · rw [hf, hBq] at h; simp [Entry.isDir] at h
  obtain ⟨hres, hst⟩ : (Root.mkdirAll Rc m).2 = .ok ∧ abs (Root.mkdirAll Rc m).1 = FS.mkdirSt (abs Rc) M := by
    rcases hw.1 with ⟨_, b, c⟩ | ⟨a, _, _⟩
    · exact ⟨b, c⟩
    · exact absurd hpre a
  have hinv : Inv (Root.mkdirAll Rc m).1 := hw.2.1.inv hRc.1 (Path.norm_plain m M hn)
  have hdone : ∀ q, q <+: M → Done buffer (Root.mkdirAll Rc m).1 q := by
    intro q hq
    have hBq := prefix_of_dir_is_dir buffer M q hM hq
    refine ⟨?_, by rw [hBq]; simp⟩
    rw [hst, hBq]; simp [FS.mkdirSt, hq]
  refine ⟨hres, ⟨hinv, fun q => ?_⟩, fun q hq => ?_, hdone⟩
  · by_cases hq : q <+: M
    · exact Or.inr (hdone q hq).kind
    · rw [hst]; simp only [FS.mkdirSt, if_neg hq]; exact hRc.2 q
  · by_cases hq' : q <+: M
    · exact hdone q hq'
    · refine ⟨?_, hq.2⟩
      rw [hst]; simp only [FS.mkdirSt, if_neg hq']; exact hq.1

include hb hc in
/-- `remote.Writer(w)` and any chunks written to it, for a file `W` of the buffer whose parent is already there:
the tree stays in between; with the buffer's data it carries the buffer's entry -/
theorem between_writer (Rc : Node) (hRc : Between buffer R0 Rc) (w : Bytes) (W : List Name) (d : Bytes)
    (cs : List Bytes) (hn : norm w = some W) (hW : abs buffer W = some (.file d))
    (hpar : ∀ q, q <+: W.dropLast → Done buffer Rc q) :
    (Root.writer Rc w cs).2 = .ok ∧ Between buffer R0 (Root.writer Rc w cs).1
    ∧ (∀ q, q ≠ W → Done buffer Rc q → Done buffer (Root.writer Rc w cs).1 q)
    ∧ (cs.flatten = d → Done buffer (Root.writer Rc w cs).1 W) := by
  have hw := root_writer Rc hRc.1 w cs W hn
  have hWne : W ≠ [] := by
    rintro rfl
    obtain ⟨k, hk⟩ := hb.dir
    rw [hk] at hW; simp [abs, Node.lookup, Node.entry] at hW
  have hBpre : ∀ q, q <+: W.dropLast → abs buffer q = some .dir := fun q hq =>
    prefix_is_dir buffer W q (by rw [hW]; simp) (hq.trans (List.dropLast_prefix W))
      (prefix_dropLast_ne q W hWne hq)
  have hpre : FS.writeOk (abs Rc) W := by
    refine ⟨hWne, ?_, ?_⟩
    · intro q hq dd hf
      rw [(hpar q hq).1, hBpre q hq] at hf; cases hf
    · intro hd
      rcases hRc.2 W with h | ⟨h, _⟩
      · have := hc W _ _ hW (h ▸ hd); simp [Entry.isDir] at this
      · rw [hd, hW] at h; simp [Entry.isDir] at h
  obtain ⟨hres, hst⟩ : (Root.writer Rc w cs).2 = .ok
      ∧ abs (Root.writer Rc w cs).1 = FS.writeSt (abs Rc) W cs.flatten := by
    rcases hw.1 with ⟨_, b, c⟩ | ⟨a, _, _⟩
    · exact ⟨b, c⟩
    · exact absurd hpre a
  have hinv : Inv (Root.writer Rc w cs).1 := hw.2.1.inv hRc.1 (Path.norm_plain w W hn)
  have hpre' : ∀ q, q <+: W.dropLast → Done buffer (Root.writer Rc w cs).1 q := by
    intro q hq'
    have hqW : q ≠ W := prefix_dropLast_ne q W hWne hq'
    refine ⟨?_, by rw [hBpre q hq']; simp⟩
    rw [hst, hBpre q hq']; simp [FS.writeSt, hqW, FS.mkdirSt, hq']
  have hframe : ∀ q, ¬ q <+: W → abs (Root.writer Rc w cs).1 q = abs Rc q := by
    intro q hq
    rw [hst]; exact writeSt_frame _ _ _ _ hq
  have hatW : abs (Root.writer Rc w cs).1 W = some (.file cs.flatten) := by rw [hst]; exact writeSt_at _ _ _
  refine ⟨hres, ⟨hinv, fun q => ?_⟩, fun q hqW hq => ?_, fun hd => ⟨by rw [hatW, hW, hd], by rw [hW]; simp⟩⟩
  · by_cases hq : q <+: W
    · by_cases hqW : q = W
      · subst hqW
        exact Or.inr ⟨by rw [hatW, hW]; rfl, by rw [hW]; simp⟩
      · exact Or.inr (hpre' q (prefix_dropLast q W hq hqW)).kind
    · rw [hframe q hq]; exact hRc.2 q
  · by_cases hq' : q <+: W
    · exact hpre' q (prefix_dropLast q W hq' hqW)
    · exact ⟨by rw [hframe q hq']; exact hq.1, hq.2⟩

include hb hc in
/-- `StreamCopy` onto the remote with an injected failure anywhere (or nowhere): the tree stays in between; when
the calls succeed the file and its parents carry the buffer's entries and nothing done before is lost -/
theorem stream_spec (fa : Option Nat) (n : Nat) (Rc : Node) (hRc : Between buffer R0 Rc) (w : Bytes)
    (W : List Name) (d : Bytes) (hn : norm w = some W) (hW : abs buffer W = some (.file d))
    (hpar : ∀ q, q <+: W.dropLast → Done buffer Rc q) :
    Between buffer R0 (remoteStream fa n w (ioChunks d) Rc).1.1
    ∧ ((remoteStream fa n w (ioChunks d) Rc).1.2 = .ok →
        (∀ q, Done buffer Rc q → Done buffer (remoteStream fa n w (ioChunks d) Rc).1.1 q)
        ∧ ∀ q, q <+: W → Done buffer (remoteStream fa n w (ioChunks d) Rc).1.1 q)
    ∧ (fa = none → (remoteStream fa n w (ioChunks d) Rc).1.2 = .ok) := by
  have hWne : W ≠ [] := by
    rintro rfl
    obtain ⟨k, hk⟩ := hb.dir
    rw [hk] at hW; simp [abs, Node.lookup, Node.entry] at hW
  have hopen := between_writer buffer hb R0 hc Rc hRc w W d [] hn hW hpar
  have hfull := between_writer buffer hb R0 hc Rc hRc w W d (ioChunks d) hn hW hpar
  have hfullDone : (∀ q, Done buffer Rc q → Done buffer (Root.writer Rc w (ioChunks d)).1 q)
      ∧ ∀ q, q <+: W → Done buffer (Root.writer Rc w (ioChunks d)).1 q := by
    have hdW := hfull.2.2.2 (ioChunks_flatten d)
    refine ⟨fun q hq => ?_, fun q hq => ?_⟩
    · by_cases e : q = W
      · rw [e]; exact hdW
      · exact hfull.2.2.1 q e hq
    · by_cases e : q = W
      · rw [e]; exact hdW
      · exact hfull.2.2.1 q e (hpar q (prefix_dropLast q W hq e))
  unfold remoteStream
  by_cases h0 : fa = some n
  · rw [if_pos h0]
    refine ⟨hRc, fun h => absurd h (by simp), fun h => ?_⟩
    rw [h] at h0; cases h0
  · rw [if_neg h0]
    have eo : Root.writer Rc w [] = ((Root.writer Rc w []).1, .ok) := by rw [← hopen.1]
    rw [eo]
    simp only []
    cases fa with
    | none =>
      simp only []
      exact ⟨hfull.2.1, fun _ => hfullDone, fun _ => hfull.1⟩
    | some k =>
      simp only []
      by_cases h1 : n < k ∧ k ≤ n + (ioChunks d).length
      · rw [if_pos h1]
        exact ⟨(between_writer buffer hb R0 hc Rc hRc w W d _ hn hW hpar).2.1, fun h => absurd h (by simp),
          fun h => absurd h (by simp)⟩
      · rw [if_neg h1]
        by_cases h2 : k = n + (ioChunks d).length + 1
        · rw [if_pos h2]
          exact ⟨hfull.2.1, fun h => absurd h (by simp), fun h => absurd h (by simp)⟩
        · rw [if_neg h2]
          exact ⟨hfull.2.1, fun _ => hfullDone, fun h => absurd h (by simp)⟩

include hb hc in
/-- the mkdirAll loop of Commit -/
theorem commitMkdir_spec (fa : Option Nat) (mk : List Bytes)
    (hmk : ∀ m ∈ mk, ∃ M, norm m = some M ∧ abs buffer M = some .dir) (Rc : Node) (n : Nat)
    (hRc : Between buffer R0 Rc) :
    Between buffer R0 (commitMkdir fa buffer mk Rc n).1
    ∧ (∀ q, Done buffer Rc q → Done buffer (commitMkdir fa buffer mk Rc n).1 q)
    ∧ ((commitMkdir fa buffer mk Rc n).2.2 = true →
        ∀ m ∈ mk, ∀ M, norm m = some M → ∀ q, q <+: M → Done buffer (commitMkdir fa buffer mk Rc n).1 q)
    ∧ (fa = none → (commitMkdir fa buffer mk Rc n).2.2 = true) := by
  induction mk generalizing Rc n with
  | nil => exact ⟨hRc, fun _ h => h, by simp [commitMkdir], fun _ => rfl⟩
  | cons m rest ih =>
    obtain ⟨M, hn, hM⟩ := hmk m (by simp)
    have hrest : ∀ m ∈ rest, ∃ M, norm m = some M ∧ abs buffer M = some .dir :=
      fun x hx => hmk x (List.mem_cons_of_mem _ hx)
    have hdir : isTrue (Root.isDir buffer m) = true := by
      rw [root_isDir_eq buffer hb m M hn, hM]; rfl
    unfold commitMkdir
    rw [if_pos hdir]
    by_cases hfa : fa = some n
    · simp only [remoteCall, if_pos hfa]
      refine ⟨hRc, fun _ h => h, by simp, fun h => by rw [h] at hfa; cases hfa⟩
    · simp only [remoteCall, if_neg hfa]
      obtain ⟨hres, hbt, hstab, hdone⟩ := between_mkdir buffer R0 hc Rc hRc m M hn hM
      have e : Root.mkdirAll Rc m = ((Root.mkdirAll Rc m).1, .ok) := by rw [← hres]
      rw [e]
      simp only []
      obtain ⟨i1, i2, i3, i4⟩ := ih hrest (Root.mkdirAll Rc m).1 (n + 1) hbt
      refine ⟨i1, fun q hq => i2 q (hstab q hq), fun hok x hx X hX q hq => ?_, i4⟩
      rcases List.mem_cons.mp hx with rfl | hx
      · rw [hn] at hX; cases hX
        exact i2 q (hdone q hq)
      · exact i3 hok x hx X hX q hq

include hb hc in
/-- the write loop of Commit -/
theorem commitWrite_spec (fa : Option Nat) (wr : List Bytes)
    (hwr : ∀ w ∈ wr, ∃ W d, norm w = some W ∧ abs buffer W = some (.file d) ∧ norm (pathDir w) = some W.dropLast)
    (Rc : Node) (n : Nat) (hRc : Between buffer R0 Rc) :
    Between buffer R0 (commitWrite fa buffer wr Rc n).1
    ∧ ((commitWrite fa buffer wr Rc n).2.2 = true →
        (∀ q, Done buffer Rc q → Done buffer (commitWrite fa buffer wr Rc n).1 q)
        ∧ ∀ w ∈ wr, ∀ W, norm w = some W → ∀ q, q <+: W → Done buffer (commitWrite fa buffer wr Rc n).1 q)
    ∧ (fa = none → (commitWrite fa buffer wr Rc n).2.2 = true) := by
  induction wr generalizing Rc n with
  | nil => exact ⟨hRc, fun _ => ⟨fun _ h => h, by simp⟩, fun _ => rfl⟩
  | cons w rest ih =>
    obtain ⟨W, d, hn, hW, hpd⟩ := hwr w (by simp)
    have hrest : ∀ w ∈ rest, ∃ W d, norm w = some W ∧ abs buffer W = some (.file d)
        ∧ norm (pathDir w) = some W.dropLast := fun x hx => hwr x (List.mem_cons_of_mem _ hx)
    have hWne : W ≠ [] := by
      rintro rfl
      obtain ⟨k, hk⟩ := hb.dir
      rw [hk] at hW; simp [abs, Node.lookup, Node.entry] at hW
    have hparent : abs buffer W.dropLast = some .dir :=
      prefix_is_dir buffer W W.dropLast (by rw [hW]; simp) (List.dropLast_prefix W)
        (prefix_dropLast_ne _ W hWne (List.prefix_refl _))
    have hfile : isTrue (Root.isFile buffer w) = true := by
      rw [root_isFile_eq buffer hb w W hn, hW]; rfl
    have hread : Root.readFile buffer w = .data d := by
      rw [root_readFile_eq buffer hb w W hn, hW]; rfl
    unfold commitWrite
    by_cases hfa : fa = some n
    · simp only [remoteCall, if_pos hfa]
      refine ⟨hRc, fun h => absurd h (by simp), fun h => by rw [h] at hfa; cases hfa⟩
    · simp only [remoteCall, if_neg hfa]
      obtain ⟨hres, hbt, hstab, hdone⟩ := between_mkdir buffer R0 hc Rc hRc (pathDir w) W.dropLast hpd hparent
      have e : Root.mkdirAll Rc (pathDir w) = ((Root.mkdirAll Rc (pathDir w)).1, .ok) := by rw [← hres]
      rw [e]
      simp only [hfile, if_true, hread]
      obtain ⟨sb, sok, snone⟩ := stream_spec buffer hb R0 hc fa (n + 1) _ hbt w W d hn hW hdone
      rcases hs : remoteStream fa (n + 1) w (ioChunks d) (Root.mkdirAll Rc (pathDir w)).1 with ⟨⟨r2, res⟩, n'⟩
      rw [hs] at sb sok snone
      simp only [] at sb sok snone
      cases res
      case ok =>
        simp only []
        obtain ⟨sstab, sdone⟩ := sok rfl
        obtain ⟨i1, i2, i3⟩ := ih hrest r2 n' sb
        refine ⟨i1, fun hok => ?_, i3⟩
        obtain ⟨j1, j2⟩ := i2 hok
        refine ⟨fun q hq => j1 q (sstab q (hstab q hq)), fun x hx X hX q hq => ?_⟩
        rcases List.mem_cons.mp hx with rfl | hx
        · rw [hn] at hX; cases hX
          exact j1 q (sdone q hq)
        · exact j2 x hx X hX q hq
      all_goals
        simp only []
        exact ⟨sb, fun h => absurd h (by simp), fun h => absurd (snone h) (by simp)⟩

end

/-! ### a tree in between is as good as the original remote -/

theorem between_init {s : State} {D : Node} (V : VInv s D) : Between s.buffer (abs s.remote) s.remote :=
  ⟨V.hr, fun _ => Or.inl rfl⟩

theorem vinv_of_between {s : State} {D : Node} (V : VInv s D) (Rc : Node)
    (h : Between s.buffer (abs s.remote) Rc) : VInv { s with remote := Rc } D := by
  refine ⟨V.hb, h.1, V.hd, ?_, ?_⟩
  · intro q e e' h1 h2
    rcases h.2 q with h3 | ⟨h3, _⟩
    · exact V.compat q e e' h1 (h3 ▸ h2)
    · simp only [] at h2 h1
      rw [h2, h1] at h3
      simpa using h3.symm
  · rw [V.eq]
    funext q
    simp only [overlay]
    cases hb : abs s.buffer q with
    | some e => rfl
    | none =>
      rcases h.2 q with h3 | ⟨_, h4⟩
      · simp [h3]
      · exact absurd hb h4

/-! ### the journal invariant -/

/-- on the class of `commit_equiv_partial`: nothing is journalled for removal, every journalled write is a file
of the buffer whose `path.Dir` is its parent, every journalled mkdir is a directory of the buffer, and every
node of the buffer lies on the way to a journalled path -/
structure JInv (s : State) : Prop where
  rmJ : s.remove = []
  rmaJ : s.removeAll = []
  wrJ : ∀ w ∈ s.write, ∃ W d, norm w = some W ∧ abs s.buffer W = some (.file d) ∧ norm (pathDir w) = some W.dropLast
  mkJ : ∀ m ∈ s.mkdirAll, ∃ M, norm m = some M ∧ abs s.buffer M = some .dir
  covJ : ∀ q, abs s.buffer q ≠ none → q = []
    ∨ (∃ w ∈ s.write, ∃ W, norm w = some W ∧ q <+: W) ∨ (∃ m ∈ s.mkdirAll, ∃ M, norm m = some M ∧ q <+: M)

theorem jinv_new (r : Node) : JInv (State.new r) := by
  refine ⟨rfl, rfl, by simp [State.new], by simp [State.new], fun q hq => Or.inl ?_⟩
  cases q with
  | nil => rfl
  | cons a rest => simp [State.new, abs, Node.empty, Node.lookup, Kids.find] at hq

theorem mem_jadd (j : List Bytes) (k x : Bytes) : x ∈ jadd j k ↔ x ∈ j ∨ x = k := by
  unfold jadd
  split
  · next h =>
    have hk : k ∈ j := by simpa using h
    constructor
    · exact Or.inl
    · rintro (h | rfl)
      · exact h
      · exact hk
  · simp

/-- the journals after a successful `WriteFile` / `Writer` (`k` = the key they journal) -/
theorem jinv_write_like {s : State} (J : JInv s) (s' : State) (P : List Name) (data k : Bytes)
    (hk : norm k = some P) (hkd : norm (pathDir k) = some P.dropLast) (hpre : FS.writeOk (abs s.buffer) P)
    (hb : abs s'.buffer = FS.writeSt (abs s.buffer) P data) (hw : s'.write = jadd s.write k)
    (hm : s'.mkdirAll = s.mkdirAll) (hr : s'.remove = s.remove) (hra : s'.removeAll = s.removeAll) : JInv s' := by
  have hat : abs s'.buffer P = some (.file data) := by rw [hb]; exact writeSt_at _ _ _
  -- an old entry keeps its value unless it lies on the way to P
  have hkeep : ∀ q e, abs s.buffer q = some e → ¬ (q <+: P.dropLast ∧ ∃ d, e = .file d) →
      (e = .dir → q ≠ P) → abs s'.buffer q = some e ∨ q = P := by
    intro q e hq hnf hnd
    by_cases hqP : q = P
    · exact Or.inr hqP
    · left
      rw [hb]; simp only [FS.writeSt, if_neg hqP, FS.mkdirSt]
      by_cases hq' : q <+: P.dropLast
      · rw [if_pos hq']
        cases e with
        | dir => rfl
        | file d => exact absurd ⟨hq', d, rfl⟩ hnf
      · rw [if_neg hq']; exact hq
  refine ⟨by rw [hr]; exact J.rmJ, by rw [hra]; exact J.rmaJ, ?_, ?_, ?_⟩
  · intro w hw'
    rw [hw, mem_jadd] at hw'
    rcases hw' with hw' | rfl
    · obtain ⟨W, d, h1, h2, h3⟩ := J.wrJ w hw'
      rcases hkeep W _ h2 (fun ⟨hq, _⟩ => hpre.2.1 W hq d h2) (fun e => by cases e) with h | h
      · exact ⟨W, d, h1, h, h3⟩
      · subst h; exact ⟨W, data, h1, hat, h3⟩
    · exact ⟨P, data, hk, hat, hkd⟩
  · intro m hm'
    rw [hm] at hm'
    obtain ⟨M, h1, h2⟩ := J.mkJ m hm'
    rcases hkeep M _ h2 (fun ⟨_, d, e⟩ => by cases e) (fun _ e => hpre.2.2 (e ▸ h2)) with h | h
    · exact ⟨M, h1, h⟩
    · exact absurd (h ▸ h2) hpre.2.2
  · intro q hq
    by_cases hqP : q <+: P
    · exact Or.inr (Or.inl ⟨k, by rw [hw, mem_jadd]; exact Or.inr rfl, P, hk, hqP⟩)
    · have hold : abs s.buffer q ≠ none := by
        rw [hb, writeSt_frame _ _ _ _ hqP] at hq; exact hq
      rcases J.covJ q hold with h | ⟨w, hw', W, h1, h2⟩ | ⟨m, hm', M, h1, h2⟩
      · exact Or.inl h
      · exact Or.inr (Or.inl ⟨w, by rw [hw, mem_jadd]; exact Or.inl hw', W, h1, h2⟩)
      · exact Or.inr (Or.inr ⟨m, by rw [hm]; exact hm', M, h1, h2⟩)

/-- the journals after a successful `MkdirAll` -/
theorem jinv_mkdir_like {s : State} (J : JInv s) (s' : State) (P : List Name) (k : Bytes)
    (hk : norm k = some P) (hpre : FS.mkdirOk (abs s.buffer) P)
    (hb : abs s'.buffer = FS.mkdirSt (abs s.buffer) P) (hm : s'.mkdirAll = jadd s.mkdirAll k)
    (hw : s'.write = s.write) (hr : s'.remove = s.remove) (hra : s'.removeAll = s.removeAll) : JInv s' := by
  refine ⟨by rw [hr]; exact J.rmJ, by rw [hra]; exact J.rmaJ, ?_, ?_, ?_⟩
  · intro w hw'
    rw [hw] at hw'
    obtain ⟨W, d, h1, h2, h3⟩ := J.wrJ w hw'
    refine ⟨W, d, h1, ?_, h3⟩
    rw [hb]; simp only [FS.mkdirSt]
    by_cases hq : W <+: P
    · exact absurd h2 (hpre W hq d)
    · rw [if_neg hq]; exact h2
  · intro m hm'
    rw [hm, mem_jadd] at hm'
    rcases hm' with hm' | rfl
    · obtain ⟨M, h1, h2⟩ := J.mkJ m hm'
      refine ⟨M, h1, ?_⟩
      rw [hb]; simp only [FS.mkdirSt]
      by_cases hq : M <+: P
      · rw [if_pos hq]
      · rw [if_neg hq]; exact h2
    · exact ⟨P, hk, by rw [hb]; simp [FS.mkdirSt]⟩
  · intro q hq
    by_cases hqP : q <+: P
    · exact Or.inr (Or.inr ⟨k, by rw [hm, mem_jadd]; exact Or.inr rfl, P, hk, hqP⟩)
    · have hold : abs s.buffer q ≠ none := by
        rw [hb] at hq; simp only [FS.mkdirSt, if_neg hqP] at hq; exact hq
      rcases J.covJ q hold with h | ⟨w, hw', W, h1, h2⟩ | ⟨m, hm', M, h1, h2⟩
      · exact Or.inl h
      · exact Or.inr (Or.inl ⟨w, by rw [hw]; exact hw', W, h1, h2⟩)
      · exact Or.inr (Or.inr ⟨m, by rw [hm, mem_jadd]; exact Or.inl hm', M, h1, h2⟩)

/-! ### Commit on the class -/

/-- COMMIT, any iteration order, any injected failure: the state afterwards is again in the class (so a retry is
just another Commit), success gives exactly the direct tree, and without injection Commit succeeds -/
theorem commit_class {s : State} {D : Node} (V : VInv s D) (J : JInv s) (rm rma mk wr : List Bytes)
    (hrm : ∀ x, x ∈ rm ↔ x ∈ s.remove) (hrma : ∀ x, x ∈ rma ↔ x ∈ s.removeAll)
    (hmk : ∀ x, x ∈ mk ↔ x ∈ s.mkdirAll) (hwr : ∀ x, x ∈ wr ↔ x ∈ s.write) (fa : Option Nat) :
    VInv (commitWith rm rma mk wr fa s).1 D ∧ JInv (commitWith rm rma mk wr fa s).1
    ∧ ((commitWith rm rma mk wr fa s).2.2 = true → abs (commitWith rm rma mk wr fa s).1.remote = abs D)
    ∧ (fa = none → (commitWith rm rma mk wr fa s).2.2 = true) := by
  have erm : rm = [] := by
    cases rm with
    | nil => rfl
    | cons x r => have := (hrm x).mp (by simp); rw [J.rmJ] at this; cases this
  have erma : rma = [] := by
    cases rma with
    | nil => rfl
    | cons x r => have := (hrma x).mp (by simp); rw [J.rmaJ] at this; cases this
  subst erm erma
  have hM := commitMkdir_spec s.buffer V.hb (abs s.remote) V.compat fa mk
    (fun m hm => J.mkJ m ((hmk m).mp hm)) s.remote 0 (between_init V)
  have jinv_remote : ∀ Rc, JInv { s with remote := Rc } := fun Rc => ⟨J.rmJ, J.rmaJ, J.wrJ, J.mkJ, J.covJ⟩
  unfold commitWith
  simp only [commitRemove, commitRemoveAll]
  rcases hres : commitMkdir fa s.buffer mk s.remote 0 with ⟨r1, n1, ok1⟩
  rw [hres] at hM
  cases ok1 with
  | false =>
    simp only []
    exact ⟨vinv_of_between V r1 hM.1, jinv_remote r1, by simp, fun h => by simpa using hM.2.2.2 h⟩
  | true =>
    simp only []
    have hW := commitWrite_spec s.buffer V.hb (abs s.remote) V.compat fa wr
      (fun w hw => J.wrJ w ((hwr w).mp hw)) r1 n1 hM.1
    rcases hres2 : commitWrite fa s.buffer wr r1 n1 with ⟨r2, n2, ok2⟩
    rw [hres2] at hW
    simp only []
    refine ⟨vinv_of_between V r2 hW.1, jinv_remote r2, fun hok => ?_, fun h => hW.2.2 h⟩
    funext q
    rw [V.eq]
    simp only [overlay]
    cases hbq : abs s.buffer q with
    | none =>
      rcases hW.1.2 q with h | ⟨_, h⟩
      · simpa using h
      · exact absurd hbq h
    | some e =>
      simp only []
      rcases J.covJ q (by rw [hbq]; simp) with rfl | ⟨w, hw', W, h1, h2⟩ | ⟨m, hm', M, h1, h2⟩
      · obtain ⟨k2, hk2⟩ := hW.1.1.dir
        obtain ⟨kb, hkb⟩ := V.hb.dir
        rw [hkb] at hbq
        simp only [abs, Node.lookup, Option.map_some, Node.entry, Option.some.injEq] at hbq
        simp only [] at hk2
        rw [hk2, ← hbq]; rfl
      · have := (hW.2.1 hok).2 w ((hwr w).mpr hw') W h1 q h2
        rw [this.1, hbq]
      · have := (hW.2.1 hok).1 q (hM.2.2.1 rfl m ((hmk m).mpr hm') M h1 q h2)
        rw [this.1, hbq]

end Cache
end Goat
