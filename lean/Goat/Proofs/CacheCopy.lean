/-
`CopyFile` to an absent destination on the class of the `_partial` theorems: under the view invariant it is a
write of the source's data at the destination, through the cache as well as directly.
-/
import Goat.Proofs.CacheRead

namespace Goat
namespace Cache

open Path (Name norm join slash Reduced Plain cleanPath reduceAbsPath)
open FS (Op Result Entry Mut)
open MemFS MemAbs

/-- directly, copying a file onto an absent path is writing its data there -/
theorem copySt_file (t : Node) (s d : List Name) (d0 : Bytes) (hs : abs t s = some (.file d0))
    (hok : FS.copyOk .fileOnly (abs t) s d) : FS.copySt (abs t) s d = FS.writeSt (abs t) d d0 := by
  obtain ⟨hne, _, hmk, habs⟩ := hok
  -- the source is not on the way to the destination's parent
  have hnp : ∀ r, ¬ (s ++ r) <+: d.dropLast := by
    intro r hp
    exact hmk s ((List.prefix_append s r).trans hp) d0 hs
  funext q
  simp only [FS.copySt, FS.writeSt]
  by_cases hq : d <+: q
  · rw [if_pos hq]
    obtain ⟨r, rfl⟩ := hq
    simp only [List.drop_left']
    by_cases hr : r = []
    · subst hr
      simp only [List.append_nil, if_true, FS.mkdirSt]
      rw [if_neg (by simpa using hnp [])]
      exact hs
    · have hqd : d ++ r ≠ d := fun e => hr (by simpa using e)
      rw [if_neg hqd]
      simp only [FS.mkdirSt]
      rw [if_neg (hnp r)]
      have h1 : abs t (s ++ r) = none := abs_below t s r hr (by rw [hs]; simp)
      have h2 : ¬ (d ++ r) <+: d.dropLast := by
        intro hp
        have h4 := hp.length_le
        have h3 : d.dropLast.length = d.length - 1 := List.length_dropLast
        rw [List.length_append] at h4
        have h5 : r.length ≠ 0 := fun e => hr (List.length_eq_zero_iff.mp e)
        omega
      rw [if_neg h2, h1]
      exact (remote_below_none t d (d ++ r) habs (List.prefix_append d r)).symm
  · rw [if_neg hq, if_neg (fun (e : q = d) => hq (e ▸ List.prefix_refl _))]

theorem jadd_idem (j : List Bytes) (k : Bytes) : jadd (jadd j k) k = jadd j k := by
  have hk : (jadd j k).contains k = true := by
    unfold jadd
    by_cases h : j.contains k = true
    · rw [if_pos h]; exact h
    · rw [if_neg h]; simp
  generalize hj : jadd j k = j' at hk ⊢
  unfold jadd
  rw [if_pos hk]

/-- how the cache resolves a source that is a file of the direct tree -/
theorem src_resolves {s : State} {D : Node} (V : VInv s D) (raw : Bytes) (Q : List Name) (d0 : Bytes)
    (hn : norm (cleanPath raw) = some Q) (hS : abs D Q = some (.file d0)) :
    Root.isFile (srcTree s (srcFS s raw).1) (srcFS s raw).2 = .bool true
    ∧ Root.readFile (srcTree s (srcFS s raw).1) (srcFS s raw).2 = .data d0 := by
  rw [srcFS_eq V raw Q hn]
  simp only [srcTree]
  rw [V.eq] at hS
  simp only [overlay] at hS
  cases hb : abs s.buffer Q with
  | none =>
    rw [hb] at hS
    simp only [] at hS
    simp only [Option.isSome_none, Bool.false_eq_true, if_false]
    rw [root_isFile_eq _ V.hr _ Q hn, root_readFile_eq _ V.hr _ Q hn, hS]
    exact ⟨rfl, rfl⟩
  | some e =>
    rw [hb] at hS
    simp only [] at hS
    cases hS
    simp only [Option.isSome_some, if_true]
    rw [root_isFile_eq _ V.hb _ Q hn, root_readFile_eq _ V.hb _ Q hn, hb]
    exact ⟨rfl, rfl⟩

/-- `CopyFile` with cache-level path strings `a`, `b` of normal forms `Ps`, `Pd`: a file of the direct tree copied
onto an absent destination -/
theorem vinv_copyFile {s : State} {D D' : Node} (V : VInv s D) (a b : Bytes) (Ps Pd : List Name)
    (hna : norm a = some Ps) (hnb : norm b = some Pd) (hok : FS.copyOk .fileOnly (abs D) Ps Pd) (hD' : Inv D')
    (hpost : abs D' = FS.copySt (abs D) Ps Pd) :
    ∃ d0, (copyFile s a b).2 = .ok ∧ VInv (copyFile s a b).1 D'
      ∧ abs (copyFile s a b).1.buffer = FS.writeSt (abs s.buffer) Pd d0
      ∧ (copyFile s a b).1.write = jadd s.write (join Pd)
      ∧ (copyFile s a b).1.mkdirAll = s.mkdirAll ∧ (copyFile s a b).1.remove = s.remove
      ∧ (copyFile s a b).1.removeAll = s.removeAll ∧ FS.writeOk (abs D) Pd := by
  obtain ⟨hne, hacc, hmk, habs⟩ := hok
  obtain ⟨d0, hS⟩ : ∃ d0, abs D Ps = some (.file d0) := by
    rcases h : abs D Ps with _ | (d | _) <;> simp [h, FS.CopyKind.accepts] at hacc
    exact ⟨d, rfl⟩
  have hwok : FS.writeOk (abs D) Pd := ⟨hne, hmk, by rw [habs]; simp⟩
  have hcopy : FS.copySt (abs D) Ps Pd = FS.writeSt (abs D) Pd d0 :=
    copySt_file D Ps Pd d0 hS ⟨hne, hacc, hmk, habs⟩
  -- cleaned strings
  have hdest : cleanPath b = join Pd := Path.cleanPath_of_norm b Pd hnb hne
  have hdest2 : cleanPath (join Pd) = join Pd :=
    Path.cleanPath_of_norm _ Pd (Path.norm_join Pd (Path.norm_reduced b Pd hnb)) hne
  have hnd : norm (join Pd) = some Pd := Path.norm_join Pd (Path.norm_reduced b Pd hnb)
  have hsrc1 := Path.norm_cleanPath a Ps hna
  have hsrc2 := Path.norm_cleanPath _ Ps hsrc1
  have hPsne : Ps ≠ [] := by
    rintro rfl
    obtain ⟨k, hk⟩ := V.hd.dir
    rw [hk] at hS; simp [abs, Node.lookup, Node.entry] at hS
  have hsrcS : cleanPath a = join Ps := Path.cleanPath_of_norm a Ps hna hPsne
  have hsrcS2 : cleanPath (join Ps) = join Ps :=
    Path.cleanPath_of_norm _ Ps (Path.norm_join Ps (Path.norm_reduced a Ps hna)) hPsne
  -- source and destination do not overlap
  have hnov : overlaps (join Ps) (join Pd) = false := by
    cases hov : overlaps (join Ps) (join Pd) with
    | false => rfl
    | true =>
      exfalso
      rcases overlaps_join Ps Pd (Path.norm_reduced a Ps hna) (Path.norm_reduced b Pd hnb) hPsne hne hov with h | h
      · by_cases e : Ps = Pd
        · rw [e, habs] at hS; cases hS
        · exact hmk Ps (prefix_dropLast Ps Pd h e) d0 hS
      · by_cases e : Pd = Ps
        · rw [← e, habs] at hS; cases hS
        · obtain ⟨r, rfl⟩ := h
          have hr : r ≠ [] := fun e' => e (by simp [e'])
          have := abs_parent_dir D Pd r hr (by rw [hS]; simp)
          rw [habs] at this; cases this
  -- the two resolutions of the source (in CopyFile, then in Copy)
  have r1 := src_resolves V a Ps d0 hsrc1 hS
  have r2 := src_resolves V (cleanPath a) Ps d0 hsrc2 hS
  -- the write into the buffer
  have hw := root_writer s.buffer V.hb (join Pd) (ioChunks d0) Pd hnd
  obtain ⟨hres, hst⟩ : (Root.writer s.buffer (join Pd) (ioChunks d0)).2 = .ok
      ∧ abs (Root.writer s.buffer (join Pd) (ioChunks d0)).1 = FS.writeSt (abs s.buffer) Pd d0 := by
    rcases hw.1 with ⟨_, x, y⟩ | ⟨x, _, _⟩
    · exact ⟨x, by rw [y]; simp [ioChunks]; split <;> simp_all⟩
    · exact absurd (V.writeOk hwok) x
  have hinv : Inv (Root.writer s.buffer (join Pd) (ioChunks d0)).1 :=
    hw.2.1.inv V.hb (Path.norm_plain _ Pd hnd)
  -- unfold the three layers
  have hcf : copyFile s a b
      = ({ s with buffer := (Root.writer s.buffer (join Pd) (ioChunks d0)).1,
                  write := jaddIf (Root.writer s.buffer (join Pd) (ioChunks d0)).2 s.write (join Pd) },
         (Root.writer s.buffer (join Pd) (ioChunks d0)).2) := by
    unfold copyFile
    simp only [hdest]
    have e1 : isTrue (Root.isFile (srcTree s (srcFS s a).1) (srcFS s a).2) = true := by rw [r1.1]; rfl
    rw [show (!isTrue (Root.isFile (srcTree s (srcFS s a).1) (srcFS s a).2)) = false by rw [e1]; rfl]
    simp only [Bool.false_eq_true, if_false]
    unfold copy
    have hs2 : (srcFS s (srcFS s a).2).2 = join Ps := by
      show cleanPath (cleanPath a) = join Ps
      rw [hsrcS, hsrcS2]
    simp only [hdest2, hs2, hnov, Bool.false_eq_true, if_false]
    unfold copier copierBuf copierFrom
    have e2 : isTrue (Root.isFile (srcTree s (srcFS s (srcFS s a).2).1) (join Ps)) = true := by
      have := r2.1
      have e : (srcFS s a).2 = cleanPath a := rfl
      rw [← e, hs2] at this
      rw [this]; rfl
    have e3 : Root.readFile (srcTree s (srcFS s (srcFS s a).2).1) (join Ps) = .data d0 := by
      have := r2.2
      have e : (srcFS s a).2 = cleanPath a := rfl
      rw [← e, hs2] at this
      exact this
    simp only [srcTree] at e2 e3
    simp only [e2, if_true, e3]
  rw [hcf]
  refine ⟨d0, hres, ⟨hinv, V.hr, hD', ?_, ?_⟩, hst, ?_, rfl, rfl, rfl, hwok⟩
  · show Compat (abs (Root.writer s.buffer (join Pd) (ioChunks d0)).1) (abs s.remote)
    rw [hst]; exact compat_writeSt V Pd d0 hwok
  · show abs D' = overlay (abs (Root.writer s.buffer (join Pd) (ioChunks d0)).1) (abs s.remote)
    rw [hpost, hcopy, hst, V.eq, overlay_writeSt]
  · show jaddIf (Root.writer s.buffer (join Pd) (ioChunks d0)).2 s.write (join Pd) = _
    rw [hres]; rfl

end Cache
end Goat
