/-
Histories with Commits (`Sim.run`): buffer and remote stay well formed; the listing through any handle.
-/
import Goat.Proofs.CacheMore

namespace Goat
namespace Cache

open Path (Name norm join slash Reduced Plain cleanPath reduceAbsPath)
open FS (Op Result Entry Mut)
open MemFS MemAbs

theorem sim_step_winv (m : Sim) (W : WInv m.cache) (x : HOp) : WInv (m.step x).1.cache := by
  cases x with
  | call h op => exact step_winv h m.cache W op
  | commit fa => exact commitWith_winv _ _ _ _ fa m.cache W

theorem sim_run_winv (m : Sim) (W : WInv m.cache) (hist : List HOp) : WInv (m.run hist).cache := by
  induction hist generalizing m with
  | nil => exact W
  | cons x rest ih => exact ih _ (sim_step_winv m W x)

theorem step_readDir_nodup (h : Handle) (s : State) (W : WInv s) (raw : Bytes) (l : List (Name × Bool))
    (hl : (step h s (.readDir raw)).2 = .list l) : (l.map Prod.fst).Nodup := by
  cases h with
  | cache => exact readDir_nodup_of_winv s W raw l hl
  | sub base =>
    simp only [step, subOp] at hl
    cases hr : reduceAbsPath raw with
    | none => simp [hr, failResult] at hl
    | some q =>
      simp only [hr, Option.map_some, stepCache] at hl
      exact readDir_nodup_of_winv s W _ l hl

end Cache
end Goat
