/-
More unconditional facts about the cache model: the merged listing never repeats a name, read-after-write,
child views of child views, an injected remote failure is reported, direct application is a run of the
specification.
-/
import Goat.Proofs.CacheWF

namespace Goat
namespace Cache

open Path (Name norm join slash Reduced Plain cleanPath reduceAbsPath)
open FS (Op Result Entry Mut)
open MemFS MemAbs

/-! ### listings -/

theorem root_readDir_nodup (t : Node) (ht : Inv t) (src : Bytes) (l : List (Name × Bool))
    (h : Root.readDir t src = .list l) : (l.map Prod.fst).Nodup := by
  cases hn : norm src with
  | none => rw [(root_climb t src hn).2.2.2.2.2.2] at h; cases h
  | some Q =>
    by_cases hd : abs t Q = some .dir
    · obtain ⟨l', e, hl⟩ := root_readDir_dir t ht src Q hn hd
      rw [e] at h; cases h; exact hl.1
    · rw [root_readDir_err t ht src Q hn hd] at h; cases h

/-- "created directories are listed once": the merged listing of the cache never lists a name twice -/
theorem readDir_nodup_of_winv (s : State) (W : WInv s) (raw : Bytes) (l : List (Name × Bool))
    (h : readDir s raw = .list l) : (l.map Prod.fst).Nodup := by
  unfold readDir at h
  simp only [] at h
  rcases hr : Root.readDir s.remote (cleanPath raw) with _ | _ | _ | _ | lr | _ | _ <;>
    rcases hb : Root.readDir s.buffer (cleanPath raw) with _ | _ | _ | _ | lb | _ | _ <;>
    rw [hr, hb] at h <;> simp only [] at h <;> (try cases h)
  all_goals
    first
    | exact mergeDirs_nodup _ _ (root_readDir_nodup _ W.2 _ _ hr) (root_readDir_nodup _ W.1 _ _ hb)
    | exact mergeDirs_nodup _ _ (root_readDir_nodup _ W.2 _ _ hr) (by simp)
    | exact mergeDirs_nodup _ _ (by simp) (root_readDir_nodup _ W.1 _ _ hb)

/-! ### read-after-write -/

theorem readFile_buffer_first (s : State) (hb : Inv s.buffer) (c : Bytes) (P : List Name)
    (hn : norm (cleanPath c) = some P) (d : Bytes) (hP : abs s.buffer P = some (.file d)) :
    readFile s c = .data d ∧ ∀ sizes, reader s c sizes = .chunks (FS.readChunks d sizes) := by
  have hs : srcFS s c = (true, cleanPath c) := by
    simp [srcFS, root_isExist_eq _ hb _ P hn, isTrue, hP]
  refine ⟨?_, fun sizes => ?_⟩
  · unfold readFile; rw [hs]; simp only [srcTree, if_true]
    rw [root_readFile_eq _ hb _ P hn, hP]; rfl
  · unfold reader; rw [hs]; simp only [srcTree, if_true]
    rw [root_reader_eq _ hb _ sizes P hn, hP]; rfl

theorem writeFile_buffer (s : State) (hb : Inv s.buffer) (c data : Bytes) (P : List Name) (hn : norm c = some P)
    (hok : (writeFile s c data).2 = .ok) :
    Inv (writeFile s c data).1.buffer ∧ abs (writeFile s c data).1.buffer P = some (.file data) := by
  have hn' := Path.norm_cleanPath c P hn
  have hw := root_writeFile s.buffer hb (cleanPath c) data P hn'
  have hok' : (Root.writeFile s.buffer (cleanPath c) data).2 = .ok := hok
  obtain ⟨_, hst⟩ := mut_ok hw.1 hok'
  refine ⟨hw.2.1.inv hb (Path.norm_plain _ P hn'), ?_⟩
  show abs (Root.writeFile s.buffer (cleanPath c) data).1 P = _
  rw [hst]; exact writeSt_at _ _ _

theorem writer_buffer (s : State) (hb : Inv s.buffer) (c : Bytes) (cs : List Bytes) (P : List Name)
    (hn : norm c = some P) (hok : (writer s c cs).2 = .ok) :
    Inv (writer s c cs).1.buffer ∧ abs (writer s c cs).1.buffer P = some (.file cs.flatten) := by
  have hn' := Path.norm_cleanPath c P hn
  have hw := root_writer s.buffer hb (cleanPath c) cs P hn'
  have hok' : (Root.writer s.buffer (cleanPath c) cs).2 = .ok := hok
  obtain ⟨_, hst⟩ := mut_ok hw.1 hok'
  refine ⟨hw.2.1.inv hb (Path.norm_plain _ P hn'), ?_⟩
  show abs (Root.writer s.buffer (cleanPath c) cs).1 P = _
  rw [hst]; exact writeSt_at _ _ _

/-- READ-AFTER-WRITE.  Whatever the remote holds and whatever is journalled: data written through the cache
(through any ok handle, any spelling) is what `ReadFile` / `Reader` return through any ok handle and any
spelling that reaches the same path. -/
theorem read_after_write_gen (s : State) (hb : Inv s.buffer) (h h' : Handle) (hok : h.ok = true)
    (hok' : h'.ok = true) (b b' : List Name) (hbase : handleBase h = some b) (hbase' : handleBase h' = some b')
    (raw raw' : Bytes) (p p' : List Name) (hn : norm raw = some p) (hn' : norm raw' = some p')
    (hsame : b ++ p = b' ++ p') :
    (∀ data, (step h s (.writeFile raw data)).2 = .ok →
      (step h' (step h s (.writeFile raw data)).1 (.readFile raw')).2 = .data data
      ∧ ∀ sizes, (step h' (step h s (.writeFile raw data)).1 (.reader raw' sizes)).2
          = .chunks (FS.readChunks data sizes))
    ∧ (∀ cs, (step h s (.writer raw cs)).2 = .ok →
      (step h' (step h s (.writer raw cs)).1 (.readFile raw')).2 = .data cs.flatten
      ∧ ∀ sizes, (step h' (step h s (.writer raw cs)).1 (.reader raw' sizes)).2
          = .chunks (FS.readChunks cs.flatten sizes)) := by
  obtain ⟨b1, _, hb1, _, _, hshape⟩ := handle_ok hok
  obtain ⟨b2, _, hb2, _, _, hshape'⟩ := handle_ok hok'
  rw [hbase] at hb1; cases hb1
  rw [hbase'] at hb2; cases hb2
  have hc := norm_cachePath hshape raw p hn
  have hc' := Path.norm_cleanPath _ _ (norm_cachePath hshape' raw' p' hn')
  rw [← hsame] at hc'
  constructor
  · intro data hw
    rw [(step_eq_cachePath hshape s raw p hn).1 data] at hw ⊢
    obtain ⟨hi, hP⟩ := writeFile_buffer s hb _ data _ hc hw
    have := readFile_buffer_first _ hi _ _ hc' data hP
    rw [(step_read_some hshape' _ raw' p' hn').2.2.2.1]
    refine ⟨this.1, fun sizes => ?_⟩
    rw [(step_read_some hshape' _ raw' p' hn').2.2.2.2.1 sizes]
    exact this.2 sizes
  · intro cs hw
    rw [(step_eq_cachePath hshape s raw p hn).2.1 cs] at hw ⊢
    obtain ⟨hi, hP⟩ := writer_buffer s hb _ cs _ hc hw
    have := readFile_buffer_first _ hi _ _ hc' _ hP
    rw [(step_read_some hshape' _ raw' p' hn').2.2.2.1]
    refine ⟨this.1, fun sizes => ?_⟩
    rw [(step_read_some hshape' _ raw' p' hn').2.2.2.2.1 sizes]
    exact this.2 sizes

/-! ### child views -/

theorem norm_append_slash (x : Bytes) : norm (x ++ [slash]) = norm x := by
  have e : x ++ [slash] = x ++ slash :: [] := rfl
  unfold norm Path.reduceSegs
  rw [e, Path.split_append_slash, Path.reduceGo_append]
  cases Path.reduceGo (Path.split x) [] with
  | none => rfl
  | some r => simp [Path.split_nil, Path.reduceGo_empty_seg]

/-- `Filespace(raw)` through an ok handle with a non-climbing path: an ok handle rooted at base ++ path
(views of views, to any depth) -/
theorem openView_ok (h : Handle) (hok : h.ok = true) (raw : Bytes) (q : List Name) (hn : norm raw = some q) :
    ∃ h' b, openView h raw = some h' ∧ h'.ok = true ∧ handleBase h = some b ∧ handleBase h' = some (b ++ q) := by
  obtain ⟨b, _, hb, _, _, hshape⟩ := handle_ok hok
  rcases hshape with ⟨rfl, rfl⟩ | ⟨base0, rfl, hb0⟩
  · refine ⟨.sub (Path.clean raw ++ [slash]), [], rfl, ?_, rfl, ?_⟩
    · have hl : (Path.clean raw ++ [slash]).getLast? = some slash := List.getLast?_concat ..
      simp only [Handle.ok, nf, norm_append_slash, Path.norm_clean raw q hn, hl]
      simp
    · simp only [handleBase, norm_append_slash, Path.norm_clean raw q hn]; rfl
  · have hq := Path.norm_reduced raw q hn
    have e : norm (base0 ++ [slash] ++ join q ++ [slash]) = some (b ++ q) := by
      rw [norm_append_slash]; exact norm_sub base0 b q hb0 hq
    refine ⟨.sub (base0 ++ [slash] ++ join q ++ [slash]), b, ?_, ?_, hb, ?_⟩
    · simp [openView, reduceAbsPath_of_norm hn]
    · have hl : (base0 ++ [slash] ++ join q ++ [slash]).getLast? = some slash := List.getLast?_concat ..
      simp only [Handle.ok, nf, e, hl]; simp
    · exact e

/-- direct application IS a run of the specification -/
theorem direct_is_spec (h : Handle) (hok : h.ok = true) (D : Node) (hD : Inv D) (op : Op) :
    ∃ b, handleBase h = some b ∧ FS.Step b (abs D) op (directStep D h op).2 (abs (directStep D h op).1) := by
  obtain ⟨b, ref, hb, hs, hv, _⟩ := handle_ok hok
  refine ⟨b, hb, ?_⟩
  simp only [directStep, hs]
  exact (step_refines ref b hv D hD op).1

/-! ### an injected failure is reported -/

theorem commitRemove_counter (k : Nat) (l : List Bytes) (r : Node) (n : Nat) :
    n ≤ (commitRemove (some k) l r n).2.1
    ∧ ((commitRemove (some k) l r n).2.2 = true → k < n ∨ (commitRemove (some k) l r n).2.1 ≤ k) := by
  induction l generalizing r n with
  | nil => simp [commitRemove]; omega
  | cons src rest ih =>
    unfold commitRemove
    split
    · by_cases hk : k = n
      · subst hk; simp [remoteCall]
      · have hk' : ¬ (some k = some n) := fun e => hk (Option.some.inj e)
        simp only [remoteCall, if_neg hk']
        rcases hc : Root.remove r src with ⟨r', res⟩
        cases res <;> simp only [] <;> try (simp; done)
        have := ih r' (n + 1)
        exact ⟨by omega, fun h => by rcases this.2 h with h' | h' <;> omega⟩
    · exact ih r n

theorem commitRemoveAll_counter (k : Nat) (l : List Bytes) (r : Node) (n : Nat) :
    n ≤ (commitRemoveAll (some k) l r n).2.1
    ∧ ((commitRemoveAll (some k) l r n).2.2 = true → k < n ∨ (commitRemoveAll (some k) l r n).2.1 ≤ k) := by
  induction l generalizing r n with
  | nil => simp [commitRemoveAll]; omega
  | cons src rest ih =>
    unfold commitRemoveAll
    split
    · by_cases hk : k = n
      · subst hk; simp [remoteCall]
      · have hk' : ¬ (some k = some n) := fun e => hk (Option.some.inj e)
        simp only [remoteCall, if_neg hk']
        rcases hc : Root.removeAll r src with ⟨r', res⟩
        cases res <;> simp only [] <;> try (simp; done)
        have := ih r' (n + 1)
        exact ⟨by omega, fun h => by rcases this.2 h with h' | h' <;> omega⟩
    · exact ih r n

theorem commitMkdir_counter (k : Nat) (buffer : Node) (l : List Bytes) (r : Node) (n : Nat) :
    n ≤ (commitMkdir (some k) buffer l r n).2.1
    ∧ ((commitMkdir (some k) buffer l r n).2.2 = true → k < n ∨ (commitMkdir (some k) buffer l r n).2.1 ≤ k) := by
  induction l generalizing r n with
  | nil => simp [commitMkdir]; omega
  | cons src rest ih =>
    unfold commitMkdir
    split
    · by_cases hk : k = n
      · subst hk; simp [remoteCall]
      · have hk' : ¬ (some k = some n) := fun e => hk (Option.some.inj e)
        simp only [remoteCall, if_neg hk']
        rcases hc : Root.mkdirAll r src with ⟨r', res⟩
        cases res <;> simp only [] <;> try (simp; done)
        have := ih r' (n + 1)
        exact ⟨by omega, fun h => by rcases this.2 h with h' | h' <;> omega⟩
    · exact ih r n

theorem remoteStream_counter (k n : Nat) (src : Bytes) (chunks : List Bytes) (r : Node) :
    n < (remoteStream (some k) n src chunks r).2
    ∧ ((remoteStream (some k) n src chunks r).1.2 = .ok → k < n ∨ (remoteStream (some k) n src chunks r).2 ≤ k) := by
  unfold remoteStream
  by_cases h0 : k = n
  · subst h0; simp
  · have h0' : ¬ (some k = some n) := fun e => h0 (Option.some.inj e)
    rw [if_neg h0']
    rcases Root.writer r src [] with ⟨r', res⟩
    cases res
    case ok =>
      simp only []
      by_cases h1 : n < k ∧ k ≤ n + chunks.length
      · rw [if_pos h1]; simp only []; exact ⟨by omega, fun h => absurd h (by simp)⟩
      · rw [if_neg h1]
        by_cases h2 : k = n + chunks.length + 1
        · rw [if_pos h2]; simp only []; exact ⟨by omega, fun h => absurd h (by simp)⟩
        · rw [if_neg h2]; simp only []; exact ⟨by omega, fun _ => by omega⟩
    all_goals exact ⟨by simp, fun h => absurd h (by simp)⟩

theorem commitWrite_counter (k : Nat) (buffer : Node) (l : List Bytes) (r : Node) (n : Nat) :
    n ≤ (commitWrite (some k) buffer l r n).2.1
    ∧ ((commitWrite (some k) buffer l r n).2.2 = true → k < n ∨ (commitWrite (some k) buffer l r n).2.1 ≤ k) := by
  induction l generalizing r n with
  | nil => simp [commitWrite]; omega
  | cons src rest ih =>
    unfold commitWrite
    by_cases hk : k = n
    · subst hk; simp [remoteCall]
    · have hk' : ¬ (some k = some n) := fun e => hk (Option.some.inj e)
      simp only [remoteCall, if_neg hk']
      rcases hc : Root.mkdirAll r (pathDir src) with ⟨r1, res⟩
      cases res <;> simp only [] <;> try (simp; done)
      split
      · rcases hrd : Root.readFile buffer src with _ | _ | _ | d | _ | _ | _ <;> simp only [] <;> try (simp; done)
        have hs := remoteStream_counter k (n + 1) src (ioChunks d) r1
        rcases hw : remoteStream (some k) (n + 1) src (ioChunks d) r1 with ⟨⟨r2, res2⟩, n'⟩
        rw [hw] at hs
        simp only [] at hs
        cases res2 <;> simp only [] <;> try (exact ⟨by omega, fun h => absurd h (by simp)⟩)
        have := ih r2 n'
        refine ⟨by omega, fun h => ?_⟩
        rcases this.2 h with h' | h'
        · rcases hs.2 rfl with h'' | h'' <;> omega
        · exact Or.inr h'
      · have := ih r1 (n + 1)
        exact ⟨by omega, fun h => by rcases this.2 h with h' | h' <;> omega⟩

/-- "If the remote fails during Commit the failure is reported": when the call that was to fail has been made
(its index is below the number of calls made), Commit did not return nil.  Any state, any iteration orders. -/
theorem commit_fail_reported (rm rma mk wr : List Bytes) (k : Nat) (s : State)
    (hfired : k < (commitWith rm rma mk wr (some k) s).2.1) :
    (commitWith rm rma mk wr (some k) s).2.2 = false := by
  unfold commitWith at hfired ⊢
  have c1 := commitRemove_counter k rm s.remote 0
  rcases h1 : commitRemove (some k) rm s.remote 0 with ⟨r1, n1, ok1⟩
  rw [h1] at c1 hfired
  cases ok1
  · rfl
  · simp only [] at hfired ⊢
    have c2 := commitRemoveAll_counter k rma r1 n1
    rcases h2 : commitRemoveAll (some k) rma r1 n1 with ⟨r2, n2, ok2⟩
    rw [h2] at c2 hfired
    cases ok2
    · rfl
    · simp only [] at hfired ⊢
      have c3 := commitMkdir_counter k s.buffer mk r2 n2
      rcases h3 : commitMkdir (some k) s.buffer mk r2 n2 with ⟨r3, n3, ok3⟩
      rw [h3] at c3 hfired
      cases ok3
      · rfl
      · simp only [] at hfired ⊢
        have c4 := commitWrite_counter k s.buffer wr r3 n3
        rcases h4 : commitWrite (some k) s.buffer wr r3 n3 with ⟨r4, n4, ok4⟩
        rw [h4] at c4 hfired
        simp only [] at hfired ⊢
        cases ok4
        · rfl
        · exfalso
          have a1 := c1.2 rfl
          have a2 := c2.2 rfl
          have a3 := c3.2 rfl
          have a4 := c4.2 rfl
          simp only [] at a1 a2 a3 a4 c1 c2 c3 c4
          omega

/-! ### a call that fails journals nothing for Commit to replay -/

theorem jaddIf_of_ne (r : Result) (j : List Bytes) (k : Bytes) (h : r ≠ .ok) : jaddIf r j k = j := by
  simp [jaddIf, h]

theorem copy_failed (s : State) (a b : Bytes) (h : (copy s a b).2 ≠ .ok) :
    (copy s a b).1.write = s.write ∧ (copy s a b).1.remove = s.remove ∧ (copy s a b).1.removeAll = s.removeAll := by
  unfold copy at h ⊢
  simp only [] at h ⊢
  split
  · exact ⟨rfl, rfl, rfl⟩
  · next hov =>
    rw [if_neg hov] at h
    simp only [copier] at h ⊢
    exact ⟨jaddIf_of_ne _ _ _ h, trivial, trivial⟩

theorem stepCache_failed (s : State) (op : Op) (h : (stepCache s op).2 ≠ .ok) :
    (stepCache s op).1.write = s.write ∧ (stepCache s op).1.remove = s.remove
    ∧ (stepCache s op).1.removeAll = s.removeAll := by
  cases op <;> simp only [stepCache] at h ⊢ <;> try exact ⟨trivial, trivial, trivial⟩
  case copy a b => exact copy_failed s a b h
  case copyDirectory a b =>
    unfold copyDirectory at h ⊢
    simp only [] at h ⊢
    split
    · exact ⟨rfl, rfl, rfl⟩
    · next hc => rw [if_neg hc] at h; exact copy_failed s _ _ h
  case copyFile a b =>
    unfold copyFile at h ⊢
    simp only [] at h ⊢
    split
    · exact ⟨rfl, rfl, rfl⟩
    · next hc => rw [if_neg hc] at h; exact copy_failed s _ _ h
  case mkdirAll p => exact ⟨rfl, rfl, rfl⟩
  case writeFile p d => exact ⟨jaddIf_of_ne _ _ _ h, rfl, rfl⟩
  case writer p c => exact ⟨jaddIf_of_ne _ _ _ h, rfl, rfl⟩
  case remove p => exact ⟨rfl, jaddIf_of_ne _ _ _ h, rfl⟩
  case removeAll p => exact ⟨rfl, rfl, jaddIf_of_ne _ _ _ h⟩

/-- a call that does not answer `ok` (through any handle) leaves the write, remove and removeAll journals as they
were: nothing of it will be replayed by Commit (`MkdirAll` journals its path in any case; Commit replays such an
entry only while the buffer has that directory) -/
theorem step_failed (h : Handle) (s : State) (op : Op) (hr : (step h s op).2 ≠ .ok) :
    (step h s op).1.write = s.write ∧ (step h s op).1.remove = s.remove ∧ (step h s op).1.removeAll = s.removeAll := by
  cases h with
  | cache => exact stepCache_failed s op hr
  | sub base =>
    simp only [step] at hr ⊢
    split
    · next op' hop => rw [hop] at hr; exact stepCache_failed s op' hr
    · exact ⟨rfl, rfl, rfl⟩

/-- `Copy*` with a source and destination that are the same node or contain one another is refused and changes
nothing -/
theorem copy_overlap_refused (s : State) (a b : Bytes)
    (h : overlaps (cleanPath a) (cleanPath b) = true) : copy s a b = (s, .err) := by
  unfold copy
  simp only [srcFS]
  simp [h]

end Cache
end Goat
