/-
Order irrelevance of Commit, for EVERY state with well-formed trees (not only the class of the `_partial`
theorems): the four replay loops are folds of steps that commute pairwise on abstract trees.

  1. abstract steps on `FS.State` (`pRm`, `pRma`, `pMk`, `pWr`) as Kleisli maps `State → Option State`
     (`none` = the remote call reports an error) and their pairwise commutation on realizable trees
  2. each loop of `commitWith … none` (no injected failure) refines the fold of its abstract steps
  3. folds of pairwise commuting steps are invariant under permutation
-/
import Goat.Proofs.CacheHist

namespace Goat
namespace Cache

open Path (Name norm join slash Reduced Plain cleanPath reduceAbsPath)
open FS (Op Result Entry Mut)
open MemFS MemAbs

/-! ### realizable abstract trees -/

/-- the abstract tree of some well-formed memory tree -/
def Real (S : FS.State) : Prop := ∃ t, Inv t ∧ abs t = S

theorem Real.root {S : FS.State} (h : Real S) : S [] = some .dir := by
  obtain ⟨t, ht, rfl⟩ := h
  obtain ⟨k, rfl⟩ := ht.dir
  rfl

theorem Real.below {S : FS.State} (h : Real S) (q r : List Name) (hr : r ≠ []) (hq : S q ≠ some .dir) :
    S (q ++ r) = none := by
  obtain ⟨t, _, rfl⟩ := h
  exact abs_below t q r hr hq

theorem Real.below_none {S : FS.State} (h : Real S) (P q : List Name) (hP : S P = none) (hq : P <+: q) :
    S q = none := by
  obtain ⟨t, _, rfl⟩ := h
  exact remote_below_none t P q hP hq

/-! ### abstract steps -/

def isFileS (e : Option Entry) : Prop := ∃ d, e = some (.file d)

open Classical in
/-- `if remote.IsFile(Q) { remote.Remove(Q) }` -/
noncomputable def pRm (Q : List Name) (S : FS.State) : Option FS.State :=
  some (if isFileS (S Q) then FS.removeSt S Q else S)

/-- `if remote.IsExist(Q) { remote.RemoveAll(Q) }` (on a tree: removing below a missing node changes nothing) -/
def pRma (Q : List Name) (S : FS.State) : Option FS.State :=
  if Q = [] then none else some (FS.removeAllSt S Q)

open Classical in
/-- `remote.MkdirAll(M)` -/
noncomputable def pMk (M : List Name) (S : FS.State) : Option FS.State :=
  if FS.mkdirOk S M then some (FS.mkdirSt S M) else none

open Classical in
/-- `remote.Writer(W)` + data -/
noncomputable def pWr (W : List Name) (d : Bytes) (S : FS.State) : Option FS.State :=
  if FS.writeOk S W then some (FS.writeSt S W d) else none

/-- two Kleisli steps commute on realizable trees -/
def Commute (f g : FS.State → Option FS.State) : Prop :=
  ∀ S, Real S → (f S).bind g = (g S).bind f

/-- a step keeps trees realizable -/
def KeepsReal (f : FS.State → Option FS.State) : Prop := ∀ S S', Real S → f S = some S' → Real S'

/-! ### realizability of the steps (through the memory filespace) -/

theorem real_pMk (M : List Name) (hM : Reduced M) : KeepsReal (pMk M) := by
  intro S S' ⟨t, ht, e⟩ h
  subst e
  unfold pMk at h
  split at h
  · next hok =>
    cases h
    have hn := Path.norm_join M hM
    have hw := root_mkdirAll t ht (join M) M hn
    rcases hw.1 with ⟨_, _, c⟩ | ⟨a, _, _⟩
    · exact ⟨_, hw.2.1.inv ht (fun s hs => (hM s hs).1), c⟩
    · exact absurd hok a
  · cases h

theorem real_pWr (W : List Name) (d : Bytes) (hW : Reduced W) : KeepsReal (pWr W d) := by
  intro S S' ⟨t, ht, e⟩ h
  subst e
  unfold pWr at h
  split at h
  · next hok =>
    cases h
    have hn := Path.norm_join W hW
    have hw := root_writeFile t ht (join W) d W hn
    rcases hw.1 with ⟨_, _, c⟩ | ⟨a, _, _⟩
    · exact ⟨_, hw.2.1.inv ht (fun s hs => (hW s hs).1), c⟩
    · exact absurd hok a
  · cases h

theorem real_pRma (Q : List Name) (hQ : Reduced Q) : KeepsReal (pRma Q) := by
  intro S S' ⟨t, ht, e⟩ h
  subst e
  unfold pRma at h
  split at h
  · cases h
  · next hne =>
    cases h
    by_cases hex : abs t Q = none
    · refine ⟨t, ht, ?_⟩
      funext q
      simp only [FS.removeAllSt]
      split
      · next hq => exact remote_below_none t Q q hex hq
      · rfl
    · have hn := Path.norm_join Q hQ
      have hw := root_removeAll t ht (join Q) Q hn
      rcases hw.1 with ⟨_, _, c⟩ | ⟨a, _, _⟩
      · exact ⟨_, hw.2.1.inv ht (by simp), c⟩
      · exact absurd ⟨hne, hex⟩ a

theorem real_pRm (Q : List Name) (hQ : Reduced Q) : KeepsReal (pRm Q) := by
  intro S S' ⟨t, ht, e⟩ h
  subst e
  unfold pRm at h
  cases h
  split
  · next hf =>
    obtain ⟨d, hd⟩ := hf
    have hne : Q ≠ [] := by
      rintro rfl
      obtain ⟨k, rfl⟩ := ht.dir
      simp [abs, Node.lookup, Node.entry] at hd
    have hn := Path.norm_join Q hQ
    have hw := root_remove t ht (join Q) Q hn
    rcases hw.1 with ⟨_, _, c⟩ | ⟨a, _, _⟩
    · exact ⟨_, hw.2.1.inv ht (by simp), c⟩
    · exact absurd ⟨hne, Or.inl ⟨d, hd⟩⟩ a
  · exact ⟨t, ht, rfl⟩

/-! ### commutation -/

theorem removeSt_other (S : FS.State) (Q1 Q2 : List Name) (h : Q2 ≠ Q1) : FS.removeSt S Q1 Q2 = S Q2 := by
  simp [FS.removeSt, h]

theorem removeSt_comm (S : FS.State) (Q1 Q2 : List Name) :
    FS.removeSt (FS.removeSt S Q1) Q2 = FS.removeSt (FS.removeSt S Q2) Q1 := by
  funext q
  by_cases a : q = Q1 <;> by_cases b : q = Q2 <;> simp [FS.removeSt, a, b]

theorem commute_pRm (Q1 Q2 : List Name) : Commute (pRm Q1) (pRm Q2) := by
  intro S _
  simp only [pRm, Option.bind_some]
  congr 1
  by_cases e : Q1 = Q2
  · subst e; rfl
  · have e' : Q2 ≠ Q1 := fun h => e h.symm
    by_cases h1 : isFileS (S Q1) <;> by_cases h2 : isFileS (S Q2)
    · rw [if_pos h1, if_pos h2, if_pos (by rw [removeSt_other S Q1 Q2 e']; exact h2),
        if_pos (by rw [removeSt_other S Q2 Q1 e]; exact h1), removeSt_comm]
    · rw [if_pos h1, if_neg h2, if_neg (by rw [removeSt_other S Q1 Q2 e']; exact h2), if_pos h1]
    · rw [if_neg h1, if_pos h2, if_neg (by rw [removeSt_other S Q2 Q1 e]; exact h1)]
    · rw [if_neg h1, if_neg h2, if_neg h1]

theorem removeAllSt_comm (S : FS.State) (Q1 Q2 : List Name) :
    FS.removeAllSt (FS.removeAllSt S Q1) Q2 = FS.removeAllSt (FS.removeAllSt S Q2) Q1 := by
  funext q
  by_cases a : Q1 <+: q <;> by_cases b : Q2 <+: q <;> simp [FS.removeAllSt, a, b]

theorem commute_pRma (Q1 Q2 : List Name) : Commute (pRma Q1) (pRma Q2) := by
  intro S _
  unfold pRma
  by_cases h1 : Q1 = [] <;> by_cases h2 : Q2 = [] <;> simp [h1, h2, removeAllSt_comm]

/-- creating directories does not change where the files are -/
theorem mkdirOk_mkdirSt (S : FS.State) (M1 M2 : List Name) (h1 : FS.mkdirOk S M1) :
    FS.mkdirOk (FS.mkdirSt S M1) M2 ↔ FS.mkdirOk S M2 := by
  constructor
  · intro h q hq d hf
    by_cases a : q <+: M1
    · exact h1 q a d hf
    · exact h q hq d (by simp [FS.mkdirSt, a, hf])
  · intro h q hq d hf
    by_cases a : q <+: M1
    · simp [FS.mkdirSt, a] at hf
    · simp only [FS.mkdirSt, if_neg a] at hf; exact h q hq d hf

theorem mkdirSt_comm (S : FS.State) (M1 M2 : List Name) :
    FS.mkdirSt (FS.mkdirSt S M1) M2 = FS.mkdirSt (FS.mkdirSt S M2) M1 := by
  funext q
  by_cases a : q <+: M1 <;> by_cases b : q <+: M2 <;> simp [FS.mkdirSt, a, b]

theorem commute_pMk (M1 M2 : List Name) : Commute (pMk M1) (pMk M2) := by
  intro S _
  unfold pMk
  by_cases h1 : FS.mkdirOk S M1 <;> by_cases h2 : FS.mkdirOk S M2
  · simp only [if_pos h1, if_pos h2, Option.bind_some, if_pos ((mkdirOk_mkdirSt S M1 M2 h1).mpr h2),
      if_pos ((mkdirOk_mkdirSt S M2 M1 h2).mpr h1), mkdirSt_comm]
  · simp only [if_pos h1, if_neg h2, Option.bind_some, Option.bind_none,
      if_neg (fun h => h2 ((mkdirOk_mkdirSt S M1 M2 h1).mp h))]
  · simp only [if_neg h1, if_pos h2, Option.bind_some, Option.bind_none,
      if_neg (fun h => h1 ((mkdirOk_mkdirSt S M2 M1 h2).mp h))]
  · simp only [if_neg h1, if_neg h2, Option.bind_none]

/-- `MkdirAll(D)` and a file write at `W`, in either order: defined exactly when both are defined on `S` and `W`
is not on the way to `D`; the result is the same -/
theorem pMk_pWr_eq (D W : List Name) (d : Bytes) (S : FS.State) :
    ((pMk D S).bind (pWr W d) = (pWr W d S).bind (pMk D)) := by
  unfold pMk pWr
  by_cases hD : FS.mkdirOk S D
  · by_cases hW : FS.writeOk S W
    · by_cases hp : W <+: D
      · -- both orders fail
        have hA : ¬ FS.writeOk (FS.mkdirSt S D) W := fun h => h.2.2 (by simp [FS.mkdirSt, hp])
        have hB : ¬ FS.mkdirOk (FS.writeSt S W d) D := fun h => h W hp d (by simp [FS.writeSt])
        simp only [if_pos hD, if_pos hW, Option.bind_some, if_neg hA, if_neg hB]
      · have hA : FS.writeOk (FS.mkdirSt S D) W :=
          ⟨hW.1, (mkdirOk_mkdirSt S D _ hD).mpr hW.2.1, by simp only [FS.mkdirSt, if_neg hp]; exact hW.2.2⟩
        have hB : FS.mkdirOk (FS.writeSt S W d) D := by
          intro q hq dd hf
          simp only [FS.writeSt] at hf
          by_cases a : q = W
          · exact hp (a ▸ hq)
          · rw [if_neg a] at hf
            simp only [FS.mkdirSt] at hf
            by_cases b : q <+: W.dropLast
            · rw [if_pos b] at hf; cases hf
            · rw [if_neg b] at hf; exact hD q hq dd hf
        simp only [if_pos hD, if_pos hW, Option.bind_some, if_pos hA, if_pos hB]
        congr 1
        funext q
        simp only [FS.writeSt, FS.mkdirSt]
        by_cases a : q = W
        · have : ¬ q <+: D := fun h => hp (a ▸ h)
          simp [a, hp]
        · by_cases b : q <+: W.dropLast <;> by_cases c : q <+: D <;> simp [a, b, c]
    · have hA : ¬ FS.writeOk (FS.mkdirSt S D) W := by
        intro h
        refine hW ⟨h.1, (mkdirOk_mkdirSt S D _ hD).mp h.2.1, fun hd => h.2.2 ?_⟩
        simp only [FS.mkdirSt]; split <;> simp [hd]
      simp only [if_pos hD, if_neg hW, Option.bind_some, Option.bind_none, if_neg hA]
  · by_cases hW : FS.writeOk S W
    · have hB : ¬ FS.mkdirOk (FS.writeSt S W d) D := by
        intro h
        apply hD
        intro q hq dd hf
        by_cases a : q = W
        · exact h q hq d (by simp [FS.writeSt, a])
        · by_cases b : q <+: W.dropLast
          · exact hW.2.1 q b dd hf
          · exact h q hq dd (by simp [FS.writeSt, a, FS.mkdirSt, b, hf])
      simp only [if_neg hD, if_pos hW, Option.bind_some, Option.bind_none, if_neg hB]
    · simp only [if_neg hD, if_neg hW, Option.bind_none]

theorem commute_pMk_pWr (D W : List Name) (d : Bytes) : Commute (pMk D) (pWr W d) :=
  fun S _ => pMk_pWr_eq D W d S

theorem commute_pWr_pMk (D W : List Name) (d : Bytes) : Commute (pWr W d) (pMk D) :=
  fun S _ => (pMk_pWr_eq D W d S).symm

/-- two file writes at different paths, in this order: defined exactly when both are defined on `S` and neither
file is on the way to the other; then the result is the point-wise formula -/
theorem pWr_pWr_eq (W1 W2 : List Name) (d1 d2 : Bytes) (hne : W1 ≠ W2) (S : FS.State) :
    (pWr W1 d1 S).bind (pWr W2 d2)
      = (open Classical in
         if FS.writeOk S W1 ∧ FS.writeOk S W2 ∧ ¬ W1 <+: W2.dropLast ∧ ¬ W2 <+: W1.dropLast then
           some (fun q => if q = W1 then some (.file d1) else if q = W2 then some (.file d2)
                  else if q <+: W1.dropLast ∨ q <+: W2.dropLast then some .dir else S q)
         else none) := by
  have hne' : W2 ≠ W1 := fun e => hne e.symm
  unfold pWr
  by_cases h1 : FS.writeOk S W1
  · simp only [if_pos h1, Option.bind_some]
    by_cases hgood : FS.writeOk S W2 ∧ ¬ W1 <+: W2.dropLast ∧ ¬ W2 <+: W1.dropLast
    · obtain ⟨h2, n12, n21⟩ := hgood
      have hA : FS.writeOk (FS.writeSt S W1 d1) W2 := by
        refine ⟨h2.1, ?_, ?_⟩
        · intro q hq dd hf
          simp only [FS.writeSt] at hf
          by_cases a : q = W1
          · exact n12 (a ▸ hq)
          · rw [if_neg a] at hf
            simp only [FS.mkdirSt] at hf
            by_cases b : q <+: W1.dropLast
            · rw [if_pos b] at hf; cases hf
            · rw [if_neg b] at hf; exact h2.2.1 q hq dd hf
        · simp only [FS.writeSt, if_neg hne', FS.mkdirSt, if_neg n21]
          exact h2.2.2
      rw [if_pos hA, if_pos ⟨h1, h2, n12, n21⟩]
      congr 1
      funext q
      simp only [FS.writeSt, FS.mkdirSt]
      by_cases a : q = W1
      · have : q ≠ W2 := fun e => hne (a ▸ e)
        have hn : ¬ q <+: W2.dropLast := fun h => n12 (a ▸ h)
        simp [a, hne, n12]
      · by_cases b : q = W2
        · subst b; simp [hne']
        · by_cases c : q <+: W1.dropLast <;> by_cases e : q <+: W2.dropLast <;> simp [a, b, c, e]
    · have hA : ¬ FS.writeOk (FS.writeSt S W1 d1) W2 := by
        intro h
        apply hgood
        have n12 : ¬ W1 <+: W2.dropLast := fun hp => h.2.1 W1 hp d1 (by simp [FS.writeSt])
        have n21 : ¬ W2 <+: W1.dropLast := fun hp => h.2.2 (by
          simp [FS.writeSt, hne', FS.mkdirSt, hp])
        refine ⟨⟨h.1, ?_, ?_⟩, n12, n21⟩
        · intro q hq dd hf
          by_cases a : q = W1
          · exact n12 (a ▸ hq)
          · by_cases b : q <+: W1.dropLast
            · exact h1.2.1 q b dd hf
            · exact h.2.1 q hq dd (by simp [FS.writeSt, a, FS.mkdirSt, b, hf])
        · intro hd
          apply h.2.2
          simp only [FS.writeSt, if_neg hne', FS.mkdirSt, if_neg n21]
          exact hd
      rw [if_neg hA, if_neg (fun h => hgood ⟨h.2.1, h.2.2.1, h.2.2.2⟩)]
  · simp only [if_neg h1, Option.bind_none]
    rw [if_neg (fun h => h1 h.1)]

theorem commute_pWr (W1 W2 : List Name) (d1 d2 : Bytes) (hd : W1 = W2 → d1 = d2) :
    Commute (pWr W1 d1) (pWr W2 d2) := by
  intro S _
  by_cases e : W1 = W2
  · subst e; rw [hd rfl]
  · have e' : W2 ≠ W1 := fun h => e h.symm
    rw [pWr_pWr_eq W1 W2 d1 d2 e S, pWr_pWr_eq W2 W1 d2 d1 e' S]
    by_cases hc : FS.writeOk S W1 ∧ FS.writeOk S W2 ∧ ¬ W1 <+: W2.dropLast ∧ ¬ W2 <+: W1.dropLast
    · rw [if_pos hc, if_pos ⟨hc.2.1, hc.1, hc.2.2.2, hc.2.2.1⟩]
      congr 1
      funext q
      by_cases a : q = W1
      · have : q ≠ W2 := fun h => e (a ▸ h)
        simp [a, e]
      · by_cases b : q = W2
        · subst b; simp [e']
        · simp [a, b, or_comm]
    · rw [if_neg hc, if_neg (fun h => hc ⟨h.2.1, h.1, h.2.2.2, h.2.2.1⟩)]

/-! ### Kleisli folds and permutations -/

theorem Commute.symm {f g : FS.State → Option FS.State} (h : Commute f g) : Commute g f :=
  fun S hS => (h S hS).symm

theorem commute_some_left (g : FS.State → Option FS.State) : Commute some g := by
  intro S _
  simp

theorem commute_none_left (g : FS.State → Option FS.State) : Commute (fun _ => none) g := by
  intro S _
  cases g S <;> simp

theorem keepsReal_some : KeepsReal some := by
  intro S S' h e; cases e; exact h

theorem keepsReal_none : KeepsReal (fun _ => none) := by
  intro S S' _ e; cases e

/-- `f` then `g` -/
def seqK (f g : FS.State → Option FS.State) : FS.State → Option FS.State := fun S => (f S).bind g

theorem keepsReal_seqK {f g : FS.State → Option FS.State} (hf : KeepsReal f) (hg : KeepsReal g) :
    KeepsReal (seqK f g) := by
  intro S S' hS e
  unfold seqK at e
  cases h1 : f S with
  | none => simp [h1] at e
  | some S1 =>
    rw [h1] at e
    exact hg S1 S' (hf S S1 hS h1) e

theorem commute_seqK_left {f g h : FS.State → Option FS.State} (hf : KeepsReal f)
    (c1 : Commute f h) (c2 : Commute g h) : Commute (seqK f g) h := by
  intro S hS
  unfold seqK
  have e1 : ((f S).bind g).bind h = (f S).bind (fun S1 => (g S1).bind h) := by
    cases f S <;> simp
  have e2 : (f S).bind (fun S1 => (g S1).bind h) = (f S).bind (fun S1 => (h S1).bind g) := by
    cases h1 : f S with
    | none => rfl
    | some S1 => simp only [Option.bind_some]; exact c2 S1 (hf S S1 hS h1)
  have e3 : (f S).bind (fun S1 => (h S1).bind g) = ((f S).bind h).bind g := by
    cases f S <;> simp
  have e4 : ((h S).bind f).bind g = (h S).bind (fun S2 => (f S2).bind g) := by
    cases h S <;> simp
  rw [e1, e2, e3, c1 S hS, e4]

theorem commute_seqK {f1 g1 f2 g2 : FS.State → Option FS.State} (hf1 : KeepsReal f1) (hf2 : KeepsReal f2)
    (cff : Commute f1 f2) (cfg : Commute f1 g2) (cgf : Commute g1 f2) (cgg : Commute g1 g2) :
    Commute (seqK f1 g1) (seqK f2 g2) :=
  commute_seqK_left hf1 (commute_seqK_left hf2 cff.symm cfg.symm).symm
    (commute_seqK_left hf2 cgf.symm cgg.symm).symm

def foldK : List (FS.State → Option FS.State) → FS.State → Option FS.State
  | [], S => some S
  | f :: rest, S => (f S).bind (foldK rest)

theorem keepsReal_foldK (l : List (FS.State → Option FS.State)) (h : ∀ f ∈ l, KeepsReal f) :
    KeepsReal (foldK l) := by
  induction l with
  | nil => exact keepsReal_some
  | cons f rest ih =>
    exact keepsReal_seqK (h f (by simp)) (ih (fun g hg => h g (List.mem_cons_of_mem _ hg)))

/-- a fold of pairwise commuting, realizability-preserving steps does not depend on the order -/
theorem foldK_perm {l l' : List (FS.State → Option FS.State)} (hp : l.Perm l')
    (hc : ∀ f ∈ l, ∀ g ∈ l, Commute f g) (hr : ∀ f ∈ l, KeepsReal f) :
    ∀ S, Real S → foldK l S = foldK l' S := by
  induction hp with
  | nil => intro S _; rfl
  | cons x _ ih =>
    intro S hS
    simp only [foldK]
    cases h1 : x S with
    | none => rfl
    | some S1 =>
      simp only [Option.bind_some]
      exact ih (fun f hf g hg => hc f (List.mem_cons_of_mem _ hf) g (List.mem_cons_of_mem _ hg))
        (fun f hf => hr f (List.mem_cons_of_mem _ hf)) S1 (hr x (by simp) S S1 hS h1)
  | swap x y l =>
    intro S hS
    simp only [foldK]
    have c := hc y (by simp) x (by simp) S hS
    have e1 : (y S).bind (fun S1 => (x S1).bind (foldK l)) = ((y S).bind x).bind (foldK l) := by
      cases y S <;> simp
    have e2 : (x S).bind (fun S1 => (y S1).bind (foldK l)) = ((x S).bind y).bind (foldK l) := by
      cases x S <;> simp
    rw [e1, e2, c]
  | trans h1 _ ih1 ih2 =>
    intro S hS
    rw [ih1 hc hr S hS]
    exact ih2 (fun f hf g hg => hc f (h1.mem_iff.mpr hf) g (h1.mem_iff.mpr hg))
      (fun f hf => hr f (h1.mem_iff.mpr hf)) S hS

/-! ### the abstract step of one journal entry, per loop -/

noncomputable def rmS (src : Bytes) : FS.State → Option FS.State :=
  match norm src with
  | none => some
  | some Q => pRm Q

def rmaS (src : Bytes) : FS.State → Option FS.State :=
  match norm src with
  | none => some
  | some Q => pRma Q

noncomputable def mkS (buffer : Node) (src : Bytes) : FS.State → Option FS.State :=
  if isTrue (Root.isDir buffer src) then
    match norm src with
    | some M => pMk M
    | none => some
  else some

/-- first half of a write entry: `remote.MkdirAll(path.Dir(src))` -/
noncomputable def wrA (src : Bytes) : FS.State → Option FS.State :=
  match norm (pathDir src) with
  | none => fun _ => none
  | some D => pMk D

/-- second half: `if buffer.IsFile(src) { StreamCopy }` -/
noncomputable def wrB (buffer : Node) (src : Bytes) : FS.State → Option FS.State :=
  if isTrue (Root.isFile buffer src) then
    match norm src, Root.readFile buffer src with
    | some W, .data d => pWr W d
    | _, _ => fun _ => none
  else some

noncomputable def wrS (buffer : Node) (src : Bytes) : FS.State → Option FS.State :=
  seqK (wrA src) (wrB buffer src)

theorem keepsReal_rmS (src : Bytes) : KeepsReal (rmS src) := by
  unfold rmS
  cases h : norm src with
  | none => exact keepsReal_some
  | some Q => exact real_pRm Q (Path.norm_reduced src Q h)

theorem keepsReal_rmaS (src : Bytes) : KeepsReal (rmaS src) := by
  unfold rmaS
  cases h : norm src with
  | none => exact keepsReal_some
  | some Q => exact real_pRma Q (Path.norm_reduced src Q h)

theorem keepsReal_mkS (buffer : Node) (src : Bytes) : KeepsReal (mkS buffer src) := by
  unfold mkS
  split
  · cases h : norm src with
    | none => exact keepsReal_some
    | some Q => exact real_pMk Q (Path.norm_reduced src Q h)
  · exact keepsReal_some

theorem keepsReal_wrA (src : Bytes) : KeepsReal (wrA src) := by
  unfold wrA
  cases h : norm (pathDir src) with
  | none => exact keepsReal_none
  | some Q => exact real_pMk Q (Path.norm_reduced _ Q h)

theorem keepsReal_wrB (buffer : Node) (src : Bytes) : KeepsReal (wrB buffer src) := by
  unfold wrB
  split
  · cases h : norm src with
    | none => exact keepsReal_none
    | some W =>
      cases Root.readFile buffer src with
      | data d => exact real_pWr W d (Path.norm_reduced src W h)
      | _ => exact keepsReal_none
  · exact keepsReal_some

theorem commute_rmS (a b : Bytes) : Commute (rmS a) (rmS b) := by
  unfold rmS
  cases norm a <;> cases norm b
  · exact commute_some_left _
  · exact commute_some_left _
  · exact (commute_some_left _).symm
  · exact commute_pRm _ _

theorem commute_rmaS (a b : Bytes) : Commute (rmaS a) (rmaS b) := by
  unfold rmaS
  cases norm a <;> cases norm b
  · exact commute_some_left _
  · exact commute_some_left _
  · exact (commute_some_left _).symm
  · exact commute_pRma _ _

theorem mkS_cases (buffer : Node) (src : Bytes) : mkS buffer src = some ∨ ∃ M, mkS buffer src = pMk M := by
  unfold mkS
  by_cases h : isTrue (Root.isDir buffer src) = true
  · rw [if_pos h]
    cases norm src with
    | none => exact Or.inl rfl
    | some M => exact Or.inr ⟨M, rfl⟩
  · rw [if_neg h]; exact Or.inl rfl

theorem commute_mkS (buffer : Node) (a b : Bytes) : Commute (mkS buffer a) (mkS buffer b) := by
  rcases mkS_cases buffer a with ha | ⟨Ma, ha⟩ <;> rcases mkS_cases buffer b with hb | ⟨Mb, hb⟩ <;> rw [ha, hb]
  · exact commute_some_left _
  · exact commute_some_left _
  · exact (commute_some_left _).symm
  · exact commute_pMk _ _

theorem commute_wrA (a b : Bytes) : Commute (wrA a) (wrA b) := by
  unfold wrA
  cases norm (pathDir a) <;> cases norm (pathDir b)
  · exact commute_none_left _
  · exact commute_none_left _
  · exact (commute_none_left _).symm
  · exact commute_pMk _ _

theorem wrA_cases (src : Bytes) : wrA src = (fun _ => none) ∨ ∃ D, wrA src = pMk D := by
  unfold wrA
  cases norm (pathDir src) with
  | none => exact Or.inl rfl
  | some D => exact Or.inr ⟨D, rfl⟩

theorem wrB_cases (buffer : Node) (src : Bytes) :
    wrB buffer src = some ∨ wrB buffer src = (fun _ => none)
    ∨ ∃ W d, wrB buffer src = pWr W d ∧ norm src = some W ∧ Root.readFile buffer src = .data d := by
  unfold wrB
  by_cases h : isTrue (Root.isFile buffer src) = true
  · rw [if_pos h]
    cases hn : norm src with
    | none => exact Or.inr (Or.inl rfl)
    | some W =>
      cases hr : Root.readFile buffer src with
      | data d => exact Or.inr (Or.inr ⟨W, d, rfl, rfl, rfl⟩)
      | _ => exact Or.inr (Or.inl rfl)
  · rw [if_neg h]; exact Or.inl rfl

theorem commute_wrA_wrB (buffer : Node) (a b : Bytes) : Commute (wrA a) (wrB buffer b) := by
  rcases wrA_cases a with ha | ⟨D, ha⟩ <;> rw [ha]
  · exact commute_none_left _
  · rcases wrB_cases buffer b with hb | hb | ⟨W, d, hb, _, _⟩ <;> rw [hb]
    · exact (commute_some_left _).symm
    · exact (commute_none_left _).symm
    · exact commute_pMk_pWr D W d

theorem commute_wrB (buffer : Node) (hb : Inv buffer) (a b : Bytes) : Commute (wrB buffer a) (wrB buffer b) := by
  rcases wrB_cases buffer a with ha | ha | ⟨Wa, da, ha, hna, hra⟩ <;> rw [ha]
  · exact commute_some_left _
  · exact commute_none_left _
  · rcases wrB_cases buffer b with hb' | hb' | ⟨Wb, db, hb', hnb, hrb⟩ <;> rw [hb']
    · exact (commute_some_left _).symm
    · exact (commute_none_left _).symm
    · refine commute_pWr Wa Wb da db (fun e => ?_)
      subst e
      have ea := root_readFile_eq buffer hb a Wa hna
      have eb := root_readFile_eq buffer hb b Wa hnb
      rw [hra] at ea; rw [hrb] at eb
      rw [← eb] at ea
      cases ea; rfl

theorem commute_wrS (buffer : Node) (hb : Inv buffer) (a b : Bytes) : Commute (wrS buffer a) (wrS buffer b) :=
  commute_seqK (keepsReal_wrA a) (keepsReal_wrA b) (commute_wrA a b) (commute_wrA_wrB buffer a b)
    (commute_wrA_wrB buffer b a).symm (commute_wrB buffer hb a b)

theorem keepsReal_wrS (buffer : Node) (src : Bytes) : KeepsReal (wrS buffer src) :=
  keepsReal_seqK (keepsReal_wrA src) (keepsReal_wrB buffer src)

/-! ### the loops of Commit (no injected failure) are folds of the abstract steps -/

/-- what a loop result says about the fold: success with the abstract tree of the result, or failure -/
def Refines (res : CommitAcc) (o : Option FS.State) : Prop :=
  Inv res.1 ∧ o = if res.2.2 = true then some (abs res.1) else none

theorem isDir_norm (t : Node) (src : Bytes) (h : isTrue (Root.isDir t src) = true) : ∃ M, norm src = some M := by
  cases hn : norm src with
  | none => rw [(root_climb t src hn).2.2.1] at h; cases h
  | some M => exact ⟨M, rfl⟩

theorem isFile_norm (t : Node) (src : Bytes) (h : isTrue (Root.isFile t src) = true) : ∃ M, norm src = some M := by
  cases hn : norm src with
  | none => rw [(root_climb t src hn).2.1] at h; cases h
  | some M => exact ⟨M, rfl⟩

theorem removeAllSt_absent (t : Node) (Q : List Name) (h : abs t Q = none) : FS.removeAllSt (abs t) Q = abs t := by
  funext q
  simp only [FS.removeAllSt]
  split
  · next hq => exact (remote_below_none t Q q h hq).symm
  · rfl

theorem remoteCall_none (n : Nat) (f : Node → Node × Result) (r : Node) : remoteCall none n f r = f r := by
  simp [remoteCall]

theorem commitRemove_fold (l : List Bytes) (r : Node) (n : Nat) (hr : Inv r) :
    Refines (commitRemove none l r n) (foldK (l.map rmS) (abs r)) := by
  induction l generalizing r n with
  | nil => exact ⟨hr, rfl⟩
  | cons src rest ih =>
    unfold commitRemove
    simp only [List.map_cons, foldK]
    cases hn : norm src with
    | none =>
      have : isTrue (Root.isFile r src) = false := by rw [(root_climb r src hn).2.1]; rfl
      rw [this]
      simp only [rmS, hn, Option.bind_some]
      exact ih r n hr
    | some Q =>
      have hfile := root_isFile_eq r hr src Q hn
      by_cases hf : isFileE (abs r Q) = true
      · have hcond : isTrue (Root.isFile r src) = true := by rw [hfile]; exact hf
        rw [if_pos hcond]
        obtain ⟨d, hd⟩ : ∃ d, abs r Q = some (.file d) := by
          rcases h : abs r Q with _ | (d | _) <;> simp [h, isFileE] at hf
          exact ⟨d, rfl⟩
        have hne : Q ≠ [] := by
          rintro rfl
          obtain ⟨k, rfl⟩ := hr.dir
          simp [abs, Node.lookup, Node.entry] at hd
        have hw := root_remove r hr src Q hn
        obtain ⟨hres, hst⟩ : (Root.remove r src).2 = .ok ∧ abs (Root.remove r src).1 = FS.removeSt (abs r) Q := by
          rcases hw.1 with ⟨_, b, c⟩ | ⟨a, _, _⟩
          · exact ⟨b, c⟩
          · exact absurd ⟨hne, Or.inl ⟨d, hd⟩⟩ a
        have hinv : Inv (Root.remove r src).1 := hw.2.1.inv hr (by simp)
        rw [remoteCall_none]
        have e : Root.remove r src = ((Root.remove r src).1, .ok) := by rw [← hres]
        rw [e]
        simp only [rmS, hn, pRm, Option.bind_some]
        rw [if_pos (show isFileS (abs r Q) from ⟨d, hd⟩), ← hst]
        exact ih _ (n + 1) hinv
      · have hcond : ¬ isTrue (Root.isFile r src) = true := by rw [hfile]; exact hf
        rw [if_neg hcond]
        simp only [rmS, hn, pRm, Option.bind_some]
        rw [if_neg (show ¬ isFileS (abs r Q) by rintro ⟨d, hd⟩; simp [hd, isFileE] at hf)]
        exact ih r n hr

theorem commitRemoveAll_fold (l : List Bytes) (r : Node) (n : Nat) (hr : Inv r) :
    Refines (commitRemoveAll none l r n) (foldK (l.map rmaS) (abs r)) := by
  induction l generalizing r n with
  | nil => exact ⟨hr, rfl⟩
  | cons src rest ih =>
    unfold commitRemoveAll
    simp only [List.map_cons, foldK]
    cases hn : norm src with
    | none =>
      have : isTrue (Root.isExist r src) = false := by rw [(root_climb r src hn).1]; rfl
      rw [this]
      simp only [rmaS, hn, Option.bind_some]
      exact ih r n hr
    | some Q =>
      have hex := root_isExist_eq r hr src Q hn
      by_cases hf : abs r Q = none
      · have hcond : ¬ isTrue (Root.isExist r src) = true := by rw [hex, hf]; simp [isTrue]
        rw [if_neg hcond]
        have hne : Q ≠ [] := by
          rintro rfl
          obtain ⟨k, rfl⟩ := hr.dir
          simp [abs, Node.lookup] at hf
        simp only [rmaS, hn, pRma, if_neg hne, Option.bind_some, removeAllSt_absent r Q hf]
        exact ih r n hr
      · have hcond : isTrue (Root.isExist r src) = true := by
          rw [hex]; cases h : abs r Q with
          | none => exact absurd h hf
          | some e => rfl
        rw [if_pos hcond]
        have hw := root_removeAll r hr src Q hn
        rw [remoteCall_none]
        by_cases hne : Q = []
        · -- the root: refused
          have hres : (Root.removeAll r src).2 = .err := by
            rcases hw.1 with ⟨a, _, _⟩ | ⟨_, b, _⟩
            · exact absurd hne a.1
            · exact b
          have hsame := hw.2.2 hres
          rcases hc : Root.removeAll r src with ⟨r', res⟩
          rw [hc] at hres hsame
          simp only [] at hres hsame
          subst hres hsame
          simp only [rmaS, hn, pRma, if_pos hne, Option.bind_none]
          exact ⟨hr, rfl⟩
        · obtain ⟨hres, hst⟩ : (Root.removeAll r src).2 = .ok
              ∧ abs (Root.removeAll r src).1 = FS.removeAllSt (abs r) Q := by
            rcases hw.1 with ⟨_, b, c⟩ | ⟨a, _, _⟩
            · exact ⟨b, c⟩
            · exact absurd ⟨hne, hf⟩ a
          have hinv : Inv (Root.removeAll r src).1 := hw.2.1.inv hr (by simp)
          have e : Root.removeAll r src = ((Root.removeAll r src).1, .ok) := by rw [← hres]
          rw [e]
          simp only [rmaS, hn, pRma, if_neg hne, Option.bind_some]
          rw [← hst]
          exact ih _ (n + 1) hinv

theorem commitMkdir_fold (buffer : Node) (l : List Bytes) (r : Node) (n : Nat) (hr : Inv r) :
    Refines (commitMkdir none buffer l r n) (foldK (l.map (mkS buffer)) (abs r)) := by
  induction l generalizing r n with
  | nil => exact ⟨hr, rfl⟩
  | cons src rest ih =>
    unfold commitMkdir
    simp only [List.map_cons, foldK]
    by_cases hd : isTrue (Root.isDir buffer src) = true
    · rw [if_pos hd]
      obtain ⟨M, hn⟩ := isDir_norm buffer src hd
      have hw := root_mkdirAll r hr src M hn
      rw [remoteCall_none]
      simp only [mkS, if_pos hd, hn]
      by_cases hok : FS.mkdirOk (abs r) M
      · obtain ⟨hres, hst⟩ : (Root.mkdirAll r src).2 = .ok ∧ abs (Root.mkdirAll r src).1 = FS.mkdirSt (abs r) M := by
          rcases hw.1 with ⟨_, b, c⟩ | ⟨a, _, _⟩
          · exact ⟨b, c⟩
          · exact absurd hok a
        have hinv : Inv (Root.mkdirAll r src).1 := hw.2.1.inv hr (Path.norm_plain src M hn)
        have e : Root.mkdirAll r src = ((Root.mkdirAll r src).1, .ok) := by rw [← hres]
        rw [e]
        simp only [pMk, if_pos hok, Option.bind_some]
        rw [← hst]
        exact ih _ (n + 1) hinv
      · have hres : (Root.mkdirAll r src).2 = .err := by
          rcases hw.1 with ⟨a, _, _⟩ | ⟨_, b, _⟩
          · exact absurd a hok
          · exact b
        have hsame := hw.2.2 hres
        rcases hc : Root.mkdirAll r src with ⟨r', res⟩
        rw [hc] at hres hsame
        simp only [] at hres hsame
        subst hres hsame
        simp only [pMk, if_neg hok, Option.bind_none]
        exact ⟨hr, rfl⟩
    · rw [if_neg hd]
      simp only [mkS, if_neg hd, Option.bind_some]
      exact ih r n hr

theorem remoteStream_none (r : Node) (hr : Inv r) (n : Nat) (src : Bytes) (cs : List Bytes) (W : List Name)
    (hn : norm src = some W) :
    (FS.writeOk (abs r) W → remoteStream none n src cs r = (((Root.writer r src cs).1, .ok), n + cs.length + 2)
        ∧ (Root.writer r src cs).2 = .ok)
    ∧ (¬ FS.writeOk (abs r) W → remoteStream none n src cs r = ((r, .err), n + 1)) := by
  have h0 := root_writer r hr src [] W hn
  have hc := root_writer r hr src cs W hn
  constructor
  · intro hok
    have r0 : (Root.writer r src []).2 = .ok := by
      rcases h0.1 with ⟨_, b, _⟩ | ⟨a, _, _⟩
      · exact b
      · exact absurd hok a
    have rc : (Root.writer r src cs).2 = .ok := by
      rcases hc.1 with ⟨_, b, _⟩ | ⟨a, _, _⟩
      · exact b
      · exact absurd hok a
    refine ⟨?_, rc⟩
    unfold remoteStream
    have e0 : Root.writer r src [] = ((Root.writer r src []).1, .ok) := by rw [← r0]
    have ec : Root.writer r src cs = ((Root.writer r src cs).1, .ok) := by rw [← rc]
    simp only [reduceCtorEq, if_false]
    rw [e0]
    simp only []
    rw [ec]
  · intro hno
    have r0 : (Root.writer r src []).2 = .err := by
      rcases h0.1 with ⟨a, _, _⟩ | ⟨_, b, _⟩
      · exact absurd a hno
      · exact b
    have hsame := h0.2.2 r0
    unfold remoteStream
    simp only [reduceCtorEq, if_false]
    rcases hw : Root.writer r src [] with ⟨r', res⟩
    rw [hw] at r0 hsame
    simp only [] at r0 hsame
    subst r0 hsame
    rfl

theorem commitWrite_fold (buffer : Node) (l : List Bytes) (r : Node) (n : Nat) (hr : Inv r) :
    Refines (commitWrite none buffer l r n) (foldK (l.map (wrS buffer)) (abs r)) := by
  induction l generalizing r n with
  | nil => exact ⟨hr, rfl⟩
  | cons src rest ih =>
    unfold commitWrite
    simp only [List.map_cons, foldK, wrS, seqK, remoteCall_none]
    -- first half: MkdirAll(path.Dir(src))
    cases hnd : norm (pathDir src) with
    | none =>
      have hres : Root.mkdirAll r (pathDir src) = (r, .err) := by
        simp [Root.mkdirAll, reduceAbsPath_none hnd]
      rw [hres]
      simp only [wrA, hnd, Option.bind_none]
      exact ⟨hr, rfl⟩
    | some D =>
      have hw := root_mkdirAll r hr (pathDir src) D hnd
      simp only [wrA, hnd]
      by_cases hok : FS.mkdirOk (abs r) D
      · obtain ⟨hres, hst⟩ : (Root.mkdirAll r (pathDir src)).2 = .ok
            ∧ abs (Root.mkdirAll r (pathDir src)).1 = FS.mkdirSt (abs r) D := by
          rcases hw.1 with ⟨_, b, c⟩ | ⟨a, _, _⟩
          · exact ⟨b, c⟩
          · exact absurd hok a
        have hinv : Inv (Root.mkdirAll r (pathDir src)).1 := hw.2.1.inv hr (Path.norm_plain _ D hnd)
        have e : Root.mkdirAll r (pathDir src) = ((Root.mkdirAll r (pathDir src)).1, .ok) := by rw [← hres]
        rw [e]
        simp only [pMk, if_pos hok, Option.bind_some]
        rw [← hst]
        generalize (Root.mkdirAll r (pathDir src)).1 = r1 at hinv ⊢
        -- second half
        by_cases hf : isTrue (Root.isFile buffer src) = true
        · rw [if_pos hf]
          obtain ⟨W, hn⟩ := isFile_norm buffer src hf
          simp only [wrB, if_pos hf, hn]
          cases hrd : Root.readFile buffer src with
          | data d =>
            simp only []
            have hw2 := root_writer r1 hinv src (ioChunks d) W hn
            have hrs := remoteStream_none r1 hinv (n + 1) src (ioChunks d) W hn
            by_cases hok2 : FS.writeOk (abs r1) W
            · obtain ⟨es, hres2⟩ := hrs.1 hok2
              have hst2 : abs (Root.writer r1 src (ioChunks d)).1 = FS.writeSt (abs r1) W d := by
                rcases hw2.1 with ⟨_, _, c⟩ | ⟨a, _, _⟩
                · rw [c, ioChunks_flatten]
                · exact absurd hok2 a
              have hinv2 : Inv (Root.writer r1 src (ioChunks d)).1 := hw2.2.1.inv hinv (Path.norm_plain src W hn)
              rw [es]
              simp only [pWr, if_pos hok2, Option.bind_some]
              rw [← hst2]
              exact ih _ _ hinv2
            · rw [hrs.2 hok2]
              simp only [pWr, if_neg hok2, Option.bind_none]
              exact ⟨hinv, rfl⟩
          | _ => simp only [Option.bind_none]; exact ⟨hinv, rfl⟩
        · rw [if_neg hf]
          simp only [wrB, if_neg hf, Option.bind_some]
          exact ih r1 (n + 1) hinv
      · have hres : (Root.mkdirAll r (pathDir src)).2 = .err := by
          rcases hw.1 with ⟨a, _, _⟩ | ⟨_, b, _⟩
          · exact absurd a hok
          · exact b
        have hsame := hw.2.2 hres
        rcases hc : Root.mkdirAll r (pathDir src) with ⟨r', res⟩
        rw [hc] at hres hsame
        simp only [] at hres hsame
        subst hres hsame
        simp only [pMk, if_neg hok, Option.bind_none]
        exact ⟨hr, rfl⟩

/-! ### Commit as one Kleisli map, and its invariance -/

/-- the four loops of an unfailed Commit on abstract trees -/
noncomputable def commitK (buffer : Node) (rm rma mk wr : List Bytes) (S : FS.State) : Option FS.State :=
  (((foldK (rm.map rmS) S).bind (foldK (rma.map rmaS))).bind (foldK (mk.map (mkS buffer)))).bind
    (foldK (wr.map (wrS buffer)))

theorem commit_refines (rm rma mk wr : List Bytes) (s : State) (W : WInv s) :
    Inv (commitWith rm rma mk wr none s).1.remote
    ∧ commitK s.buffer rm rma mk wr (abs s.remote)
        = if (commitWith rm rma mk wr none s).2.2 = true then some (abs (commitWith rm rma mk wr none s).1.remote)
          else none := by
  unfold commitWith commitK
  have h1 := commitRemove_fold rm s.remote 0 W.2
  rcases hc1 : commitRemove none rm s.remote 0 with ⟨r1, n1, ok1⟩
  rw [hc1] at h1
  obtain ⟨i1, e1⟩ := h1
  rw [e1]
  cases ok1
  · simp only []; exact ⟨i1, by simp⟩
  · simp only [if_true, Option.bind_some]
    have h2 := commitRemoveAll_fold rma r1 n1 i1
    rcases hc2 : commitRemoveAll none rma r1 n1 with ⟨r2, n2, ok2⟩
    rw [hc2] at h2
    obtain ⟨i2, e2⟩ := h2
    rw [e2]
    cases ok2
    · simp only []; exact ⟨i2, by simp⟩
    · simp only [if_true, Option.bind_some]
      have h3 := commitMkdir_fold s.buffer mk r2 n2 i2
      rcases hc3 : commitMkdir none s.buffer mk r2 n2 with ⟨r3, n3, ok3⟩
      rw [hc3] at h3
      obtain ⟨i3, e3⟩ := h3
      rw [e3]
      cases ok3
      · simp only []; exact ⟨i3, by simp⟩
      · simp only [if_true, Option.bind_some]
        have h4 := commitWrite_fold s.buffer wr r3 n3 i3
        rcases hc4 : commitWrite none s.buffer wr r3 n3 with ⟨r4, n4, ok4⟩
        rw [hc4] at h4
        obtain ⟨i4, e4⟩ := h4
        rw [e4]
        exact ⟨i4, rfl⟩

theorem commitK_perm (buffer : Node) (hb : Inv buffer) (rm rma mk wr rm' rma' mk' wr' : List Bytes)
    (hrm : rm.Perm rm') (hrma : rma.Perm rma') (hmk : mk.Perm mk') (hwr : wr.Perm wr')
    (S : FS.State) (hS : Real S) :
    commitK buffer rm rma mk wr S = commitK buffer rm' rma' mk' wr' S := by
  unfold commitK
  have mem_map : ∀ {l : List Bytes} {F : Bytes → FS.State → Option FS.State} {f},
      f ∈ l.map F → ∃ x, f = F x := by
    intro l F f h
    obtain ⟨x, _, rfl⟩ := List.mem_map.mp h
    exact ⟨x, rfl⟩
  have p1 := foldK_perm (hrm.map rmS)
    (fun f hf g hg => by obtain ⟨a, rfl⟩ := mem_map hf; obtain ⟨b, rfl⟩ := mem_map hg; exact commute_rmS a b)
    (fun f hf => by obtain ⟨a, rfl⟩ := mem_map hf; exact keepsReal_rmS a) S hS
  rw [← p1]
  cases h1 : foldK (rm.map rmS) S with
  | none => rfl
  | some S1 =>
    have hS1 : Real S1 := keepsReal_foldK _
      (fun f hf => by obtain ⟨a, rfl⟩ := mem_map hf; exact keepsReal_rmS a) S S1 hS h1
    simp only [Option.bind_some]
    have p2 := foldK_perm (hrma.map rmaS)
      (fun f hf g hg => by obtain ⟨a, rfl⟩ := mem_map hf; obtain ⟨b, rfl⟩ := mem_map hg; exact commute_rmaS a b)
      (fun f hf => by obtain ⟨a, rfl⟩ := mem_map hf; exact keepsReal_rmaS a) S1 hS1
    rw [← p2]
    cases h2 : foldK (rma.map rmaS) S1 with
    | none => rfl
    | some S2 =>
      have hS2 : Real S2 := keepsReal_foldK _
        (fun f hf => by obtain ⟨a, rfl⟩ := mem_map hf; exact keepsReal_rmaS a) S1 S2 hS1 h2
      simp only [Option.bind_some]
      have p3 := foldK_perm (hmk.map (mkS buffer))
        (fun f hf g hg => by
          obtain ⟨a, rfl⟩ := mem_map hf; obtain ⟨b, rfl⟩ := mem_map hg; exact commute_mkS buffer a b)
        (fun f hf => by obtain ⟨a, rfl⟩ := mem_map hf; exact keepsReal_mkS buffer a) S2 hS2
      rw [← p3]
      cases h3 : foldK (mk.map (mkS buffer)) S2 with
      | none => rfl
      | some S3 =>
        have hS3 : Real S3 := keepsReal_foldK _
          (fun f hf => by obtain ⟨a, rfl⟩ := mem_map hf; exact keepsReal_mkS buffer a) S2 S3 hS2 h3
        simp only [Option.bind_some]
        exact foldK_perm (hwr.map (wrS buffer))
          (fun f hf g hg => by
            obtain ⟨a, rfl⟩ := mem_map hf; obtain ⟨b, rfl⟩ := mem_map hg; exact commute_wrS buffer hb a b)
          (fun f hf => by obtain ⟨a, rfl⟩ := mem_map hf; exact keepsReal_wrS buffer a) S3 hS3

/-- ORDER IRRELEVANCE, every state with well-formed trees: an unfailed Commit answers the same verdict whatever
order the four Go maps are iterated in, and when it succeeds the remote tree is the same. -/
theorem commit_order_irrelevant_winv (s : State) (W : WInv s) (rm rma mk wr rm' rma' mk' wr' : List Bytes)
    (hrm : rm.Perm rm') (hrma : rma.Perm rma') (hmk : mk.Perm mk') (hwr : wr.Perm wr') :
    (commitWith rm rma mk wr none s).2.2 = (commitWith rm' rma' mk' wr' none s).2.2
    ∧ ((commitWith rm rma mk wr none s).2.2 = true →
        abs (commitWith rm rma mk wr none s).1.remote = abs (commitWith rm' rma' mk' wr' none s).1.remote) := by
  have a := (commit_refines rm rma mk wr s W).2
  have b := (commit_refines rm' rma' mk' wr' s W).2
  have e := commitK_perm s.buffer W.1 rm rma mk wr rm' rma' mk' wr' hrm hrma hmk hwr (abs s.remote) ⟨s.remote, W.2, rfl⟩
  rw [e, b] at a
  cases h1 : (commitWith rm rma mk wr none s).2.2 <;> cases h2 : (commitWith rm' rma' mk' wr' none s).2.2 <;>
    simp only [h1, h2, if_true] at a
  · exact ⟨rfl, fun h => by cases h⟩
  · simp at a
  · simp at a
  · simp only [Option.some.injEq] at a
    exact ⟨rfl, fun _ => a.symm⟩

end Cache
end Goat
