/-
Path lemmas for the cache model: Go `path.Clean`, `varutil.CleanPath`, `path.Dir` (as modelled in
`Goat/Base/Path.lean` / `Goat/Model/Cache.lean`) against the normal form `Path.norm` (= `ReduceAbsPath`).

  `cleanGo_of_reduceGo`   on a path that does not climb, the element loop of `path.Clean` computes the normal form
  `cleanPath_of_norm`     `CleanPath p = join (norm p)` (or a spelling of the root)
  `norm_cleanPath`        … hence `CleanPath` keeps the normal form of every non-climbing path
  `norm_pathDir`          `path.Dir` of a path ending in a real name normalises to the parent
  `norm_sub`              the string a `SubFS` hands to the cache: `base/` ++ reduced path
-/
import Goat.Proofs.Path
import Goat.Model.Cache

namespace Goat

theorem mem_takeWhile' {α} (p : α → Bool) (l : List α) (x : α) (h : x ∈ l.takeWhile p) : p x = true := by
  induction l with
  | nil => simp at h
  | cons a rest ih =>
    simp only [List.takeWhile] at h
    split at h
    · next ha =>
      rcases List.mem_cons.mp h with rfl | h
      · exact ha
      · exact ih h
    · simp at h

theorem takeWhile_all' {α} (p : α → Bool) (l : List α) (h : ∀ x ∈ l, p x = true) : l.takeWhile p = l := by
  induction l with
  | nil => rfl
  | cons a rest ih =>
    simp only [List.takeWhile, h a (by simp)]
    rw [ih (fun x hx => h x (List.mem_cons_of_mem _ hx))]

theorem takeWhile_append_all' {α} (p : α → Bool) (a b : List α) (h : ∀ x ∈ a, p x = true) :
    (a ++ b).takeWhile p = a ++ b.takeWhile p := by
  induction a with
  | nil => rfl
  | cons c rest ih =>
    simp only [List.cons_append, List.takeWhile, h c (by simp)]
    rw [ih (fun x hx => h x (List.mem_cons_of_mem _ hx))]

theorem dropWhile_head' {α} (p : α → Bool) (l : List α) (c : α) (rest : List α)
    (h : l.dropWhile p = c :: rest) : p c = false := by
  induction l with
  | nil => simp at h
  | cons a tl ih =>
    simp only [List.dropWhile] at h
    split at h
    · exact ih h
    · next ha => simp only [List.cons.injEq] at h; rw [← h.1]; simpa using ha

namespace Path

theorem cleanGo_of_reduceGo (rooted : Bool) (segs acc out : List Name)
    (hacc : ∀ s ∈ acc, s ≠ dotdotSeg) (h : reduceGo segs acc = some out) :
    cleanGo rooted segs acc = out := by
  induction segs generalizing acc with
  | nil => simpa [reduceGo, cleanGo] using h
  | cons s rest ih =>
    unfold reduceGo at h
    unfold cleanGo
    split at h
    · next hs => rw [if_pos hs]; exact ih acc hacc h
    · next hs =>
      rw [if_neg hs]
      split at h
      · next hd =>
        rw [if_pos hd]
        cases acc with
        | nil => simp at h
        | cons top acc' =>
          simp only at h ⊢
          rw [if_neg (hacc top (by simp))]
          exact ih acc' (fun x hx => hacc x (List.mem_cons_of_mem _ hx)) h
      · next hd =>
        rw [if_neg hd]
        exact ih (s :: acc) (by
          intro x hx
          rcases List.mem_cons.mp hx with rfl | hx
          · exact hd
          · exact hacc x hx) h

theorem cleanGo_of_norm (rooted : Bool) (p : Bytes) (q : List Name) (h : norm p = some q) :
    cleanGo rooted (split p) [] = q :=
  cleanGo_of_reduceGo rooted (split p) [] q (by simp) h

/-- a non-empty reduced path joins to a non-empty string that does not start with `/` -/
theorem join_cons_head (s : Name) (rest : List Name) (hs : s ≠ []) (hn : NoSlash s) :
    ∃ c tl, join (s :: rest) = c :: tl ∧ c ≠ slash := by
  cases s with
  | nil => exact absurd rfl hs
  | cons c tl =>
    have hc : c ≠ slash := fun e => hn (by simp [e])
    cases rest with
    | nil => exact ⟨c, tl, rfl, hc⟩
    | cons s' r => exact ⟨c, tl ++ slash :: join (s' :: r), by simp [join], hc⟩

theorem join_eq_nil_iff (q : List Name) (h : Reduced q) : join q = [] ↔ q = [] := by
  constructor
  · intro e
    cases q with
    | nil => rfl
    | cons s rest =>
      obtain ⟨c, tl, e', _⟩ := join_cons_head s rest (h s (by simp)).1.1 (h s (by simp)).2
      rw [e'] at e; cases e
  · rintro rfl; rfl

/-- `path.Clean` on a path that does not climb -/
theorem clean_of_norm (c : Byte) (tl : Bytes) (q : List Name) (h : norm (c :: tl) = some q) :
    clean (c :: tl) = if c = slash then slash :: join q else if join q = [] then dotSeg else join q := by
  unfold clean
  simp only [cleanGo_of_norm _ _ q h]

/-- `varutil.CleanPath` on a path that does not climb: the joined normal form -/
theorem cleanPath_of_norm (p : Bytes) (q : List Name) (h : norm p = some q) (hq : q ≠ []) :
    cleanPath p = join q := by
  have hr := norm_reduced p q h
  cases p with
  | nil => simp [norm, reduceSegs, split, splitHT, reduceGo] at h; exact absurd h.symm hq.symm
  | cons c tl =>
    obtain ⟨s, rest, rfl⟩ := List.exists_cons_of_ne_nil hq
    obtain ⟨c', tl', e, hc'⟩ := join_cons_head s rest (hr s (by simp)).1.1 (hr s (by simp)).2
    unfold cleanPath
    rw [clean_of_norm c tl _ h]
    by_cases hc : c = slash
    · simp [hc]
    · simp only [if_neg hc, e]
      simp [hc']

/-- … and for the root: one of its spellings -/
theorem cleanPath_of_norm_nil (p : Bytes) (h : norm p = some []) : cleanPath p = [] ∨ cleanPath p = dotSeg := by
  cases p with
  | nil => right; rfl
  | cons c tl =>
    unfold cleanPath
    rw [clean_of_norm c tl _ h]
    by_cases hc : c = slash
    · left; simp [hc, join]
    · right; rw [if_neg hc]; simp [join, dotSeg, dot, slash]

/-- `CleanPath` keeps the normal form of every path that does not climb -/
theorem norm_cleanPath (p : Bytes) (q : List Name) (h : norm p = some q) : norm (cleanPath p) = some q := by
  by_cases hq : q = []
  · subst hq
    rcases cleanPath_of_norm_nil p h with e | e <;> rw [e] <;> rfl
  · rw [cleanPath_of_norm p q h hq]
    exact norm_join q (norm_reduced p q h)

theorem norm_slash_cons (x : Bytes) : norm (slash :: x) = norm x := by
  have : slash :: x = [] ++ slash :: x := rfl
  unfold norm reduceSegs
  rw [this, split_append_slash, reduceGo_append]
  simp [split, splitHT, reduceGo]

/-- `path.Clean` keeps the normal form of every path that does not climb -/
theorem norm_clean (p : Bytes) (q : List Name) (h : norm p = some q) : norm (clean p) = some q := by
  have hr := norm_reduced p q h
  cases p with
  | nil =>
    have : q = [] := by simp [norm, reduceSegs, split, splitHT, reduceGo] at h; exact h
    subst this; rfl
  | cons c tl =>
    rw [clean_of_norm c tl q h]
    by_cases hc : c = slash
    · rw [if_pos hc, norm_slash_cons]; exact norm_join q hr
    · rw [if_neg hc]
      split
      · next e => rw [(join_eq_nil_iff q hr).mp e]; rfl
      · exact norm_join q hr

end Path

namespace Cache
open Path

/-! ### `path.Dir` -/

theorem dirPart_append_lastSeg (p : Bytes) : dirPart p ++ lastSeg p = p := by
  unfold dirPart lastSeg
  rw [← List.reverse_append, List.takeWhile_append_dropWhile, List.reverse_reverse]

theorem lastSeg_noSlash (p : Bytes) : NoSlash (lastSeg p) := by
  unfold lastSeg NoSlash
  intro hm
  have := mem_takeWhile' _ _ _ (List.mem_reverse.mp hm)
  simp at this

/-- the directory part is empty or ends with `/` -/
theorem dirPart_cases (p : Bytes) : dirPart p = [] ∨ ∃ x, dirPart p = x ++ [slash] := by
  unfold dirPart
  cases h : p.reverse.dropWhile (· ≠ slash) with
  | nil => left; rfl
  | cons c rest =>
    right
    have hc : c = slash := by
      have := dropWhile_head' _ _ _ _ h
      simpa using this
    exact ⟨rest.reverse, by simp [hc]⟩

/-- `path.Dir` of a non-climbing path that ends in a real name: the parent -/
theorem norm_pathDir (p : Bytes) (q : List Name) (h : norm p = some q) (hl : Plain (lastSeg p)) :
    norm (pathDir p) = some q.dropLast := by
  have hd : norm (dirPart p) = some q.dropLast := by
    have hp := dirPart_append_lastSeg p
    have hpush : ∀ acc : List Name, reduceGo [lastSeg p] acc = some (acc.reverse ++ [lastSeg p]) := fun acc =>
      reduceGo_of_plain [lastSeg p] acc (by intro s hs; simp at hs; subst hs; exact hl)
    rcases dirPart_cases p with e | ⟨x, e⟩
    · rw [e] at hp ⊢
      simp only [List.nil_append] at hp
      rw [← hp] at h
      unfold norm reduceSegs at h
      rw [split_noSlash _ (lastSeg_noSlash p), hpush] at h
      simp at h; subst h; rfl
    · rw [e] at hp ⊢
      have hp' : x ++ slash :: lastSeg p = p := by simpa using hp
      rw [← hp'] at h
      unfold norm reduceSegs at h ⊢
      rw [split_append_slash, split_noSlash _ (lastSeg_noSlash p), reduceGo_append] at h
      have e2 : x ++ [slash] = x ++ slash :: [] := rfl
      rw [e2, split_append_slash, reduceGo_append]
      cases hx : reduceGo (split x) [] with
      | none => simp [hx] at h
      | some r =>
        simp only [hx, Option.bind_some, hpush] at h
        simp only [Option.bind_some, split_nil, reduceGo_empty_seg, List.reverse_reverse]
        simp at h; subst h; simp
  unfold pathDir
  exact norm_clean _ _ hd

theorem lastSeg_append_slash (a l : Bytes) (hl : NoSlash l) : lastSeg (a ++ slash :: l) = l := by
  unfold lastSeg
  rw [List.reverse_append, List.reverse_cons, List.append_assoc]
  rw [takeWhile_append_all' _ _ _ (by
    intro x hx
    have : x ≠ slash := fun e => hl (by rw [← e]; exact List.mem_reverse.mp hx)
    simpa using this)]
  simp

theorem lastSeg_of_noSlash (l : Bytes) (hl : NoSlash l) : lastSeg l = l := by
  unfold lastSeg
  rw [takeWhile_all' _ _ (by
    intro x hx
    have : x ≠ slash := fun e => hl (by rw [← e]; exact List.mem_reverse.mp hx)
    simpa using this)]
  simp

/-- the last segment of a joined reduced path is its last name -/
theorem lastSeg_join (q : List Name) (hq : Reduced q) (hne : q ≠ []) :
    lastSeg (join q) = q.getLast hne := by
  induction q with
  | nil => exact absurd rfl hne
  | cons s rest ih =>
    cases rest with
    | nil => simpa [join] using lastSeg_of_noSlash s (hq s (by simp)).2
    | cons s' r =>
      have hr : Reduced (s' :: r) := fun x hx => hq x (List.mem_cons_of_mem _ hx)
      have := ih hr (by simp)
      simp only [join, List.getLast_cons_cons] at this ⊢
      rw [← this]
      -- join (s' :: r) = dirPart ++ lastSeg: the last segment of the longer string is the same
      have hsplit := dirPart_append_lastSeg (join (s' :: r))
      conv => lhs; rw [← hsplit]
      rcases dirPart_cases (join (s' :: r)) with e | ⟨x, e⟩
      · rw [e]; simp only [List.nil_append]
        exact lastSeg_append_slash s _ (lastSeg_noSlash _)
      · rw [e]
        have : s ++ slash :: (x ++ [slash] ++ lastSeg (join (s' :: r)))
            = (s ++ slash :: x) ++ slash :: lastSeg (join (s' :: r)) := by simp
        rw [this]
        exact lastSeg_append_slash _ _ (lastSeg_noSlash _)

theorem plain_lastSeg_join (q : List Name) (hq : Reduced q) (hne : q ≠ []) : Plain (lastSeg (join q)) := by
  rw [lastSeg_join q hq hne]
  exact (hq _ (List.getLast_mem hne)).1

/-- `path.Dir` of a joined reduced path: normalises to the parent -/
theorem norm_pathDir_join (q : List Name) (hq : Reduced q) (hne : q ≠ []) :
    norm (pathDir (join q)) = some q.dropLast :=
  norm_pathDir (join q) q (norm_join q hq) (plain_lastSeg_join q hq hne)

/-! ### `SubFS`: `base/` ++ reduced path -/

/-- the string a `SubFS` with base path `base0/` hands to the cache for the reduced path `p` -/
theorem norm_sub (base0 : Bytes) (b p : List Name) (hb : norm (base0 ++ [slash]) = some b) (hp : Reduced p) :
    norm (base0 ++ [slash] ++ join p) = some (b ++ p) := by
  have e1 : base0 ++ [slash] = base0 ++ slash :: [] := rfl
  have e2 : base0 ++ [slash] ++ join p = base0 ++ slash :: join p := by simp
  unfold norm reduceSegs at hb ⊢
  rw [e1, split_append_slash, reduceGo_append] at hb
  rw [e2, split_append_slash, reduceGo_append]
  cases hx : reduceGo (split base0) [] with
  | none => simp [hx] at hb
  | some r =>
    simp only [hx, Option.bind_some, split_nil, reduceGo_empty_seg, List.reverse_reverse] at hb
    simp at hb; subst hb
    simp only [Option.bind_some]
    rw [split_join' p (fun s hs => (hp s hs).2)]
    split
    · next e => subst e; simp [reduceGo]
    · simpa using reduceGo_of_plain p r.reverse (fun s hs => (hp s hs).1)

/-! ### `overlaps` of cache.go: string prefixes at `/` boundaries are segment prefixes -/

/-- every segment followed by `/` -/
def joinSlash (P : List Name) : Bytes := P.flatMap (· ++ [slash])

theorem join_append_slash (P : List Name) (hne : P ≠ []) : join P ++ [slash] = joinSlash P := by
  induction P with
  | nil => exact absurd rfl hne
  | cons s rest ih =>
    cases rest with
    | nil => simp [join, joinSlash]
    | cons s' r =>
      have := ih (by simp)
      simp only [join, joinSlash, List.flatMap_cons] at this ⊢
      rw [← this]; simp

theorem seg_prefix (a b x y : Bytes) (ha : NoSlash a) (hb : NoSlash b)
    (h : a ++ slash :: x <+: b ++ slash :: y) : a = b ∧ x <+: y := by
  induction a generalizing b with
  | nil =>
    cases b with
    | nil => exact ⟨rfl, (List.cons_prefix_cons.mp h).2⟩
    | cons c b' =>
      have := (List.cons_prefix_cons.mp h).1
      exact absurd (by simp [← this]) hb
  | cons c a' ih =>
    cases b with
    | nil =>
      have := (List.cons_prefix_cons.mp h).1
      exact absurd (by simp [this]) ha
    | cons c' b' =>
      obtain ⟨e, h'⟩ := List.cons_prefix_cons.mp h
      obtain ⟨e2, h2⟩ := ih b' (fun m => ha (List.mem_cons_of_mem _ m)) (fun m => hb (List.mem_cons_of_mem _ m)) h'
      exact ⟨by rw [e, e2], h2⟩

theorem joinSlash_prefix (Q P : List Name) (hQ : ∀ s ∈ Q, NoSlash s) (hP : ∀ s ∈ P, NoSlash s)
    (h : joinSlash Q <+: joinSlash P) : Q <+: P := by
  induction Q generalizing P with
  | nil => exact List.nil_prefix
  | cons q Q' ih =>
    cases P with
    | nil =>
      simp only [joinSlash, List.flatMap_cons, List.flatMap_nil, List.prefix_nil] at h
      simp at h
    | cons p P' =>
      simp only [joinSlash, List.flatMap_cons, List.append_assoc, List.singleton_append] at h
      obtain ⟨e, h'⟩ := seg_prefix q p _ _ (hQ q (by simp)) (hP p (by simp)) h
      subst e
      exact List.cons_prefix_cons.mpr ⟨rfl, ih P' (fun s hs => hQ s (List.mem_cons_of_mem _ hs))
        (fun s hs => hP s (List.mem_cons_of_mem _ hs)) h'⟩

theorem join_ne_dotSeg (P : List Name) (hP : Reduced P) : join P ≠ dotSeg := by
  intro e
  cases P with
  | nil => cases e
  | cons s rest =>
    cases rest with
    | nil => exact (hP s (by simp)).1.2.1 e
    | cons s' r =>
      -- a joined path of two or more segments contains `/`
      have : slash ∈ join (s :: s' :: r) := by simp [join]
      rw [e] at this
      simp [dotSeg, dot, slash] at this

/-- two non-root reduced paths that `overlaps` accepts are prefix-related -/
theorem overlaps_join (P Q : List Name) (hP : Reduced P) (hQ : Reduced Q) (hPn : P ≠ []) (hQn : Q ≠ [])
    (h : overlaps (join P) (join Q) = true) : P <+: Q ∨ Q <+: P := by
  unfold overlaps at h
  simp only [if_neg (join_ne_dotSeg P hP), if_neg (join_ne_dotSeg Q hQ)] at h
  have e1 : (join P).isEmpty = false := by
    cases hj : join P with
    | nil => exact absurd ((join_eq_nil_iff P hP).mp hj) hPn
    | cons _ _ => rfl
  have e2 : (join Q).isEmpty = false := by
    cases hj : join Q with
    | nil => exact absurd ((join_eq_nil_iff Q hQ).mp hj) hQn
    | cons _ _ => rfl
  simp only [e1, e2, Bool.false_or, Bool.or_eq_true, List.isPrefixOf_iff_prefix] at h
  rw [join_append_slash P hPn, join_append_slash Q hQn] at h
  rcases h with h | h
  · exact Or.inr (joinSlash_prefix Q P (fun s hs => (hQ s hs).2) (fun s hs => (hP s hs).2) h)
  · exact Or.inl (joinSlash_prefix P Q (fun s hs => (hP s hs).2) (fun s hs => (hQ s hs).2) h)

end Cache
end Goat
