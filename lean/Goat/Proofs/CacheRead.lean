/-
Read-type methods of the cache under the view invariant `VInv`: every answer is the specification's answer
on the direct tree (`FS.Step`), for a cache-level path string whose cleaned form has a known normal form (or
is known to climb).
-/
import Goat.Proofs.CacheView

namespace Goat
namespace Cache

open Path (Name norm join slash Reduced Plain cleanPath reduceAbsPath)
open FS (Op Result Entry Mut)
open MemFS MemAbs

/-! ### the root memory filespace's answers as functions of its abstract tree -/

def isFileE : Option Entry → Bool
  | some (.file _) => true
  | _ => false

def isDirE : Option Entry → Bool
  | some .dir => true
  | _ => false

def readFileE : Option Entry → Result
  | some (.file d) => .data d
  | _ => .err

def readerE (sizes : List Nat) : Option Entry → Result
  | some (.file d) => .chunks (FS.readChunks d sizes)
  | _ => .err

def lstatE (Q : List Name) : Option Entry → Result
  | some (.file d) => .stat (FS.statName Q) false d.length
  | some .dir => .stat (FS.statName Q) true 0
  | none => .err

theorem root_isExist_eq (t : Node) (ht : Inv t) (src : Bytes) (Q : List Name) (hn : norm src = some Q) :
    Root.isExist t src = .bool (abs t Q).isSome := by
  have := (step_refines .root [] rfl t ht (.isExist src)).1
  simp only [FS.Step, hn, List.nil_append] at this
  exact this.2

theorem root_isFile_eq (t : Node) (ht : Inv t) (src : Bytes) (Q : List Name) (hn : norm src = some Q) :
    Root.isFile t src = .bool (isFileE (abs t Q)) := by
  have := (step_refines .root [] rfl t ht (.isFile src)).1
  simp only [FS.Step, hn, List.nil_append] at this
  have e : (MemFS.step .root t (.isFile src)).2 = Root.isFile t src := rfl
  rw [e] at this
  rcases h : abs t Q with _ | (d | _) <;> simp only [h] at this <;> simp [isFileE, this.2]

theorem root_isDir_eq (t : Node) (ht : Inv t) (src : Bytes) (Q : List Name) (hn : norm src = some Q) :
    Root.isDir t src = .bool (isDirE (abs t Q)) := by
  have := (step_refines .root [] rfl t ht (.isDir src)).1
  simp only [FS.Step, hn, List.nil_append] at this
  have e : (MemFS.step .root t (.isDir src)).2 = Root.isDir t src := rfl
  rw [e] at this
  rcases h : abs t Q with _ | (d | _) <;> simp only [h] at this <;> simp [isDirE, this.2]

theorem root_readFile_eq (t : Node) (ht : Inv t) (src : Bytes) (Q : List Name) (hn : norm src = some Q) :
    Root.readFile t src = readFileE (abs t Q) := by
  have := (step_refines .root [] rfl t ht (.readFile src)).1
  simp only [FS.Step, hn, List.nil_append] at this
  have e : (MemFS.step .root t (.readFile src)).2 = Root.readFile t src := rfl
  rw [e] at this
  rcases h : abs t Q with _ | (d | _) <;> simp only [h] at this <;> simp [readFileE, this.2]

theorem root_reader_eq (t : Node) (ht : Inv t) (src : Bytes) (sizes : List Nat) (Q : List Name)
    (hn : norm src = some Q) : Root.reader t src sizes = readerE sizes (abs t Q) := by
  have := (step_refines .root [] rfl t ht (.reader src sizes)).1
  simp only [FS.Step, hn, List.nil_append] at this
  have e : (MemFS.step .root t (.reader src sizes)).2 = Root.reader t src sizes := rfl
  rw [e] at this
  rcases h : abs t Q with _ | (d | _) <;> simp only [h] at this <;> simp [readerE, this.2]

theorem root_lstat_eq (t : Node) (ht : Inv t) (src : Bytes) (Q : List Name) (hn : norm src = some Q) :
    Root.lstat t src = lstatE Q (abs t Q) := by
  have := (step_refines .root [] rfl t ht (.lstat src)).1
  simp only [FS.Step, hn, List.nil_append] at this
  have e : (MemFS.step .root t (.lstat src)).2 = Root.lstat t src := rfl
  rw [e] at this
  rcases h : abs t Q with _ | (d | _) <;> simp only [h] at this <;> simp [lstatE, this.2]

theorem root_readDir_dir (t : Node) (ht : Inv t) (src : Bytes) (Q : List Name) (hn : norm src = some Q)
    (h : abs t Q = some .dir) : ∃ l, Root.readDir t src = .list l ∧ FS.IsListing (abs t) Q l := by
  have := readDir_agrees .root [] rfl t ht src Q hn (by simpa using h)
  simp only [List.nil_append] at this
  exact this

theorem root_readDir_err (t : Node) (ht : Inv t) (src : Bytes) (Q : List Name) (hn : norm src = some Q)
    (h : abs t Q ≠ some .dir) : Root.readDir t src = .err := by
  have := (step_refines .root [] rfl t ht (.readDir src)).1
  simp only [FS.Step, hn, List.nil_append] at this
  have e : (MemFS.step .root t (.readDir src)).2 = Root.readDir t src := rfl
  rw [e] at this
  rcases h' : abs t Q with _ | (d | _)
  · exact this.2
  · exact this.2
  · exact absurd h' h

/-- a path that climbs: every root method refuses -/
theorem root_climb (t : Node) (src : Bytes) (hn : norm src = none) :
    Root.isExist t src = .bool false ∧ Root.isFile t src = .bool false ∧ Root.isDir t src = .bool false
    ∧ Root.readFile t src = .err ∧ (∀ sizes, Root.reader t src sizes = .err) ∧ Root.lstat t src = .err
    ∧ Root.readDir t src = .err := by
  have h := reduceAbsPath_none hn
  simp [Root.isExist, Root.isFile, Root.isDir, Root.readFile, Root.reader, Root.lstat, Root.readDir, h]

/-! ### the cache's answers under `VInv` -/

section
variable {s : State} {D : Node} (V : VInv s D) (raw : Bytes) (Q : List Name) (hn : norm (cleanPath raw) = some Q)
include V hn

theorem read_isExist : isExist s raw = .bool (abs D Q).isSome := by
  unfold isExist
  simp only [root_isExist_eq _ V.hb _ Q hn, root_isExist_eq _ V.hr _ Q hn, isTrue, V.eq, overlay]
  cases abs s.buffer Q <;> simp

theorem read_isFile : isFile s raw = .bool (isFileE (abs D Q)) := by
  unfold isFile
  simp only [root_isFile_eq _ V.hb _ Q hn, root_isFile_eq _ V.hr _ Q hn, isTrue, V.eq, overlay]
  have hc := V.compat Q
  rcases hb : abs s.buffer Q with _ | (d | _) <;> rcases hr : abs s.remote Q with _ | (d' | _) <;>
    simp [isFileE]
  · have := hc _ _ hb hr; simp [Entry.isDir] at this

theorem read_isDir : isDir s raw = .bool (isDirE (abs D Q)) := by
  unfold isDir
  simp only [root_isDir_eq _ V.hb _ Q hn, root_isDir_eq _ V.hr _ Q hn, isTrue, V.eq, overlay]
  have hc := V.compat Q
  rcases hb : abs s.buffer Q with _ | (d | _) <;> rcases hr : abs s.remote Q with _ | (d' | _) <;>
    simp [isDirE]
  · have := hc _ _ hb hr; simp [Entry.isDir] at this

theorem srcFS_eq : srcFS s raw = ((abs s.buffer Q).isSome, cleanPath raw) := by
  simp [srcFS, root_isExist_eq _ V.hb _ Q hn, isTrue]

theorem read_readFile : readFile s raw = readFileE (abs D Q) := by
  unfold readFile
  rw [srcFS_eq V raw Q hn]
  simp only [srcTree, V.eq, overlay]
  rcases hb : abs s.buffer Q with _ | e
  · simp [root_readFile_eq _ V.hr _ Q hn]
  · simp [root_readFile_eq _ V.hb _ Q hn, hb]

theorem read_reader (sizes : List Nat) : reader s raw sizes = readerE sizes (abs D Q) := by
  unfold reader
  rw [srcFS_eq V raw Q hn]
  simp only [srcTree, V.eq, overlay]
  rcases hb : abs s.buffer Q with _ | e
  · simp [root_reader_eq _ V.hr _ sizes Q hn]
  · simp [root_reader_eq _ V.hb _ sizes Q hn, hb]

theorem read_lstat : lstat s raw = lstatE Q (abs D Q) := by
  unfold lstat
  rw [srcFS_eq V raw Q hn]
  simp only [srcTree, V.eq, overlay]
  rcases hb : abs s.buffer Q with _ | e
  · simp [root_lstat_eq _ V.hr _ Q hn]
  · simp [root_lstat_eq _ V.hb _ Q hn, hb]

end

end Cache
end Goat

namespace Goat
namespace Cache

open Path (Name norm join slash Reduced Plain cleanPath reduceAbsPath)
open FS (Op Result Entry Mut)
open MemFS MemAbs

/-! ### the merged listing -/

theorem any_name_iff (lr : List (Name × Bool)) (n : Name) :
    (lr.any fun c => c.1 == n) = true ↔ n ∈ lr.map Prod.fst := by
  simp only [List.any_eq_true, List.mem_map]
  constructor
  · rintro ⟨c, hc, he⟩; exact ⟨c, hc, by simpa using he⟩
  · rintro ⟨c, hc, he⟩; exact ⟨c, hc, by simpa using he⟩

theorem mem_mergeDirs (lr lb : List (Name × Bool)) (x : Name × Bool) :
    x ∈ mergeDirs lr lb ↔ x ∈ lr ∨ (x ∈ lb ∧ x.1 ∉ lr.map Prod.fst) := by
  unfold mergeDirs
  simp only [List.mem_append, List.mem_filter]
  constructor
  · rintro (h | ⟨h1, h2⟩)
    · exact Or.inl h
    · refine Or.inr ⟨h1, fun hm => ?_⟩
      have := (any_name_iff lr x.1).mpr hm
      simp [this] at h2
  · rintro (h | ⟨h1, h2⟩)
    · exact Or.inl h
    · refine Or.inr ⟨h1, ?_⟩
      have : (lr.any fun c => c.1 == x.1) = false := by
        cases h : lr.any fun c => c.1 == x.1
        · rfl
        · exact absurd ((any_name_iff lr x.1).mp h) h2
      simp [this]

/-- the merged listing never lists a name twice when the two listings do not -/
theorem mergeDirs_nodup (lr lb : List (Name × Bool)) (hr : (lr.map Prod.fst).Nodup) (hb : (lb.map Prod.fst).Nodup) :
    ((mergeDirs lr lb).map Prod.fst).Nodup := by
  unfold mergeDirs
  rw [List.map_append, List.nodup_append]
  refine ⟨hr, ?_, ?_⟩
  · exact (List.Sublist.map _ List.filter_sublist).nodup hb
  · intro a ha b hb' hab
    subst hab
    obtain ⟨y, hy, rfl⟩ := List.mem_map.mp hb'
    have hy' := (List.mem_filter.mp hy).2
    have := (any_name_iff lr y.1).mpr ha
    simp [this] at hy'

theorem mergeDirs_nil_left (lb : List (Name × Bool)) : mergeDirs [] lb = lb := by
  simp [mergeDirs]

theorem mergeDirs_nil_right (lr : List (Name × Bool)) : mergeDirs lr [] = lr := by
  simp [mergeDirs]

section
variable {s : State} {D : Node} (V : VInv s D) (raw : Bytes) (Q : List Name) (hn : norm (cleanPath raw) = some Q)
include V hn

theorem read_readDir :
    match abs D Q with
    | some .dir => ∃ l, readDir s raw = .list l ∧ FS.IsListing (abs D) Q l
    | _ => readDir s raw = .err := by
  have hDQ : abs D Q = overlay (abs s.buffer) (abs s.remote) Q := by rw [V.eq]
  have hchild : ∀ n, abs D (Q ++ [n]) = overlay (abs s.buffer) (abs s.remote) (Q ++ [n]) := fun n => by rw [V.eq]
  unfold readDir
  simp only []
  rcases hb : abs s.buffer Q with _ | (d | _) <;> rcases hr : abs s.remote Q with _ | (d' | _)
  · -- neither
    rw [hDQ]; simp only [overlay, hb, hr]
    rw [root_readDir_err _ V.hr _ Q hn (by simp [hr]), root_readDir_err _ V.hb _ Q hn (by simp [hb])]
  · rw [hDQ]; simp only [overlay, hb, hr]
    rw [root_readDir_err _ V.hr _ Q hn (by simp [hr]), root_readDir_err _ V.hb _ Q hn (by simp [hb])]
  · -- only the remote has the directory
    rw [hDQ]; simp only [overlay, hb, hr]
    obtain ⟨lr, e, hl⟩ := root_readDir_dir _ V.hr _ Q hn hr
    rw [e, root_readDir_err _ V.hb _ Q hn (by simp [hb])]
    refine ⟨mergeDirs lr [], rfl, ?_⟩
    rw [mergeDirs_nil_right]
    refine ⟨hl.1, fun n b => ?_⟩
    rw [hl.2 n b, hchild n, overlay_none (abs_below s.buffer Q [n] (by simp) (by simp [hb]))]
  · rw [hDQ]; simp only [overlay, hb]
    rw [root_readDir_err _ V.hr _ Q hn (by simp [hr]), root_readDir_err _ V.hb _ Q hn (by simp [hb])]
  · rw [hDQ]; simp only [overlay, hb]
    rw [root_readDir_err _ V.hr _ Q hn (by simp [hr]), root_readDir_err _ V.hb _ Q hn (by simp [hb])]
  · have := V.compat Q _ _ hb hr; simp [Entry.isDir] at this
  · -- only the buffer has the directory
    rw [hDQ]; simp only [overlay, hb]
    obtain ⟨lb, e, hl⟩ := root_readDir_dir _ V.hb _ Q hn hb
    rw [e, root_readDir_err _ V.hr _ Q hn (by simp [hr])]
    refine ⟨mergeDirs [] lb, rfl, ?_⟩
    rw [mergeDirs_nil_left]
    refine ⟨hl.1, fun n b => ?_⟩
    rw [hl.2 n b, hchild n]
    have hrn : abs s.remote (Q ++ [n]) = none := abs_below s.remote Q [n] (by simp) (by simp [hr])
    simp only [overlay]
    cases abs s.buffer (Q ++ [n]) <;> simp [hrn]
  · have := V.compat Q _ _ hb hr; simp [Entry.isDir] at this
  · -- both
    rw [hDQ]; simp only [overlay, hb]
    obtain ⟨lb, eb, hlb⟩ := root_readDir_dir _ V.hb _ Q hn hb
    obtain ⟨lr, er, hlr⟩ := root_readDir_dir _ V.hr _ Q hn hr
    rw [eb, er]
    refine ⟨mergeDirs lr lb, rfl, mergeDirs_nodup lr lb hlr.1 hlb.1, fun n b => ?_⟩
    rw [mem_mergeDirs, hchild n]
    simp only [overlay]
    constructor
    · rintro (h | ⟨h1, h2⟩)
      · have hR := (hlr.2 n b).mp h
        rcases hbn : abs s.buffer (Q ++ [n]) with _ | e
        · simpa using hR
        · rcases hrn : abs s.remote (Q ++ [n]) with _ | e'
          · simp [hrn] at hR
          · simp only [hrn, Option.map_some, Option.some.injEq] at hR
            simp only [Option.map_some, Option.some.injEq]
            rw [V.compat _ _ _ hbn hrn]; exact hR
      · have hB := (hlb.2 n b).mp h1
        rcases hbn : abs s.buffer (Q ++ [n]) with _ | e
        · simp [hbn] at hB
        · simpa [hbn] using hB
    · intro h
      rcases hbn : abs s.buffer (Q ++ [n]) with _ | e
      · rw [hbn] at h
        exact Or.inl ((hlr.2 n b).mpr (by simpa using h))
      · rw [hbn] at h
        simp only [Option.map_some, Option.some.injEq] at h
        have hB : (n, b) ∈ lb := (hlb.2 n b).mpr (by simp [hbn, h])
        by_cases hm : n ∈ lr.map Prod.fst
        · obtain ⟨⟨n', b'⟩, hy, rfl⟩ := List.mem_map.mp hm
          have hR := (hlr.2 n' b').mp hy
          rcases hrn : abs s.remote (Q ++ [n']) with _ | e'
          · simp [hrn] at hR
          · simp only [hrn, Option.map_some, Option.some.injEq] at hR
            have : b' = b := by rw [← hR, ← V.compat _ _ _ hbn hrn]; exact h
            subst this; exact Or.inl hy
        · exact Or.inr ⟨hB, hm⟩

end

/-- every read-type method, for a cleaned path that climbs -/
theorem read_climb (s : State) (raw : Bytes) (hn : norm (cleanPath raw) = none) :
    isExist s raw = .bool false ∧ isFile s raw = .bool false ∧ isDir s raw = .bool false
    ∧ readFile s raw = .err ∧ (∀ sizes, reader s raw sizes = .err) ∧ lstat s raw = .err ∧ readDir s raw = .err := by
  have hB := root_climb s.buffer _ hn
  have hR := root_climb s.remote _ hn
  refine ⟨?_, ?_, ?_, ?_, ?_, ?_, ?_⟩
  · simp [isExist, hB.1, hR.1, isTrue]
  · simp [isFile, hB.2.1, hR.2.1, isTrue]
  · simp [isDir, hB.2.2.1, hR.2.2.1, isTrue]
  · simp only [readFile, srcFS, hB.1, isTrue, srcTree]; exact hR.2.2.2.1
  · intro sizes; simp only [reader, srcFS, hB.1, isTrue, srcTree]; exact hR.2.2.2.2.1 sizes
  · simp only [lstat, srcFS, hB.1, isTrue, srcTree]; exact hR.2.2.2.2.2.1
  · simp [readDir, hB.2.2.2.2.2.2, hR.2.2.2.2.2.2]

end Cache
end Goat
