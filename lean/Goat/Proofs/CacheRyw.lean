/-
Histories: the view invariant along every history of the class of `ryw_partial`, and read-your-writes for
every read-type call through the cache or a child view.
-/
import Goat.Proofs.CacheRead
import Goat.Proofs.CacheCopy

namespace Goat
namespace Cache

open Path (Name norm join slash Reduced Plain cleanPath reduceAbsPath)
open FS (Op Result Entry Mut)
open MemFS MemAbs

/-! ### handles -/

/-- the (reduced) path a handle is rooted at -/
def handleBase : Handle → Option (List Name)
  | .cache => some []
  | .sub base => norm base

theorem getLast?_snoc {α} (l : List α) (a : α) (h : l.getLast? = some a) : ∃ l0, l = l0 ++ [a] := by
  induction l with
  | nil => simp at h
  | cons x rest ih =>
    cases rest with
    | nil => simp at h; subst h; exact ⟨[], rfl⟩
    | cons y r =>
      rw [List.getLast?_cons_cons] at h
      obtain ⟨l0, e⟩ := ih h
      exact ⟨x :: l0, by rw [e]; rfl⟩

/-- what `Handle.ok` gives: the base path, the memfs handle of the direct side, and the shape of the string -/
theorem handle_ok {h : Handle} (hok : h.ok = true) :
    ∃ b ref, handleBase h = some b ∧ specRef h = some ref ∧ ViewOK ref b
      ∧ (h = .cache ∧ b = [] ∨ ∃ base0, h = .sub (base0 ++ [slash]) ∧ norm (base0 ++ [slash]) = some b) := by
  cases h with
  | cache => exact ⟨[], .root, rfl, rfl, rfl, Or.inl ⟨rfl, rfl⟩⟩
  | sub base =>
    simp only [Handle.ok, Bool.and_eq_true, beq_iff_eq, nf] at hok
    obtain ⟨hl, hn⟩ := hok
    obtain ⟨base0, rfl⟩ := getLast?_snoc base slash hl
    cases hb : norm (base0 ++ [slash]) with
    | none => simp [hb] at hn
    | some b =>
      have hr := Path.norm_reduced _ b hb
      refine ⟨b, .wrap (join b ++ [slash]), hb, ?_, ⟨hr, rfl⟩, Or.inr ⟨base0, rfl, hb⟩⟩
      simp [specRef, newWrapper, reduceAbsPath_of_norm hb]

/-- the Inv of the direct tree after any call through an ok handle -/
theorem direct_inv {h : Handle} (hok : h.ok = true) (D : Node) (hD : Inv D) (op : Op) :
    Inv (directStep D h op).1 := by
  obtain ⟨b, ref, _, hs, hv, _⟩ := handle_ok hok
  simp only [directStep, hs]
  exact (step_refines ref b hv D hD op).2.1.inv hD (by
    intro s hs
    rcases List.mem_append.mp hs with h | h
    · exact (hv.reduced s h).1
    · exact opSegs_plain op s h)

/-- the path string that reaches the cache for an argument `raw` of normal form `p` given through the handle -/
def cachePath : Handle → List Name → Bytes → Bytes
  | .cache, _, raw => raw
  | .sub base, p, _ => base ++ join p

theorem norm_cachePath {h : Handle} {b : List Name}
    (hs : h = .cache ∧ b = [] ∨ ∃ base0, h = .sub (base0 ++ [slash]) ∧ norm (base0 ++ [slash]) = some b)
    (raw : Bytes) (p : List Name) (hn : norm raw = some p) : norm (cachePath h p raw) = some (b ++ p) := by
  rcases hs with ⟨rfl, rfl⟩ | ⟨base0, rfl, hb⟩
  · simpa [cachePath] using hn
  · exact norm_sub base0 b p hb (Path.norm_reduced raw p hn)

/-! ### one call of the class -/

theorem step_sub_writeFile (base raw data : Bytes) (p : List Name) (s : State) (hn : norm raw = some p) :
    step (.sub base) s (.writeFile raw data) = writeFile s (base ++ join p) data := by
  simp [step, subOp, reduceAbsPath_of_norm hn, stepCache]

theorem step_sub_writer (base raw : Bytes) (cs : List Bytes) (p : List Name) (s : State) (hn : norm raw = some p) :
    step (.sub base) s (.writer raw cs) = writer s (base ++ join p) cs := by
  simp [step, subOp, reduceAbsPath_of_norm hn, stepCache]

theorem step_sub_mkdirAll (base raw : Bytes) (p : List Name) (s : State) (hn : norm raw = some p) :
    step (.sub base) s (.mkdirAll raw) = mkdirAll s (base ++ join p) := by
  simp [step, subOp, reduceAbsPath_of_norm hn, stepCache]

theorem step_sub_remove (base raw : Bytes) (p : List Name) (s : State) (hn : norm raw = some p) (hp : p ≠ []) :
    step (.sub base) s (.remove raw) = remove s (base ++ join p) := by
  have hj : join p ≠ [] := fun e => hp ((Path.join_eq_nil_iff p (Path.norm_reduced raw p hn)).mp e)
  simp only [step, subOp, reduceAbsPath_of_norm hn]
  cases hjp : join p with
  | nil => exact absurd hjp hj
  | cons c tl => simp [stepCache]

theorem step_sub_removeAll (base raw : Bytes) (p : List Name) (s : State) (hn : norm raw = some p) (hp : p ≠ []) :
    step (.sub base) s (.removeAll raw) = removeAll s (base ++ join p) := by
  have hj : join p ≠ [] := fun e => hp ((Path.join_eq_nil_iff p (Path.norm_reduced raw p hn)).mp e)
  simp only [step, subOp, reduceAbsPath_of_norm hn]
  cases hjp : join p with
  | nil => exact absurd hjp hj
  | cons c tl => simp [stepCache]

/-- the cache-level call of a single-path mutating method through an ok handle -/
theorem step_eq_cachePath {h : Handle} {b : List Name}
    (hs : h = .cache ∧ b = [] ∨ ∃ base0, h = .sub (base0 ++ [slash]) ∧ norm (base0 ++ [slash]) = some b)
    (s : State) (raw : Bytes) (p : List Name) (hn : norm raw = some p) :
    (∀ data, step h s (.writeFile raw data) = writeFile s (cachePath h p raw) data)
    ∧ (∀ cs, step h s (.writer raw cs) = writer s (cachePath h p raw) cs)
    ∧ step h s (.mkdirAll raw) = mkdirAll s (cachePath h p raw)
    ∧ (p ≠ [] → step h s (.remove raw) = remove s (cachePath h p raw))
    ∧ (p ≠ [] → step h s (.removeAll raw) = removeAll s (cachePath h p raw)) := by
  rcases hs with ⟨rfl, rfl⟩ | ⟨base0, rfl, hb⟩
  · exact ⟨fun _ => rfl, fun _ => rfl, rfl, fun _ => rfl, fun _ => rfl⟩
  · exact ⟨fun d => step_sub_writeFile _ raw d p s hn, fun cs => step_sub_writer _ raw cs p s hn,
      step_sub_mkdirAll _ raw p s hn, step_sub_remove _ raw p s hn, step_sub_removeAll _ raw p s hn⟩

theorem step_eq_copyFile {h : Handle} {b : List Name}
    (hs : h = .cache ∧ b = [] ∨ ∃ base0, h = .sub (base0 ++ [slash]) ∧ norm (base0 ++ [slash]) = some b)
    (s : State) (rs rd : Bytes) (ps pd : List Name) (hns : norm rs = some ps) (hnd : norm rd = some pd) :
    step h s (.copyFile rs rd) = copyFile s (cachePath h ps rs) (cachePath h pd rd) := by
  rcases hs with ⟨rfl, rfl⟩ | ⟨base0, rfl, hb⟩
  · rfl
  · simp [step, subOp, reduceAbsPath_of_norm hns, reduceAbsPath_of_norm hnd, stepCache, cachePath]

/-- the remote-side condition of `removesBufferOnly`, for one call -/
def bufferOnlyAt (remote : Node) (h : Handle) (op : Op) : Bool :=
  match cacheOp h op with
  | some (.remove raw) | some (.removeAll raw) => !has remote (cleanPath raw)
  | _ => true

theorem cacheOp_remove {h : Handle} {b : List Name}
    (hs : h = .cache ∧ b = [] ∨ ∃ base0, h = .sub (base0 ++ [slash]) ∧ norm (base0 ++ [slash]) = some b)
    (raw : Bytes) (p : List Name) (hn : norm raw = some p) (hp : p ≠ []) :
    cacheOp h (.remove raw) = some (.remove (cachePath h p raw))
    ∧ cacheOp h (.removeAll raw) = some (.removeAll (cachePath h p raw)) := by
  rcases hs with ⟨rfl, rfl⟩ | ⟨base0, rfl, hb⟩
  · exact ⟨rfl, rfl⟩
  · have hj : join p ≠ [] := fun e => hp ((Path.join_eq_nil_iff p (Path.norm_reduced raw p hn)).mp e)
    simp only [cacheOp, subOp, reduceAbsPath_of_norm hn, cachePath]
    cases hjp : join p with
    | nil => exact absurd hjp hj
    | cons c tl => simp

theorem has_eq (t : Node) (ht : Inv t) (src : Bytes) (Q : List Name) (hn : norm src = some Q) :
    has t src = (abs t Q).isSome := by
  simp [has, root_isExist_eq t ht src Q hn, isTrue]

/-- ONE CALL of the class: it succeeds through the cache and the view invariant is kept -/
theorem vinv_step {s : State} {D : Node} (V : VInv s D) (h : Handle) (op : Op)
    (hc : rywClass (h, op) = true) (hdir : (directStep D h op).2 = .ok)
    (honly : bufferOnlyAt s.remote h op = true) :
    (step h s op).2 = .ok ∧ VInv (step h s op).1 (directStep D h op).1 := by
  have hok : h.ok = true := by
    cases op <;> simp [rywClass, writeClass] at hc <;> first | exact hc | exact hc.1
  obtain ⟨b, ref, hbase, hsr, hv, hshape⟩ := handle_ok hok
  have hD' := direct_inv hok D V.hd op
  have hstep := (step_refines ref b hv D V.hd op).1
  simp only [directStep, hsr] at hdir hD' ⊢
  cases op with
  | writeFile raw data =>
    simp only [FS.Step] at hstep
    cases hn : norm raw with
    | none => rw [hn] at hstep; rw [hstep.1] at hdir; cases hdir
    | some p =>
      rw [hn] at hstep
      obtain ⟨hpre, hpost⟩ := mut_ok hstep hdir
      rw [(step_eq_cachePath hshape s raw p hn).1 data]
      have := vinv_writeFile V (cachePath h p raw) data (b ++ p) (norm_cachePath hshape raw p hn) hpre hD' hpost
      exact ⟨this.1, this.2.1⟩
  | writer raw cs =>
    simp only [FS.Step] at hstep
    cases hn : norm raw with
    | none => rw [hn] at hstep; rw [hstep.1] at hdir; cases hdir
    | some p =>
      rw [hn] at hstep
      obtain ⟨hpre, hpost⟩ := mut_ok hstep hdir
      rw [(step_eq_cachePath hshape s raw p hn).2.1 cs]
      have := vinv_writer V (cachePath h p raw) cs (b ++ p) (norm_cachePath hshape raw p hn) hpre hD' hpost
      exact ⟨this.1, this.2.1⟩
  | mkdirAll raw =>
    simp only [FS.Step] at hstep
    cases hn : norm raw with
    | none => rw [hn] at hstep; rw [hstep.1] at hdir; cases hdir
    | some p =>
      rw [hn] at hstep
      obtain ⟨hpre, hpost⟩ := mut_ok hstep hdir
      rw [(step_eq_cachePath hshape s raw p hn).2.2.1]
      have := vinv_mkdirAll V (cachePath h p raw) (b ++ p) (norm_cachePath hshape raw p hn) hpre hD' hpost
      exact ⟨this.1, this.2.1⟩
  | remove raw =>
    simp only [FS.Step] at hstep
    cases hn : norm raw with
    | none => rw [hn] at hstep; rw [hstep.1] at hdir; cases hdir
    | some p =>
      rw [hn] at hstep
      obtain ⟨⟨hp, hpre⟩, hpost⟩ := mut_ok hstep hdir
      rw [(step_eq_cachePath hshape s raw p hn).2.2.2.1 hp]
      have hnc := norm_cachePath hshape raw p hn
      have hr : abs s.remote (b ++ p) = none := by
        simp only [bufferOnlyAt, (cacheOp_remove hshape raw p hn hp).1] at honly
        rw [has_eq s.remote V.hr _ _ (Path.norm_cleanPath _ _ hnc)] at honly
        cases h' : abs s.remote (b ++ p) with
        | none => rfl
        | some e => simp [h'] at honly
      exact vinv_remove V (cachePath h p raw) (b ++ p) hnc hpre hr hD' hpost
  | removeAll raw =>
    simp only [FS.Step] at hstep
    cases hn : norm raw with
    | none => rw [hn] at hstep; rw [hstep.1] at hdir; cases hdir
    | some p =>
      rw [hn] at hstep
      obtain ⟨⟨hp, hpre⟩, hpost⟩ := mut_ok hstep hdir
      rw [(step_eq_cachePath hshape s raw p hn).2.2.2.2 hp]
      have hnc := norm_cachePath hshape raw p hn
      have hr : abs s.remote (b ++ p) = none := by
        simp only [bufferOnlyAt, (cacheOp_remove hshape raw p hn hp).2] at honly
        rw [has_eq s.remote V.hr _ _ (Path.norm_cleanPath _ _ hnc)] at honly
        cases h' : abs s.remote (b ++ p) with
        | none => rfl
        | some e => simp [h'] at honly
      exact vinv_removeAll V (cachePath h p raw) (b ++ p) hnc hpre hr hD' hpost
  | copyFile rs rd =>
    simp only [FS.Step] at hstep
    cases hns : norm rs with
    | none => rw [hns] at hstep; simp only [] at hstep; rw [hstep.1] at hdir; cases hdir
    | some ps =>
      cases hnd : norm rd with
      | none => rw [hns, hnd] at hstep; simp only [] at hstep; rw [hstep.1] at hdir; cases hdir
      | some pd =>
        rw [hns, hnd] at hstep
        simp only [] at hstep
        obtain ⟨hpre, hpost⟩ := mut_ok hstep hdir
        rw [step_eq_copyFile hshape s rs rd ps pd hns hnd]
        obtain ⟨d0, h1, h2, _⟩ := vinv_copyFile V (cachePath h ps rs) (cachePath h pd rd) (b ++ ps) (b ++ pd)
          (norm_cachePath hshape rs ps hns) (norm_cachePath hshape rd pd hnd) hpre hD' hpost
        exact ⟨h1, h2⟩
  | _ => simp [rywClass, writeClass] at hc

/-! ### whole histories -/

theorem removesBufferOnly_cons (r : Node) (h : Handle) (op : Op) (rest : List (Handle × Op)) :
    removesBufferOnly r ((h, op) :: rest) = (bufferOnlyAt r h op && removesBufferOnly r rest) := rfl

/-- ALL HISTORIES of the class: every call succeeds through the cache and the cache's view is the direct tree -/
theorem vinv_run {s : State} {D : Node} (V : VInv s D) (ops : List (Handle × Op))
    (hclass : ops.all rywClass = true) (hdirect : allDirectOk D ops = true)
    (honly : removesBufferOnly s.remote ops = true) :
    VInv (run s ops) (directRun D ops) ∧ ∀ r ∈ runResults s ops, r = .ok := by
  induction ops generalizing s D with
  | nil => exact ⟨V, by simp [runResults]⟩
  | cons x rest ih =>
    obtain ⟨h, op⟩ := x
    simp only [List.all_cons, Bool.and_eq_true] at hclass
    simp only [allDirectOk, directResults, List.all_cons, Bool.and_eq_true, beq_iff_eq] at hdirect
    rw [removesBufferOnly_cons, Bool.and_eq_true] at honly
    obtain ⟨hr, V'⟩ := vinv_step V h op hclass.1 hdirect.1 honly.1
    have := ih V' hclass.2 (by simpa [allDirectOk] using hdirect.2) (by rw [step_remote]; exact honly.2)
    refine ⟨this.1, ?_⟩
    intro r hr'
    simp only [runResults, List.mem_cons] at hr'
    rcases hr' with rfl | hr'
    · exact hr
    · exact this.2 r hr'

/-! ### read-type calls through a handle -/

theorem step_read_some {h : Handle} {b : List Name}
    (hs : h = .cache ∧ b = [] ∨ ∃ base0, h = .sub (base0 ++ [slash]) ∧ norm (base0 ++ [slash]) = some b)
    (s : State) (raw : Bytes) (p : List Name) (hn : norm raw = some p) :
    (step h s (.isExist raw)).2 = isExist s (cachePath h p raw)
    ∧ (step h s (.isFile raw)).2 = isFile s (cachePath h p raw)
    ∧ (step h s (.isDir raw)).2 = isDir s (cachePath h p raw)
    ∧ (step h s (.readFile raw)).2 = readFile s (cachePath h p raw)
    ∧ (∀ sizes, (step h s (.reader raw sizes)).2 = reader s (cachePath h p raw) sizes)
    ∧ (step h s (.lstat raw)).2 = lstat s (cachePath h p raw)
    ∧ (step h s (.readDir raw)).2 = readDir s (cachePath h p raw) := by
  rcases hs with ⟨rfl, rfl⟩ | ⟨base0, rfl, hb⟩
  · exact ⟨rfl, rfl, rfl, rfl, fun _ => rfl, rfl, rfl⟩
  · simp [step, subOp, reduceAbsPath_of_norm hn, stepCache, cachePath]

theorem step_read_none_sub (base : Bytes) (s : State) (raw : Bytes) (hn : norm raw = none) :
    (step (.sub base) s (.isExist raw)).2 = .bool false
    ∧ (step (.sub base) s (.isFile raw)).2 = .bool false
    ∧ (step (.sub base) s (.isDir raw)).2 = .bool false
    ∧ (step (.sub base) s (.readFile raw)).2 = .err
    ∧ (∀ sizes, (step (.sub base) s (.reader raw sizes)).2 = .err)
    ∧ (step (.sub base) s (.lstat raw)).2 = .err
    ∧ (step (.sub base) s (.readDir raw)).2 = .err := by
  simp [step, subOp, reduceAbsPath_none hn, failResult]

/-- READ-YOUR-WRITES for one read-type call: under the view invariant, through the cache or any ok child view,
the answer is the specification's answer on the direct tree.  `hnc`: the negation of KF-C07-6 (a climbing path
given to the cache itself must still climb after `CleanPath`). -/
theorem ryw_step {s : State} {D : Node} (V : VInv s D) (h : Handle) (hok : h.ok = true) (op : Op)
    (hread : isRead op = true)
    (hnc : h = .cache → ∀ raw ∈ opArgs op, norm raw = none → norm (cleanPath raw) = none) :
    ∃ b, handleBase h = some b ∧ FS.Step b (abs D) op (step h s op).2 (abs D) := by
  obtain ⟨b, ref, hbase, _, _, hshape⟩ := handle_ok hok
  refine ⟨b, hbase, ?_⟩
  -- the answers for a climbing argument
  have hclimb : ∀ raw, raw ∈ opArgs op → norm raw = none →
      (step h s (.isExist raw)).2 = .bool false ∧ (step h s (.isFile raw)).2 = .bool false
      ∧ (step h s (.isDir raw)).2 = .bool false ∧ (step h s (.readFile raw)).2 = .err
      ∧ (∀ sizes, (step h s (.reader raw sizes)).2 = .err) ∧ (step h s (.lstat raw)).2 = .err
      ∧ (step h s (.readDir raw)).2 = .err := by
    intro raw hmem hn
    rcases hshape with ⟨rfl, rfl⟩ | ⟨base0, rfl, hb⟩
    · exact read_climb s raw (hnc rfl raw hmem hn)
    · exact step_read_none_sub _ s raw hn
  cases op with
  | isExist raw =>
    simp only [FS.Step]
    refine ⟨trivial, ?_⟩
    cases hn : norm raw with
    | none => exact (hclimb raw (by simp [opArgs]) hn).1
    | some p =>
      simp only []
      rw [(step_read_some hshape s raw p hn).1]
      exact read_isExist V _ _ (Path.norm_cleanPath _ _ (norm_cachePath hshape raw p hn))
  | isFile raw =>
    simp only [FS.Step]
    refine ⟨trivial, ?_⟩
    cases hn : norm raw with
    | none => exact (hclimb raw (by simp [opArgs]) hn).2.1
    | some p =>
      simp only []
      rw [(step_read_some hshape s raw p hn).2.1,
        read_isFile V _ _ (Path.norm_cleanPath _ _ (norm_cachePath hshape raw p hn))]
      rcases abs D (b ++ p) with _ | (d | _) <;> simp [isFileE]
  | isDir raw =>
    simp only [FS.Step]
    refine ⟨trivial, ?_⟩
    cases hn : norm raw with
    | none => exact (hclimb raw (by simp [opArgs]) hn).2.2.1
    | some p =>
      simp only []
      rw [(step_read_some hshape s raw p hn).2.2.1,
        read_isDir V _ _ (Path.norm_cleanPath _ _ (norm_cachePath hshape raw p hn))]
      rcases abs D (b ++ p) with _ | (d | _) <;> simp [isDirE]
  | readFile raw =>
    simp only [FS.Step]
    refine ⟨trivial, ?_⟩
    cases hn : norm raw with
    | none => exact (hclimb raw (by simp [opArgs]) hn).2.2.2.1
    | some p =>
      simp only []
      rw [(step_read_some hshape s raw p hn).2.2.2.1,
        read_readFile V _ _ (Path.norm_cleanPath _ _ (norm_cachePath hshape raw p hn))]
      rcases abs D (b ++ p) with _ | (d | _) <;> simp [readFileE]
  | reader raw sizes =>
    simp only [FS.Step]
    refine ⟨trivial, ?_⟩
    cases hn : norm raw with
    | none => exact (hclimb raw (by simp [opArgs]) hn).2.2.2.2.1 sizes
    | some p =>
      simp only []
      rw [(step_read_some hshape s raw p hn).2.2.2.2.1 sizes,
        read_reader V _ _ (Path.norm_cleanPath _ _ (norm_cachePath hshape raw p hn))]
      rcases abs D (b ++ p) with _ | (d | _) <;> simp [readerE]
  | lstat raw =>
    simp only [FS.Step]
    refine ⟨trivial, ?_⟩
    cases hn : norm raw with
    | none => exact (hclimb raw (by simp [opArgs]) hn).2.2.2.2.2.1
    | some p =>
      simp only []
      rw [(step_read_some hshape s raw p hn).2.2.2.2.2.1,
        read_lstat V _ _ (Path.norm_cleanPath _ _ (norm_cachePath hshape raw p hn))]
      rcases abs D (b ++ p) with _ | (d | _) <;> simp [lstatE]
  | readDir raw =>
    simp only [FS.Step]
    refine ⟨trivial, ?_⟩
    cases hn : norm raw with
    | none => exact (hclimb raw (by simp [opArgs]) hn).2.2.2.2.2.2
    | some p =>
      simp only []
      rw [(step_read_some hshape s raw p hn).2.2.2.2.2.2]
      have := read_readDir V _ _ (Path.norm_cleanPath _ _ (norm_cachePath hshape raw p hn))
      rcases hq : abs D (b ++ p) with _ | (d | _) <;> simp only [hq] at this ⊢ <;> exact this
  | _ => simp [isRead] at hread

end Cache
end Goat
