/-
Sequences of pending writes to one path (helper of Props/C07.lean `pending_writes_view`): the view of the path in
every intermediate state is the value written last — one of the written values, never the remote's.
-/
import Goat.Proofs.CacheMore

namespace Goat
namespace Cache

open Path (Name norm)
open FS (Op Result)
open MemFS

theorem run_append (s : State) (a b : List (Handle × Op)) : run s (a ++ b) = run (run s a) b := by
  induction a generalizing s with
  | nil => rfl
  | cons x rest ih => exact ih _

/-- after ANY earlier history `hist` on a state with well-formed trees, then the writes `pre` of the path (successful
or not) and a successful write of `d`: the path reads `d` through every handle and spelling reaching it -/
theorem pending_writes_last (s : State) (W : WInv s) (hist : List (Handle × Op)) (h h' : Handle) (hok : h.ok = true)
    (hok' : h'.ok = true) (b b' : List Name) (hbase : handleBase h = some b) (hbase' : handleBase h' = some b')
    (raw raw' : Bytes) (p p' : List Name) (hn : norm raw = some p) (hn' : norm raw' = some p')
    (hsame : b ++ p = b' ++ p') (pre : List Bytes) (d : Bytes)
    (hw : (step h (run s (hist ++ pre.map fun x => (h, Op.writeFile raw x))) (.writeFile raw d)).2 = .ok) :
    (step h' (run s (hist ++ (pre ++ [d]).map fun x => (h, Op.writeFile raw x))) (.readFile raw')).2 = .data d
    ∧ ∀ sizes, (step h' (run s (hist ++ (pre ++ [d]).map fun x => (h, Op.writeFile raw x))) (.reader raw' sizes)).2
        = .chunks (FS.readChunks d sizes) := by
  have hrun : run s (hist ++ (pre ++ [d]).map fun x => (h, Op.writeFile raw x))
      = (step h (run s (hist ++ pre.map fun x => (h, Op.writeFile raw x))) (.writeFile raw d)).1 := by
    rw [List.map_append, ← List.append_assoc, run_append]
    rfl
  rw [hrun]
  have W' := run_winv s W (hist ++ pre.map fun x => (h, Op.writeFile raw x))
  exact (read_after_write_gen _ W'.1 h h' hok hok' b b' hbase hbase' raw raw' p p' hn hn' hsame).1 d hw

/-- the op list of a sequence of writes `(handle, spelling, data)` -/
def writeOps (ws : List (Handle × Bytes × Bytes)) : List (Handle × Op) :=
  ws.map fun w => (w.1, Op.writeFile w.2.1 w.2.2)

/-- A SEQUENCE OF PENDING WRITES TO ONE PATH `q` (each through its own ok handle and spelling reaching `q`), after any
earlier history on any state with well-formed trees: in the intermediate state after the first `k+1` writes, if the
`k`-th write was accepted, the path reads the `k`-th value through every ok handle and spelling reaching `q`. -/
theorem pending_writes_seq (s : State) (W : WInv s) (hist : List (Handle × Op)) (q : List Name)
    (ws : List (Handle × Bytes × Bytes))
    (hall : ∀ w ∈ ws, w.1.ok = true ∧ ∃ b p, handleBase w.1 = some b ∧ norm w.2.1 = some p ∧ b ++ p = q)
    (h' : Handle) (hok' : h'.ok = true) (b' : List Name) (hbase' : handleBase h' = some b')
    (raw' : Bytes) (p' : List Name) (hn' : norm raw' = some p') (hq : b' ++ p' = q)
    (k : Nat) (hk : k < ws.length)
    (hw : (step ws[k].1 (run s (hist ++ writeOps (ws.take k))) (.writeFile ws[k].2.1 ws[k].2.2)).2 = .ok) :
    (step h' (run s (hist ++ writeOps (ws.take (k + 1)))) (.readFile raw')).2 = .data ws[k].2.2
    ∧ (∀ sizes, (step h' (run s (hist ++ writeOps (ws.take (k + 1)))) (.reader raw' sizes)).2
        = .chunks (FS.readChunks ws[k].2.2 sizes))
    ∧ ws[k].2.2 ∈ ws.map (fun w => w.2.2) := by
  obtain ⟨hok, b, p, hbase, hn, hbp⟩ := hall ws[k] (List.getElem_mem hk)
  have hrun : run s (hist ++ writeOps (ws.take (k + 1)))
      = (step ws[k].1 (run s (hist ++ writeOps (ws.take k))) (.writeFile ws[k].2.1 ws[k].2.2)).1 := by
    rw [List.take_succ_eq_append_getElem hk]
    unfold writeOps
    rw [List.map_append, ← List.append_assoc, run_append]
    rfl
  rw [hrun]
  have W' := run_winv s W (hist ++ writeOps (ws.take k))
  have := (read_after_write_gen _ W'.1 ws[k].1 h' hok hok' b b' hbase hbase' ws[k].2.1 raw' p p' hn hn'
    (hbp.trans hq.symm)).1 ws[k].2.2 hw
  exact ⟨this.1, this.2, List.mem_map.mpr ⟨ws[k], List.getElem_mem hk, rfl⟩⟩

end Cache
end Goat
