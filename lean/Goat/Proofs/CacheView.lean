/-
The view invariant of the cache model and read-your-writes on the class of `ryw_partial`.

  `overlay B R`   the buffer's entry where the buffer has one, else the remote's
  `Compat B R`    where both have an entry the two are of the same kind (no file/directory conflict)
  `VInv s D`      buffer, remote and the direct tree `D` are well formed, buffer and remote are compatible, and
                  `abs D = overlay (abs buffer) (abs remote)`: the cache's view IS the direct tree

  `vinv_*`        `WriteFile` / `Writer` / `MkdirAll` that succeed directly, and `Remove` / `RemoveAll` of nodes
                  that exist only in the buffer, succeed through the cache and preserve `VInv`
  `read_*`        under `VInv` every read-type method answers what the specification answers on the direct tree
-/
import Goat.Proofs.CachePath
import Goat.Proofs.CacheBasic
import Goat.Proofs.MemFSCor

namespace Goat
namespace Cache

open Path (Name norm join slash Reduced Plain cleanPath reduceAbsPath)
open FS (Op Result Entry Mut)
open MemFS MemAbs

/-! ### overlay -/

def overlay (B R : FS.State) : FS.State := fun q =>
  match B q with
  | some e => some e
  | none => R q

def Compat (B R : FS.State) : Prop := ∀ q e e', B q = some e → R q = some e' → e.isDir = e'.isDir

theorem overlay_some {B R : FS.State} {q : List Name} {e : Entry} (h : B q = some e) : overlay B R q = some e := by
  simp [overlay, h]

theorem overlay_none {B R : FS.State} {q : List Name} (h : B q = none) : overlay B R q = R q := by
  simp [overlay, h]

structure VInv (s : State) (D : Node) : Prop where
  hb : Inv s.buffer
  hr : Inv s.remote
  hd : Inv D
  compat : Compat (abs s.buffer) (abs s.remote)
  eq : abs D = overlay (abs s.buffer) (abs s.remote)

theorem vinv_new (r : Node) (hr : Inv r) : VInv (State.new r) r := by
  refine ⟨inv_empty, hr, hr, ?_, ?_⟩
  · intro q e e' h1 h2
    cases q with
    | nil =>
      have : abs r [] = some .dir := by obtain ⟨k, rfl⟩ := hr.dir; rfl
      simp only [State.new] at h1 h2
      rw [this] at h2
      have h1' : abs Node.empty [] = some .dir := rfl
      rw [h1'] at h1
      cases h1; cases h2; rfl
    | cons a rest => simp [State.new, abs, Node.empty, Node.lookup, Kids.find] at h1
  · funext q
    cases q with
    | nil =>
      have : abs r [] = some .dir := by obtain ⟨k, rfl⟩ := hr.dir; rfl
      simp [overlay, State.new, abs, Node.empty, Node.lookup, Node.entry] at this ⊢
      exact this
    | cons a rest => simp [overlay, State.new, abs, Node.empty, Node.lookup, Kids.find]

/-- buffer entries are entries of the direct tree -/
theorem VInv.sub {s : State} {D : Node} (V : VInv s D) {q : List Name} {e : Entry}
    (h : abs s.buffer q = some e) : abs D q = some e := by
  rw [V.eq]; exact overlay_some h

theorem VInv.mkdirOk {s : State} {D : Node} (V : VInv s D) {p : List Name} (h : FS.mkdirOk (abs D) p) :
    FS.mkdirOk (abs s.buffer) p := by
  intro q hq d hf
  exact h q hq d (V.sub hf)

theorem VInv.writeOk {s : State} {D : Node} (V : VInv s D) {p : List Name} (h : FS.writeOk (abs D) p) :
    FS.writeOk (abs s.buffer) p :=
  ⟨h.1, V.mkdirOk h.2.1, fun hd => h.2.2 (V.sub hd)⟩

/-- what stands on the remote at a path where the direct tree has no file: nothing or a directory -/
theorem VInv.remote_not_file {s : State} {D : Node} (V : VInv s D) {q : List Name}
    (h : ∀ d, abs D q ≠ some (.file d)) (e' : Entry) (hr : abs s.remote q = some e') : e'.isDir = true := by
  cases hb : abs s.buffer q with
  | none =>
    have : abs D q = some e' := by rw [V.eq, overlay_none hb]; exact hr
    cases e' with
    | dir => rfl
    | file d => exact absurd this (h d)
  | some e0 =>
    have hD := V.sub hb
    rw [← V.compat q e0 e' hb hr]
    cases e0 with
    | dir => rfl
    | file d => exact absurd hD (h d)

theorem VInv.remote_not_dir {s : State} {D : Node} (V : VInv s D) {q : List Name}
    (h : abs D q ≠ some .dir) (e' : Entry) (hr : abs s.remote q = some e') : e'.isDir = false := by
  cases hb : abs s.buffer q with
  | none =>
    have : abs D q = some e' := by rw [V.eq, overlay_none hb]; exact hr
    cases e' with
    | dir => exact absurd this h
    | file d => rfl
  | some e0 =>
    have hD := V.sub hb
    rw [← V.compat q e0 e' hb hr]
    cases e0 with
    | dir => exact absurd hD h
    | file d => rfl

/-! ### the mutating calls of the class -/

theorem overlay_writeSt (B R : FS.State) (p : List Name) (d : Bytes) :
    FS.writeSt (overlay B R) p d = overlay (FS.writeSt B p d) R := by
  funext q
  simp only [FS.writeSt, FS.mkdirSt, overlay]
  by_cases h1 : q = p
  · simp [h1]
  · by_cases h2 : q <+: p.dropLast <;> simp [h1, h2]

theorem overlay_mkdirSt (B R : FS.State) (p : List Name) :
    FS.mkdirSt (overlay B R) p = overlay (FS.mkdirSt B p) R := by
  funext q
  simp only [FS.mkdirSt, overlay]
  by_cases h2 : q <+: p <;> simp [h2]

theorem compat_mkdirSt {s : State} {D : Node} (V : VInv s D) (p : List Name) (h : FS.mkdirOk (abs D) p) :
    Compat (FS.mkdirSt (abs s.buffer) p) (abs s.remote) := by
  intro q e e' h1 h2
  simp only [FS.mkdirSt] at h1
  by_cases hq : q <+: p
  · rw [if_pos hq] at h1; cases h1
    exact (V.remote_not_file (fun d => h q hq d) e' h2).symm
  · rw [if_neg hq] at h1; exact V.compat q e e' h1 h2

theorem compat_writeSt {s : State} {D : Node} (V : VInv s D) (p : List Name) (d : Bytes)
    (h : FS.writeOk (abs D) p) : Compat (FS.writeSt (abs s.buffer) p d) (abs s.remote) := by
  intro q e e' h1 h2
  simp only [FS.writeSt] at h1
  by_cases hq : q = p
  · rw [if_pos hq] at h1; cases h1; subst hq
    exact (V.remote_not_dir h.2.2 e' h2).symm
  · rw [if_neg hq] at h1
    exact compat_mkdirSt V p.dropLast h.2.1 q e e' h1 h2

theorem jaddIf_ok (j : List Bytes) (k : Bytes) : jaddIf .ok j k = jadd j k := rfl

/-- `WriteFile` with a cache-level path string `raw` of normal form `P` (the cache cleans the path first) -/
theorem vinv_writeFile {s : State} {D D' : Node} (V : VInv s D) (raw data : Bytes) (P : List Name)
    (hn : norm raw = some P) (hok : FS.writeOk (abs D) P) (hD' : Inv D')
    (hpost : abs D' = FS.writeSt (abs D) P data) :
    (writeFile s raw data).2 = .ok ∧ VInv (writeFile s raw data).1 D'
    ∧ abs (writeFile s raw data).1.buffer = FS.writeSt (abs s.buffer) P data
    ∧ (writeFile s raw data).1.write = jadd s.write (cleanPath raw) := by
  have hn' := Path.norm_cleanPath raw P hn
  have hw := root_writeFile s.buffer V.hb (cleanPath raw) data P hn'
  obtain ⟨hpre, hres, hst⟩ : FS.writeOk (abs s.buffer) P ∧ (Root.writeFile s.buffer (cleanPath raw) data).2 = .ok
      ∧ abs (Root.writeFile s.buffer (cleanPath raw) data).1 = FS.writeSt (abs s.buffer) P data := by
    rcases hw.1 with ⟨a, b, c⟩ | ⟨a, _, _⟩
    · exact ⟨a, b, c⟩
    · exact absurd (V.writeOk hok) a
  have hinv : Inv (Root.writeFile s.buffer (cleanPath raw) data).1 :=
    hw.2.1.inv V.hb (Path.norm_plain _ P hn')
  refine ⟨hres, ⟨hinv, V.hr, hD', ?_, ?_⟩, hst, ?_⟩
  · show Compat (abs (Root.writeFile s.buffer (cleanPath raw) data).1) (abs s.remote)
    rw [hst]; exact compat_writeSt V P data hok
  · show abs D' = overlay (abs (Root.writeFile s.buffer (cleanPath raw) data).1) (abs s.remote)
    rw [hpost, hst, V.eq, overlay_writeSt]
  · show jaddIf (Root.writeFile s.buffer (cleanPath raw) data).2 s.write (cleanPath raw) = _
    rw [hres]; rfl

/-- `Writer` -/
theorem vinv_writer {s : State} {D D' : Node} (V : VInv s D) (raw : Bytes) (chunks : List Bytes) (P : List Name)
    (hn : norm raw = some P) (hok : FS.writeOk (abs D) P) (hD' : Inv D')
    (hpost : abs D' = FS.writeSt (abs D) P chunks.flatten) :
    (writer s raw chunks).2 = .ok ∧ VInv (writer s raw chunks).1 D'
    ∧ abs (writer s raw chunks).1.buffer = FS.writeSt (abs s.buffer) P chunks.flatten
    ∧ (writer s raw chunks).1.write = jadd s.write (cleanPath raw) := by
  have hn' := Path.norm_cleanPath raw P hn
  have hw := root_writer s.buffer V.hb (cleanPath raw) chunks P hn'
  obtain ⟨hpre, hres, hst⟩ : FS.writeOk (abs s.buffer) P ∧ (Root.writer s.buffer (cleanPath raw) chunks).2 = .ok
      ∧ abs (Root.writer s.buffer (cleanPath raw) chunks).1 = FS.writeSt (abs s.buffer) P chunks.flatten := by
    rcases hw.1 with ⟨a, b, c⟩ | ⟨a, _, _⟩
    · exact ⟨a, b, c⟩
    · exact absurd (V.writeOk hok) a
  have hinv : Inv (Root.writer s.buffer (cleanPath raw) chunks).1 :=
    hw.2.1.inv V.hb (Path.norm_plain _ P hn')
  refine ⟨hres, ⟨hinv, V.hr, hD', ?_, ?_⟩, hst, ?_⟩
  · show Compat (abs (Root.writer s.buffer (cleanPath raw) chunks).1) (abs s.remote)
    rw [hst]; exact compat_writeSt V P _ hok
  · show abs D' = overlay (abs (Root.writer s.buffer (cleanPath raw) chunks).1) (abs s.remote)
    rw [hpost, hst, V.eq, overlay_writeSt]
  · show jaddIf (Root.writer s.buffer (cleanPath raw) chunks).2 s.write (cleanPath raw) = _
    rw [hres]; rfl

/-- `MkdirAll` -/
theorem vinv_mkdirAll {s : State} {D D' : Node} (V : VInv s D) (raw : Bytes) (P : List Name)
    (hn : norm raw = some P) (hok : FS.mkdirOk (abs D) P) (hD' : Inv D')
    (hpost : abs D' = FS.mkdirSt (abs D) P) :
    (mkdirAll s raw).2 = .ok ∧ VInv (mkdirAll s raw).1 D'
    ∧ abs (mkdirAll s raw).1.buffer = FS.mkdirSt (abs s.buffer) P := by
  have hn' := Path.norm_cleanPath raw P hn
  have hw := root_mkdirAll s.buffer V.hb (cleanPath raw) P hn'
  obtain ⟨hres, hst⟩ : (Root.mkdirAll s.buffer (cleanPath raw)).2 = .ok
      ∧ abs (Root.mkdirAll s.buffer (cleanPath raw)).1 = FS.mkdirSt (abs s.buffer) P := by
    rcases hw.1 with ⟨_, b, c⟩ | ⟨a, _, _⟩
    · exact ⟨b, c⟩
    · exact absurd (V.mkdirOk hok) a
  have hinv : Inv (Root.mkdirAll s.buffer (cleanPath raw)).1 := hw.2.1.inv V.hb (Path.norm_plain _ P hn')
  refine ⟨hres, ⟨hinv, V.hr, hD', ?_, ?_⟩, hst⟩
  · show Compat (abs (Root.mkdirAll s.buffer (cleanPath raw)).1) (abs s.remote)
    rw [hst]; exact compat_mkdirSt V P hok
  · show abs D' = overlay (abs (Root.mkdirAll s.buffer (cleanPath raw)).1) (abs s.remote)
    rw [hpost, hst, V.eq, overlay_mkdirSt]

/-- the buffer answers `IsExist` of a cleaned path by its abstract tree -/
theorem buffer_isExist (t : Node) (ht : Inv t) (raw : Bytes) (P : List Name) (hn : norm raw = some P) :
    isTrue (Root.isExist t raw) = (abs t P).isSome := by
  have := isExist_agrees .root [] rfl t ht raw P hn
  have e : (MemFS.step .root t (.isExist raw)).2 = Root.isExist t raw := rfl
  rw [e] at this
  simp only [List.nil_append] at this
  rw [this]; rfl

/-- `Remove` of a node that exists only in the buffer -/
theorem vinv_remove {s : State} {D D' : Node} (V : VInv s D) (raw : Bytes) (P : List Name)
    (hn : norm raw = some P) (hok : FS.removeOk (abs D) P) (honly : abs s.remote P = none) (hD' : Inv D')
    (hpost : abs D' = FS.removeSt (abs D) P) :
    (remove s raw).2 = .ok ∧ VInv (remove s raw).1 D' := by
  have hn' := Path.norm_cleanPath raw P hn
  -- the node is in the buffer
  have hDP : abs D P = abs s.buffer P := by
    rw [V.eq]; simp only [overlay]; cases abs s.buffer P <;> simp [honly]
  have hex : isTrue (Root.isExist s.buffer (cleanPath raw)) = true := by
    rw [buffer_isExist s.buffer V.hb _ P hn', ← hDP]
    rcases hok.2 with ⟨d, h⟩ | ⟨h, _⟩ <;> simp [h]
  have hw := root_remove s.buffer V.hb (cleanPath raw) P hn'
  have hpre : FS.removeOk (abs s.buffer) P := by
    refine ⟨hok.1, ?_⟩
    rcases hok.2 with ⟨d, h⟩ | ⟨h, hc⟩
    · left; exact ⟨d, by rw [← hDP]; exact h⟩
    · right; refine ⟨by rw [← hDP]; exact h, fun n => ?_⟩
      cases hb : abs s.buffer (P ++ [n]) with
      | none => rfl
      | some e => have := V.sub hb; rw [hc n] at this; cases this
  obtain ⟨hres, hst⟩ : (Root.remove s.buffer (cleanPath raw)).2 = .ok
      ∧ abs (Root.remove s.buffer (cleanPath raw)).1 = FS.removeSt (abs s.buffer) P := by
    rcases hw.1 with ⟨_, b, c⟩ | ⟨a, _, _⟩
    · exact ⟨b, c⟩
    · exact absurd hpre a
  have hinv : Inv (Root.remove s.buffer (cleanPath raw)).1 := hw.2.1.inv V.hb (by simp)
  have e1 : (remove s raw).2 = (Root.remove s.buffer (cleanPath raw)).2 := by simp [remove, hex]
  have e2 : (remove s raw).1.buffer = (Root.remove s.buffer (cleanPath raw)).1 := by simp [remove, hex]
  have e3 : (remove s raw).1.remote = s.remote := by simp [remove]
  refine ⟨by rw [e1]; exact hres, ⟨by rw [e2]; exact hinv, by rw [e3]; exact V.hr, hD', ?_, ?_⟩⟩
  · rw [e2, e3, hst]
    intro q e e' h1 h2
    simp only [FS.removeSt] at h1
    by_cases hq : q = P
    · rw [if_pos hq] at h1; cases h1
    · rw [if_neg hq] at h1; exact V.compat q e e' h1 h2
  · rw [e2, e3, hpost, hst, V.eq]
    funext q
    simp only [FS.removeSt, overlay]
    by_cases hq : q = P
    · subst hq; simp [honly]
    · simp [hq]

/-- below a path where the remote has nothing, the remote has nothing -/
theorem remote_below_none (t : Node) (P q : List Name) (h : abs t P = none) (hq : P <+: q) : abs t q = none := by
  obtain ⟨r, rfl⟩ := hq
  by_cases hr : r = []
  · subst hr; simpa using h
  · exact abs_below t P r hr (by rw [h]; simp)

/-- `RemoveAll` of a node that exists only in the buffer -/
theorem vinv_removeAll {s : State} {D D' : Node} (V : VInv s D) (raw : Bytes) (P : List Name)
    (hn : norm raw = some P) (hok : FS.removeAllOk (abs D) P) (honly : abs s.remote P = none) (hD' : Inv D')
    (hpost : abs D' = FS.removeAllSt (abs D) P) :
    (removeAll s raw).2 = .ok ∧ VInv (removeAll s raw).1 D' := by
  have hn' := Path.norm_cleanPath raw P hn
  have hDP : abs D P = abs s.buffer P := by
    rw [V.eq]; simp only [overlay]; cases abs s.buffer P <;> simp [honly]
  have hne : abs s.buffer P ≠ none := by rw [← hDP]; exact hok.2
  have hex : isTrue (Root.isExist s.buffer (cleanPath raw)) = true := by
    rw [buffer_isExist s.buffer V.hb _ P hn']
    cases h : abs s.buffer P with
    | none => exact absurd h hne
    | some e => rfl
  have hw := root_removeAll s.buffer V.hb (cleanPath raw) P hn'
  obtain ⟨hres, hst⟩ : (Root.removeAll s.buffer (cleanPath raw)).2 = .ok
      ∧ abs (Root.removeAll s.buffer (cleanPath raw)).1 = FS.removeAllSt (abs s.buffer) P := by
    rcases hw.1 with ⟨_, b, c⟩ | ⟨a, _, _⟩
    · exact ⟨b, c⟩
    · exact absurd ⟨hok.1, hne⟩ a
  have hinv : Inv (Root.removeAll s.buffer (cleanPath raw)).1 := hw.2.1.inv V.hb (by simp)
  have e1 : (removeAll s raw).2 = (Root.removeAll s.buffer (cleanPath raw)).2 := by simp [removeAll, hex]
  have e2 : (removeAll s raw).1.buffer = (Root.removeAll s.buffer (cleanPath raw)).1 := by simp [removeAll, hex]
  have e3 : (removeAll s raw).1.remote = s.remote := by simp [removeAll]
  refine ⟨by rw [e1]; exact hres, ⟨by rw [e2]; exact hinv, by rw [e3]; exact V.hr, hD', ?_, ?_⟩⟩
  · rw [e2, e3, hst]
    intro q e e' h1 h2
    simp only [FS.removeAllSt] at h1
    by_cases hq : P <+: q
    · rw [if_pos hq] at h1; cases h1
    · rw [if_neg hq] at h1; exact V.compat q e e' h1 h2
  · rw [e2, e3, hpost, hst, V.eq]
    funext q
    simp only [FS.removeAllSt, overlay]
    by_cases hq : P <+: q
    · simp [hq, remote_below_none s.remote P q honly hq]
    · simp [hq]

end Cache
end Goat
