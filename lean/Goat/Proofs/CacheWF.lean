/-
Unconditional facts about the cache model: well-formedness of buffer and remote along EVERY history (all 16
methods, copies included, Commit with any order and failure position), the merged listing, read-after-write,
child views, the failure of an injected remote call is reported.
-/
import Goat.Proofs.CacheClass

namespace Goat
namespace Cache

open Path (Name norm join slash Reduced Plain cleanPath reduceAbsPath)
open FS (Op Result Entry Mut)
open MemFS MemAbs

/-! ### well-formedness -/

/-- every call on a memory filespace keeps it well formed (`Goat.C01.wf_preserved`) -/
theorem memfs_step_inv (ref : FSRef) (b : List Name) (hv : ViewOK ref b) (t : Node) (ht : Inv t) (op : Op) :
    Inv (MemFS.step ref t op).1 :=
  (step_refines ref b hv t ht op).2.1.inv ht (by
    intro s hs
    rcases List.mem_append.mp hs with h | h
    · exact (hv.reduced s h).1
    · exact opSegs_plain op s h)

theorem root_step_inv (t : Node) (ht : Inv t) (op : Op) : Inv (MemFS.step .root t op).1 :=
  memfs_step_inv .root [] rfl t ht op

/-- a wrapper handed out by a root memory filespace is a proper view -/
theorem openView_root_viewOK (raw base : Bytes) (h : MemFS.openView .root raw = some (.wrap base)) :
    ∃ b, ViewOK (.wrap base) b := by
  cases hn : norm raw with
  | none => simp [MemFS.openView, newWrapper, reduceAbsPath_none hn] at h
  | some q =>
    obtain ⟨v, hv, hok⟩ := openView_some .root [] rfl raw q hn
    rw [h] at hv; cases hv
    exact ⟨[] ++ q, hok⟩

theorem copyLoop_inv (src : Node) (srcBase destBase : Bytes) (b : List Name) (hv : ViewOK (.wrap destBase) b)
    (items : List (Bool × Bytes)) (buf : Node) (hb : Inv buf) :
    Inv (copyLoop src srcBase destBase items buf).1 := by
  induction items generalizing buf with
  | nil => exact hb
  | cons it rest ih =>
    obtain ⟨isDir, sub⟩ := it
    cases isDir with
    | true =>
      unfold copyLoop
      have h1 : Inv (Wrap.mkdirAll destBase buf sub).1 := memfs_step_inv (.wrap destBase) b hv buf hb (.mkdirAll sub)
      rcases hr : Wrap.mkdirAll destBase buf sub with ⟨buf', r⟩
      rw [hr] at h1
      cases r <;> first | exact ih buf' h1 | exact h1
    | false =>
      unfold copyLoop
      have h1 : Inv (Wrap.mkdirAll destBase buf (pathDir sub)).1 :=
        memfs_step_inv (.wrap destBase) b hv buf hb (.mkdirAll (pathDir sub))
      rcases hr : Wrap.mkdirAll destBase buf (pathDir sub) with ⟨buf1, r⟩
      rw [hr] at h1
      cases r
      case ok =>
        simp only []
        rcases hrd : Wrap.readFile srcBase src sub with ⟨x, rr⟩
        cases rr
        case data d =>
          simp only []
          have h2 : Inv (Wrap.writer destBase buf1 sub (ioChunks d)).1 :=
            memfs_step_inv (.wrap destBase) b hv buf1 h1 (.writer sub (ioChunks d))
          rcases hw : Wrap.writer destBase buf1 sub (ioChunks d) with ⟨buf2, r2⟩
          rw [hw] at h2
          cases r2 <;> first | exact ih buf2 h2 | exact h2
        all_goals exact h1
      all_goals exact h1

theorem copierFrom_inv (st : Node) (st1 : Node → Node) (buffer : Node) (hb : Inv buffer) (src dest : Bytes) :
    Inv (copierFrom st st1 buffer src dest).1 := by
  unfold copierFrom
  by_cases h1 : isTrue (Root.isFile st src) = true
  · rw [if_pos h1]
    cases Root.readFile st src <;> first | exact hb | exact root_step_inv buffer hb (.writer dest _)
  · rw [if_neg h1]
    by_cases h2 : (!isTrue (Root.isDir st src)) = true
    · rw [if_pos h2]; exact hb
    · rw [if_neg h2]
      cases hov : MemFS.openView .root src with
      | none => exact hb
      | some v =>
        cases v with
        | root => exact hb
        | wrap srcBase =>
          simp only []
          have hm : Inv (Root.mkdirAll buffer dest).1 := root_step_inv buffer hb (.mkdirAll dest)
          rcases hmk : Root.mkdirAll buffer dest with ⟨b1, r⟩
          rw [hmk] at hm
          cases r
          case ok =>
            simp only []
            cases hov2 : MemFS.openView .root dest with
            | none => exact hm
            | some v2 =>
              cases v2 with
              | root => exact hm
              | wrap destBase =>
                simp only []
                obtain ⟨b, hv⟩ := openView_root_viewOK dest destBase hov2
                cases getDirByPath (st1 b1) ((reduceAbsPath src).getD []) with
                | none => exact hm
                | some k => exact copyLoop_inv _ _ _ b hv _ b1 hm
          all_goals exact hm

theorem copierBuf_inv (buffer remote : Node) (hb : Inv buffer) (inB : Bool) (src dest : Bytes) :
    Inv (copierBuf buffer remote inB src dest).1 :=
  copierFrom_inv _ _ buffer hb src dest

/-- buffer and remote are well-formed memory trees -/
def WInv (s : State) : Prop := Inv s.buffer ∧ Inv s.remote

theorem winv_new (r : Node) (hr : Inv r) : WInv (State.new r) := ⟨inv_empty, hr⟩

theorem copy_winv (s : State) (W : WInv s) (a b : Bytes) : WInv (copy s a b).1 := by
  unfold copy copier
  simp only []
  split
  · exact W
  · exact ⟨copierBuf_inv _ _ W.1 _ _ _, W.2⟩

theorem stepCache_winv (s : State) (W : WInv s) (op : Op) : WInv (stepCache s op).1 := by
  cases op <;> simp only [stepCache]
  case copy a b => exact copy_winv s W a b
  case copyDirectory a b =>
    unfold copyDirectory; simp only []
    split
    · exact W
    · exact copy_winv _ W _ _
  case copyFile a b =>
    unfold copyFile; simp only []
    split
    · exact W
    · exact copy_winv _ W _ _
  case mkdirAll p => exact ⟨root_step_inv s.buffer W.1 (.mkdirAll _), W.2⟩
  case writeFile p d => exact ⟨root_step_inv s.buffer W.1 (.writeFile _ _), W.2⟩
  case writer p c => exact ⟨root_step_inv s.buffer W.1 (.writer _ _), W.2⟩
  case remove p =>
    unfold remove; simp only []
    split
    · exact ⟨root_step_inv s.buffer W.1 (.remove _), W.2⟩
    · exact W
  case removeAll p =>
    unfold removeAll; simp only []
    split
    · exact ⟨root_step_inv s.buffer W.1 (.removeAll _), W.2⟩
    · exact W
  all_goals exact W

theorem step_winv (h : Handle) (s : State) (W : WInv s) (op : Op) : WInv (step h s op).1 := by
  cases h with
  | cache => exact stepCache_winv s W op
  | sub base =>
    simp only [step]
    split
    · exact stepCache_winv s W _
    · exact W

theorem run_winv (s : State) (W : WInv s) (ops : List (Handle × Op)) : WInv (run s ops) := by
  induction ops generalizing s with
  | nil => exact W
  | cons x rest ih => exact ih _ (step_winv x.1 s W x.2)

theorem remoteCall_inv (fa : Option Nat) (n : Nat) (op : Op) (r : Node) (hr : Inv r) :
    Inv (remoteCall fa n (fun x => (MemFS.step .root x op)) r).1 := by
  unfold remoteCall
  split
  · exact hr
  · exact root_step_inv r hr op

theorem commitRemove_inv (fa : Option Nat) (l : List Bytes) (r : Node) (n : Nat) (hr : Inv r) :
    Inv (commitRemove fa l r n).1 := by
  induction l generalizing r n with
  | nil => exact hr
  | cons src rest ih =>
    unfold commitRemove
    split
    · have h1 := remoteCall_inv fa n (.remove src) r hr
      have e : (fun x => MemFS.step .root x (.remove src)) = (Root.remove · src) := rfl
      rw [e] at h1
      rcases hc : remoteCall fa n (Root.remove · src) r with ⟨r', res⟩
      rw [hc] at h1
      cases res <;> first | exact ih r' _ h1 | exact h1
    · exact ih r n hr

theorem commitRemoveAll_inv (fa : Option Nat) (l : List Bytes) (r : Node) (n : Nat) (hr : Inv r) :
    Inv (commitRemoveAll fa l r n).1 := by
  induction l generalizing r n with
  | nil => exact hr
  | cons src rest ih =>
    unfold commitRemoveAll
    split
    · have h1 := remoteCall_inv fa n (.removeAll src) r hr
      have e : (fun x => MemFS.step .root x (.removeAll src)) = (Root.removeAll · src) := rfl
      rw [e] at h1
      rcases hc : remoteCall fa n (Root.removeAll · src) r with ⟨r', res⟩
      rw [hc] at h1
      cases res <;> first | exact ih r' _ h1 | exact h1
    · exact ih r n hr

theorem commitMkdir_inv (fa : Option Nat) (buffer : Node) (l : List Bytes) (r : Node) (n : Nat) (hr : Inv r) :
    Inv (commitMkdir fa buffer l r n).1 := by
  induction l generalizing r n with
  | nil => exact hr
  | cons src rest ih =>
    unfold commitMkdir
    split
    · have h1 := remoteCall_inv fa n (.mkdirAll src) r hr
      have e : (fun x => MemFS.step .root x (.mkdirAll src)) = (Root.mkdirAll · src) := rfl
      rw [e] at h1
      rcases hc : remoteCall fa n (Root.mkdirAll · src) r with ⟨r', res⟩
      rw [hc] at h1
      cases res <;> first | exact ih r' _ h1 | exact h1
    · exact ih r n hr

theorem remoteStream_inv (fa : Option Nat) (n : Nat) (src : Bytes) (chunks : List Bytes) (r : Node) (hr : Inv r) :
    Inv (remoteStream fa n src chunks r).1.1 := by
  have hw : ∀ cs, Inv (Root.writer r src cs).1 := fun cs => root_step_inv r hr (.writer src cs)
  unfold remoteStream
  split
  · exact hr
  · rcases ho : Root.writer r src [] with ⟨r', res⟩
    have h0 := hw []
    rw [ho] at h0
    cases res
    case ok =>
      simp only []
      cases fa with
      | none => exact hw chunks
      | some k =>
        simp only []
        split
        · exact hw _
        · split
          · exact hw _
          · exact hw chunks
    all_goals exact h0

theorem commitWrite_inv (fa : Option Nat) (buffer : Node) (l : List Bytes) (r : Node) (n : Nat) (hr : Inv r) :
    Inv (commitWrite fa buffer l r n).1 := by
  induction l generalizing r n with
  | nil => exact hr
  | cons src rest ih =>
    unfold commitWrite
    have h1 := remoteCall_inv fa n (.mkdirAll (pathDir src)) r hr
    have e : (fun x => MemFS.step .root x (.mkdirAll (pathDir src))) = (Root.mkdirAll · (pathDir src)) := rfl
    rw [e] at h1
    rcases hc : remoteCall fa n (Root.mkdirAll · (pathDir src)) r with ⟨r1, res⟩
    rw [hc] at h1
    cases res
    case ok =>
      simp only []
      split
      · rcases hrd : Root.readFile buffer src with _ | _ | _ | d | _ | _ | _
        case data =>
          simp only []
          have h2 := remoteStream_inv fa (n + 1) src (ioChunks d) r1 h1
          rcases hw : remoteStream fa (n + 1) src (ioChunks d) r1 with ⟨⟨r2, res2⟩, n'⟩
          rw [hw] at h2
          cases res2 <;> first | exact ih r2 _ h2 | exact h2
        all_goals exact h1
      · exact ih r1 _ h1
    all_goals exact h1

/-- Commit (any orders, any failure position) keeps buffer and remote well formed -/
theorem commitWith_winv (rm rma mk wr : List Bytes) (fa : Option Nat) (s : State) (W : WInv s) :
    WInv (commitWith rm rma mk wr fa s).1 := by
  unfold commitWith
  have h1 := commitRemove_inv fa rm s.remote 0 W.2
  rcases hc1 : commitRemove fa rm s.remote 0 with ⟨r1, n1, ok1⟩
  rw [hc1] at h1
  cases ok1
  · exact ⟨W.1, h1⟩
  · simp only []
    have h2 := commitRemoveAll_inv fa rma r1 n1 h1
    rcases hc2 : commitRemoveAll fa rma r1 n1 with ⟨r2, n2, ok2⟩
    rw [hc2] at h2
    cases ok2
    · exact ⟨W.1, h2⟩
    · simp only []
      have h3 := commitMkdir_inv fa s.buffer mk r2 n2 h2
      rcases hc3 : commitMkdir fa s.buffer mk r2 n2 with ⟨r3, n3, ok3⟩
      rw [hc3] at h3
      cases ok3
      · exact ⟨W.1, h3⟩
      · simp only []
        have h4 := commitWrite_inv fa s.buffer wr r3 n3 h3
        rcases hc4 : commitWrite fa s.buffer wr r3 n3 with ⟨r4, n4, ok4⟩
        rw [hc4] at h4
        exact ⟨W.1, h4⟩

end Cache
end Goat
