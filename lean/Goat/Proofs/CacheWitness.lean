/-
The witnesses of the known findings (KF-C06-1, 2, 4, 6, 9, 10, 11, 12 / KF-C07-1…6) and of the repaired ones
(KF-C06-3, 5, 7, 8: regression cases) as Lean values (the same histories as
known_findings.d/C06.json, C07.json and corpus/C06, corpus/C07), evaluated on the executable model.
Bytes: a = 97, b = 98, c = 99, x = 120, y = 121, '/' = 47, '.' = 46, "1" = 49, "2" = 50.
-/
import Goat.Proofs.CacheMore
import Goat.Proofs.CacheHist
import Goat.Proofs.CacheOrder

namespace Goat
namespace Cache
namespace Witness

open FS (Op Result)
open MemFS

/-- a remote tree populated directly: `(path, some data)` = WriteFile, `(path, none)` = MkdirAll -/
def mkRemote : List (Bytes × Option Bytes) → Node → Node
  | [], t => t
  | (p, some d) :: rest, t => mkRemote rest (MemFS.step .root t (.writeFile p d)).1
  | (p, none) :: rest, t => mkRemote rest (MemFS.step .root t (.mkdirAll p)).1

theorem inv_mkRemote (l : List (Bytes × Option Bytes)) (t : Node) (ht : Inv t) : Inv (mkRemote l t) := by
  induction l generalizing t with
  | nil => exact ht
  | cons x rest ih =>
    obtain ⟨p, d⟩ := x
    cases d with
    | some d => exact ih _ (root_step_inv t ht _)
    | none => exact ih _ (root_step_inv t ht _)

/-- a history through the cache itself -/
def calls (l : List Op) : List HOp := l.map (HOp.call .cache)

/-- the co-simulation (cache ‖ direct application) after a history on a populated remote -/
def sim (remote : List (Bytes × Option Bytes)) (l : List Op) : Sim :=
  (Sim.new (mkRemote remote Node.empty)).run (calls l)

def a : Bytes := [97]
def b : Bytes := [98]
def c : Bytes := [99]

-- KF-C06-1  mkdir 0 a | remove 1 a ; commit
def r1 : List (Bytes × Option Bytes) := [(a, none)]
def h1 : List Op := [.remove a]
-- KF-C06-2  write 1 b/c/b x ; removeall 1 b ; commit
def h2 : List Op := [.writeFile [98, 47, 99, 47, 98] [120], .removeAll b]
-- KF-C06-3 (repaired)  write 1 a/b/ x ; commit
def h3 : List Op := [.writeFile [97, 47, 98, 47] [120]]
-- KF-C06-4  mkdir 0 a/b | copy 1 a c ; commit
def r4 : List (Bytes × Option Bytes) := [([97, 47, 98], none)]
def h4 : List Op := [.copy a c]
-- KF-C06-5 (repaired)  copy 1 c a/b ; commit
def h5 : List Op := [.copy c [97, 47, 98]]
-- KF-C06-6  mkdir 1 a/b ; remove 1 a/b ; commit
def h6 : List Op := [.mkdirAll [97, 47, 98], .remove [97, 47, 98]]
-- KF-C06-7 (repaired)  write 1 a x ; copy 1 a a     (did not return in Go)
def h7 : List Op := [.writeFile a [120], .copy a a]
-- KF-C06-8 (repaired)  removeall 1 "" ; write 1 a x ; commit
def h8 : List Op := [.removeAll [], .writeFile a [120]]
-- KF-C06-9 = KF-C07-3  write 0 a x | write 1 a/b y ; commit
def r9 : List (Bytes × Option Bytes) := [(a, some [120])]
def h9 : List Op := [.writeFile [97, 47, 98] [121]]
-- KF-C06-10 = KF-C07-5  write 0 a 1 ; write 0 c 2 | copyfile 1 a c ; commit
def r10 : List (Bytes × Option Bytes) := [(a, some [49]), (c, some [50])]
def h10 : List Op := [.copyFile a c]
-- KF-C06-11 = KF-C07-6  mkdir 1 /../a ; commit
def h11 : List Op := [.mkdirAll [47, 46, 46, 47, 97]]
-- KF-C06-12  write 0 a 1 | remove 1 a ; copyfile 1 a b ; commit
def r12 : List (Bytes × Option Bytes) := [(a, some [49])]
def h12 : List Op := [.remove a, .copyFile a b]
-- KF-C07-1  write 0 b x | remove 1 b ; isexist 1 b
def r71 : List (Bytes × Option Bytes) := [(b, some [120])]
def h71 : List Op := [.remove b]
-- KF-C07-2  write 0 a/b x | removeall 1 a ; isexist 1 a/b
def r72 : List (Bytes × Option Bytes) := [([97, 47, 98], some [120])]
def h72 : List Op := [.removeAll a]
-- KF-C07-4  write 0 a/x 1 | write 1 a/y 2 ; copy 1 a c ; isexist 1 c/x
def r74 : List (Bytes × Option Bytes) := [([97, 47, 120], some [49])]
def h74 : List Op := [.writeFile [97, 47, 121] [50], .copy a c]

/-- the final Commit of a witness: success flag, and the remote afterwards -/
def committed (remote : List (Bytes × Option Bytes)) (l : List Op) : State × Nat × Bool :=
  commit none (sim remote l).cache

end Witness
end Cache
end Goat
