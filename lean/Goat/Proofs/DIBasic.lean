/-
C10 helper lemmas, part 1: tables, `Block`, the transition relation `Step` satisfied by every
`Get` (whatever its fuel, whatever its outcome) and its lifting through factory bodies and
`InjectTo`.
-/
import Goat.Model.DI

namespace Goat.DI

/-! ### tables -/

@[simp] theorem Tab.set_eq {α : Type} (t : Tab α) (k : Name) (v : α) : t.set k v k = some v := by
  simp [Tab.set]

theorem Tab.set_ne {α : Type} (t : Tab α) {k x : Name} (v : α) (h : x ≠ k) : t.set k v x = t x := by
  simp [Tab.set, h]

@[simp] theorem Tab.del_eq {α : Type} (t : Tab α) (k : Name) : t.del k k = none := by
  simp [Tab.del]

theorem Tab.del_ne {α : Type} (t : Tab α) {k x : Name} (h : x ≠ k) : t.del k x = t x := by
  simp [Tab.del, h]

theorem Tab.del_some {α : Type} {t : Tab α} {k x : Name} {v : α} (h : t.del k x = some v) : t x = some v := by
  unfold Tab.del at h
  split at h
  · cases h
  · exact h

/-! ### the log -/

/-- after `done n`, the factory of `n` is not started again -/
def NoRerun : List Ev → Prop
  | [] => True
  | .done n _ :: l => Ev.start n ∉ l ∧ NoRerun l
  | .start _ :: l => NoRerun l

theorem noRerun_append {a b : List Ev} :
    NoRerun (a ++ b) ↔ NoRerun a ∧ NoRerun b ∧ ∀ n i, Ev.done n i ∈ a → Ev.start n ∉ b := by
  induction a with
  | nil => simp [NoRerun]
  | cons e a ih =>
    cases e with
    | start m =>
      simp only [List.cons_append, NoRerun, ih, List.mem_cons, reduceCtorEq, false_or]
    | done m j =>
      simp only [List.cons_append, NoRerun, ih, List.mem_cons, List.mem_append, not_or]
      constructor
      · rintro ⟨⟨h1, h2⟩, h3, h4, h5⟩
        refine ⟨⟨h1, h3⟩, h4, ?_⟩
        intro n i h
        rcases h with h | h
        · injection h with hn _; subst hn; exact h2
        · exact h5 n i h
      · rintro ⟨⟨h1, h3⟩, h4, h5⟩
        exact ⟨⟨h1, h5 m j (Or.inl rfl)⟩, h3, h4, fun n i h => h5 n i (Or.inr h)⟩

theorem noRerun_split {l pre post : List Ev} {n : Name} {i : Inst}
    (h : NoRerun l) (hl : l = pre ++ Ev.done n i :: post) : Ev.start n ∉ post := by
  subst hl
  have := (noRerun_append.1 h).2.1
  exact this.1

theorem successes_append (a b : List Ev) : successes (a ++ b) = successes a ++ successes b := by
  induction a with
  | nil => rfl
  | cons e a ih => cases e <;> simp [successes, ih]

theorem mem_successes {l : List Ev} {n : Name} : n ∈ successes l ↔ ∃ i, Ev.done n i ∈ l := by
  induction l with
  | nil => simp [successes]
  | cons e l ih =>
    cases e with
    | start m => simp [successes, ih]
    | done m j =>
      simp only [successes, List.mem_cons, ih]
      constructor
      · rintro (h | ⟨i, h⟩)
        · exact ⟨j, Or.inl (by rw [h])⟩
        · exact ⟨i, Or.inr h⟩
      · rintro ⟨i, h | h⟩
        · injection h with hn _; exact Or.inl hn
        · exact Or.inr ⟨i, h⟩

theorem invocations_append (n : Name) (a b : List Ev) :
    invocations n (a ++ b) = invocations n a + invocations n b := by
  induction a with
  | nil => simp [invocations]
  | cons e a ih => cases e <;> simp [invocations, ih, Nat.add_assoc]

theorem invocations_eq_zero {n : Name} {l : List Ev} (h : Ev.start n ∉ l) : invocations n l = 0 := by
  induction l with
  | nil => rfl
  | cons e l ih =>
    cases e with
    | start m =>
      have hm : m ≠ n := by intro hm; subst hm; exact h (List.mem_cons_self ..)
      simp [invocations, hm, ih (fun h' => h (List.mem_cons_of_mem _ h'))]
    | done m j => simp [invocations, ih (fun h' => h (List.mem_cons_of_mem _ h'))]

/-! ### `Block` -/

theorem block_of_blocked {s : St} (h : s.blocked = true) : block s = s := by
  simp [block, h]

@[simp] theorem block_blocked (s : St) : (block s).blocked = true := by
  unfold block; split <;> simp_all

@[simp] theorem block_callstack (s : St) : (block s).callstack = s.callstack := by
  unfold block; split <;> rfl

@[simp] theorem block_keys (s : St) : (block s).keys = s.keys := by
  unfold block; split <;> rfl

@[simp] theorem block_log (s : St) : (block s).log = s.log := by
  unfold block; split <;> rfl

@[simp] theorem block_exhausted (s : St) : (block s).exhausted = s.exhausted := by
  unfold block; split <;> rfl

@[simp] theorem block_autoclean (s : St) : (block s).autoclean = s.autoclean := by
  unfold block; split <;> rfl

@[simp] theorem block_injectors (s : St) : (block s).injectors = s.injectors := by
  unfold block; split <;> rfl

@[simp] theorem block_nextId (s : St) : (block s).nextId = s.nextId := by
  unfold block; split <;> rfl

@[simp] theorem block_block (s : St) : block (block s) = block s :=
  block_of_blocked (block_blocked s)

theorem block_instances (s : St) (k : Name) :
    (block s).instances k = if s.blocked then s.instances k
      else if promotes s k then s.defaultInstances k else s.instances k := by
  unfold block; split <;> simp_all

theorem block_factories (s : St) (k : Name) :
    (block s).factories k = if s.blocked then s.factories k
      else if promotes s k && s.autoclean then none else s.factories k := by
  unfold block; split <;> simp_all

theorem block_defaultFactories (s : St) (k : Name) :
    (block s).defaultFactories k = if s.blocked then s.defaultFactories k
      else if promotes s k && s.autoclean then none else s.defaultFactories k := by
  unfold block; split <;> simp_all

/-! ### the transition relation of a resolution -/

/-- what the events `d` appended between `s` and `s'` must look like -/
structure LogOK (s s' : St) (d : List Ev) : Prop where
  no_start : ∀ n, s.instances n ≠ none → Ev.start n ∉ d
  done_inst : ∀ n i, Ev.done n i ∈ d → s.instances n = none ∧ s'.instances n = some i
  norerun : NoRerun d
  nodup : (successes d).Nodup

theorem LogOK.nil (s s' : St) : LogOK s s' [] where
  no_start := fun _ _ h => nomatch h
  done_inst := fun _ _ h => nomatch h
  norerun := trivial
  nodup := List.nodup_nil

/-- everything a `Get` (successful or not, at any depth) may do to the provider -/
structure Step (s s' : St) : Prop where
  callstack : s'.callstack = s.callstack
  keys : s'.keys = s.keys
  blocked : s'.blocked = true
  autoclean : s'.autoclean = s.autoclean
  injectors : s'.injectors = s.injectors
  inst_mono : ∀ n i, s.instances n = some i → s'.instances n = some i
  tabs : ∀ n, s'.instances n = none →
    s'.factories n = s.factories n ∧ s'.defaultFactories n = s.defaultFactories n
  fac_sub : ∀ n f, s'.factories n = some f → s.factories n = some f
  dfac_sub : ∀ n f, s'.defaultFactories n = some f → s.defaultFactories n = some f
  stack_inst : ∀ n, n ∈ s.callstack → s'.instances n = s.instances n
  log : ∃ d, s'.log = s.log ++ d ∧ LogOK s s' d

theorem Step.inst_none {s s' : St} (h : Step s s') {n : Name} (hn : s'.instances n = none) :
    s.instances n = none := by
  cases hs : s.instances n with
  | none => rfl
  | some i => rw [h.inst_mono n i hs] at hn; cases hn

theorem Step.refl {s : St} (hb : s.blocked = true) : Step s s where
  callstack := rfl
  keys := rfl
  blocked := hb
  autoclean := rfl
  injectors := rfl
  inst_mono := fun _ _ h => h
  tabs := fun _ _ => ⟨rfl, rfl⟩
  fac_sub := fun _ _ h => h
  dfac_sub := fun _ _ h => h
  stack_inst := fun _ _ => rfl
  log := ⟨[], by simp, LogOK.nil _ _⟩

theorem Step.trans {a b c : St} (h1 : Step a b) (h2 : Step b c) : Step a c where
  callstack := by rw [h2.callstack, h1.callstack]
  keys := by rw [h2.keys, h1.keys]
  blocked := h2.blocked
  autoclean := by rw [h2.autoclean, h1.autoclean]
  injectors := by rw [h2.injectors, h1.injectors]
  inst_mono := fun n i h => h2.inst_mono n i (h1.inst_mono n i h)
  tabs := fun n h => by
    have hb := h2.inst_none h
    have t2 := h2.tabs n h
    have t1 := h1.tabs n hb
    exact ⟨t2.1.trans t1.1, t2.2.trans t1.2⟩
  fac_sub := fun n f h => h1.fac_sub n f (h2.fac_sub n f h)
  dfac_sub := fun n f h => h1.dfac_sub n f (h2.dfac_sub n f h)
  stack_inst := fun n h => by
    rw [h2.stack_inst n (h1.callstack ▸ h), h1.stack_inst n h]
  log := by
    obtain ⟨d1, e1, l1⟩ := h1.log
    obtain ⟨d2, e2, l2⟩ := h2.log
    refine ⟨d1 ++ d2, by rw [e2, e1, List.append_assoc], ?_⟩
    constructor
    · intro n hn hmem
      rcases List.mem_append.1 hmem with hm | hm
      · exact l1.no_start n hn hm
      · refine l2.no_start n ?_ hm
        cases ha : a.instances n with
        | none => exact absurd ha hn
        | some i => rw [h1.inst_mono n i ha]; simp
    · intro n i hmem
      rcases List.mem_append.1 hmem with hm | hm
      · have := l1.done_inst n i hm
        exact ⟨this.1, h2.inst_mono n i this.2⟩
      · have := l2.done_inst n i hm
        exact ⟨h1.inst_none this.1, this.2⟩
    · refine noRerun_append.2 ⟨l1.norerun, l2.norerun, ?_⟩
      intro n i hm
      refine l2.no_start n ?_
      rw [(l1.done_inst n i hm).2]; simp
    · rw [successes_append]
      refine List.nodup_append.2 ⟨l1.nodup, l2.nodup, ?_⟩
      intro x hx y hy hxy
      subst hxy
      obtain ⟨i, hi⟩ := mem_successes.1 hx
      obtain ⟨j, hj⟩ := mem_successes.1 hy
      have h3 := (l1.done_inst x i hi).2
      have h4 := (l2.done_inst x j hj).1
      rw [h3] at h4; cases h4

/-- `Block` is such a step when nothing is being constructed -/
theorem block_step {s : St} (hp : s.blocked = true ∨ s.callstack = []) : Step s (block s) := by
  by_cases hb : s.blocked = true
  · rw [block_of_blocked hb]; exact Step.refl hb
  · have hb' : s.blocked = false := by simpa using hb
    have hcs : s.callstack = [] := by rcases hp with h | h; exact absurd h hb; exact h
    refine
      { callstack := by simp, keys := by simp, blocked := by simp, autoclean := by simp,
        injectors := by simp, inst_mono := ?_, tabs := ?_, fac_sub := ?_, dfac_sub := ?_, stack_inst := ?_, log := ?_ }
    · intro n i h
      rw [block_instances]; simp [hb', promotes, h]
    · intro n h
      rw [block_instances] at h
      rw [block_factories, block_defaultFactories]
      simp only [hb', Bool.false_eq_true, if_false] at h ⊢
      by_cases hpr : promotes s n = true
      · simp only [hpr, if_true] at h
        simp [promotes, h] at hpr
      · simp [hpr]
    · intro n f h
      rw [block_factories] at h
      simp only [hb', Bool.false_eq_true, if_false] at h
      split at h
      · cases h
      · exact h
    · intro n f h
      rw [block_defaultFactories] at h
      simp only [hb', Bool.false_eq_true, if_false] at h
      split at h
      · cases h
      · exact h
    · intro n h; rw [hcs] at h; cases h
    · exact ⟨[], by simp, LogOK.nil _ _⟩

/-! ### lifting through `InjectTo` and factory bodies -/

theorem injectAll_fst (g : St → Name → St × Res) (s : St) (fs : List Field) :
    (injectAll g s fs).1 = (injectFields g s fs).1 := by
  unfold injectAll
  simp only
  split <;> rfl

@[simp] theorem Dep.field_dep (d : Dep) : d.field.dep = parseTag d.tagText := by
  simp [Dep.field, Field.dep, Field.raw]

/-- what one field does to the provider: nothing, or one `Get` -/
theorem injectFields_one_fst (g : St → Name → St × Res) (s : St) (fld : Field) :
    (injectFields g s [fld]).1 = match fld.dep with
      | none => s
      | some p => (g s p.1).1 := by
  unfold injectFields
  cases hd : fld.dep with
  | none => simp [injectFields]
  | some p =>
    obtain ⟨n, opt⟩ := p
    simp only
    cases hg : g s n with
    | mk s1 r =>
      cases r with
      | inst i => by_cases hi : i = .nil <;> simp [hi, injectFields]
      | err e => cases opt <;> simp [injectFields]

/-- both kinds of edge do the same thing to the provider: nothing, or one `Get` -/
theorem depStep_fst (g : St → Name → St × Res) (s : St) (d : Dep) :
    (depStep g s d).1 = match d.eff with
      | none => s
      | some p => (g s p.1).1 := by
  unfold depStep Dep.eff
  cases hv : d.viaInject with
  | true =>
    simp only [if_true]
    rw [injectAll_fst, injectFields_one_fst, Dep.field_dep]
  | false =>
    simp only [Bool.false_eq_true, if_false]
    cases hg : g s d.name with
    | mk s1 r => cases r <;> rfl

theorem runDeps_cons (g : St → Name → St × Res) (s : St) (d : Dep) (rest : List Dep) :
    runDeps g s (d :: rest) =
      match depStep g s d with
      | (s1, none) => runDeps g s1 rest
      | (s1, some e) => (s1, some e) := rfl

/-- an invariant of the abstract `Get` is an invariant of the field loop -/
theorem injectFields_inv {g : St → Name → St × Res} {P : St → Prop}
    (hg : ∀ s n, P s → P (g s n).1) : ∀ (fs : List Field) (s : St), P s → P (injectFields g s fs).1 := by
  intro fs
  induction fs with
  | nil => intro s h; simpa [injectFields] using h
  | cons fld rest ih =>
    intro s h
    unfold injectFields
    cases hd : fld.dep with
    | none => exact ih s h
    | some p =>
      obtain ⟨n, opt⟩ := p
      have h1 := hg s n h
      simp only
      cases hr : g s n with
      | mk s1 r =>
        rw [hr] at h1
        cases r with
        | inst i =>
          by_cases hi : i = .nil
          · simpa [hi] using h1
          · simpa [hi] using ih s1 h1
        | err e =>
          cases opt
          · simpa using h1
          · simpa using ih s1 h1

theorem depStep_inv {g : St → Name → St × Res} {P : St → Prop}
    (hg : ∀ s n, P s → P (g s n).1) (s : St) (d : Dep) (h : P s) : P (depStep g s d).1 := by
  rw [depStep_fst]
  cases d.eff with
  | none => exact h
  | some p => exact hg s p.1 h

theorem runDeps_inv {g : St → Name → St × Res} {P : St → Prop}
    (hg : ∀ s n, P s → P (g s n).1) : ∀ (ds : List Dep) (s : St), P s → P (runDeps g s ds).1 := by
  intro ds
  induction ds with
  | nil => intro s h; simpa [runDeps] using h
  | cons d rest ih =>
    intro s h
    have h1 := depStep_inv hg s d h
    rw [runDeps_cons]
    cases hr : depStep g s d with
    | mk s1 e =>
      rw [hr] at h1
      cases e with
      | none => exact ih s1 h1
      | some e => exact h1

/-- a relation that is reflexive and transitive on the invariant lifts too -/
theorem injectFields_rel {g : St → Name → St × Res} {P : St → Prop} {R : St → St → Prop}
    (hrefl : ∀ s, P s → R s s) (htrans : ∀ a b c, R a b → R b c → R a c)
    (hg : ∀ s n, P s → P (g s n).1 ∧ R s (g s n).1) :
    ∀ (fs : List Field) (s : St), P s → R s (injectFields g s fs).1 := by
  intro fs
  induction fs with
  | nil => intro s h; simpa [injectFields] using hrefl s h
  | cons fld rest ih =>
    intro s h
    unfold injectFields
    cases hd : fld.dep with
    | none => exact ih s h
    | some p =>
      obtain ⟨n, opt⟩ := p
      have h1 := hg s n h
      simp only
      cases hr : g s n with
      | mk s1 r =>
        rw [hr] at h1
        cases r with
        | inst i =>
          by_cases hi : i = .nil
          · simpa [hi] using h1.2
          · simpa [hi] using htrans _ _ _ h1.2 (ih s1 h1.1)
        | err e =>
          cases opt
          · simpa using h1.2
          · simpa using htrans _ _ _ h1.2 (ih s1 h1.1)

theorem runDeps_rel {g : St → Name → St × Res} {P : St → Prop} {R : St → St → Prop}
    (hrefl : ∀ s, P s → R s s) (htrans : ∀ a b c, R a b → R b c → R a c)
    (hg : ∀ s n, P s → P (g s n).1 ∧ R s (g s n).1) :
    ∀ (ds : List Dep) (s : St), P s → R s (runDeps g s ds).1 := by
  intro ds
  induction ds with
  | nil => intro s h; simpa [runDeps] using hrefl s h
  | cons d rest ih =>
    intro s h
    have h1 : P (depStep g s d).1 ∧ R s (depStep g s d).1 := by
      rw [depStep_fst]
      cases d.eff with
      | none => exact ⟨h, hrefl s h⟩
      | some p => exact hg s p.1 h
    rw [runDeps_cons]
    cases hr : depStep g s d with
    | mk s1 e =>
      rw [hr] at h1
      cases e with
      | none => exact htrans _ _ _ h1.2 (ih s1 h1.1)
      | some e => exact h1.2

end Goat.DI
