/-
C10 helper lemmas, part 7: the loop of `Block` ranges over a Go map, whose iteration order is
unspecified.  Whatever order it takes, the result is the point-wise `block` the other proofs use.
-/
import Goat.Proofs.DIBasic

set_option linter.unusedSimpArgs false

namespace Goat.DI

theorem St.ext' {a b : St} (h1 : a.defaultFactories = b.defaultFactories) (h2 : a.factories = b.factories)
    (h3 : a.defaultInstances = b.defaultInstances) (h4 : a.instances = b.instances)
    (h5 : a.callstack = b.callstack) (h6 : a.keys = b.keys) (h7 : a.blocked = b.blocked)
    (h8 : a.autoclean = b.autoclean) (h9 : a.nextId = b.nextId) (h10 : a.log = b.log)
    (h11 : a.exhausted = b.exhausted) (h12 : a.injectors = b.injectors) : a = b := by
  cases a; cases b; simp_all

/-- the fields the loop body never touches -/
structure SameFrame (a b : St) : Prop where
  dinst : b.defaultInstances = a.defaultInstances
  callstack : b.callstack = a.callstack
  keys : b.keys = a.keys
  blocked : b.blocked = a.blocked
  autoclean : b.autoclean = a.autoclean
  nextId : b.nextId = a.nextId
  log : b.log = a.log
  exhausted : b.exhausted = a.exhausted
  injectors : b.injectors = a.injectors

theorem blockBody_frame (s : St) (k : Name) : SameFrame s (blockBody s k) := by
  unfold blockBody
  cases hd : s.defaultInstances k with
  | none => exact ⟨rfl, rfl, rfl, rfl, rfl, rfl, rfl, rfl, rfl⟩
  | some v =>
    cases hf : (s.factories k).isSome <;> cases hi : (s.instances k).isNone <;> cases ha : s.autoclean <;>
      simp [hf, hi, ha] <;> exact ⟨rfl, rfl, rfl, rfl, by simp [ha], rfl, rfl, rfl, rfl⟩

/-- the three table entries of a name -/
def entry (s : St) (x : Name) : Option Inst × Option Factory × Option Factory :=
  (s.instances x, s.factories x, s.defaultFactories x)

theorem blockBody_other (s : St) {k x : Name} (h : x ≠ k) : entry (blockBody s k) x = entry s x := by
  unfold blockBody entry
  cases hd : s.defaultInstances k with
  | none => rfl
  | some v =>
    cases hf : (s.factories k).isSome <;> cases hi : (s.instances k).isNone <;> cases ha : s.autoclean <;>
      simp [hf, hi, ha, Tab.set_ne, Tab.del_ne, h]

/-- what the body does to the entries of its own key, as a function of those entries only -/
def promoteEntry (dv : Option Inst) (ac : Bool) (e : Option Inst × Option Factory × Option Factory) :
    Option Inst × Option Factory × Option Factory :=
  match dv with
  | none => e
  | some v =>
    if e.2.1.isSome then e
    else if e.1.isNone then (some v, if ac then none else e.2.1, if ac then none else e.2.2)
    else e

theorem blockBody_self (s : St) (k : Name) :
    entry (blockBody s k) k = promoteEntry (s.defaultInstances k) s.autoclean (entry s k) := by
  unfold blockBody entry promoteEntry
  cases hd : s.defaultInstances k with
  | none => rfl
  | some v =>
    cases hf : (s.factories k).isSome <;> cases hi : (s.instances k).isNone <;> cases ha : s.autoclean <;>
      simp [hf, hi, ha]

theorem promoteEntry_idem (dv : Option Inst) (ac : Bool) (e : Option Inst × Option Factory × Option Factory) :
    promoteEntry dv ac (promoteEntry dv ac e) = promoteEntry dv ac e := by
  obtain ⟨a, b, c⟩ := e
  cases dv with
  | none => rfl
  | some v =>
    cases a <;> cases b <;> cases ac <;> simp [promoteEntry]

theorem foldl_frame (l : List Name) (s : St) : SameFrame s (l.foldl blockBody s) := by
  induction l generalizing s with
  | nil => exact ⟨rfl, rfl, rfl, rfl, rfl, rfl, rfl, rfl, rfl⟩
  | cons k rest ih =>
    have h1 := blockBody_frame s k
    have h2 := ih (blockBody s k)
    exact ⟨h2.dinst.trans h1.dinst, h2.callstack.trans h1.callstack, h2.keys.trans h1.keys,
      h2.blocked.trans h1.blocked, h2.autoclean.trans h1.autoclean, h2.nextId.trans h1.nextId,
      h2.log.trans h1.log, h2.exhausted.trans h1.exhausted, h2.injectors.trans h1.injectors⟩

/-- after the loop: visited keys are promoted (once), the others untouched -/
theorem foldl_entry (l : List Name) (s : St) (x : Name) :
    entry (l.foldl blockBody s) x =
      if x ∈ l then promoteEntry (s.defaultInstances x) s.autoclean (entry s x) else entry s x := by
  induction l generalizing s with
  | nil => simp
  | cons k rest ih =>
    simp only [List.foldl_cons]
    rw [ih (blockBody s k)]
    have hfr := blockBody_frame s k
    by_cases hxk : x = k
    · subst hxk
      rw [hfr.dinst, hfr.autoclean, blockBody_self, promoteEntry_idem]
      simp
    · rw [hfr.dinst, hfr.autoclean, blockBody_other s hxk]
      simp [hxk]

theorem block_entry (s : St) (hb : s.blocked = false) (x : Name) :
    entry (block s) x = promoteEntry (s.defaultInstances x) s.autoclean (entry s x) := by
  unfold entry promoteEntry
  rw [block_instances, block_factories, block_defaultFactories]
  simp only [hb, Bool.false_eq_true, if_false]
  cases hd : s.defaultInstances x <;> cases hf : s.factories x <;> cases hi : s.instances x <;>
    cases ha : s.autoclean <;> simp [promotes, hd, hf, hi]

/-- The range over the Go map may visit the keys in any order (here: any list that contains every
key of `defaultInstances`, even with repetitions): the result is the point-wise `block`. -/
theorem blockLoop_eq_block (s : St) (order : List Name)
    (hall : ∀ k, s.defaultInstances k ≠ none → k ∈ order) : blockLoop s order = block s := by
  unfold blockLoop
  cases hb : s.blocked with
  | true => simp [block_of_blocked hb]
  | false =>
    simp only [Bool.false_eq_true, if_false]
    have hfr := foldl_frame order s
    have hent : ∀ x, entry (order.foldl blockBody s) x = entry (block s) x := by
      intro x
      rw [foldl_entry, block_entry s hb]
      by_cases hx : x ∈ order
      · simp [hx]
      · have : s.defaultInstances x = none := by
          cases hd : s.defaultInstances x with
          | none => rfl
          | some v => exact absurd (hall x (by simp [hd])) hx
        simp [hx, this, promoteEntry]
    have hblk : block s = { s with
        instances := fun k => if promotes s k then s.defaultInstances k else s.instances k
        defaultFactories := fun k => if promotes s k && s.autoclean then none else s.defaultFactories k
        factories := fun k => if promotes s k && s.autoclean then none else s.factories k
        defaultInstances := Tab.empty
        blocked := true } := by simp [block, hb]
    apply St.ext'
    · funext x; have := hent x; simp only [entry, Prod.mk.injEq] at this; exact this.2.2
    · funext x; have := hent x; simp only [entry, Prod.mk.injEq] at this; exact this.2.1
    · rw [hblk]
    · funext x; have := hent x; simp only [entry, Prod.mk.injEq] at this; exact this.1
    · simp [hfr.callstack]
    · simp [hfr.keys]
    · simp
    · simp [hfr.autoclean]
    · rw [hblk]; exact hfr.nextId
    · simp [hfr.log]
    · simp [hfr.exhausted]
    · simp [hfr.injectors]

end Goat.DI
