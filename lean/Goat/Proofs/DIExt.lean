/-
C10 helper lemmas, part 10: what `InjectTo` returns in terms of the provider's own loop and the
registered injectors; nil definitions; the static provider seen from histories.
-/
import Goat.Proofs.DIStatic

namespace Goat.DI

/-! ### `InjectTo` = own loop, then injectors -/

theorem InjectTo_of_own_ok {s : St} {fs : List Field} (h : (InjectOwn s fs).2.2 = none) :
    (InjectTo s fs).2 = runInjectors 0 (InjectOwn s fs).1.injectors fs (InjectOwn s fs).2.1 := by
  unfold InjectTo injectAll
  unfold InjectOwn at h
  simp only
  rw [h]
  rfl

theorem InjectTo_of_own_err {s : St} {fs : List Field} {e : Err} (h : (InjectOwn s fs).2.2 = some e) :
    (InjectTo s fs).2 = (pad fs.length (InjectOwn s fs).2.1, some e) := by
  unfold InjectTo injectAll
  unfold InjectOwn at h
  simp only
  rw [h]
  rfl

theorem own_ok_of_InjectTo_ok {s : St} {fs : List Field} (h : (InjectTo s fs).2.2 = none) :
    (InjectOwn s fs).2.2 = none := by
  cases he : (InjectOwn s fs).2.2 with
  | none => rfl
  | some e => rw [InjectTo_of_own_err he] at h; cases h

/-- an own loop that did not fail visited every field -/
theorem injectFields_length_ok {g : St → Name → St × Res} : ∀ (fs : List Field) (s : St),
    (injectFields g s fs).2.2 = none → (injectFields g s fs).2.1.length = fs.length := by
  intro fs
  induction fs with
  | nil => intro s _; rfl
  | cons fld rest ih =>
    intro s h
    unfold injectFields at h ⊢
    cases hd : fld.dep with
    | none =>
      rw [hd] at h
      simp only at h ⊢
      simp [ih s h]
    | some p =>
      obtain ⟨n, opt⟩ := p
      rw [hd] at h
      simp only at h ⊢
      cases hr : g s n with
      | mk s1 r =>
        rw [hr] at h
        cases r with
        | inst i =>
          by_cases hi : i = .nil
          · simp [hi] at h
          · simp only [hi, if_false] at h ⊢
            simp [ih s1 h]
        | err e =>
          cases opt with
          | false => simp at h
          | true =>
            simp only [if_true] at h ⊢
            simp [ih s1 h]

theorem InjectOwn_injectors {s : St} (h : Inv s) (fs : List Field) :
    (InjectOwn s fs).1.injectors = s.injectors := by
  have := (InjectTo_stepR h fs).1
  rw [InjectTo_fst] at this
  rcases this with h1 | h1
  · rw [← h1]
  · exact h1.injectors

/-- every field after an `InjectTo` that returned no error: the field-wise reading of the injectors
applied to what the provider's own loop stored -/
theorem InjectTo_pick {s : St} (h : Inv s) (fs : List Field) (hok : (InjectTo s fs).2.2 = none)
    (k : Nat) (fld : Field) (hk : fs[k]? = some fld) :
    (InjectTo s fs).2.1[k]? = some (pickAll s.injectors fld ((InjectOwn s fs).2.1[k]?.join)) := by
  have hown := own_ok_of_InjectTo_ok hok
  rw [InjectTo_of_own_ok hown] at hok ⊢
  rw [runInjectors_pick _ _ _ _ hok k fld hk, InjectOwn_injectors h]

theorem pickAll_append (l1 l2 : List Injector) (fld : Field) (cur : Option Inst) :
    pickAll (l1 ++ l2) fld cur = pickAll l2 fld (pickAll l1 fld cur) := by
  induction l1 generalizing cur with
  | nil => rfl
  | cons i rest ih => simp [pickAll, ih]

/-! ### nil definitions -/

/-- a field — required or optional — that names a dependency defined as `nil` stops `InjectTo` -/
theorem InjectTo_nil_head {s : St} (h : Inv s) {n : Name} {opt : Bool} {fld : Field}
    (hd : fld.dep = some (n, opt)) (hn : s.instances n = some .nil) (rest : List Field) :
    (InjectTo s (fld :: rest)).2 = (pad (rest.length + 1) [], some .nilDependency) := by
  have hg : (Get s n).2 = .inst .nil := Get_of_inst h hn
  have hown : (InjectOwn s (fld :: rest)).2 = ([none], some .nilDependency) := by
    unfold InjectOwn injectFields
    rw [hd]
    simp only
    unfold Get at hg
    cases hr : get (fuelFor s) s n with
    | mk s1 r =>
      rw [hr] at hg
      simp only at hg
      subst hg
      simp
  have he : (InjectOwn s (fld :: rest)).2.2 = some .nilDependency := by rw [hown]
  rw [InjectTo_of_own_err he, hown]
  simp [pad]

/-! ### the static provider -/

theorem blocked_exec {s : St} (h : Inv s) (hb : s.blocked = true) (rs : List Op) :
    (exec s rs).blocked = true :=
  (grow_exec h rs).blocked_mono hb

/-- the panic outcome -/
theorem step_panic_iff (s : St) (o : Op) : (step s o).2 = .panic ↔ o = .injectBad := by
  cases o <;> simp [step, accepted] <;> split <;> simp

theorem results_panic_iff : ∀ (ops : List Op) (s : St), .panic ∈ results s ops ↔ .injectBad ∈ ops := by
  intro ops
  induction ops with
  | nil => intro s; simp [results]
  | cons o rest ih =>
    intro s
    simp only [results, List.mem_cons, ih]
    constructor
    · rintro (h | h)
      · exact Or.inl ((step_panic_iff s o).1 h.symm).symm
      · exact Or.inr h
    · rintro (h | h)
      · exact Or.inl ((step_panic_iff s o).2 h.symm).symm
      · exact Or.inr h

end Goat.DI
