/-
C10 helper lemmas, part 3: the fuel of `get` never runs out (`get_notex`), and what the result
of a `Get` says about the state it leaves (`get_inst`, `get_succ_ne_fuel`).
-/
import Goat.Proofs.DIStep

namespace Goat.DI

/-! ### results -/

theorem construct_inst {g : St → Name → St × Res} {s : St} {n : Name} {f : Factory} {dflt : Bool}
    {i : Inst} (h : (construct g s n f dflt).2 = .inst i) :
    (construct g s n f dflt).1.instances n = some i := by
  simp only [construct] at h ⊢
  cases hr : runFactory g (push s n) f with
  | mk s2 r =>
    rw [hr] at h
    cases r with
    | err => simp at h
    | nilInst => simp at h
    | inst j =>
      simp only [Res.inst.injEq] at h
      subst h
      cases dflt <;> cases hac : s2.autoclean <;> simp [clean, hac]

theorem get_succ (fuel : Nat) (s0 : St) (n : Name) :
    get (fuel + 1) s0 n =
      if n ∈ (block s0).callstack then (block s0, .err .cyclic)
      else
        match (block s0).instances n with
        | some i => (block s0, .inst i)
        | none =>
          match (block s0).factories n with
          | some f => construct (get fuel) (block s0) n f false
          | none =>
            match (block s0).defaultFactories n with
            | some f => construct (get fuel) (block s0) n f true
            | none => (block s0, .err .missing) := by
  rfl

/-- a successful `Get` leaves the instance it returned in the table -/
theorem get_inst {fuel : Nat} {s : St} {n : Name} {i : Inst} (h : (get fuel s n).2 = .inst i) :
    (get fuel s n).1.instances n = some i := by
  cases fuel with
  | zero => simp [get] at h
  | succ fuel =>
    rw [get_succ] at h ⊢
    simp only [block_callstack] at h ⊢
    by_cases hc : n ∈ s.callstack
    · simp [hc] at h
    · simp only [hc, ↓reduceIte] at h ⊢
      cases hi : (block s).instances n with
      | some j => simp_all
      | none =>
        simp only [hi] at h ⊢
        cases hf : (block s).factories n with
        | some f => simp only [hf] at h ⊢; exact construct_inst h
        | none =>
          simp only [hf] at h ⊢
          cases hd : (block s).defaultFactories n with
          | some f => simp only [hd] at h ⊢; exact construct_inst h
          | none => simp [hd] at h

theorem construct_ne_fuel {g : St → Name → St × Res} {s : St} {n : Name} {f : Factory} {dflt : Bool} :
    (construct g s n f dflt).2 ≠ .err .fuel := by
  simp only [construct]
  cases runFactory g (push s n) f with
  | mk s2 r => cases r <;> simp

/-- only `get 0` answers `fuel` -/
theorem get_succ_ne_fuel (fuel : Nat) (s : St) (n : Name) : (get (fuel + 1) s n).2 ≠ .err .fuel := by
  unfold get
  simp only
  split
  · simp
  · split
    · simp
    · split
      · exact construct_ne_fuel
      · split
        · exact construct_ne_fuel
        · simp

/-! ### the ghost flag -/

theorem runFactory_exhausted (g : St → Name → St × Res) (s : St) (f : Factory) :
    (runFactory g s f).1.exhausted = (runDeps g s f.deps).1.exhausted := by
  unfold runFactory
  cases runDeps g s f.deps with
  | mk s1 e =>
    cases e with
    | some e => rfl
    | none => cases f.out <;> rfl

theorem construct_exhausted (g : St → Name → St × Res) (s : St) (n : Name) (f : Factory) (dflt : Bool) :
    (construct g s n f dflt).1.exhausted = (runDeps g (push s n) f.deps).1.exhausted := by
  rw [← runFactory_exhausted]
  simp only [construct]
  cases runFactory g (push s n) f with
  | mk s2 r =>
    cases r with
    | err => rfl
    | nilInst => rfl
    | inst i => cases dflt <;> cases hac : s2.autoclean <;> simp [clean, hac]

/-! ### pigeonhole -/

theorem length_le_of_nodup_subset : ∀ (l k : List Name), l.Nodup → (∀ x, x ∈ l → x ∈ k) →
    l.length ≤ k.length := by
  intro l
  induction l with
  | nil => intro k _ _; simp
  | cons a l ih =>
    intro k hnd hsub
    have ha : a ∈ k := hsub a (List.mem_cons_self ..)
    have hnd' := List.nodup_cons.1 hnd
    have h1 : l.length ≤ (k.erase a).length := by
      apply ih _ hnd'.2
      intro x hx
      have hne : x ≠ a := by intro e; subst e; exact hnd'.1 hx
      exact (List.mem_erase_of_ne hne).2 (hsub x (List.mem_cons_of_mem _ hx))
    rw [List.length_erase_of_mem ha] at h1
    have hpos : 0 < k.length := List.length_pos_of_mem ha
    simp only [List.length_cons]
    omega

/-! ### fuel -/

/-- `fuel` is enough for `s`: every name on the stack is a distinct key, every name that can still be
pushed is a key, and `fuel` exceeds the number of keys not yet on the stack -/
structure FuelOK (fuel : Nat) (s : St) : Prop where
  pre : Pre s
  fac_keys : ∀ n f, s.factories n = some f → n ∈ s.keys
  dfac_keys : ∀ n f, s.defaultFactories n = some f → n ∈ s.keys
  nodup : s.callstack.Nodup
  stack_keys : ∀ n, n ∈ s.callstack → n ∈ s.keys
  notex : s.exhausted = false
  bound : s.keys.length + 1 ≤ fuel + s.callstack.length

theorem FuelOK.of_step {fuel : Nat} {s s' : St} (h : FuelOK fuel s) (hs : Step s s')
    (he : s'.exhausted = false) : FuelOK fuel s' where
  pre := Or.inl hs.blocked
  fac_keys := fun n f hf => hs.keys ▸ h.fac_keys n f (hs.fac_sub n f hf)
  dfac_keys := fun n f hf => hs.keys ▸ h.dfac_keys n f (hs.dfac_sub n f hf)
  nodup := hs.callstack ▸ h.nodup
  stack_keys := fun n hn => hs.keys ▸ h.stack_keys n (hs.callstack ▸ hn)
  notex := he
  bound := by rw [hs.keys, hs.callstack]; exact h.bound

theorem FuelOK.push {fuel : Nat} {s : St} {n : Name} (h : FuelOK (fuel + 1) s) (hb : s.blocked = true)
    (hn : n ∉ s.callstack) (hk : n ∈ s.keys) : FuelOK fuel (push s n) where
  pre := Or.inl hb
  fac_keys := h.fac_keys
  dfac_keys := h.dfac_keys
  nodup := by
    show (s.callstack ++ [n]).Nodup
    refine List.nodup_append.2 ⟨h.nodup, by simp, ?_⟩
    intro x hx y hy hxy
    simp at hy
    subst hy; subst hxy
    exact hn hx
  stack_keys := by
    intro m hm
    have : m ∈ s.callstack ++ [n] := hm
    rcases List.mem_append.1 this with hm | hm
    · exact h.stack_keys m hm
    · simp at hm; subst hm; exact hk
  notex := h.notex
  bound := by
    have := h.bound
    show s.keys.length + 1 ≤ fuel + (s.callstack ++ [n]).length
    simp only [List.length_append, List.length_cons, List.length_nil]
    omega

/-- with enough fuel `get` never reaches `get 0` -/
theorem get_notex : ∀ (fuel : Nat) (s : St) (n : Name), FuelOK fuel s → (get fuel s n).1.exhausted = false := by
  intro fuel
  induction fuel with
  | zero =>
    intro s n h
    have h1 := length_le_of_nodup_subset s.callstack s.keys h.nodup h.stack_keys
    have h2 := h.bound
    omega
  | succ fuel ih =>
    intro s0 n h0
    have hb : (block s0).blocked = true := block_blocked s0
    have h : FuelOK (fuel + 1) (block s0) := h0.of_step (block_step h0.pre) (by simp [h0.notex])
    have hg : ∀ s n, FuelOK fuel s → FuelOK fuel (get fuel s n).1 :=
      fun s n hs => hs.of_step (get_step fuel s n hs.pre) (ih s n hs)
    have hc : ∀ (f : Factory) (dflt : Bool), n ∉ (block s0).callstack → n ∈ (block s0).keys →
        (construct (get fuel) (block s0) n f dflt).1.exhausted = false := by
      intro f dflt hn hk
      rw [construct_exhausted]
      exact (runDeps_inv hg f.deps _ (h.push hb hn hk)).notex
    unfold get
    simp only
    split
    · exact h.notex
    · rename_i hn
      split
      · exact h.notex
      · split
        · rename_i f hf
          exact hc f false hn (h.fac_keys n f hf)
        · split
          · rename_i f hf
            exact hc f true hn (h.dfac_keys n f hf)
          · exact h.notex

theorem get_fuelOK {fuel : Nat} {s : St} (n : Name) (h : FuelOK fuel s) : FuelOK fuel (get fuel s n).1 :=
  h.of_step (get_step fuel s n h.pre) (get_notex fuel s n h)

end Goat.DI
