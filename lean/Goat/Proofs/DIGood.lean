/-
C10 helper lemmas, part 6: the outcome of a top-level `Get` depends on the definitions only.
`Rel s0 s`: `s` is a state reached from the blocked state `s0` by resolutions.  Soundness
(`get_rel`): every instance in such a state is `Good s0`.  Completeness (`cmp`): a `Good s0` name is
resolved whenever no name of smaller-or-equal rank is under construction — in particular from
outside.  Names closed under "has a required dependency in the set" are not `Good`.
-/
import Goat.Proofs.DIHist
import Goat.Proofs.DIInject

namespace Goat.DI

theorem source_inst {s : St} {n : Name} {i : Inst} (h : source s n = some (.inst i)) :
    s.instances n = some i := by
  unfold source at h
  split at h
  · simp at h; subst h; assumption
  · split at h
    · simp at h
    · split at h <;> simp at h

theorem source_of_inst {s : St} {n : Name} {i : Inst} (h : s.instances n = some i) :
    source s n = some (.inst i) := by
  simp [source, h]

/-! ### states reached from `s0` -/

structure Rel (s0 s : St) : Prop where
  blocked : s.blocked = true
  injectors : s.injectors = s0.injectors
  agree : ∀ n, s.instances n = none →
    s.factories n = s0.factories n ∧ s.defaultFactories n = s0.defaultFactories n ∧ s0.instances n = none
  mono : ∀ n i, s0.instances n = some i → s.instances n = some i
  nil_only : ∀ n, s.instances n = some .nil → s0.instances n = some .nil
  stack_free : ∀ n, n ∈ s.callstack → s.instances n = none
  sound : ∀ n i, s.instances n = some i → Good s0 n

theorem Rel.refl {s0 : St} (hb : s0.blocked = true) (hst : s0.callstack = []) : Rel s0 s0 where
  blocked := hb
  injectors := rfl
  agree := fun _ h => ⟨rfl, rfl, h⟩
  mono := fun _ _ h => h
  nil_only := fun _ h => h
  stack_free := fun n hn => by rw [hst] at hn; cases hn
  sound := fun _ _ h => Good.inst (source_of_inst h)

theorem Rel.source_eq {s0 s : St} (h : Rel s0 s) {n : Name} (hn : s.instances n = none) :
    source s n = source s0 n := by
  obtain ⟨h1, h2, h3⟩ := h.agree n hn
  simp [source, hn, h1, h2, h3]

theorem Rel.congr {s0 a b : St} (h : Rel s0 a) (h1 : b.blocked = a.blocked)
    (h2 : b.instances = a.instances) (h3 : b.factories = a.factories)
    (h4 : b.defaultFactories = a.defaultFactories) (h5 : b.callstack = a.callstack)
    (h6 : b.injectors = a.injectors) : Rel s0 b where
  blocked := h1 ▸ h.blocked
  injectors := h6 ▸ h.injectors
  agree := by rw [h2, h3, h4]; exact h.agree
  mono := by rw [h2]; exact h.mono
  nil_only := by rw [h2]; exact h.nil_only
  stack_free := by rw [h2, h5]; exact h.stack_free
  sound := by rw [h2]; exact h.sound

theorem Rel.push {s0 s : St} {n : Name} (h : Rel s0 s) (hn : s.instances n = none) : Rel s0 (push s n) where
  blocked := h.blocked
  injectors := h.injectors
  agree := h.agree
  mono := h.mono
  nil_only := h.nil_only
  stack_free := by
    intro m hm
    have : m ∈ s.callstack ++ [n] := hm
    rcases List.mem_append.1 this with hm | hm
    · exact h.stack_free m hm
    · simp at hm; subst hm; exact hn
  sound := h.sound

/-- leaving a factory that did not deliver: only the stack is cut back -/
theorem Rel.unwind {s0 s2 : St} (h2 : Rel s0 s2) (k : Nat) :
    Rel s0 { s2 with callstack := s2.callstack.take k } where
  blocked := h2.blocked
  injectors := h2.injectors
  agree := h2.agree
  mono := h2.mono
  nil_only := h2.nil_only
  stack_free := fun m hm => h2.stack_free m (List.mem_of_mem_take hm)
  sound := h2.sound

/-- what the proofs below need to know about the `Get` a factory body calls -/
structure GetLike (s0 : St) (P : St → Prop) (g : St → Name → St × Res) : Prop where
  keep : ∀ s n, P s → P (g s n).1
  rel : ∀ s, P s → Rel s0 s
  step : ∀ s n, s.blocked = true → Step s (g s n).1
  inst : ∀ s n i, (g s n).2 = .inst i → (g s n).1.instances n = some i
  nil : ∀ s n, P s → s.instances n = some .nil → (g s n).2 = .inst .nil

theorem GetLike.mono {s0 : St} {P : St → Prop} {g : St → Name → St × Res} (G : GetLike s0 P g)
    (s : St) (n : Name) (hs : P s) : InstMono s (g s n).1 :=
  (G.step s n (G.rel s hs).blocked).inst_mono

/-- the error of an `InjectTo` into a one-field struct -/
theorem injectAll_one_err (g : St → Name → St × Res) (s : St) (fld : Field) :
    (injectAll g s [fld]).2.2 =
      match fld.dep with
      | none => (runInjectors 0 s.injectors [fld] [none]).2
      | some p =>
        match g s p.1 with
        | (s1, .inst i) =>
          if i = .nil then some .nilDependency else (runInjectors 0 s1.injectors [fld] [some i]).2
        | (s1, .err e) => if p.2 then (runInjectors 0 s1.injectors [fld] [none]).2 else some e := by
  unfold injectAll injectFields
  cases hd : fld.dep with
  | none => simp [injectFields]
  | some p =>
    obtain ⟨n, opt⟩ := p
    simp only
    cases hg : g s n with
    | mk s1 r =>
      cases r with
      | inst i => by_cases hi : i = .nil <;> simp [hi, injectFields]
      | err e => cases opt <;> simp [injectFields]

theorem eff_of_not_inject {d : Dep} (h : d.viaInject = false) : d.eff = some (d.name, d.optional) := by
  simp [Dep.eff, h]

theorem eff_of_inject {d : Dep} (h : d.viaInject = true) : d.eff = d.field.dep := by
  simp [Dep.eff, h]

/-- soundness of one statement of a factory body -/
theorem depStep_sound {s0 : St} {P : St → Prop} {g : St → Name → St × Res} (G : GetLike s0 P g)
    {s : St} {d : Dep} (hs : P s) (h : (depStep g s d).2 = none) :
    d.injectOK s0 ∧ ∀ m, d.eff = some (m, false) → ∃ i, (depStep g s d).1.instances m = some i := by
  have hrel := G.rel s hs
  cases hv : d.viaInject with
  | false =>
    refine ⟨fun h' => (by rw [hv] at h'; cases h'), ?_⟩
    intro m hm
    rw [eff_of_not_inject hv] at hm
    simp only [Option.some.injEq, Prod.mk.injEq] at hm
    obtain ⟨hm1, hm2⟩ := hm
    have hi0 := G.inst s d.name
    unfold depStep at h ⊢
    simp only [hv, Bool.false_eq_true, if_false] at h ⊢
    cases hg : g s d.name with
    | mk s1 r =>
      rw [hg] at h hi0
      cases r with
      | inst i => exact ⟨i, hm1 ▸ hi0 i rfl⟩
      | err e => simp [hm2] at h
  | true =>
    have he := eff_of_inject hv
    have herr : (injectAll g s [d.field]).2.2 = none := by
      unfold depStep at h; simpa [hv] using h
    have hfst : (depStep g s d).1 = (injectAll g s [d.field]).1 := by
      unfold depStep; simp [hv]
    rw [injectAll_one_err] at herr
    rw [hfst, injectAll_fst, injectFields_one_fst]
    cases hd : d.field.dep with
    | none =>
      rw [hd] at herr
      simp only at herr
      refine ⟨fun _ => ⟨?_, ?_⟩, ?_⟩
      · intro m o hm; rw [he, hd] at hm; cases hm
      · rw [← hrel.injectors]; exact herr
      · intro m hm; rw [he, hd] at hm; cases hm
    | some p =>
      obtain ⟨n, opt⟩ := p
      rw [hd] at herr
      simp only at herr ⊢
      have hi0 := G.inst s n
      have hnil := G.nil s n hs
      have hinj : (g s n).1.injectors = s0.injectors := by
        rw [(G.step s n hrel.blocked).injectors]; exact hrel.injectors
      have hnotnil : (∃ j, (g s n).2 = .inst j ∧ j ≠ .nil) ∨ (∃ e, (g s n).2 = .err e) →
          s0.instances n ≠ some .nil := by
        intro hcase h0
        have := hnil (hrel.mono n _ h0)
        rcases hcase with ⟨j, hj, hjn⟩ | ⟨e, he'⟩
        · rw [this] at hj; injection hj with hj; exact hjn hj.symm
        · rw [this] at he'; cases he'
      cases hg : g s n with
      | mk s1 r =>
        rw [hg] at herr hi0 hinj hnotnil
        cases r with
        | inst i =>
          by_cases hi : i = .nil
          · simp [hi] at herr
          · simp only [hi, if_false] at herr
            refine ⟨fun _ => ⟨?_, ?_⟩, ?_⟩
            · intro m o hm
              rw [he, hd] at hm
              simp only [Option.some.injEq, Prod.mk.injEq] at hm
              rw [← hm.1]
              exact hnotnil (Or.inl ⟨i, rfl, hi⟩)
            · rw [← hinj, runInjectors_err_indep _ _ _ [none] [some i]]; exact herr
            · intro m hm
              rw [he, hd] at hm
              simp only [Option.some.injEq, Prod.mk.injEq] at hm
              exact ⟨i, hm.1 ▸ hi0 i rfl⟩
        | err e =>
          cases opt with
          | false => simp at herr
          | true =>
            simp only [if_true] at herr
            refine ⟨fun _ => ⟨?_, ?_⟩, ?_⟩
            · intro m o hm
              rw [he, hd] at hm
              simp only [Option.some.injEq, Prod.mk.injEq] at hm
              rw [← hm.1]
              exact hnotnil (Or.inr ⟨e, rfl⟩)
            · rw [← hinj]; exact herr
            · intro m hm
              rw [he, hd] at hm
              simp at hm

/-- completeness of one statement of a factory body -/
theorem depStep_complete {s0 : St} {P : St → Prop} {g : St → Name → St × Res} (G : GetLike s0 P g)
    {s : St} {d : Dep} (hs : P s) (hok : d.injectOK s0)
    (hreq : ∀ m, d.eff = some (m, false) → ∃ i, (g s m).2 = .inst i) : (depStep g s d).2 = none := by
  have hrel := G.rel s hs
  cases hv : d.viaInject with
  | false =>
    have he := eff_of_not_inject hv
    unfold depStep
    simp only [hv, Bool.false_eq_true, if_false]
    cases hg : g s d.name with
    | mk s1 r =>
      cases r with
      | inst i => rfl
      | err e =>
        cases ho : d.optional with
        | true => simp
        | false =>
          obtain ⟨i, hi⟩ := hreq d.name (by rw [he, ho])
          rw [hg] at hi; cases hi
  | true =>
    have he := eff_of_inject hv
    obtain ⟨hok1, hok2⟩ := hok hv
    have : (depStep g s d).2 = (injectAll g s [d.field]).2.2 := by unfold depStep; simp [hv]
    rw [this, injectAll_one_err]
    cases hd : d.field.dep with
    | none =>
      simp only
      rw [hrel.injectors]; exact hok2
    | some p =>
      obtain ⟨n, opt⟩ := p
      simp only
      have hi0 := G.inst s n
      have hrel1 := G.rel _ (G.keep s n hs)
      cases hg : g s n with
      | mk s1 r =>
        rw [hg] at hi0 hrel1
        cases r with
        | inst i =>
          have hi : i ≠ .nil := by
            intro hi
            subst hi
            exact hok1 n opt (by rw [he, hd]) (hrel1.nil_only n (hi0 _ rfl))
          simp only [hi, if_false]
          rw [hrel1.injectors, runInjectors_err_indep _ _ _ [some i] [none]]; exact hok2
        | err e =>
          cases opt with
          | true =>
            simp only [if_true]
            rw [hrel1.injectors]; exact hok2
          | false =>
            obtain ⟨i, hi⟩ := hreq n (by rw [he, hd])
            rw [hg] at hi; cases hi

/-- when a factory body ran through, its `InjectTo` edges were acceptable and every required
dependency has an instance -/
theorem runDeps_sound {s0 : St} {P : St → Prop} {g : St → Name → St × Res} (G : GetLike s0 P g) :
    ∀ (ds : List Dep) (s : St), P s → (runDeps g s ds).2 = none →
      (∀ d, d ∈ ds → d.injectOK s0) ∧
      ∀ d m, d ∈ ds → d.eff = some (m, false) → ∃ i, (runDeps g s ds).1.instances m = some i := by
  intro ds
  induction ds with
  | nil => intro s _ _; exact ⟨(fun d hd => nomatch hd), (fun d m hd => nomatch hd)⟩
  | cons d0 rest ih =>
    intro s hs hnone
    have hmono : ∀ s', P s' → InstMono s' (runDeps g s' rest).1 :=
      fun s' hs' => runDeps_rel (P := P) (R := InstMono) (fun _ _ _ _ h => h)
        (fun _ _ _ h1 h2 m i h => h2 m i (h1 m i h)) (fun x m hx => ⟨G.keep x m hx, G.mono x m hx⟩) rest s' hs'
    have hP1 : P (depStep g s d0).1 := depStep_inv G.keep s d0 hs
    rw [runDeps_cons] at hnone ⊢
    cases hr : depStep g s d0 with
    | mk s1 e =>
      have hsd := depStep_sound G (d := d0) hs
      rw [hr] at hnone hP1 hsd
      cases e with
      | some e => simp at hnone
      | none =>
        simp only at hnone ⊢
        obtain ⟨a1, a2⟩ := hsd rfl
        obtain ⟨b1, b2⟩ := ih s1 hP1 hnone
        refine ⟨?_, ?_⟩
        · intro d hd
          rcases List.mem_cons.1 hd with he | he
          · subst he; exact a1
          · exact b1 d he
        · intro d m hd hm
          rcases List.mem_cons.1 hd with he | he
          · subst he
            obtain ⟨i, hi⟩ := a2 m hm
            exact ⟨i, hmono s1 hP1 _ _ hi⟩
          · exact b2 d m he hm

theorem runFactory_inst {g : St → Name → St × Res} {s : St} {f : Factory} {i : Inst}
    (h : (runFactory g s f).2 = .inst i) :
    (runDeps g s f.deps).2 = none ∧ f.out = .ok ∧ i ≠ .nil ∧
    (runFactory g s f).1.instances = (runDeps g s f.deps).1.instances ∧
    (runFactory g s f).1.factories = (runDeps g s f.deps).1.factories ∧
    (runFactory g s f).1.defaultFactories = (runDeps g s f.deps).1.defaultFactories ∧
    (runFactory g s f).1.blocked = (runDeps g s f.deps).1.blocked ∧
    (runFactory g s f).1.callstack = (runDeps g s f.deps).1.callstack ∧
    (runFactory g s f).1.injectors = (runDeps g s f.deps).1.injectors := by
  unfold runFactory at h ⊢
  cases hr : runDeps g s f.deps with
  | mk s1 e =>
    rw [hr] at h
    cases e with
    | some e => simp at h
    | none =>
      cases ho : f.out <;> simp [ho] at h ⊢
      subst h; simp

theorem runFactory_rel {s0 : St} {P : St → Prop} {g : St → Name → St × Res} (G : GetLike s0 P g)
    {s : St} (f : Factory) (h : P s) : Rel s0 (runFactory g s f).1 := by
  have h1 : Rel s0 (runDeps g s f.deps).1 := G.rel _ (runDeps_inv G.keep f.deps s h)
  unfold runFactory
  cases hr : runDeps g s f.deps with
  | mk s1 e =>
    rw [hr] at h1
    cases e with
    | some e => exact h1
    | none => cases f.out <;> first | exact h1 | exact h1.congr rfl rfl rfl rfl rfl rfl

/-- soundness of one construction -/
theorem construct_rel {s0 : St} {P : St → Prop} {g : St → Name → St × Res} (G : GetLike s0 P g)
    {s : St} {n : Name} {f : Factory} (dflt : Bool) (h : Rel s0 s) (hp : P (push s n))
    (hn : s.instances n = none) (hc : n ∉ s.callstack) (hsrc : source s0 n = some (.fac f)) :
    Rel s0 (construct g s n f dflt).1 := by
  have h2 : Rel s0 (runFactory g (push s n) f).1 := runFactory_rel G f hp
  have hst : Step (push s n) (runFactory g (push s n) f).1 := runFactory_step G.step _ f h.blocked
  have hreq : ∀ i, (runFactory g (push s n) f).2 = .inst i →
      i ≠ .nil ∧ f.out = .ok ∧ (∀ d, d ∈ f.deps → d.injectOK s0) ∧
      ∀ d m, d ∈ f.deps → d.eff = some (m, false) → Good s0 m := by
    intro i hri
    obtain ⟨r1, r2, r3, _⟩ := runFactory_inst hri
    have hrd : Rel s0 (runDeps g (push s n) f.deps).1 := G.rel _ (runDeps_inv G.keep f.deps _ hp)
    obtain ⟨a1, a2⟩ := runDeps_sound G f.deps _ hp r1
    refine ⟨r3, r2, a1, ?_⟩
    intro d m hd hm
    obtain ⟨j, hj⟩ := a2 d m hd hm
    exact hrd.sound _ j hj
  simp only [construct]
  cases hr : runFactory g (push s n) f with
  | mk s2 r =>
    rw [hr] at h2 hreq hst
    cases r with
    | err => exact h2.unwind _
    | nilInst => exact h2.unwind _
    | inst i =>
      obtain ⟨hinil, hok, hinj, hdeps⟩ := hreq i rfl
      have hgood : Good s0 n := Good.fac hsrc hok hinj hdeps
      have htake : s2.callstack.take s.callstack.length = s.callstack := take_pushed hst.callstack
      have hs0n : s0.instances n = none := (h.agree n hn).2.2
      -- the tables after the clean-up agree with `s2` away from `n`
      have key : ∀ (F D : Tab Factory), (∀ m, m ≠ n → F m = s2.factories m) →
          (∀ m, m ≠ n → D m = s2.defaultFactories m) →
          ∀ s', s'.blocked = s2.blocked → s'.instances = s2.instances.set n i → s'.factories = F →
            s'.defaultFactories = D → s'.callstack = s.callstack → s'.injectors = s2.injectors →
            Rel s0 s' := by
        intro F D hF hD s' e1 e2 e3 e4 e5 e6
        refine ⟨e1 ▸ h2.blocked, e6 ▸ h2.injectors, ?_, ?_, ?_, ?_, ?_⟩
        · intro m hm
          rw [e2] at hm
          have hne : m ≠ n := by intro e; subst e; simp at hm
          rw [Tab.set_ne _ _ hne] at hm
          rw [e3, e4, hF m hne, hD m hne]
          exact h2.agree m hm
        · intro m j hm
          have hne : m ≠ n := by intro e; subst e; rw [hs0n] at hm; cases hm
          rw [e2, Tab.set_ne _ _ hne]
          exact h2.mono m j hm
        · intro m hm
          rw [e2] at hm
          by_cases hne : m = n
          · subst hne; simp at hm; exact absurd hm hinil
          · rw [Tab.set_ne _ _ hne] at hm
            exact h2.nil_only m hm
        · intro m hm
          rw [e5] at hm
          have hne : m ≠ n := by intro e; subst e; exact hc hm
          rw [e2, Tab.set_ne _ _ hne]
          exact h2.stack_free m (by rw [hst.callstack]; simp [hm])
        · intro m j hm
          rw [e2] at hm
          by_cases hne : m = n
          · subst hne; exact hgood
          · rw [Tab.set_ne _ _ hne] at hm
            exact h2.sound m j hm
      cases dflt <;> cases hac : s2.autoclean
      · exact key s2.factories s2.defaultFactories (fun _ _ => rfl) (fun _ _ => rfl) _
          (by simp [clean, hac]) (by simp [clean, hac]) (by simp [clean, hac]) (by simp [clean, hac])
          (by simp [clean, hac, htake]) (by simp [clean, hac])
      · exact key (s2.factories.del n) (s2.defaultFactories.del n) (fun _ h => Tab.del_ne _ h)
          (fun _ h => Tab.del_ne _ h) _
          (by simp [clean, hac]) (by simp [clean, hac]) (by simp [clean, hac]) (by simp [clean, hac])
          (by simp [clean, hac, htake]) (by simp [clean, hac])
      · exact key s2.factories s2.defaultFactories (fun _ _ => rfl) (fun _ _ => rfl) _
          (by simp [hac]) (by simp [hac]) (by simp [hac]) (by simp [hac]) (by simp [hac, htake])
          (by simp [hac])
      · exact key s2.factories (s2.defaultFactories.del n) (fun _ _ => rfl)
          (fun _ h => Tab.del_ne _ h) _
          (by simp [hac]) (by simp [hac]) (by simp [hac]) (by simp [hac]) (by simp [hac, htake])
          (by simp [hac])

theorem FuelOK.pos {fuel : Nat} {s : St} (h : FuelOK fuel s) : 0 < fuel := by
  have h1 := length_le_of_nodup_subset s.callstack s.keys h.nodup h.stack_keys
  have h2 := h.bound
  omega

/-- a name defined as `nil` is answered `nil` -/
theorem get_nil {s0 : St} {fuel : Nat} {s : St} {n : Name} (h : Rel s0 s) (hf : FuelOK fuel s)
    (hn : s.instances n = some .nil) : (get fuel s n).2 = .inst .nil := by
  cases fuel with
  | zero => exact absurd hf.pos (Nat.lt_irrefl 0)
  | succ fuel =>
    have hc : n ∉ s.callstack := by
      intro hc; rw [h.stack_free n hc] at hn; cases hn
    rw [get_succ, block_of_blocked h.blocked]
    simp [hc, hn]

/-- `get fuel` is `GetLike` on every invariant that keeps `Rel` and enough fuel -/
theorem getLike_get {s0 : St} {fuel : Nat} {P : St → Prop}
    (hP : ∀ x, P x → Rel s0 x ∧ FuelOK fuel x) (hkeep : ∀ x m, P x → P (get fuel x m).1) :
    GetLike s0 P (get fuel) where
  keep := hkeep
  rel := fun x hx => (hP x hx).1
  step := fun x m hb => get_step fuel x m (Or.inl hb)
  inst := fun _ _ _ h => get_inst h
  nil := fun x _ hx hn => get_nil (hP x hx).1 (hP x hx).2 hn

/-- soundness: resolutions only ever store instances of `Good` names -/
theorem get_rel {s0 : St} : ∀ (fuel : Nat) (s : St) (n : Name), Rel s0 s → FuelOK fuel s →
    Rel s0 (get fuel s n).1 := by
  intro fuel
  induction fuel with
  | zero => intro s n _ hf; exact absurd hf.pos (Nat.lt_irrefl 0)
  | succ fuel ih =>
    intro s n h hf
    have G : GetLike s0 (fun x => Rel s0 x ∧ FuelOK fuel x) (get fuel) :=
      getLike_get (fun _ hx => hx) (fun x m hx => ⟨ih x m hx.1 hx.2, get_fuelOK m hx.2⟩)
    rw [get_succ, block_of_blocked h.blocked]
    by_cases hc : n ∈ s.callstack
    · simpa [hc] using h
    · simp only [hc, ↓reduceIte]
      cases hn : s.instances n with
      | some j => simpa using h
      | none =>
        have hsrc := h.source_eq hn
        simp only
        cases hfa : s.factories n with
        | some f =>
          simp only
          refine construct_rel G false h ⟨h.push hn, hf.push h.blocked hc (hf.fac_keys n f hfa)⟩ hn hc ?_
          rw [← hsrc]; simp [source, hn, hfa]
        | none =>
          simp only
          cases hd : s.defaultFactories n with
          | some f =>
            simp only
            refine construct_rel G true h ⟨h.push hn, hf.push h.blocked hc (hf.dfac_keys n f hd)⟩ hn hc ?_
            rw [← hsrc]; simp [source, hn, hfa, hd]
          | none => simpa using h

/-! ### rank -/

/-- `Good` with a bound on the height of the derivation -/
def GoodK (s : St) : Nat → Name → Prop
  | 0, _ => False
  | k + 1, n =>
    match source s n with
    | some (.inst _) => True
    | some (.fac f) => f.out = .ok ∧ (∀ d, d ∈ f.deps → d.injectOK s) ∧
        ∀ d m, d ∈ f.deps → d.eff = some (m, false) → GoodK s k m
    | none => False

theorem GoodK.succ {s : St} : ∀ (k : Nat) (n : Name), GoodK s k n → GoodK s (k + 1) n := by
  intro k
  induction k with
  | zero => intro n h; cases h
  | succ k ih =>
    intro n h
    unfold GoodK at h ⊢
    split
    · trivial
    · rename_i f hf
      rw [hf] at h
      exact ⟨h.1, h.2.1, fun d m hd hm => ih _ (h.2.2 d m hd hm)⟩
    · rename_i hf
      rw [hf] at h
      exact h

theorem GoodK.mono {s : St} {k k' : Nat} {n : Name} (h : GoodK s k n) (hk : k ≤ k') : GoodK s k' n := by
  induction hk with
  | refl => exact h
  | step _ ih => exact GoodK.succ _ _ ih

theorem goodK_bound {s : St} : ∀ (l : List Dep),
    (∀ d m, d ∈ l → d.eff = some (m, false) → ∃ k, GoodK s k m) →
    ∃ K, ∀ d m, d ∈ l → d.eff = some (m, false) → GoodK s K m := by
  intro l
  induction l with
  | nil => intro _; exact ⟨0, fun _ _ h => nomatch h⟩
  | cons a l ih =>
    intro h
    obtain ⟨K, hK⟩ := ih (fun d m hd hm => h d m (List.mem_cons_of_mem _ hd) hm)
    cases ha : a.eff with
    | none =>
      refine ⟨K, ?_⟩
      intro d m hd hm
      rcases List.mem_cons.1 hd with he | he
      · subst he; rw [ha] at hm; cases hm
      · exact hK d m he hm
    | some p =>
      obtain ⟨m0, o⟩ := p
      cases o with
      | true =>
        refine ⟨K, ?_⟩
        intro d m hd hm
        rcases List.mem_cons.1 hd with he | he
        · subst he; rw [ha] at hm; simp at hm
        · exact hK d m he hm
      | false =>
        obtain ⟨k, hk⟩ := h a m0 (List.mem_cons_self ..) ha
        refine ⟨max K k, ?_⟩
        intro d m hd hm
        rcases List.mem_cons.1 hd with he | he
        · subst he
          rw [ha] at hm
          simp only [Option.some.injEq, Prod.mk.injEq, and_true] at hm
          subst hm
          exact hk.mono (Nat.le_max_right ..)
        · exact (hK d m he hm).mono (Nat.le_max_left ..)

theorem Good.rank {s : St} {n : Name} (h : Good s n) : ∃ k, GoodK s k n := by
  induction h with
  | inst hs => exact ⟨1, by simp [GoodK, hs]⟩
  | fac hs ho hinj _ ih =>
    obtain ⟨K, hK⟩ := goodK_bound _ ih
    exact ⟨K + 1, by simp only [GoodK, hs]; exact ⟨ho, hinj, hK⟩⟩

/-! ### completeness -/

theorem runDeps_complete {s0 : St} {P : St → Prop} {g : St → Name → St × Res} (G : GetLike s0 P g) :
    ∀ (ds : List Dep) (s : St), P s → (∀ d, d ∈ ds → d.injectOK s0) →
      (∀ s d m, P s → d ∈ ds → d.eff = some (m, false) → ∃ i, (g s m).2 = .inst i) →
      (runDeps g s ds).2 = none := by
  intro ds
  induction ds with
  | nil => intro s _ _ _; rfl
  | cons d0 rest ih =>
    intro s hs hok hreq
    have h0 : P (depStep g s d0).1 := depStep_inv G.keep s d0 hs
    have hc := depStep_complete G (d := d0) hs (hok d0 (List.mem_cons_self ..))
      (fun m hm => hreq s d0 m hs (List.mem_cons_self ..) hm)
    rw [runDeps_cons]
    cases hr : depStep g s d0 with
    | mk s1 e =>
      rw [hr] at h0 hc
      simp only at hc
      subst hc
      exact ih s1 h0 (fun d hd => hok d (List.mem_cons_of_mem _ hd))
        (fun s' d m hs' hd hm => hreq s' d m hs' (List.mem_cons_of_mem _ hd) hm)

theorem construct_ok {g : St → Name → St × Res} {s : St} {n : Name} {f : Factory} (dflt : Bool)
    (h1 : (runDeps g (push s n) f.deps).2 = none) (h2 : f.out = .ok) :
    ∃ i, (construct g s n f dflt).2 = .inst i := by
  simp only [construct, runFactory]
  cases hr : runDeps g (push s n) f.deps with
  | mk s1 e =>
    rw [hr] at h1
    simp only at h1
    subst h1
    simp [h2]

/-- completeness: a name of rank `k` is resolved whenever nothing of rank `≤ k` is under construction -/
theorem cmp {s0 : St} : ∀ (k fuel : Nat) (s : St) (n : Name), Rel s0 s → FuelOK fuel s → GoodK s0 k n →
    (∀ c, c ∈ s.callstack → ¬ GoodK s0 k c) → ∃ i, (get fuel s n).2 = .inst i := by
  intro k
  induction k with
  | zero => intro _ _ _ _ _ h; cases h
  | succ k ih =>
    intro fuel s n hrel hfuel hgood hstack
    by_cases hk : GoodK s0 k n
    · exact ih fuel s n hrel hfuel hk (fun c hc h => hstack c hc (GoodK.succ _ _ h))
    · cases fuel with
      | zero => exact absurd hfuel.pos (Nat.lt_irrefl 0)
      | succ fuel =>
        have hnc : n ∉ s.callstack := fun hc => hstack n hc hgood
        rw [get_succ, block_of_blocked hrel.blocked]
        simp only [hnc, ↓reduceIte]
        cases hn : s.instances n with
        | some j => exact ⟨j, rfl⟩
        | none =>
          have hsrc := hrel.source_eq hn
          -- the definition in force is a factory that returns an object, with required deps of rank k
          have hfac : ∀ f, source s n = some (.fac f) →
              f.out = .ok ∧ (∀ d, d ∈ f.deps → d.injectOK s0) ∧
              ∀ d m, d ∈ f.deps → d.eff = some (m, false) → GoodK s0 k m := by
            intro f hf
            rw [hsrc] at hf
            have := hgood
            simp only [GoodK, hf] at this
            exact this
          have hnone : source s n ≠ none := by
            intro hf
            rw [hsrc] at hf
            have := hgood
            simp [GoodK, hf] at this
          -- the body of that factory runs through
          have hbody : ∀ f, source s n = some (.fac f) → n ∈ s.keys →
              (runDeps (get fuel) (push s n) f.deps).2 = none := by
            intro f hf hkey
            have G : GetLike s0 (fun x => Rel s0 x ∧ FuelOK fuel x ∧ x.callstack = s.callstack ++ [n])
                (get fuel) :=
              getLike_get (fun _ hx => ⟨hx.1, hx.2.1⟩) (fun x m ⟨x1, x2, x3⟩ =>
                ⟨get_rel fuel x m x1 x2, get_fuelOK m x2, by rw [(get_step fuel x m x2.pre).callstack, x3]⟩)
            refine runDeps_complete G f.deps _
              ⟨hrel.push hn, hfuel.push hrel.blocked hnc hkey, rfl⟩ (hfac f hf).2.1 ?_
            intro x d m ⟨x1, x2, x3⟩ hd hm
            refine ih fuel x m x1 x2 ((hfac f hf).2.2 d m hd hm) ?_
            intro c hc
            rw [x3] at hc
            rcases List.mem_append.1 hc with hc | hc
            · exact fun h => hstack c hc (GoodK.succ _ _ h)
            · simp at hc; subst hc; exact hk
          simp only
          cases hf : s.factories n with
          | some f =>
            have hs' : source s n = some (.fac f) := by simp [source, hn, hf]
            exact construct_ok false (hbody f hs' (hfuel.fac_keys n f hf)) (hfac f hs').1
          | none =>
            simp only
            cases hd : s.defaultFactories n with
            | some f =>
              have hs' : source s n = some (.fac f) := by simp [source, hn, hf, hd]
              exact construct_ok true (hbody f hs' (hfuel.dfac_keys n f hd)) (hfac f hs').1
            | none => exact absurd (by simp [source, hn, hf, hd]) hnone

/-! ### from outside -/

theorem get_block (fuel : Nat) (s : St) (n : Name) : get fuel (block s) n = get fuel s n := by
  cases fuel with
  | zero => simp [get]
  | succ fuel => simp [get_succ]

theorem FuelOK.block {fuel : Nat} {s : St} (h : FuelOK fuel s) : FuelOK fuel (block s) :=
  h.of_step (block_step h.pre) (by simp [h.notex])

/-- the states of a history that defines nothing new stay related to the blocked definitions -/
theorem rel_exec {s0 : St} : ∀ (ops : List Op) (s : St), Inv s → Rel s0 (block s) →
    ((∀ o, o ∈ ops → o.isDef = false) ∨ s.blocked = true) → Rel s0 (block (exec s ops)) := by
  intro ops
  induction ops with
  | nil => intro s _ h _; exact h
  | cons o rest ih =>
    intro s hinv hrel hcond
    have hcond' : (∀ o', o' ∈ rest → o'.isDef = false) ∨ (step s o).1.blocked = true := by
      rcases hcond with hc | hc
      · exact Or.inl (fun o' ho' => hc o' (List.mem_cons_of_mem _ ho'))
      · exact Or.inr ((grow_step hinv o).blocked_mono hc)
    refine ih _ (inv_step hinv o) ?_ hcond'
    have hget : ∀ x m, Rel s0 (block x) ∧ FuelOK (fuelFor s) x →
        Rel s0 (block (get (fuelFor s) x m).1) ∧ FuelOK (fuelFor s) (get (fuelFor s) x m).1 := by
      intro x m ⟨hx, hf⟩
      have := get_rel (fuelFor s) (block x) m hx hf.block
      rw [get_block] at this
      exact ⟨by rwa [block_of_blocked this.blocked], get_fuelOK m hf⟩
    by_cases hdef : o.isDef = true
    · rcases hcond with hc | hc
      · rw [hc o (List.mem_cons_self ..)] at hdef; cases hdef
      · rw [step_def_blocked hc hdef]; exact hrel
    · cases o with
      | get m => exact (hget s m ⟨hrel, hinv.fuelOK⟩).1
      | injectTo fs =>
        show Rel s0 (block (InjectTo s fs).1)
        rw [InjectTo_fst]
        exact (injectFields_inv (g := get (fuelFor s))
          (P := fun x => Rel s0 (block x) ∧ FuelOK (fuelFor s) x) hget fs s ⟨hrel, hinv.fuelOK⟩).1
      | keys => exact hrel
      | injectBad => exact hrel
      | _ => simp [Op.isDef] at hdef

/-- the answer of a `Get` from outside, in a state related to `s0` -/
theorem Get_iff_good {s0 s : St} (hinv : Inv s) (hrel : Rel s0 (block s)) (n : Name) :
    (Get s n).2.isInst = true ↔ Good s0 n := by
  have hf : FuelOK (fuelFor s) (block s) := hinv.fuelOK.block
  have hr : Rel s0 (Get s n).1 := by
    have := get_rel (fuelFor s) (block s) n hrel hf
    rwa [get_block] at this
  constructor
  · intro h
    cases hres : (Get s n).2 with
    | err e => rw [hres] at h; cases h
    | inst i => exact hr.sound n i (get_inst hres)
  · intro h
    obtain ⟨k, hk⟩ := h.rank
    obtain ⟨i, hi⟩ := cmp k (fuelFor s) (block s) n hrel hf hk
      (by intro c hc; simp [hinv.stack] at hc)
    rw [get_block] at hi
    unfold Get
    rw [hi]; rfl

/-! ### cycles -/

/-- a set of names each of which has a factory with a required dependency in the set: none is `Good` -/
theorem not_good_of_closed {s0 : St} {cyc : List Name}
    (hc : ∀ c, c ∈ cyc → ∃ f d m, source s0 c = some (.fac f) ∧ d ∈ f.deps ∧ d.eff = some (m, false) ∧ m ∈ cyc)
    {n : Name} (h : Good s0 n) : n ∉ cyc := by
  induction h with
  | inst hs =>
    intro hn
    obtain ⟨f, d, m, hf, _⟩ := hc _ hn
    rw [hs] at hf; cases hf
  | fac hs _ _ _ ih =>
    intro hn
    obtain ⟨f, d, m, hf, hd, ho, hm⟩ := hc _ hn
    rw [hs] at hf
    injection hf with hf
    injection hf with hf
    subst hf
    exact ih d m hd ho hm

end Goat.DI
