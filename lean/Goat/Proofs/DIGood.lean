/-
C10 helper lemmas, part 6: the outcome of a top-level `Get` depends on the definitions only.
`Rel s0 s`: `s` is a state reached from the blocked state `s0` by resolutions.  Soundness
(`get_rel`): every instance in such a state is `Good s0`.  Completeness (`cmp`): a `Good s0` name is
resolved whenever no name of smaller-or-equal rank is under construction — in particular from
outside.  Names closed under "has a required dependency in the set" are not `Good`.
-/
import Goat.Proofs.DIHist

namespace Goat.DI

theorem source_inst {s : St} {n : Name} {i : Inst} (h : source s n = some (.inst i)) :
    s.instances n = some i := by
  unfold source at h
  split at h
  · simp at h; subst h; assumption
  · split at h
    · simp at h
    · split at h <;> simp at h

theorem source_of_inst {s : St} {n : Name} {i : Inst} (h : s.instances n = some i) :
    source s n = some (.inst i) := by
  simp [source, h]

/-! ### states reached from `s0` -/

structure Rel (s0 s : St) : Prop where
  blocked : s.blocked = true
  agree : ∀ n, s.instances n = none →
    s.factories n = s0.factories n ∧ s.defaultFactories n = s0.defaultFactories n ∧ s0.instances n = none
  sound : ∀ n i, s.instances n = some i → Good s0 n

theorem Rel.refl {s0 : St} (hb : s0.blocked = true) : Rel s0 s0 where
  blocked := hb
  agree := fun _ h => ⟨rfl, rfl, h⟩
  sound := fun _ _ h => Good.inst (source_of_inst h)

theorem Rel.source_eq {s0 s : St} (h : Rel s0 s) {n : Name} (hn : s.instances n = none) :
    source s n = source s0 n := by
  obtain ⟨h1, h2, h3⟩ := h.agree n hn
  simp [source, hn, h1, h2, h3]

theorem Rel.congr {s0 a b : St} (h : Rel s0 a) (h1 : b.blocked = a.blocked)
    (h2 : b.instances = a.instances) (h3 : b.factories = a.factories)
    (h4 : b.defaultFactories = a.defaultFactories) : Rel s0 b where
  blocked := h1 ▸ h.blocked
  agree := by rw [h2, h3, h4]; exact h.agree
  sound := by rw [h2]; exact h.sound

/-- when a factory body ran through, every required dependency has an instance -/
theorem runDeps_required {g : St → Name → St × Res} {P : St → Prop}
    (hg : ∀ s n, P s → P (g s n).1 ∧ InstMono s (g s n).1)
    (hi : ∀ s n i, (g s n).2 = .inst i → (g s n).1.instances n = some i) :
    ∀ (ds : List Dep) (s : St), P s → (runDeps g s ds).2 = none →
      ∀ d, d ∈ ds → d.optional = false → ∃ i, (runDeps g s ds).1.instances d.name = some i := by
  intro ds
  induction ds with
  | nil => intro s _ _ d hd; cases hd
  | cons d0 rest ih =>
    intro s hs hnone d hd hreq
    have hmono : ∀ s', P s' → InstMono s' (runDeps g s' rest).1 :=
      fun s' hs' => runDeps_rel (P := P) (R := InstMono) (fun _ _ _ _ h => h)
        (fun _ _ _ h1 h2 m i h => h2 m i (h1 m i h)) hg rest s' hs'
    have h0 := hg s d0.name hs
    have hi0 := hi s d0.name
    rw [runDeps_cons] at hnone ⊢
    cases hr : g s d0.name with
    | mk s1 r =>
      rw [hr] at hnone h0 hi0
      cases r with
      | inst i =>
        simp only at hnone ⊢
        rcases List.mem_cons.1 hd with he | he
        · subst he
          exact ⟨i, hmono s1 h0.1 _ _ (hi0 i rfl)⟩
        · exact ih s1 h0.1 hnone d he hreq
      | err e =>
        cases ho : d0.optional
        · simp [ho] at hnone
        · simp only [ho, if_true] at hnone ⊢
          rcases List.mem_cons.1 hd with he | he
          · subst he; rw [ho] at hreq; cases hreq
          · exact ih s1 h0.1 hnone d he hreq

theorem runFactory_inst {g : St → Name → St × Res} {s : St} {f : Factory} {i : Inst}
    (h : (runFactory g s f).2 = .inst i) :
    (runDeps g s f.deps).2 = none ∧ f.out = .ok ∧
    (runFactory g s f).1.instances = (runDeps g s f.deps).1.instances ∧
    (runFactory g s f).1.factories = (runDeps g s f.deps).1.factories ∧
    (runFactory g s f).1.defaultFactories = (runDeps g s f.deps).1.defaultFactories ∧
    (runFactory g s f).1.blocked = (runDeps g s f.deps).1.blocked := by
  unfold runFactory at h ⊢
  cases hr : runDeps g s f.deps with
  | mk s1 e =>
    rw [hr] at h
    cases e with
    | some e => simp at h
    | none =>
      cases ho : f.out <;> simp [ho] at h ⊢

theorem runFactory_rel {s0 : St} {g : St → Name → St × Res}
    (hg : ∀ s n, Rel s0 s → Rel s0 (g s n).1) {s : St} (f : Factory) (h : Rel s0 s) :
    Rel s0 (runFactory g s f).1 := by
  have h1 : Rel s0 (runDeps g s f.deps).1 := runDeps_inv hg f.deps s h
  unfold runFactory
  cases hr : runDeps g s f.deps with
  | mk s1 e =>
    rw [hr] at h1
    cases e with
    | some e => exact h1
    | none => cases f.out <;> first | exact h1 | exact h1.congr rfl rfl rfl rfl

/-- soundness of one construction -/
theorem construct_rel {s0 : St} {g : St → Name → St × Res}
    (hg : ∀ s n, Rel s0 s → Rel s0 (g s n).1)
    (hs : ∀ s n, s.blocked = true → Step s (g s n).1)
    (hi : ∀ s n i, (g s n).2 = .inst i → (g s n).1.instances n = some i)
    {s : St} {n : Name} {f : Factory} (dflt : Bool) (h : Rel s0 s)
    (hn : s.instances n = none) (hsrc : source s0 n = some (.fac f)) :
    Rel s0 (construct g s n f dflt).1 := by
  have hp : Rel s0 (push s n) := h.congr rfl rfl rfl rfl
  have h2 : Rel s0 (runFactory g (push s n) f).1 := runFactory_rel hg f hp
  have hreq : ∀ i, (runFactory g (push s n) f).2 = .inst i →
      f.out = .ok ∧ ∀ d, d ∈ f.deps → d.optional = false → Good s0 d.name := by
    intro i hri
    obtain ⟨r1, r2, r3, _, _, _⟩ := runFactory_inst hri
    refine ⟨r2, ?_⟩
    intro d hd hopt
    have hrd : Rel s0 (runDeps g (push s n) f.deps).1 := runDeps_inv hg f.deps _ hp
    obtain ⟨j, hj⟩ := runDeps_required (P := fun x => Rel s0 x)
      (fun x m hx => ⟨hg x m hx, (hs x m hx.blocked).inst_mono⟩) hi f.deps _ hp r1 d hd hopt
    exact hrd.sound _ j hj
  simp only [construct]
  cases hr : runFactory g (push s n) f with
  | mk s2 r =>
    rw [hr] at h2 hreq
    cases r with
    | err => exact h2.congr rfl rfl rfl rfl
    | nilInst => exact h2.congr rfl rfl rfl rfl
    | inst i =>
      obtain ⟨hok, hdeps⟩ := hreq i rfl
      have hgood : Good s0 n := Good.fac hsrc hok hdeps
      -- the tables after the clean-up agree with `s2` away from `n`
      have key : ∀ (F D : Tab Factory), (∀ m, m ≠ n → F m = s2.factories m) →
          (∀ m, m ≠ n → D m = s2.defaultFactories m) →
          ∀ s', s'.blocked = s2.blocked → s'.instances = s2.instances.set n i → s'.factories = F →
            s'.defaultFactories = D → Rel s0 s' := by
        intro F D hF hD s' e1 e2 e3 e4
        refine ⟨e1 ▸ h2.blocked, ?_, ?_⟩
        · intro m hm
          rw [e2] at hm
          have hne : m ≠ n := by intro e; subst e; simp at hm
          rw [Tab.set_ne _ _ hne] at hm
          rw [e3, e4, hF m hne, hD m hne]
          exact h2.agree m hm
        · intro m j hm
          rw [e2] at hm
          by_cases hne : m = n
          · subst hne; exact hgood
          · rw [Tab.set_ne _ _ hne] at hm
            exact h2.sound m j hm
      cases dflt <;> cases hac : s2.autoclean
      · exact key s2.factories s2.defaultFactories (fun _ _ => rfl) (fun _ _ => rfl) _
          (by simp [clean, hac]) (by simp [clean, hac]) (by simp [clean, hac]) (by simp [clean, hac])
      · exact key (s2.factories.del n) (s2.defaultFactories.del n) (fun _ h => Tab.del_ne _ h)
          (fun _ h => Tab.del_ne _ h) _
          (by simp [clean, hac]) (by simp [clean, hac]) (by simp [clean, hac]) (by simp [clean, hac])
      · exact key s2.factories s2.defaultFactories (fun _ _ => rfl) (fun _ _ => rfl) _
          (by simp [hac]) (by simp [hac]) (by simp [hac]) (by simp [hac])
      · exact key s2.factories (s2.defaultFactories.del n) (fun _ _ => rfl)
          (fun _ h => Tab.del_ne _ h) _
          (by simp [hac]) (by simp [hac]) (by simp [hac]) (by simp [hac])

/-- soundness: resolutions only ever store instances of `Good` names -/
theorem get_rel {s0 : St} : ∀ (fuel : Nat) (s : St) (n : Name), Rel s0 s → Rel s0 (get fuel s n).1 := by
  intro fuel
  induction fuel with
  | zero =>
    intro s n h
    simp only [get, block_of_blocked h.blocked]
    exact h.congr rfl rfl rfl rfl
  | succ fuel ih =>
    intro s n h
    have hs : ∀ s n, s.blocked = true → Step s (get fuel s n).1 := fun s n hb => get_step fuel s n (Or.inl hb)
    have hi : ∀ s n i, (get fuel s n).2 = .inst i → (get fuel s n).1.instances n = some i :=
      fun s n i h => get_inst h
    rw [get_succ, block_of_blocked h.blocked]
    by_cases hc : n ∈ s.callstack
    · simpa [hc] using h
    · simp only [hc, ↓reduceIte]
      cases hn : s.instances n with
      | some j => simpa using h
      | none =>
        have hsrc := h.source_eq hn
        simp only
        cases hf : s.factories n with
        | some f =>
          simp only
          refine construct_rel ih hs hi false h hn ?_
          rw [← hsrc]; simp [source, hn, hf]
        | none =>
          simp only
          cases hd : s.defaultFactories n with
          | some f =>
            simp only
            refine construct_rel ih hs hi true h hn ?_
            rw [← hsrc]; simp [source, hn, hf, hd]
          | none => simpa using h

/-! ### rank -/

/-- `Good` with a bound on the height of the derivation -/
def GoodK (s : St) : Nat → Name → Prop
  | 0, _ => False
  | k + 1, n =>
    match source s n with
    | some (.inst _) => True
    | some (.fac f) => f.out = .ok ∧ ∀ d, d ∈ f.deps → d.optional = false → GoodK s k d.name
    | none => False

theorem GoodK.succ {s : St} : ∀ (k : Nat) (n : Name), GoodK s k n → GoodK s (k + 1) n := by
  intro k
  induction k with
  | zero => intro n h; cases h
  | succ k ih =>
    intro n h
    unfold GoodK at h ⊢
    split
    · trivial
    · rename_i f hf
      rw [hf] at h
      exact ⟨h.1, fun d hd ho => ih _ (h.2 d hd ho)⟩
    · rename_i hf
      rw [hf] at h
      exact h

theorem GoodK.mono {s : St} {k k' : Nat} {n : Name} (h : GoodK s k n) (hk : k ≤ k') : GoodK s k' n := by
  induction hk with
  | refl => exact h
  | step _ ih => exact GoodK.succ _ _ ih

theorem goodK_bound {s : St} : ∀ (l : List Dep),
    (∀ d, d ∈ l → d.optional = false → ∃ k, GoodK s k d.name) →
    ∃ K, ∀ d, d ∈ l → d.optional = false → GoodK s K d.name := by
  intro l
  induction l with
  | nil => intro _; exact ⟨0, fun _ h => nomatch h⟩
  | cons a l ih =>
    intro h
    obtain ⟨K, hK⟩ := ih (fun d hd ho => h d (List.mem_cons_of_mem _ hd) ho)
    cases ha : a.optional with
    | true =>
      refine ⟨K, ?_⟩
      intro d hd ho
      rcases List.mem_cons.1 hd with he | he
      · subst he; rw [ha] at ho; cases ho
      · exact hK d he ho
    | false =>
      obtain ⟨k, hk⟩ := h a (List.mem_cons_self ..) ha
      refine ⟨max K k, ?_⟩
      intro d hd ho
      rcases List.mem_cons.1 hd with he | he
      · subst he; exact hk.mono (Nat.le_max_right ..)
      · exact (hK d he ho).mono (Nat.le_max_left ..)

theorem Good.rank {s : St} {n : Name} (h : Good s n) : ∃ k, GoodK s k n := by
  induction h with
  | inst hs => exact ⟨1, by simp [GoodK, hs]⟩
  | fac hs ho _ ih =>
    obtain ⟨K, hK⟩ := goodK_bound _ ih
    exact ⟨K + 1, by simp only [GoodK, hs]; exact ⟨ho, hK⟩⟩

/-! ### completeness -/

theorem FuelOK.pos {fuel : Nat} {s : St} (h : FuelOK fuel s) : 0 < fuel := by
  have h1 := length_le_of_nodup_subset s.callstack s.keys h.nodup h.stack_keys
  have h2 := h.bound
  omega

theorem runDeps_succeeds {g : St → Name → St × Res} {P : St → Prop}
    (hP : ∀ s m, P s → P (g s m).1) :
    ∀ (ds : List Dep) (s : St), P s →
      (∀ s d, P s → d ∈ ds → d.optional = false → ∃ i, (g s d.name).2 = .inst i) →
      (runDeps g s ds).2 = none := by
  intro ds
  induction ds with
  | nil => intro s _ _; rfl
  | cons d0 rest ih =>
    intro s hs hreq
    have h0 := hP s d0.name hs
    have hr0 := hreq s d0 hs (List.mem_cons_self ..)
    have hrest := fun s' (hs' : P s') => ih s' hs' (fun s'' d hs'' hd ho => hreq s'' d hs'' (List.mem_cons_of_mem _ hd) ho)
    rw [runDeps_cons]
    cases hr : g s d0.name with
    | mk s1 r =>
      rw [hr] at h0 hr0
      cases r with
      | inst i => exact hrest s1 h0
      | err e =>
        cases ho : d0.optional
        · obtain ⟨i, hi⟩ := hr0 ho
          simp at hi
        · simpa [ho] using hrest s1 h0

theorem construct_ok {g : St → Name → St × Res} {s : St} {n : Name} {f : Factory} (dflt : Bool)
    (h1 : (runDeps g (push s n) f.deps).2 = none) (h2 : f.out = .ok) :
    ∃ i, (construct g s n f dflt).2 = .inst i := by
  simp only [construct, runFactory]
  cases hr : runDeps g (push s n) f.deps with
  | mk s1 e =>
    rw [hr] at h1
    simp only at h1
    subst h1
    simp [h2]

/-- completeness: a name of rank `k` is resolved whenever nothing of rank `≤ k` is under construction -/
theorem cmp {s0 : St} : ∀ (k fuel : Nat) (s : St) (n : Name), Rel s0 s → FuelOK fuel s → GoodK s0 k n →
    (∀ c, c ∈ s.callstack → ¬ GoodK s0 k c) → ∃ i, (get fuel s n).2 = .inst i := by
  intro k
  induction k with
  | zero => intro _ _ _ _ _ h; cases h
  | succ k ih =>
    intro fuel s n hrel hfuel hgood hstack
    by_cases hk : GoodK s0 k n
    · exact ih fuel s n hrel hfuel hk (fun c hc h => hstack c hc (GoodK.succ _ _ h))
    · cases fuel with
      | zero => exact absurd hfuel.pos (Nat.lt_irrefl 0)
      | succ fuel =>
        have hnc : n ∉ s.callstack := fun hc => hstack n hc hgood
        rw [get_succ, block_of_blocked hrel.blocked]
        simp only [hnc, ↓reduceIte]
        cases hn : s.instances n with
        | some j => exact ⟨j, rfl⟩
        | none =>
          have hsrc := hrel.source_eq hn
          -- the definition in force is a factory that returns an object, with required deps of rank k
          have hfac : ∀ f, source s n = some (.fac f) →
              f.out = .ok ∧ ∀ d, d ∈ f.deps → d.optional = false → GoodK s0 k d.name := by
            intro f hf
            rw [hsrc] at hf
            have := hgood
            simp only [GoodK, hf] at this
            exact this
          have hnone : source s n ≠ none := by
            intro hf
            rw [hsrc] at hf
            have := hgood
            simp [GoodK, hf] at this
          -- the body of that factory runs through
          have hbody : ∀ f, source s n = some (.fac f) → n ∈ s.keys →
              (runDeps (get fuel) (push s n) f.deps).2 = none := by
            intro f hf hkey
            refine runDeps_succeeds
              (P := fun x => Rel s0 x ∧ FuelOK fuel x ∧ x.callstack = s.callstack ++ [n]) ?_ f.deps _
              ⟨hrel.congr rfl rfl rfl rfl, hfuel.push hrel.blocked hnc hkey, rfl⟩ ?_
            · intro x m ⟨x1, x2, x3⟩
              exact ⟨get_rel fuel x m x1, get_fuelOK m x2, by rw [(get_step fuel x m x2.pre).callstack, x3]⟩
            · intro x d ⟨x1, x2, x3⟩ hd ho
              refine ih fuel x d.name x1 x2 ((hfac f hf).2 d hd ho) ?_
              intro c hc
              rw [x3] at hc
              rcases List.mem_append.1 hc with hc | hc
              · exact fun h => hstack c hc (GoodK.succ _ _ h)
              · simp at hc; subst hc; exact hk
          simp only
          cases hf : s.factories n with
          | some f =>
            have hs' : source s n = some (.fac f) := by simp [source, hn, hf]
            exact construct_ok false (hbody f hs' (hfuel.fac_keys n f hf)) (hfac f hs').1
          | none =>
            simp only
            cases hd : s.defaultFactories n with
            | some f =>
              have hs' : source s n = some (.fac f) := by simp [source, hn, hf, hd]
              exact construct_ok true (hbody f hs' (hfuel.dfac_keys n f hd)) (hfac f hs').1
            | none => exact absurd (by simp [source, hn, hf, hd]) hnone

/-! ### from outside -/

theorem get_block (fuel : Nat) (s : St) (n : Name) : get fuel (block s) n = get fuel s n := by
  cases fuel with
  | zero => simp [get]
  | succ fuel => simp [get_succ]

/-- the states of a history that defines nothing new stay related to the blocked definitions -/
theorem rel_exec {s0 : St} : ∀ (ops : List Op) (s : St), Inv s → Rel s0 (block s) →
    ((∀ o, o ∈ ops → o.isDef = false) ∨ s.blocked = true) → Rel s0 (block (exec s ops)) := by
  intro ops
  induction ops with
  | nil => intro s _ h _; exact h
  | cons o rest ih =>
    intro s hinv hrel hcond
    have hcond' : (∀ o', o' ∈ rest → o'.isDef = false) ∨ (step s o).1.blocked = true := by
      rcases hcond with hc | hc
      · exact Or.inl (fun o' ho' => hc o' (List.mem_cons_of_mem _ ho'))
      · exact Or.inr ((grow_step hinv o).blocked_mono hc)
    refine ih _ (inv_step hinv o) ?_ hcond'
    have hget : ∀ x m, Rel s0 (block x) → Rel s0 (block (get (fuelFor s) x m).1) := by
      intro x m hx
      have := get_rel (fuelFor s) (block x) m hx
      rw [get_block] at this
      rwa [block_of_blocked this.blocked]
    by_cases hdef : o.isDef = true
    · rcases hcond with hc | hc
      · rw [hc o (List.mem_cons_self ..)] at hdef; cases hdef
      · rw [step_def_blocked hc hdef]; exact hrel
    · cases o with
      | get m => exact hget s m hrel
      | injectTo fs =>
        exact injectFields_inv (g := get (fuelFor s)) (P := fun x => Rel s0 (block x)) hget fs s hrel
      | keys => exact hrel
      | _ => simp [Op.isDef] at hdef

/-- the answer of a `Get` from outside, in a state related to `s0` -/
theorem Get_iff_good {s0 s : St} (hinv : Inv s) (hrel : Rel s0 (block s)) (n : Name) :
    (Get s n).2.isInst = true ↔ Good s0 n := by
  have hr : Rel s0 (Get s n).1 := by
    have := get_rel (fuelFor s) (block s) n hrel
    rwa [get_block] at this
  constructor
  · intro h
    cases hres : (Get s n).2 with
    | err e => rw [hres] at h; cases h
    | inst i => exact hr.sound n i (get_inst hres)
  · intro h
    obtain ⟨k, hk⟩ := h.rank
    have hf : FuelOK (fuelFor s) (block s) :=
      hinv.fuelOK.of_step (block_step hinv.pre) (by simp [hinv.notex])
    obtain ⟨i, hi⟩ := cmp k (fuelFor s) (block s) n hrel hf hk
      (by intro c hc; simp [hinv.stack] at hc)
    rw [get_block] at hi
    unfold Get
    rw [hi]; rfl

/-! ### cycles -/

/-- a set of names each of which has a factory with a required dependency in the set: none is `Good` -/
theorem not_good_of_closed {s0 : St} {cyc : List Name}
    (hc : ∀ c, c ∈ cyc → ∃ f d, source s0 c = some (.fac f) ∧ d ∈ f.deps ∧ d.optional = false ∧ d.name ∈ cyc)
    {n : Name} (h : Good s0 n) : n ∉ cyc := by
  induction h with
  | inst hs =>
    intro hn
    obtain ⟨f, d, hf, _⟩ := hc _ hn
    rw [hs] at hf; cases hf
  | fac hs _ _ ih =>
    intro hn
    obtain ⟨f, d, hf, hd, ho, hm⟩ := hc _ hn
    rw [hs] at hf
    injection hf with hf
    injection hf with hf
    subst hf
    exact ih d hd ho hm

end Goat.DI
